"""C32 — feed-forward models are fully solved by one ordered pass."""
import itertools
import core
from core import Spec, standard_check, zlist, boollit
from c32common import nid, groups_preorder, group_graph, leaves


def edges_term(es):
    return '[%s]' % '; '.join('((%d), (%d))' % (a, b) for a, b in es)


def lol(ls):
    return '[%s]' % '; '.join(zlist(l) for l in ls)


class C32(Spec):
    pid = 'C32'
    imports = ['C32.Model']
    impl_script = 'props/C32/impl.py'
    exactness = ('E1 (integer-exact): SCC-list verdict, subsystem graph, out-of-order pairs, resulting '
                 '_subsystems_allprocs order of every group, execution trace, outputs and residuals')
    shard = 150
    impl_jobs = 8
    rule = ('flat groups: every digraph on 2 and 3 components x every declared order (exhaustive); random flat '
            'groups of 4-8 components and random hierarchies (depth <= 3, plain groups and ParallelGroups with nested '
            'auto_order groups) with subsystems added in random order, a quarter of the cases set up twice (part of them adding connections in between), '
            'acyclic by construction or with back edges, auto_order on (and mixed flags); a case is non-trivial '
            'when it is a distinct model (graph, declared order, coefficients)')
    assumptions = ['networkx strongly_connected_components is not modelled: its output on every generated graph '
                   'is validated by the proved-sound Coq checker valid_scc_list',
                   'components are explicit affine maps with small integer coefficients (all float arithmetic exact)',
                   '"acyclic model" = the subsystem graph of every group is acyclic']

    def __init__(self):
        self._res = {}

    # ------------------------------------------------------------- generator
    def mk_comps(self, n, edges, rng, free_p=0.3):
        comps = []
        for i in range(1, n + 1):
            terms = [[rng.choice([-2, -1, 1, 2, 3]), s] for (s, t) in sorted(edges) if t == i]
            free = [[rng.choice([-1, 1, 2]), rng.randrange(-3, 4)] for _ in range(rng.choice([0, 0, 1, 2]))] \
                if rng.random() < free_p else []
            comps.append({'id': i, 'b': rng.randrange(-3, 4), 'init': rng.randrange(-2, 3),
                          'terms': terms, 'free': free})
        return comps

    def classify(self, case):
        groups = groups_preorder(case['tree'])
        acyc = True
        for gi, g in enumerate(groups):
            decl, es = group_graph(case, g, gi == 0)
            # Kahn
            indeg = {n: 0 for n in decl}
            for a, b in es:
                indeg[b] += 1
            todo = [n for n in decl if indeg[n] == 0]
            cnt = 0
            while todo:
                x = todo.pop()
                cnt += 1
                for a, b in es:
                    if a == x:
                        indeg[b] -= 1
                        if indeg[b] == 0:
                            todo.append(b)
            if cnt != len(decl):
                acyc = False
        allauto = all(g['auto'] or g.get('par') for g in groups)
        return 'acyclic' if (acyc and allauto) else ('acyclic-mixedflags' if acyc else 'cyclic')

    def flat_case(self, kind, n, edges, declared, rng, auto=True):
        case = {'kind': kind, 'n': n, 'resetup': rng.random() < 0.25,
                'tree': {'g': n + 1, 'auto': auto, 'ch': [{'c': i} for i in declared]},
                'comps': self.mk_comps(n, edges, rng)}
        case['cls'] = self.classify(case)
        if case['resetup']:
            case['kind'] += '-resetup'
        return case

    def tree_case(self, rng, cyclic, mixed):
        n = rng.randrange(3, 9)
        ids = list(range(1, n + 1))
        rng.shuffle(ids)
        gid = [n]

        def mk(items, depth):
            gid[0] += 1
            me = {'g': gid[0], 'auto': True if not mixed else rng.random() < 0.6, 'ch': [],
                  'par': depth > 1 and rng.random() < 0.35}
            k = 0
            while k < len(items):
                if depth < 3 and len(items) - k >= 2 and rng.random() < (0.7 if me['par'] else 0.35):
                    m = rng.randrange(2 if me['par'] else 1, min(4, len(items) - k) + 1)
                    me['ch'].append(mk(items[k:k + m], depth + 1))
                    k += m
                else:
                    me['ch'].append({'c': items[k]})
                    k += 1
            return me
        tree = mk(ids, 1)
        hidden = leaves(tree)          # execution order for which the model is feed-forward
        rank = {c: k for k, c in enumerate(hidden)}
        edges = set()
        dens = rng.choice([0.2, 0.35, 0.5])
        for a in hidden:
            for b in hidden:
                if rank[a] < rank[b] and rng.random() < dens:
                    edges.add((a, b))
        if cyclic:
            for _ in range(rng.randrange(1, 3)):
                a, b = rng.sample(hidden, 2)
                if rank[a] > rank[b]:
                    edges.add((a, b))
                else:
                    edges.add((b, a))

        # children of a ParallelGroup are not ordered by the framework: no data flows between them
        def owners(node, acc, top):
            for ch in node['ch']:
                if 'g' in ch:
                    owners(ch, acc, top)
            if node.get('par'):
                own = {}
                for ch in node['ch']:
                    for lf in leaves(ch):
                        own[lf] = nid(ch)
                acc.append(own)
        pars = []
        owners(tree, pars, tree)
        edges = {(a, b) for (a, b) in edges
                 if not any(a in own and b in own and own[a] != own[b] for own in pars)}

        def shuffle(node):
            if 'g' in node:
                rng.shuffle(node['ch'])
                for ch in node['ch']:
                    shuffle(ch)
        shuffle(tree)
        case = {'kind': 'tree', 'n': n, 'tree': tree, 'comps': self.mk_comps(n, edges, rng),
                'resetup': rng.random() < 0.25}
        if any(g.get('par') for g in groups_preorder(tree)):
            case['kind'] = 'tree-par'
        if case['resetup']:
            case['kind'] += '-resetup'
        case['cls'] = self.classify(case)
        return case

    def add_late(self, case, rng):
        """half of the two-round cases add some of their connections only after the first round"""
        if case.get('resetup') and rng.random() < 0.6:
            conns = [[c['id'], k] for c in case['comps'] for k in range(len(c['terms']))]
            late = [x for x in conns if rng.random() < 0.5]
            if late:
                case['late'] = late
                case['kind'] += '-late'
        return case

    def gen(self, tier, rng):
        cases = self.gen0(tier, rng)
        return [self.add_late(c, rng) for c in cases]

    def gen0(self, tier, rng):
        cases = []
        # exhaustive: all digraphs on 2 and 3 components x all declared orders
        for n in (2, 3):
            pairs = [(a, b) for a in range(1, n + 1) for b in range(1, n + 1) if a != b]
            for mask in range(1 << len(pairs)):
                edges = {pairs[k] for k in range(len(pairs)) if mask >> k & 1}
                for declared in itertools.permutations(range(1, n + 1)):
                    cases.append(self.flat_case('flat-exh', n, edges, list(declared), rng))
        if tier != 'quick':
            n = 4
            pairs = [(a, b) for a in range(1, n + 1) for b in range(1, n + 1) if a != b]
            for mask in range(1 << len(pairs)):
                edges = {pairs[k] for k in range(len(pairs)) if mask >> k & 1}
                declared = list(range(1, n + 1))
                rng.shuffle(declared)
                cases.append(self.flat_case('flat-exh4', n, edges, declared, rng))
        nflat, ntree = (300, 600) if tier == 'quick' else (4000, 8000)
        for k in range(nflat):
            n = rng.randrange(4, 9)
            hidden = list(range(1, n + 1))
            rng.shuffle(hidden)
            dens = rng.choice([0.15, 0.3, 0.5])
            edges = {(hidden[a], hidden[b]) for a in range(n) for b in range(a + 1, n) if rng.random() < dens}
            if k % 2:
                for _ in range(rng.randrange(1, 4)):
                    a, b = sorted(rng.sample(range(n), 2))
                    edges.add((hidden[b], hidden[a]))
            declared = list(range(1, n + 1))
            rng.shuffle(declared)
            cases.append(self.flat_case('flat', n, edges, declared, rng, auto=(k % 10 != 9)))
        for k in range(ntree):
            cases.append(self.tree_case(rng, cyclic=(k % 3 == 2), mixed=(k % 7 == 6)))
        return cases

    def search_gen(self, tier, rng):
        return self.gen(tier, rng)

    # ------------------------------------------------------------- emitters
    def compare_case(self, case, res):
        self._res[id(case)] = res
        return res.get('res', '__none__') != '__none__'

    def got_term(self, case):
        res = self._res[id(case)]
        groups = groups_preorder(case['tree'])
        sccs = {g['g']: res['sccs'][k] for k, g in enumerate(groups)}
        root = case['tree']['g']

        def sys_term(node):
            if 'c' in node:
                return '(SComp (%d))' % node['c']
            decl, es = group_graph(case, node, node['g'] == root)
            ch = [sys_term(c) for c in node['ch']]
            if decl and decl[0] == 0:
                ch = ['(SComp 0)'] + ch
            return '(SGroup (%d) %s [%s] %s %s)' % (node['g'], boollit(node['auto'] and not node.get('par')), '; '.join(ch),
                                                   edges_term(es), lol(sccs[node['g']]))
        comps = '[%s]' % '; '.join(
            '(mkcomp (%d) (%d) (%d) %s %s)' % (c['id'], c['b'], c['init'], edges_term(c['terms']),
                                              edges_term(c['free'])) for c in case['comps'])
        return '(run_case %s %s)' % (sys_term(case['tree']), comps)

    def shrink(self, c):
        # drop one data connection at a time
        for k, comp in enumerate(c['comps']):
            for j in range(len(comp['terms'])):
                comps = [dict(x) for x in c['comps']]
                comps[k] = dict(comp, terms=comp['terms'][:j] + comp['terms'][j + 1:])
                nc = dict(c, comps=comps)
                nc['cls'] = self.classify(nc)
                yield nc


def main(tier):
    return standard_check(C32(), tier)
