"""C32 implementation side: real groups with subsystems added in the declared order, auto_order as
given, networkx's SCC output captured from the real call, execution traced by the components."""
import warnings
import numpy as np
from implutil import main
from c32common import leaves, nid, paths, groups_preorder, comp_edges, group_graph, sccs_of

warnings.simplefilter('ignore')
import openmdao.api as om                      # noqa: E402
import openmdao.core.group as grpmod           # noqa: E402

TRACE = []
CALLS = {}
CUR = []

_orig_ooo = grpmod.get_out_of_order_nodes
_orig_check = grpmod.Group._check_order


def _ooo(graph, orders):
    r = _orig_ooo(graph, orders)
    if CUR:
        CALLS[CUR[-1]] = {'nodes': list(orders), 'edges': list(graph.edges()),
                          'sccs': [sorted(s) for s in r[0]], 'ooo': list(r[1])}
    return r


def _check(self, reorder=True, recurse=True, out_of_order=None):
    CUR.append(self.pathname)
    try:
        return _orig_check(self, reorder, recurse, out_of_order)
    finally:
        CUR.pop()


grpmod.get_out_of_order_nodes = _ooo
grpmod.Group._check_order = _check


class Aff(om.ExplicitComponent):
    def initialize(self):
        self.options.declare('spec', types=dict)

    def setup(self):
        s = self.options['spec']
        for k in range(len(s['terms'])):
            self.add_input('x%d' % k, val=0.0)
        for k in range(len(s['free'])):
            self.add_input('f%d' % k, val=0.0)
        self.add_output('y', val=float(s['init']))

    def compute(self, inputs, outputs):
        s = self.options['spec']
        TRACE.append(s['id'])
        acc = float(s['b'])
        for k, (coef, _) in enumerate(s['terms']):
            acc += coef * inputs['x%d' % k][0]
        for k, (coef, _) in enumerate(s['free']):
            acc += coef * inputs['f%d' % k][0]
        outputs['y'] = acc


def build(case):
    cp, gp = paths(case['tree'])
    cspec = {c['id']: c for c in case['comps']}
    p = om.Problem()

    def fill(grp, node):
        grp.options['auto_order'] = bool(node['auto'])
        for ch in node['ch']:
            if 'c' in ch:
                grp.add_subsystem('c%d' % ch['c'], Aff(spec=cspec[ch['c']]))
            else:
                fill(grp.add_subsystem('g%d' % ch['g'], om.ParallelGroup() if ch.get('par') else om.Group()), ch)
    fill(p.model, case['tree'])
    late = {(a, b) for a, b in case.get('late', [])}
    for c in case['comps']:
        for k, (coef, src) in enumerate(c['terms']):
            if (c['id'], k) not in late:
                p.model.connect(cp[src] + '.y', cp[c['id']] + '.x%d' % k)
    p.setup()
    for c in case['comps']:
        for k, (coef, v) in enumerate(c['free']):
            p.set_val(cp[c['id']] + '.f%d' % k, float(v))
    return p, cp, gp


def name2id(n):
    return 0 if n == '_auto_ivc' else int(n[1:])


def handle(case):
    del TRACE[:]
    CALLS.clear()
    p, cp, gp = build(case)
    p.final_setup()
    if case.get('resetup'):
        # a complete first round, then setup() again: the order must be established again
        p.run_model()
        del TRACE[:]
        CALLS.clear()
        # connections added after the first round, on the lowest group that contains both ends
        for c in case['comps']:
            for k, (coef, src) in enumerate(c['terms']):
                if [c['id'], k] in case.get('late', []):
                    a, b = cp[src].split('.'), cp[c['id']].split('.')
                    n = 0
                    while n < len(a) - 1 and n < len(b) - 1 and a[n] == b[n]:
                        n += 1
                    grp = p.model._get_subsystem('.'.join(a[:n])) if n else p.model
                    grp.connect('.'.join(a[n:]) + '.y', '.'.join(b[n:]) + '.x%d' % k)
        p.setup()
        for c in case['comps']:
            for k, (coef, v) in enumerate(c['free']):
                p.set_val(cp[c['id']] + '.f%d' % k, float(v))
        p.final_setup()
    calls = dict(CALLS)
    groups = groups_preorder(case['tree'])
    reports, sccs_out = [], []
    ok, msg, sig = True, '', ''
    for gi, g in enumerate(groups):
        path = gp[g['g']]
        grp = p.model if path == '' else p.model._get_subsystem(path)
        final = [name2id(n) for n in grp._subsystems_allprocs]
        if path in calls:
            cl = calls[path]
            edges = sorted((name2id(a), name2id(b)) for a, b in cl['edges'])
            sccs = [sorted(name2id(n) for n in s) for s in cl['sccs']]
            ooo = [(name2id(a), name2id(b)) for a, b in cl['ooo']]
        else:
            G = grp.compute_sys_graph()
            edges = sorted((name2id(a), name2id(b)) for a, b in G.edges())
            # auto_order off: the code does not look at this group; the real functions are called here
            orders = {name: i for i, name in enumerate(grp._subsystems_allprocs)}
            sc, oo = _orig_ooo(G, orders)
            sccs = [sorted(name2id(n) for n in s) for s in sc]
            ooo = [(name2id(a), name2id(b)) for a, b in oo]
        declared, intended = group_graph(case, g, gi == 0)
        cidx = {}
        for k, s in enumerate(sccs):
            for n in s:
                cidx.setdefault(n, k)
        ooo_canon = [list(e) for e in sorted(set(ooo), key=lambda e: (cidx[e[0]], e))]
        reports.append([True, [list(e) for e in edges], ooo_canon, final])
        sccs_out.append(sccs)
        # oracle (b): subsystems inside a cycle keep their declared relative order
        if g['auto'] and not g.get('par'):
            cls = sccs_of(declared, intended)
            for comp in set(cls.values()):
                if len(comp) > 1:
                    before = [n for n in declared if n in comp]
                    after = [n for n in final if n in comp]
                    if before != after and ok:
                        ok, sig = False, 'cycle-order-changed'
                        msg = 'group %r: cycle %s declared in order %s, ordered %s after setup' % (
                            path, sorted(comp), before, after)
    # premise of the hierarchical theorem on the REAL orders: in every group each component-level
    # connection between two different subsystems has its source's subsystem first
    good = True
    finals = {g['g']: reports[k][3] for k, g in enumerate(groups)}
    for g in groups:
        owner = {}
        for ch in g['ch']:
            for lf in leaves(ch):
                owner[lf] = nid(ch)
        order = finals[g['g']]
        for s_, t_ in comp_edges(case):
            if s_ in owner and t_ in owner and owner[s_] != owner[t_]:
                if order.index(owner[s_]) > order.index(owner[t_]):
                    good = False
    p.run_model()
    trace = list(TRACE)
    outs = [int(v) if float(v).is_integer() else None
            for v in (p.get_val(cp[c['id']] + '.y')[0] for c in case['comps'])]
    p.model.run_apply_nonlinear()
    resid = [p.model._residuals[cp[c['id']] + '.y'][0] for c in case['comps']]
    resid_i = [int(v) if float(v).is_integer() else None for v in resid]
    # oracle (a): acyclic model, auto_order everywhere
    if case['cls'] == 'acyclic' and ok:
        seen = set()
        preds = {}
        for s, t in comp_edges(case):
            preds.setdefault(t, set()).add(s)
        for i in trace:
            missing = sorted(preds.get(i, set()) - seen)
            if missing:
                ok, sig = False, 'executed-before-predecessor'
                msg = 'component c%d executed before its data predecessors %s; trace %s' % (i, missing, trace)
                break
            seen.add(i)
        if ok and sorted(trace) != sorted(c['id'] for c in case['comps']):
            ok, sig, msg = False, 'not-executed-once', 'trace %s' % trace
        if ok and any(r != 0.0 for r in resid):
            ok, sig = False, 'nonzero-residual'
            msg = 'residuals after one run_model: %s (trace %s)' % (resid, trace)
    return {'res': [reports, trace, outs, resid_i, good], 'sccs': sccs_out, 'ok': ok, 'msg': msg, 'sig': sig,
            'kind': '%s:%s' % (case['kind'], case['cls'])}


if __name__ == '__main__':
    main(handle)
