"""Shared between check.py (emitter) and impl.py: naming and the intended subsystem graphs of a case."""


def leaves(node):
    if 'c' in node:
        return [node['c']]
    out = []
    for ch in node['ch']:
        out += leaves(ch)
    return out


def nid(node):
    return node['c'] if 'c' in node else node['g']


def paths(tree):
    """component id -> dotted path ; group id -> dotted path ('' for the root)"""
    cp, gp = {}, {}

    def rec(node, prefix):
        if 'c' in node:
            cp[node['c']] = prefix + 'c%d' % node['c']
            return
        me = '' if prefix is None else prefix + 'g%d' % node['g']
        gp[node['g']] = me
        for ch in node['ch']:
            rec(ch, (me + '.') if me else '')
    rec(tree, None)
    return cp, gp


def groups_preorder(tree):
    out = []

    def rec(node):
        if 'g' in node:
            out.append(node)
            for ch in node['ch']:
                rec(ch)
    rec(tree)
    return out


def comp_edges(case):
    """data dependencies between components: (source comp, target comp)"""
    es = set()
    for c in case['comps']:
        for coef, src in c['terms']:
            es.add((src, c['id']))
    return es


def group_graph(case, g, is_root):
    """intended nodes (declared order) and edges of the subsystem graph of group node g.
    _auto_ivc has id 0 and can exist only in the root group (first position)."""
    owner = {}
    for ch in g['ch']:
        for lf in leaves(ch):
            owner[lf] = nid(ch)
    declared = [nid(ch) for ch in g['ch']]
    es = set()
    for s, t in comp_edges(case):
        if s in owner and t in owner and owner[s] != owner[t]:
            es.add((owner[s], owner[t]))
    if is_root and any(c['free'] for c in case['comps']):
        # _auto_ivc is a subsystem of the root only when some input is left unconnected
        declared = [0] + declared
        for c in case['comps']:
            if c['free']:
                es.add((0, owner[c['id']]))
    return declared, sorted(es)


def sccs_of(nodes, edges):
    """independent (reachability based) strongly connected classes, as a dict node -> frozenset"""
    succ = {n: set() for n in nodes}
    for s, t in edges:
        succ[s].add(t)
    reach = {}
    for n in nodes:
        seen, todo = {n}, [n]
        while todo:
            x = todo.pop()
            for y in succ[x]:
                if y not in seen:
                    seen.add(y)
                    todo.append(y)
        reach[n] = seen
    return {n: frozenset(m for m in nodes if m in reach[n] and n in reach[m]) for n in nodes}
