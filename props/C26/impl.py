"""C26 implementation side: the real stock math components of /repo, one instance per case.

For every case the component is built from the generated options, inputs (and states) are written into its
vectors, outputs / residuals and the linearized jacobian are read back, and the property's oracle - the
mathematical result the options describe and its EXACT derivative, computed independently with forward-mode
dual numbers over Fractions - is evaluated on them."""
import math
import os
import sys
import warnings
from fractions import Fraction

import numpy as np

sys.path.insert(0, os.path.dirname(os.path.abspath(__file__)))
from implutil import main, q  # noqa: E402

warnings.simplefilter('ignore')
import openmdao.api as om  # noqa: E402

U = Fraction(1, 2 ** 53)


def fr(x):
    return Fraction(x[0], x[1])


# ----------------------------------------------------------------------------- exact forward-mode AD

class Dual(object):
    __slots__ = ('v', 'd')

    def __init__(self, v, d=None, n=0):
        self.v = Fraction(v)
        self.d = d if d is not None else [Fraction(0)] * n

    def _c(self, o):
        return o if isinstance(o, Dual) else Dual(o, n=len(self.d))

    def __add__(self, o):
        o = self._c(o)
        return Dual(self.v + o.v, [a + b for a, b in zip(self.d, o.d)])
    __radd__ = __add__

    def __neg__(self):
        return Dual(-self.v, [-a for a in self.d])

    def __sub__(self, o):
        return self + (-self._c(o))

    def __rsub__(self, o):
        return self._c(o) - self

    def __mul__(self, o):
        o = self._c(o)
        return Dual(self.v * o.v, [a * o.v + self.v * b for a, b in zip(self.d, o.d)])
    __rmul__ = __mul__

    def __truediv__(self, o):
        o = self._c(o)
        return Dual(self.v / o.v, [(a * o.v - self.v * b) / (o.v * o.v) for a, b in zip(self.d, o.d)])

    def __rtruediv__(self, o):
        return self._c(o) / self


def dsqrt(x):
    n, d = math.isqrt(x.v.numerator), math.isqrt(x.v.denominator)
    if n * n != x.v.numerator or d * d != x.v.denominator:
        raise ValueError('not a perfect square')
    r = Fraction(n, d)
    return Dual(r, [a / (2 * r) for a in x.d])


def dabs(x):
    return x if x.v > 0 else -x


def jacobian(f, env):
    n = len(env)
    xs = [Dual(v, [Fraction(1) if i == j else Fraction(0) for j in range(n)]) for i, v in enumerate(env)]
    outs = f(xs)
    return [o.v for o in outs], [[o.d[j] for j in range(n)] for o in outs]


# ----------------------------------------------------------------------------- the mathematics (reference)

def ref_function(c):
    k = c['comp']
    if k == 'addsub':
        N, sfs = c['vs'] * c['len'], [fr(s) for s in c['sfs']]
        return lambda x: [sum((x[i * N + e] * sf for i, sf in enumerate(sfs)), Dual(0, n=len(x))) for e in range(N)]
    if k == 'mux':
        shp, vs, ax = tuple(c['in_shape']), c['vs'], c['axis']
        isz = int(np.prod(shp)) if shp else 1
        idx = np.stack([np.arange(i * isz, (i + 1) * isz).reshape(shp) for i in range(vs)], axis=ax).ravel()
        return lambda x: [x[int(i)] for i in idx]
    if k == 'dotp':
        vs, ln = c['vs'], c['len']
        n = vs * ln
        return lambda x: [sum((x[r * ln + i] * x[n + r * ln + i] for i in range(ln)), Dual(0, n=len(x)))
                          for r in range(vs)]
    if k == 'cross':
        vs = c['vs']
        n = 3 * vs

        def f(x):
            out = []
            for r in range(vs):
                a, b = x[3 * r:3 * r + 3], x[n + 3 * r:n + 3 * r + 3]
                out += [a[1] * b[2] - a[2] * b[1], a[2] * b[0] - a[0] * b[2], a[0] * b[1] - a[1] * b[0]]
            return out
        return f
    if k == 'matvec':
        vs, nr, nc = c['vs'], c['nr'], c['nc']
        xo = vs * nr * nc
        return lambda x: [sum((x[(n * nr + i) * nc + j] * x[xo + n * nc + j] for j in range(nc)), Dual(0, n=len(x)))
                          for n in range(vs) for i in range(nr)]
    if k == 'vmag':
        vs, ln = c['vs'], c['len']
        return lambda x: [dsqrt(sum((x[r * ln + i] * x[r * ln + i] for i in range(ln)), Dual(0, n=len(x))))
                          for r in range(vs)]
    if k in ('eqc', 'balance'):
        N, norm, um = c['n'], c['normalize'], c['use_mult']

        def f(x):
            out = []
            for e in range(N):
                lhs, rhs = x[e], x[N + e]
                if norm:
                    sc = 1 / (Fraction(1, 4) * rhs * rhs + 1) if abs(rhs.v) < 2 else 1 / dabs(rhs)
                else:
                    sc = Dual(1, n=len(x))
                m = x[2 * N + e] * lhs if um else lhs
                out.append((m - rhs) * sc)
            return out
        return f
    if k in ('eqmulti', 'balmulti'):
        eqs = c['eqs']

        def f(x):
            out, o = [], 0
            for eq in eqs:
                N, norm, um = eq['n'], eq['normalize'], eq['use_mult']
                for e in range(N):
                    lhs, rhs = x[o + e], x[o + N + e]
                    if norm:
                        sc = 1 / (Fraction(1, 4) * rhs * rhs + 1) if abs(rhs.v) < 2 else 1 / dabs(rhs)
                    else:
                        sc = Dual(1, n=len(x))
                    m = x[o + 2 * N + e] * lhs if um else lhs
                    out.append((m - rhs) * sc)
                o += (3 if um else 2) * N
            return out
        return f
    if k == 'linsys':
        vs, size, vecA = c['vs'], c['size'], c['vecA']
        mat = size * size
        bo = vs * mat if vecA else mat
        xo = bo + vs * size
        return lambda x: [sum((x[(i * mat if vecA else 0) + j * size + kk] * x[xo + i * size + kk]
                               for kk in range(size)), Dual(0, n=len(x))) - x[bo + i * size + j]
                          for i in range(vs) for j in range(size)]
    raise ValueError(k)


# ----------------------------------------------------------------------------- the real components

def build(c):
    """returns (component, [(kind, name, shape)] in environment order, [output names in row order], implicit)"""
    k = c['comp']
    if k == 'addsub':
        vs, ln = c['vs'], c['len']
        names = ['i%d' % i for i in range(len(c['sfs']))]
        kw = {}
        if c.get('units'):
            kw['units'] = c['units']
        comp = om.AddSubtractComp()
        comp.add_equation('o', names, vec_size=vs, length=ln,
                          scaling_factors=None if c.get('default_sf') else [float(fr(s)) for s in c['sfs']], **kw)
        shape = (vs,) if ln == 1 else (vs, ln)
        return comp, [('in', n, shape) for n in names], ['o'], False
    if k == 'mux':
        comp = om.MuxComp(vec_size=c['vs'])
        comp.add_var('m', shape=tuple(c['in_shape']), axis=c['axis'], units=c.get('units'))
        return comp, [('in', 'm_%d' % i, tuple(c['in_shape'])) for i in range(c['vs'])], ['m'], False
    if k == 'dotp':
        vs, ln = c['vs'], c['len']
        kw = dict(vec_size=vs, length=ln)
        if c.get('via_add'):
            comp = om.DotProductComp(vec_size=1, length=2)
            comp.add_product('c2', a_name='a2', b_name='b2', vec_size=vs, length=ln)
            return comp, [('in', 'a2', (vs, ln)), ('in', 'b2', (vs, ln))], ['c2'], False
        comp = om.DotProductComp(a_units=c.get('units'), b_units=c.get('units2'), **kw)
        return comp, [('in', 'a', (vs, ln)), ('in', 'b', (vs, ln))], ['c'], False
    if k == 'cross':
        vs = c['vs']
        comp = om.CrossProductComp(vec_size=vs)
        shape = (vs, 3) if vs > 1 else (3,)
        return comp, [('in', 'a', shape), ('in', 'b', shape)], ['c'], False
    if k == 'matvec':
        vs, nr, nc = c['vs'], c['nr'], c['nc']
        comp = om.MatrixVectorProductComp(vec_size=vs, A_shape=(nr, nc))
        return comp, [('in', 'A', (vs, nr, nc)), ('in', 'x', (vs, nc))], ['b'], False
    if k == 'vmag':
        vs, ln = c['vs'], c['len']
        comp = om.VectorMagnitudeComp(vec_size=vs, length=ln, in_name='a', mag_name='m')
        return comp, [('in', 'a', (vs, ln))], ['m'], False
    if k == 'eqc':
        N = c['n']
        comp = om.EQConstraintComp()
        comp.add_eq_output('y', shape=(N,), use_mult=c['use_mult'], normalize=c['normalize'])
        env = [('in', 'lhs:y', (N,)), ('in', 'rhs:y', (N,))]
        if c['use_mult']:
            env.append(('in', 'mult:y', (N,)))
        return comp, env, ['y'], False
    if k == 'balance':
        N = c['n']
        if c.get('ctor'):
            comp = om.BalanceComp('y', val=np.ones(N), use_mult=c['use_mult'], normalize=c['normalize'])
        else:
            comp = om.BalanceComp()
            comp.add_balance('y', val=np.ones(N), use_mult=c['use_mult'], normalize=c['normalize'])
        env = [('in', 'lhs:y', (N,)), ('in', 'rhs:y', (N,))]
        if c['use_mult']:
            env.append(('in', 'mult:y', (N,)))
        return comp, env, ['y'], True
    if k in ('eqmulti', 'balmulti'):
        env, names = [], []
        comp = None
        for i, eq in enumerate(c['eqs']):
            N, nm = eq['n'], 'y%d' % i
            shp = tuple(eq.get('shape') or (N,))
            if k == 'eqmulti':
                kw = dict(use_mult=eq['use_mult'], normalize=eq['normalize'], shape=shp)
                if eq['use_mult']:
                    kw['mult_val'] = float(fr(eq['mult_val']))
                if i == 0 and c.get('ctor'):
                    comp = om.EQConstraintComp(nm, **kw)
                else:
                    comp = comp or om.EQConstraintComp()
                    comp.add_eq_output(nm, **kw)
            else:
                kw = dict(use_mult=eq['use_mult'], normalize=eq['normalize'], val=np.ones(shp),
                          rhs_val=float(fr(eq['rhs_val'])))
                if eq['use_mult']:
                    kw['mult_val'] = float(fr(eq['mult_val']))
                if i == 0 and c.get('ctor'):
                    comp = om.BalanceComp(nm, **kw)
                else:
                    comp = comp or om.BalanceComp()
                    comp.add_balance(nm, **kw)
            env += [('in', 'lhs:' + nm, shp), ('in', 'rhs:' + nm, shp)]
            if eq['use_mult']:
                env.append(('in', 'mult:' + nm, shp))
            names.append(nm)
        return comp, env, names, k == 'balmulti'
    if k == 'linsys':
        vs, size, vecA = c['vs'], c['size'], c['vecA']
        comp = om.LinearSystemComp(size=size, vec_size=vs, vectorize_A=vecA)
        ashape = (vs, size, size) if (vecA and vs > 1) else (size, size)
        vshape = (vs, size) if vs > 1 else (size,)
        return comp, [('in', 'A', ashape), ('in', 'b', vshape), ('out', 'x', vshape)], ['x'], True
    raise ValueError(k)


def close(got, want, ulps, mag=0):
    if ulps == 0:
        return got == want
    return abs(got - want) <= ulps * U * max(abs(want), mag)


def handle(c):
    kind = c['comp'] + ':' + c.get('variant', '') + (':history' if c.get('x_prev') else '')
    if c['comp'] == 'balance_rhs_kwargs':
        return handle_balance_kwargs(c)
    if c['comp'] == 'self_product':
        return handle_self_product(c)
    if c['comp'] == 'spline':
        return handle_spline(c)
    if c['comp'] == 'linsys_hist':
        return handle_linsys_hist(c)
    env = [fr(v) for v in c['x']]
    comp, layout, onames, implicit = build(c)
    p = om.Problem()
    p.model.add_subsystem('c', comp, promotes=['*'])
    p.setup()
    p.final_setup()
    # history: an earlier full evaluation (other inputs) on the same Problem must not influence the later one
    envs = ([[fr(v) for v in c['x_prev']]] if c.get('x_prev') else []) + [env]
    for ev in envs:
        o = 0
        for io, name, shape in layout:
            sz = int(np.prod(shape))
            arr = np.array([float(v) for v in ev[o:o + sz]]).reshape(shape)
            if io == 'in':
                comp._inputs[name] = arr
            else:
                comp._outputs[name] = arr
            o += sz
        ncols = o
        if implicit:
            comp.run_apply_nonlinear()
            vec = comp._residuals
        else:
            comp.run_solve_nonlinear()
            vec = comp._outputs
        comp.run_linearize()
    outs = []
    for n in onames:
        outs += [Fraction(float(v)) for v in np.asarray(vec[n]).ravel()]
    nrows = len(outs)
    J = np.zeros((nrows, ncols))
    jac = comp._get_jacobian()
    subjacs = jac._get_subjacs(comp) if hasattr(jac, '_get_subjacs') else jac._subjacs
    ro = 0
    for n in onames:
        rsz = int(np.asarray(vec[n]).size)
        co = 0
        for io, name, shape in layout:
            sz = int(np.prod(shape))
            sj = subjacs.get(('c.' + n, 'c.' + name))
            if sj is not None:
                J[ro:ro + rsz, co:co + sz] = np.asarray(sj.todense()).real
            co += sz
        ro += rsz
    Jf = [[Fraction(float(J[i, j])) for j in range(ncols)] for i in range(nrows)]
    # oracle
    wouts, wJ = jacobian(ref_function(c), env)
    ulps = c.get('ulps', 0)
    mag = fr(c['mag']) if c.get('mag') else 0
    ok, msg = True, ''
    if len(wouts) != nrows:
        ok, msg = False, '%d output entries, the options describe %d' % (nrows, len(wouts))
    else:
        for i in range(nrows):
            if not close(outs[i], wouts[i], ulps, mag):
                ok, msg = False, 'output[%d] = %r, the options describe %r' % (i, float(outs[i]), float(wouts[i]))
                break
        if ok:
            for i in range(nrows):
                for j in range(ncols):
                    if not close(Jf[i][j], wJ[i][j], ulps, mag):
                        ok = False
                        msg = 'partial[%d,%d] = %r, exact derivative %r' % (i, j, float(Jf[i][j]), float(wJ[i][j]))
                        break
                if not ok:
                    break
    res = {'outs': [q(v) for v in outs], 'ncols': ncols, 'jac': [q(v) for row in Jf for v in row]}
    if c['comp'] in ('eqmulti', 'balmulti'):
        res = '__none__'      # several equations on one component: oracle only
    return {'res': res, 'ok': ok, 'msg': msg, 'sig': kind, 'kind': kind}


def frac_solve(A, B):
    """exact solution X of A X = B (lists of Fractions) by Gauss-Jordan elimination"""
    n = len(A)
    M = [list(A[i]) + list(B[i]) for i in range(n)]
    for col in range(n):
        piv = next(r for r in range(col, n) if M[r][col] != 0)
        M[col], M[piv] = M[piv], M[col]
        pv = M[col][col]
        M[col] = [v / pv for v in M[col]]
        for r in range(n):
            if r != col and M[r][col] != 0:
                f = M[r][col]
                M[r] = [a - f * b for a, b in zip(M[r], M[col])]
    return [row[n:] for row in M]


def handle_linsys_hist(c):
    """LinearSystemComp on ONE Problem through a history of (A, b): after every run_model the state must solve
    the CURRENT system and the totals d x / d b, d x / d A must be those of the CURRENT A"""
    vs, size, vecA = c['vs'], c['size'], c['vecA']
    kind = 'linsys_hist:vs%d:size%d%s:runs%d' % (vs, size, ':vecA' if vecA else '', len(c['steps']))
    p = om.Problem()
    p.model.add_subsystem('ls', om.LinearSystemComp(size=size, vec_size=vs, vectorize_A=vecA), promotes=['*'])
    p.setup()
    nA = vs if (vecA and vs > 1) else 1
    for k, st in enumerate(c['steps']):
        As = [[[fr(v) for v in row] for row in A] for A in st['A']]       # nA matrices
        bs = [[fr(v) for v in b] for b in st['b']]                        # vs right-hand sides
        Af = np.array([[[float(v) for v in row] for row in A] for A in As])
        p.set_val('A', Af if nA > 1 else Af[0])
        bf = np.array([[float(v) for v in b] for b in bs])
        p.set_val('b', bf if vs > 1 else bf[0])
        p.run_model()
        x = np.asarray(p.get_val('x')).reshape(vs, size)
        tot = p.compute_totals(of=['x'], wrt=['b', 'A'], return_format='dict')
        dxdb = np.asarray(tot['x']['b']).reshape(vs * size, vs * size)
        dxdA = np.asarray(tot['x']['A']).reshape(vs * size, nA * size * size)
        for i in range(vs):
            A = As[i if nA > 1 else 0]
            xe = [r[0] for r in frac_solve(A, [[v] for v in bs[i]])]
            inv = frac_solve(A, [[Fraction(int(r == cc)) for cc in range(size)] for r in range(size)])
            scale = 1.0 + max(abs(float(v)) for v in xe)
            for j in range(size):
                if abs(x[i, j] - float(xe[j])) > 1e-9 * scale:
                    return {'res': '__none__', 'ok': False, 'sig': 'state:' + kind, 'kind': kind,
                            'msg': 'run %d: x[%d,%d] = %r but the current system A x = b has solution %r'
                                   % (k + 1, i, j, x[i, j], float(xe[j]))}
            for j in range(size):
                for i2 in range(vs):
                    for j2 in range(size):
                        want = float(inv[j][j2]) if i2 == i else 0.0
                        got = dxdb[i * size + j, i2 * size + j2]
                        if abs(got - want) > 1e-9 * (1.0 + abs(want)):
                            return {'res': '__none__', 'ok': False, 'sig': 'totals:' + kind, 'kind': kind,
                                    'msg': 'run %d: d x[%d,%d] / d b[%d,%d] = %r, inverse of the current A gives %r'
                                           % (k + 1, i, j, i2, j2, got, want)}
                # d x_j / d A_{r,cc} = - inv[j][r] * x[cc]   (summed over the rows of vec_size sharing A)
                for a in range(nA):
                    for r in range(size):
                        for cc in range(size):
                            want = -float(inv[j][r] * xe[cc]) if (nA == 1 or a == i) else 0.0
                            got = dxdA[i * size + j, a * size * size + r * size + cc]
                            if abs(got - want) > 1e-9 * (1.0 + abs(want)):
                                return {'res': '__none__', 'ok': False, 'sig': 'totals:' + kind, 'kind': kind,
                                        'msg': 'run %d: d x[%d,%d] / d A[%d,%d,%d] = %r, exact %r'
                                               % (k + 1, i, j, a, r, cc, got, want)}
    return {'res': '__none__', 'ok': True, 'msg': '', 'sig': kind, 'kind': kind}


def handle_spline(c):
    """SplineComp against the standalone interpolation (a fresh InterpND per spline) and difference quotients"""
    from openmdao.components.interp_util.interp import InterpND
    method, vs = c['method'], c['vs']
    xi = np.array(c['x_interp'], dtype=float)
    kw = dict(method=method, x_interp_val=xi, vec_size=vs)
    opts = dict(c.get('interp_options') or {})
    if opts:
        kw['interp_options'] = dict(opts)
    if c.get('x_cp') is not None:
        grid = np.array(c['x_cp'], dtype=float)
        kw['x_cp_val'] = grid
    else:
        kw['num_cp'] = c['num_cp']
        grid = np.linspace(0, 1.0, c['num_cp'])
    ncp = len(grid)
    kind = 'spline:%s:n%d:vs%d%s' % (method, len(c['splines']), vs, ':num_cp' if c.get('x_cp') is None else '')
    comp = om.SplineComp(**kw)
    for k, sp in enumerate(c['splines']):
        comp.add_spline(y_cp_name='ycp%d' % k, y_interp_name='y%d' % k,
                        y_cp_val=np.array(sp['init'], dtype=float).reshape(vs, ncp), y_units=sp.get('units'))
    p = om.Problem()
    p.model.add_subsystem('c', comp, promotes=['*'])
    p.setup()
    p.final_setup()
    vals = [np.array(sp['ycp'], dtype=float).reshape(vs, ncp) for sp in c['splines']]

    def evaluate(values):
        for k, v in enumerate(values):
            comp._inputs['ycp%d' % k] = v
        comp.run_solve_nonlinear()
        return [np.array(comp._outputs['y%d' % k]).reshape(vs, len(xi)).copy() for k in range(len(values))]

    ys = evaluate(vals)
    comp.run_linearize()
    subjacs = comp._get_jacobian()._get_subjacs(comp)
    ok, msg = True, ''
    nkink = 0
    for k, v in enumerate(vals):
        J = np.asarray(subjacs[('c.y%d' % k, 'c.ycp%d' % k)].todense()).real       # (vs*ni, vs*ncp)
        # every other block must be absent / zero
        for k2 in range(len(vals)):
            if k2 != k:
                sj = subjacs.get(('c.y%d' % k, 'c.ycp%d' % k2))
                if sj is not None and np.any(np.asarray(sj.todense()) != 0):
                    ok, msg = False, 'spline %d has a non-zero partial w.r.t. the control points of spline %d' % (k, k2)
        # (1) the standalone interpolation
        ref = InterpND(points=(grid,), values=v[0, :].copy(), method=method, x_interp=xi, extrapolate=True, **opts)
        yref, dref = ref.evaluate_spline(v.copy(), compute_derivative=True)
        yref = np.asarray(yref).reshape(vs, len(xi))
        dref = np.asarray(dref).reshape(vs, len(xi), ncp)
        if not np.allclose(ys[k], yref, rtol=1e-12, atol=1e-12):
            ij = np.unravel_index(np.argmax(np.abs(ys[k] - yref)), yref.shape)
            ok, msg = False, ('spline %d: output[%s] = %r, evaluate_spline of a standalone InterpND gives %r'
                              % (k, ij, ys[k][ij], yref[ij]))
        Jref = np.zeros_like(J)
        for n in range(vs):
            Jref[n * len(xi):(n + 1) * len(xi), n * ncp:(n + 1) * ncp] = dref[n]
        if ok and not np.allclose(J, Jref, rtol=1e-10, atol=1e-12):
            ij = np.unravel_index(np.argmax(np.abs(J - Jref)), J.shape)
            ok, msg = False, ('spline %d (of %d on the component): partial[%d,%d] = %r, standalone InterpND spline '
                              'gradient gives %r' % (k, len(vals), ij[0], ij[1], J[ij], Jref[ij]))
        # (2) difference quotients of the component itself, away from kinks
        h = 1e-6
        for col in range(vs * ncp):
            if not ok:
                break
            vp = [a.copy() for a in vals]
            vm = [a.copy() for a in vals]
            vp[k].ravel()[col] += h
            vm[k].ravel()[col] -= h
            fwd = (evaluate(vp)[k].ravel() - ys[k].ravel()) / h
            bwd = (ys[k].ravel() - evaluate(vm)[k].ravel()) / h
            for row in range(J.shape[0]):
                scale = 1.0 + abs(J[row, col])
                if abs(fwd[row] - bwd[row]) > 1e-4 * scale:
                    nkink += 1          # one-sided derivatives differ: not differentiable here
                    continue
                cen = 0.5 * (fwd[row] + bwd[row])
                if abs(cen - J[row, col]) > 1e-5 * scale:
                    ok, msg = False, ('spline %d (of %d): partial[%d,%d] = %r, central difference quotient %r'
                                      % (k, len(vals), row, col, J[row, col], cen))
                    break
        evaluate(vals)
        if not ok:
            break
    if ok:
        # history: linearize again at other control values on the same component
        vals2 = [np.array(sp['init'], dtype=float).reshape(vs, ncp) for sp in c['splines']]
        ys2 = evaluate(vals2)
        comp.run_linearize()
        subjacs = comp._get_jacobian()._get_subjacs(comp)
        for k, v in enumerate(vals2):
            ref = InterpND(points=(grid,), values=v[0, :].copy(), method=method, x_interp=xi, extrapolate=True, **opts)
            yref, dref = ref.evaluate_spline(v.copy(), compute_derivative=True)
            dref = np.asarray(dref).reshape(vs, len(xi), ncp)
            J = np.asarray(subjacs[('c.y%d' % k, 'c.ycp%d' % k)].todense()).real
            Jref = np.zeros_like(J)
            for n in range(vs):
                Jref[n * len(xi):(n + 1) * len(xi), n * ncp:(n + 1) * ncp] = dref[n]
            if not np.allclose(ys2[k], np.asarray(yref).reshape(vs, len(xi)), rtol=1e-12, atol=1e-12) or \
                    not np.allclose(J, Jref, rtol=1e-10, atol=1e-12):
                ok, msg = False, 'spline %d: second evaluation / linearization on the same component differs from a ' \
                                 'standalone InterpND at the new control values' % k
                break
    if nkink:
        kind += ':kinks'
    return {'res': '__none__', 'ok': ok, 'msg': msg, 'sig': kind, 'kind': kind}


def handle_self_product(c):
    """a product of an input with itself (a_name == b_name): c = a.a, d c / d a = 2 a; a x a = 0"""
    a = np.array([float(fr(v)) for v in c['x']])
    p = om.Problem()
    if c['which'] == 'dot':
        comp = om.DotProductComp(a_name='a', b_name='a', vec_size=1, length=len(a))
        shape = (1, len(a))
    else:
        comp = om.CrossProductComp(a_name='a', b_name='a', vec_size=1)
        shape = (3,)
    try:
        p.model.add_subsystem('c', comp, promotes=['*'])
        p.setup()
        p.final_setup()
    except Exception as e:   # rejecting the option set is an acceptable way to describe nothing
        return {'res': '__none__', 'ok': True, 'msg': '', 'sig': 'self_product:rejected', 'kind': 'self_product:rejected'}
    comp._inputs['a'] = a.reshape(shape)
    comp.run_solve_nonlinear()
    comp.run_linearize()
    sj = comp._get_jacobian()._get_subjacs(comp).get(('c.c', 'c.a'))
    J = np.asarray(sj.todense()).real
    out = np.asarray(comp._outputs['c']).ravel()
    env = [fr(v) for v in c['x']]
    if c['which'] == 'dot':
        wout = [sum(v * v for v in env)]
        wJ = [[2 * v for v in env]]
    else:
        wout = [Fraction(0)] * 3
        wJ = [[Fraction(0)] * 3 for _ in range(3)]
    ok, msg = True, ''
    for i in range(len(wout)):
        if Fraction(float(out[i])) != wout[i]:
            ok, msg = False, 'output[%d] = %r, expected %r' % (i, out[i], float(wout[i]))
        for j in range(len(env)):
            if ok and Fraction(float(J[i, j])) != wJ[i][j]:
                ok, msg = False, ('%s product of input a with itself: partial[%d,%d] = %r, exact derivative %r'
                                  % (c['which'], i, j, J[i, j], float(wJ[i][j])))
    return {'res': '__none__', 'ok': ok, 'msg': msg, 'sig': 'self_product:' + c['which'], 'kind': 'self_product:' + c['which']}


def handle_balance_kwargs(c):
    """BalanceComp(name, rhs_kwargs={'val': v}): the residual the options describe is lhs - v"""
    v = float(fr(c['rhs']))
    lhs = float(fr(c['lhs']))
    p = om.Problem()
    comp = om.BalanceComp('y', rhs_kwargs={'val': v}, normalize=False)
    p.model.add_subsystem('c', comp, promotes=['*'])
    p.setup()
    p.final_setup()
    comp._inputs['lhs:y'] = lhs
    comp.run_apply_nonlinear()
    r = float(np.asarray(comp._residuals['y']).ravel()[0])
    ok = Fraction(r) == Fraction(lhs) - Fraction(v)
    return {'res': '__none__', 'ok': ok, 'sig': 'balance:ctor-rhs_kwargs', 'kind': 'balance:ctor-rhs_kwargs',
            'msg': '' if ok else "BalanceComp('y', rhs_kwargs={'val': %r}) with lhs=%r: residual %r, the options "
                                 "describe lhs - rhs = %r" % (v, lhs, r, lhs - v)}


if __name__ == '__main__':
    main(handle)
