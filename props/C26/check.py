"""C26 — stock math components compute their formulas and exact partials."""
import os
import re
import sys
from fractions import Fraction

import core
from core import Spec, qlit, qlist, boollit, Verdict

PYTH = [[3, 4], [5, 12], [1, 2, 2], [2, 3, 6], [1, 4, 8], [4, 4, 7], [1, 1, 1, 1], [2, 4, 5, 6], [6, 8, 0], [2, 6, 9],
        [8, 9, 12], [1], [3], [0, 3], [4, 0, 3]]


def jq(fr):
    fr = Fraction(fr)
    return [fr.numerator, fr.denominator]


def fr(x):
    return Fraction(x[0], x[1])


def dy(rng, lo=-8, hi=8, den=(1, 2, 4)):
    return Fraction(rng.randrange(lo, hi + 1), rng.choice(den))


def nat(n):
    return '%d%%nat' % n


def prod(l):
    r = 1
    for v in l:
        r *= v
    return r


def inst_term(c):
    k = c['comp']
    if k == 'addsub':
        return '(addsub %s %s%%Q)' % (nat(c['vs'] * c['len']), qlist([fr(s) for s in c['sfs']]))
    if k == 'mux':
        shp, ax = c['in_shape'], c['axis']
        return '(mux %s %s %s)' % (nat(c['vs']), nat(prod(shp[:ax])), nat(prod(shp[ax:])))
    if k == 'dotp':
        return '(dotp %s %s)' % (nat(c['vs']), nat(c['len']))
    if k == 'cross':
        return '(cross %s)' % nat(c['vs'])
    if k == 'matvec':
        return '(matvec %s %s %s)' % (nat(c['vs']), nat(c['nr']), nat(c['nc']))
    if k == 'vmag':
        return '(vmag %s %s)' % (nat(c['vs']), nat(c['len']))
    if k in ('eqc', 'balance'):
        N = c['n']
        rhs = [fr(v) for v in c['x'][N:2 * N]]
        return '(eqc %s %s %s %s%%Q)' % (nat(N), boollit(c['normalize']), boollit(c['use_mult']), qlist(rhs))
    if k == 'linsys':
        return '(linsys %s %s %s)' % (nat(c['vs']), nat(c['size']), boollit(c['vecA']))
    raise ValueError(k)


POLY = ('addsub', 'mux', 'dotp', 'cross', 'matvec', 'linsys')


def gen_case(rng, k):
    c = {'comp': k, 'ulps': 0}
    if k == 'addsub':
        c['vs'], c['len'] = rng.choice([1, 1, 2, 3]), rng.choice([1, 1, 2, 3])
        n = rng.choice([2, 2, 3, 4])
        c['default_sf'] = rng.random() < 0.2
        c['sfs'] = [jq(1)] * n if c['default_sf'] else [jq(rng.choice([1, -1, 2, -2, Fraction(1, 2), Fraction(-3, 4), 3, 0]))
                                                        for _ in range(n)]
        c['units'] = rng.choice([None, None, 'm', 'kg*m/s**2'])
        nenv = n * c['vs'] * c['len']
        c['variant'] = 'n%d' % n
    elif k == 'mux':
        c['vs'] = rng.choice([1, 2, 2, 3])
        c['in_shape'] = list(rng.choice([(1,), (2,), (3,), (2, 2), (2, 3), (3, 1), (1, 2, 2), (2, 1, 2)]))
        c['axis'] = rng.randrange(0, len(c['in_shape']) + 1)
        c['units'] = rng.choice([None, 'm'])
        nenv = c['vs'] * prod(c['in_shape'])
        c['variant'] = 'rank%d:axis%d' % (len(c['in_shape']), c['axis'])
    elif k == 'dotp':
        c['vs'], c['len'] = rng.choice([1, 2, 3]), rng.choice([1, 2, 3, 4])
        c['via_add'] = rng.random() < 0.25
        c['units'], c['units2'] = rng.choice([(None, None), ('m', 'N')])
        nenv = 2 * c['vs'] * c['len']
        c['variant'] = 'add_product' if c['via_add'] else 'ctor'
    elif k == 'cross':
        c['vs'] = rng.choice([1, 1, 2, 3])
        nenv = 6 * c['vs']
        c['variant'] = 'vs%d' % c['vs']
    elif k == 'matvec':
        c['vs'], c['nr'], c['nc'] = rng.choice([1, 1, 2, 3]), rng.choice([1, 2, 3]), rng.choice([1, 2, 3])
        nenv = c['vs'] * c['nr'] * c['nc'] + c['vs'] * c['nc']
        c['variant'] = 'vs%d' % c['vs']
    elif k == 'vmag':
        c['vs'] = rng.choice([1, 2, 3])
        base = rng.choice([p for p in PYTH if len(p) >= 1 and any(p)])
        c['len'] = len(base)
        x = []
        for _ in range(c['vs']):
            sc = Fraction(rng.choice([1, 1, 3]), rng.choice([1, 2, 4]))
            b = list(rng.choice([p for p in PYTH if len(p) == c['len'] and any(p)]))
            rng.shuffle(b)
            x += [rng.choice([-1, 1]) * v * sc for v in b]
        c['x'] = [jq(v) for v in x]
        c['ulps'] = 2
        c['variant'] = 'len%d' % c['len']
        return c
    elif k in ('eqc', 'balance'):
        N = c['n'] = rng.choice([1, 1, 2, 3, 4])
        c['normalize'], c['use_mult'] = rng.random() < 0.7, rng.random() < 0.5
        if k == 'balance':
            c['ctor'] = rng.random() < 0.5
        lhs = [dy(rng) for _ in range(N)]
        rhs = [rng.choice([Fraction(0), Fraction(2), Fraction(-2), Fraction(4), Fraction(-8), Fraction(1, 2), Fraction(-1),
                           Fraction(3), Fraction(-3, 2), Fraction(7, 4), Fraction(-5), Fraction(9, 4)]) for _ in range(N)]
        x = lhs + rhs + ([dy(rng) for _ in range(N)] if c['use_mult'] else [])
        c['x'] = [jq(v) for v in x]
        c['ulps'] = 16 if c['normalize'] else 0
        mul = x[2 * N:] if c['use_mult'] else [Fraction(1)] * N
        c['mag'] = jq(max(abs(m * l) + abs(r) + 1 for m, l, r in zip(mul, lhs, rhs)))
        c['variant'] = ('norm' if c['normalize'] else 'raw') + (':mult' if c['use_mult'] else '')
        return c
    elif k == 'linsys':
        c['vs'], c['size'] = rng.choice([1, 1, 2, 3]), rng.choice([1, 2, 3])
        c['vecA'] = bool(c['vs'] > 1 and rng.random() < 0.5)
        mat = c['size'] ** 2
        nenv = (c['vs'] * mat if c['vecA'] else mat) + 2 * c['vs'] * c['size']
        c['variant'] = 'vs%d%s' % (c['vs'], ':vecA' if c['vecA'] else '')
    c['x'] = [jq(dy(rng)) for _ in range(nenv)]
    return c


def gen_spline(rng):
    method = rng.choice(['akima', 'akima', 'slinear', 'cubic', 'bsplines'])
    c = {'comp': 'spline', 'method': method, 'vs': rng.choice([1, 1, 2, 3])}
    if method == 'bsplines':
        ncp = rng.choice([5, 6, 7, 8])
        c['num_cp'], c['x_cp'] = ncp, None
        c['interp_options'] = {'order': rng.choice([2, 3, 4])}
        lo, hi = 0.0, 1.0
    elif rng.random() < 0.25:
        ncp = rng.choice([5, 6, 7])
        c['num_cp'], c['x_cp'] = ncp, None
        lo, hi = 0.0, 1.0
    else:
        ncp = rng.choice([5, 6, 7])
        x, grid = float(rng.randrange(-8, 8)) / 4, []
        for _ in range(ncp):
            grid.append(x)
            x += rng.choice([0.5, 0.75, 1.0, 1.5, 2.0, 3.0])
        c['x_cp'] = grid
        lo, hi = grid[0], grid[-1]
    ni = rng.choice([3, 4, 6])
    c['x_interp'] = sorted(lo + (hi - lo) * rng.randrange(1, 200) / 200.0 for _ in range(ni))
    if rng.random() < 0.3:
        c['x_interp'][0], c['x_interp'][-1] = lo, hi          # end points themselves
    nspl = rng.choice([1, 2, 2, 3])
    c['splines'] = []
    for _ in range(nspl):
        def draw():
            # control values whose consecutive slopes differ clearly (no collinear triples: akima kinks)
            for _ in range(200):
                vals, good = [], True
                for _ in range(c['vs']):
                    v = [float(rng.randrange(-40, 41)) / 4 for _ in range(ncp)]
                    xs = c['x_cp'] or [k / (ncp - 1.0) for k in range(ncp)]
                    m = [(v[k + 1] - v[k]) / (xs[k + 1] - xs[k]) for k in range(ncp - 1)]
                    if any(abs(m[k + 1] - m[k]) < 0.5 for k in range(len(m) - 1)):
                        good = False
                    vals.append(v)
                if good:
                    return vals
            return vals
        c['splines'].append({'init': draw(), 'ycp': draw(), 'units': rng.choice([None, None, 'm', 'N*m'])})
    c['variant'] = method
    return c


RHS_POOL = [Fraction(0), Fraction(2), Fraction(-2), Fraction(4), Fraction(-8), Fraction(1, 2), Fraction(-1), Fraction(3),
            Fraction(-3, 2), Fraction(7, 4), Fraction(-5), Fraction(9, 4)]


def gen_multi(rng, k):
    """one EQConstraintComp / BalanceComp carrying 2-4 equations with a random mix and ORDER of use_mult /
    normalize (state shared between the equations of one component must not leak from one to the next)"""
    neq = rng.choice([2, 2, 3, 4])
    c = {'comp': k, 'eqs': [], 'ctor': rng.random() < 0.5, 'ulps': 0}
    x, mags = [], [Fraction(1)]
    pattern = [rng.random() < 0.5 for _ in range(neq)]
    if rng.random() < 0.5 and neq >= 2:
        pattern[0], pattern[-1] = True, False          # a multiplier first, none later
    for um in pattern:
        shape = rng.choice([[1], [2], [3], [2, 3], [3, 2], [2, 2], [2, 1, 2]])     # N-D shapes, mixed |rhs| per row
        N = prod(shape)
        eq = {'n': N, 'shape': shape, 'use_mult': um, 'normalize': rng.random() < 0.6,
              'mult_val': jq(rng.choice([Fraction(2), Fraction(-3), Fraction(1, 2), Fraction(5, 4)])),
              'rhs_val': jq(rng.choice(RHS_POOL))}
        lhs = [dy(rng) for _ in range(N)]
        rhs = [rng.choice(RHS_POOL) for _ in range(N)]
        mul = [rng.choice([Fraction(2), Fraction(-3), Fraction(1, 2), Fraction(5, 4), Fraction(-7, 4), Fraction(3)])
               for _ in range(N)] if um else []
        x += lhs + rhs + mul
        if eq['normalize']:
            c['ulps'] = 16
        mags.append(max(abs(m * l) + abs(r) + 1 for m, l, r in zip(mul or [Fraction(1)] * N, lhs, rhs)))
        c['eqs'].append(eq)
    c['x'] = [jq(v) for v in x]
    c['mag'] = jq(max(mags))
    c['variant'] = ''.join('m' if e['use_mult'] else '-' for e in c['eqs']) + (':ctor' if c['ctor'] else '')
    return c


def gen_linsys_hist(rng):
    vs, size = rng.choice([1, 2, 2, 3]), rng.choice([1, 2, 3])
    vecA = bool(vs > 1 and rng.random() < 0.5)
    nA = vs if vecA else 1
    c = {'comp': 'linsys_hist', 'vs': vs, 'size': size, 'vecA': vecA, 'steps': []}

    def mat():
        # strictly diagonally dominant: nonsingular and well conditioned
        M = [[Fraction(rng.randrange(-4, 5), rng.choice([1, 2])) for _ in range(size)] for _ in range(size)]
        for i in range(size):
            M[i][i] = (sum(abs(v) for k, v in enumerate(M[i]) if k != i) + rng.choice([1, 2, 3])) * rng.choice([-1, 1])
        return M
    for k in range(rng.choice([2, 2, 3])):
        prev = c['steps'][-1] if c['steps'] else None
        keepA = prev is not None and rng.random() < 0.2       # sometimes only b changes
        A = prev['A'] if keepA else [[[jq(v) for v in row] for row in mat()] for _ in range(nA)]
        b = [[jq(dy(rng)) for _ in range(size)] for _ in range(vs)]
        c['steps'].append({'A': A, 'b': b})
    return c


class C26(Spec):
    pid = 'C26'
    imports = ['Expr.Expr', 'C26.Model']
    impl_script = 'props/C26/impl.py'
    exactness = ('E3 (dyadic-exact) outputs and every dense jacobian entry of the polynomial components; '
                 'EQConstraint/Balance with normalisation and VectorMagnitude within 16 / 2 float roundings of the '
                 'exact rational value')
    shard = 60
    impl_jobs = 8
    rule = ('random option sets (vec_size, length, shapes, axis, scaling factors, normalize/use_mult, vectorize_A, '
            'construction path) x dyadic inputs per component; every case is a distinct (options, inputs) pair; '
            'for every distinct option set of a polynomial component a Coq goal "declared partial = symbolic '
            'derivative, for all real inputs" is generated and closed by field')

    def gen(self, tier, rng):
        n = 30 if tier == 'quick' else 600
        cases = []
        for k in ('addsub', 'mux', 'dotp', 'cross', 'matvec', 'vmag', 'eqc', 'balance', 'linsys'):
            for _ in range(n):
                c = gen_case(rng, k)
                if rng.random() < 0.3:
                    # history: the same Problem is first evaluated and linearized at other inputs
                    c['x_prev'] = gen_case(rng, k)['x'] if k == 'vmag' else [jq(dy(rng)) for _ in c['x']]
                    if len(c['x_prev']) != len(c['x']):
                        del c['x_prev']
                cases.append(c)
        # option sets outside the generic layout
        for _ in range(10 if tier == 'quick' else 60):
            cases.append({'comp': 'balance_rhs_kwargs', 'rhs': jq(dy(rng)), 'lhs': jq(dy(rng))})
            cases.append({'comp': 'self_product', 'which': 'dot', 'x': [jq(dy(rng)) for _ in range(rng.choice([1, 2, 3]))]})
            cases.append({'comp': 'self_product', 'which': 'cross', 'x': [jq(dy(rng)) for _ in range(3)]})
        cases += [gen_spline(rng) for _ in range(40 if tier == 'quick' else 500)]
        cases += [gen_linsys_hist(rng) for _ in range(30 if tier == 'quick' else 400)]
        for k in ('eqmulti', 'balmulti'):
            for _ in range(30 if tier == 'quick' else 400):
                c = gen_multi(rng, k)
                if rng.random() < 0.3:
                    c['x_prev'] = [jq(dy(rng)) for _ in c['x']]
                cases.append(c)
        return cases

    def search_gen(self, tier, rng):
        return self.gen(tier, rng)

    def compare_case(self, c, res):
        ok = res.get('res', '__none__') != '__none__'
        if ok:
            c['_res'] = res['res']
        return ok

    def got_term(self, c):
        r = c['_res']
        return '(check_inst (%d#1) %s %s %s %s %s %s)' % (
            c.get('ulps', 0), qlit(fr(c.get('mag', [0, 1]))), inst_term(c), qlist([fr(v) for v in c['x']]),
            qlist([fr(v['q']) for v in r['outs']]), nat(r['ncols']), qlist([fr(v['q']) for v in r['jac']]))

    def want_term(self, c, res):
        return '(VL [VB true; vzs []; vzs []])'


def symbolic_goals(cases, tier):
    """one Coq goal per distinct option set of a polynomial component: for ALL real inputs the declared dense
    partial equals the symbolic derivative of the output formula"""
    seen, goals = set(), []
    for c in cases:
        if c['comp'] not in POLY:
            continue
        t = inst_term(c)
        if t in seen:
            continue
        seen.add(t)
        ncols = len(c['x'])
        goals.append((ncols * ncols, c['comp'],
                      'Goal forall rho, Forall (fun p => evalR rho (fst p) = evalR rho (snd p)) (jac_goals %s %s).\n'
                      'Proof. intro rho. inst_goals. Qed.' % (t, nat(ncols))))
    if tier == 'quick':
        # a bounded number per component, smallest first
        goals.sort()
        per, out = {}, []
        for g in goals:
            # DotProduct / MatrixVectorProduct / Mux are proved for all sizes (C26_*_all_sizes): one sanity goal each
            if per.get(g[1], 0) < (1 if g[1] in ('dotp', 'matvec', 'mux') else 5):
                per[g[1]] = per.get(g[1], 0) + 1
                out.append(g)
        goals = out
    return [g[2] for g in goals]


def main(tier):
    import concurrent.futures as cf
    import random
    spec = C26()
    seed = core.seed_from_env()
    cases_preview = spec.gen(tier, random.Random(seed * 1000003 + sum(map(ord, spec.pid))))
    goals = symbolic_goals(cases_preview, tier)
    orig_gate = core.proof_gate

    def gate(pid, wd, *a, **kw):
        g = orig_gate(pid, wd, *a, **kw)
        if g['build_ok']:
            nchunks = max(1, min(core.NCPU, len(goals)))
            chunks = [goals[k::nchunks] for k in range(nchunks)]
            hdr = ('From Coq Require Import Reals QArith List.\nFrom OMV Require Import Expr.Expr Expr.ExprProofs '
                   'C26.Model C26.Proofs.\nImport ListNotations.\n')
            with cf.ThreadPoolExecutor(max_workers=nchunks) as ex:
                futs = [ex.submit(core.coq_script, wd, 'instgoals_%d.v' % k, hdr + '\n'.join(ch) + '\n', 1200)
                        for k, ch in enumerate(chunks) if ch]
                for k, fu in enumerate(futs):
                    rc, out = fu.result()
                    if rc != 0:
                        g['ok'] = False
                        g['broken'] = g.get('broken', []) + ['instance-goals:%s' % re.sub(r'\s+', ' ', out[-300:])]
            if g['ok']:
                g['props']['theorems'] += [{'name': 'instance_goal_%d' % k, 'axioms': [], 'disallowed': []}
                                           for k in range(len(goals))]
        return g
    core.proof_gate = gate
    try:
        return core.standard_check(spec, tier)
    finally:
        core.proof_gate = orig_gate
