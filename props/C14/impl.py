"""C14 implementation side: a real om.ExecComp inside a Problem (IndepVarComp -> ExecComp), run_model and
compute_totals, for a generated expression.  Oracle: outputs == the same source evaluated by NumPy
(bit-for-bit), partials == the exact derivative (independent forward-mode AD, 1e-9), off-diagonal entries of
elementwise jacobians exactly zero."""
import os
import sys
import warnings

from fractions import Fraction

import numpy as np
from implutil import main, q

sys.path.insert(0, os.path.dirname(os.path.abspath(__file__)))
import exprgen as G  # noqa: E402
G.CHK_MAG = False

warnings.simplefilter('ignore')
import openmdao.api as om  # noqa: E402

NPNS = {'exp': np.exp, 'log': np.log, 'log10': np.log10, 'log1p': np.log1p, 'expm1': np.expm1, 'sin': np.sin,
        'cos': np.cos, 'tan': np.tan, 'arcsin': np.arcsin, 'asin': np.arcsin, 'arccos': np.arccos,
        'acos': np.arccos, 'arctan': np.arctan, 'atan': np.arctan, 'sinh': np.sinh, 'cosh': np.cosh,
        'tanh': np.tanh, 'arcsinh': np.arcsinh, 'asinh': np.arcsinh, 'arccosh': np.arccosh, 'acosh': np.arccosh,
        'abs': np.abs, 'maximum': np.maximum, 'minimum': np.minimum, 'fmax': np.fmax, 'fmin': np.fmin,
        'power': np.power, 'sum': np.sum, 'pi': np.pi, 'e': np.e}


def envs(tree, vals, c, k):
    return [float(vals[G.VARS[j]].ravel()[k if vals[G.VARS[j]].size > 1 else 0]) if j in c['vars'] else 0.0
            for j in range(3)]


def _cs_abs(x):
    x = np.asarray(x)
    return x * np.where(np.real(x) != 0, np.sign(np.real(x)), np.sign(np.imag(x)))


CNS = dict(NPNS)
CNS['abs'] = _cs_abs


def detect_matrix(rhs, c, vals1, reduce_sum, n):
    """CLASSIFIES what the automatic coloring can have seen (it never decides pass/fail).

    Emulates, independently of the code under test, what ExecComp's sparsity sampling does at the first
    linearization point: ALL inputs are moved simultaneously to x + off * rand (off = 1e-9 * x, 1e-9 where x is
    exactly 0), the full jacobian is taken by complex step (h = 1e-40) in COMPLEX arithmetic (where e.g.
    log1p(2.5e-19 + 0j) is exactly 0), |J| is accumulated over 3 draws, scaled by its largest entry, and entries
    <= 1e-25 are dropped.  An entry counts as detectable only if it clears 1e-20 (five orders of margin: the
    random draws differ from ExecComp's) in each of 4 independent emulations.
    Returns one boolean array (nout x size) per variable, or None if the emulation itself fails."""
    h = 1e-40
    rs = np.random.RandomState(20260921)
    names = [G.VARS[j] for j in c['vars']]
    expr = ('sum(%s)' % rhs) if reduce_sum else rhs
    det = None
    try:
        for trial in range(4):
            acc = None
            for draw in range(3):
                base = {}
                for nm in names:
                    v = np.array(vals1[nm], dtype=float).ravel()
                    off = np.where(v == 0.0, 1.0, v) * 1e-9
                    base[nm] = (v + off * rs.rand(v.size)).astype(complex)
                blocks = []
                for nm in names:
                    cols = []
                    for m in range(base[nm].size):
                        ns = dict(CNS)
                        for nm2 in names:
                            arr = base[nm2].copy()
                            if nm2 == nm:
                                arr[m] += 1j * h
                            ns[nm2] = arr if arr.size > 1 else arr[0]
                        with np.errstate(all='ignore'):
                            out = np.atleast_1d(np.asarray(eval(expr, {'__builtins__': {}}, ns), dtype=complex)).ravel()
                        if out.size == 1 and n > 1 and not reduce_sum:
                            out = np.full(n, out[0])
                        cols.append(np.abs(np.imag(out) / h))
                    blocks.append(np.array(cols).T)          # nout x size
                if acc is None:
                    acc = [np.zeros_like(b_) for b_ in blocks]
                for a_, b_ in zip(acc, blocks):
                    a_ += np.where(np.isfinite(b_), b_, 0.0)
            big = max(float(np.max(a_)) for a_ in acc)
            if not big > 0:
                return [np.zeros_like(a_, dtype=bool) for a_ in acc]
            cur = [a_ / big > 1e-20 for a_ in acc]
            det = cur if det is None else [d_ & c_ for d_, c_ in zip(det, cur)]
        return det
    except Exception:
        return None


def handle_multi(c):
    """one ExecComp with several statements sharing array inputs; every output's partials against the exact
    derivative (forward-mode AD), structurally zero entries exactly zero"""
    trees, sums, cfg, n = c['trees'], c['sums'], c['config'], c['n']
    flat = c['points'][0]['flat']
    vals = {G.VARS[i]: np.array(flat[str(i)], dtype=float) for i in c['vars']}
    srcs = []
    for j, (t, sm) in enumerate(zip(trees, sums)):
        rhs = G.pysrc(t)
        srcs.append('y%d = %s' % (j, ('sum(%s)' % rhs) if sm else rhs))
    p = om.Problem()
    ivc = p.model.add_subsystem('ivc', om.IndepVarComp())
    kw = {}
    for nm, v in vals.items():
        ivc.add_output(nm, val=v.copy())
        kw[nm] = {'val': v.copy()}
    for j, sm in enumerate(sums):
        kw['y%d' % j] = {'val': np.zeros(1 if sm else n)}
    opts = {'do_coloring': False} if cfg == 'nocolor' else {}
    comp = om.ExecComp(srcs, **opts, **kw)
    p.model.add_subsystem('c', comp)
    for nm in vals:
        p.model.connect('ivc.' + nm, 'c.' + nm)
    p.setup()
    p.run_model()
    ofs = ['c.y%d' % j for j in range(len(trees))]
    J = p.compute_totals(of=ofs, wrt=['ivc.' + nm for nm in vals], return_format='dict')
    colored = comp._coloring_info.coloring is not None
    msgs, sig = [], ''

    def env_at(k):
        return [float(vals[G.VARS[j]][k if vals[G.VARS[j]].size > 1 else 0]) if j in c['vars'] else 0.0
                for j in range(3)]

    for j, (t, sm) in enumerate(zip(trees, sums)):
        y = np.array(p.get_val('c.y%d' % j), dtype=float).ravel()
        ns = dict(NPNS)
        ns.update({nm: (v if v.size > 1 else float(v[0])) for nm, v in vals.items()})
        rhs = G.pysrc(t)
        ref = np.atleast_1d(np.asarray(eval(('sum(%s)' % rhs) if sm else rhs, {'__builtins__': {}}, ns),
                                       dtype=float)).ravel()
        if sm and ref.size == 1 and not any(vals[G.VARS[i]].size > 1 for i in G.vars_used(t)):
            ref = ref           # sum of a scalar expression
        if ref.size == 1 and y.size > 1:
            ref = np.full(y.size, ref[0])
        if y.shape != ref.shape or not np.all(np.abs(y - ref) <= 1e-10 * np.maximum(1.0, np.abs(ref))):
            msgs.append('output y%d %r differs from NumPy evaluation %r of %s' % (j, y.tolist()[:4], ref.tolist()[:4],
                                                                                  srcs[j]))
            sig = sig or 'output'
        used = G.vars_used(t)
        nel = n if any(vals[G.VARS[i]].size > 1 for i in used) else 1      # elements the sum runs over
        for i in c['vars']:
            nm = G.VARS[i]
            Ji = np.array(J['c.y%d' % j]['ivc.' + nm], dtype=float).reshape(y.size, vals[nm].size)
            for k in range(y.size):
                for l in range(vals[nm].size):
                    if i not in used:
                        want = None
                    elif sm:
                        if vals[nm].size > 1:
                            want = G.ev(t, env_at(l), i, margin=False).d
                        else:
                            want = sum(G.ev(t, env_at(kk), i, margin=False).d for kk in range(nel))
                    elif vals[nm].size > 1 and k != l:
                        want = None
                    else:
                        want = G.ev(t, env_at(k), i, margin=False).d
                    got = Ji[k, l]
                    if want is None:
                        if got != 0.0:
                            msgs.append('d y%d[%d] / d %s[%d] = %r, must be exactly 0 (%s; config %s, colored=%s)' % (
                                j, k, nm, l, got, ' ; '.join(srcs), cfg, colored))
                            sig = sig or 'multi-structural-zero'
                    elif not (abs(got - want) <= 1e-9 * max(1.0, abs(want))):
                        msgs.append('d y%d[%d] / d %s[%d] = %r, exact derivative %r (%s; config %s, colored=%s)' % (
                            j, k, nm, l, got, want, ' ; '.join(srcs), cfg, colored))
                        sig = sig or 'multi-partial'
    return {'res': '__none__', 'ok': not msgs, 'msg': '; '.join(msgs[:3]), 'sig': sig,
            'kind': 'multi%d:%s%s%s' % (len(trees), cfg, ':colored' if colored else ':notcolored',
                                        ':sum' if any(sums) else ''), 'src': ' ; '.join(srcs)}


def handle_relin(c):
    """run_model at p0; then for every later point: set the inputs, compute_totals WITHOUT running the model
    again.  The partials must be the exact derivatives at the current inputs."""
    trees, cfg, n = c['trees'], c['config'], c['n']
    fac = bool(c.get('force_alloc_complex'))
    srcs = ['y%d = %s' % (j, G.pysrc(t)) for j, t in enumerate(trees)]

    def pvals(pt):
        return {G.VARS[i]: np.array(pt['flat'][str(i)], dtype=float) for i in c['vars']}

    vals0 = pvals(c['points'][0])
    kw = {nm: {'val': v.copy()} for nm, v in vals0.items()}
    for j in range(len(trees)):
        kw['y%d' % j] = {'val': np.zeros(n)}
    opts = {}
    if cfg == 'diag':
        opts['has_diag_partials'] = True
    if cfg == 'nocolor':
        opts['do_coloring'] = False
    p = om.Problem()
    comp = om.ExecComp(srcs, **opts, **kw)
    p.model.add_subsystem('c', comp)        # inputs unconnected (auto_ivc): set_val('c.x') changes them directly
    p.setup(force_alloc_complex=fac)
    for nm, v in vals0.items():
        p.set_val('c.' + nm, v)
    p.run_model()
    ofs = ['c.y%d' % j for j in range(len(trees))]
    wrt = ['c.' + nm for nm in vals0]
    msgs, sig = [], ''
    colored = False
    stepchg = False
    for ip, pt in enumerate(c['points']):
        vals = pvals(pt)
        if ip > 0:
            for nm, v in vals.items():
                p.set_val('c.' + nm, v)      # no run_model
            hs = (c.get('cs_steps') or [None] * len(c['points']))[ip]
            if hs is not None:
                comp.complex_stepsize = float(hs)      # public attribute; partials must not depend on it
                stepchg = True
        J = p.compute_totals(of=ofs, wrt=wrt, return_format='dict')
        colored = colored or comp._coloring_info.coloring is not None

        def env_at(k):
            return [float(vals[G.VARS[j]][k if vals[G.VARS[j]].size > 1 else 0]) if j in c['vars'] else 0.0
                    for j in range(3)]
        for j, t in enumerate(trees):
            used = G.vars_used(t)
            for i in c['vars']:
                nm = G.VARS[i]
                Ji = np.array(J['c.y%d' % j]['c.' + nm], dtype=float).reshape(n, vals[nm].size)
                for k in range(n):
                    for l in range(vals[nm].size):
                        if i not in used or (vals[nm].size > 1 and k != l):
                            want = None
                        else:
                            want = G.ev(t, env_at(k), i, margin=False).d
                        got = Ji[k, l]
                        if want is None:
                            if got != 0.0:
                                msgs.append('step %d: d y%d[%d] / d %s[%d] = %r, must be exactly 0' % (ip, j, k, nm, l, got))
                                sig = sig or 'relin-structural-zero'
                        elif not (abs(got - want) <= 1e-9 * max(1.0, abs(want))):
                            at_prev = ''
                            if ip > 0:
                                prev = pvals(c['points'][ip - 1])
                                envp = [float(prev[G.VARS[j2]][k if prev[G.VARS[j2]].size > 1 else 0])
                                        if j2 in c['vars'] else 0.0 for j2 in range(3)]
                                dprev = G.ev(t, envp, i, margin=False).d
                                if abs(got - dprev) <= 1e-9 * max(1.0, abs(dprev)):
                                    at_prev = ' (= the derivative at the PREVIOUS inputs: stale)'
                            msgs.append('step %d (%s): d y%d[%d] / d %s[%d] = %r, exact derivative at the current '
                                        'inputs %r%s (%s; %s=%r; config %s, force_alloc_complex=%s)' % (
                                            ip, 'after run_model' if ip == 0 else 'inputs changed, no run_model',
                                            j, k, nm, l, got, want, at_prev, ' ; '.join(srcs), nm, vals[nm].tolist(),
                                            cfg, fac) + (' [complex_stepsize changed to %r before this step]'
                                                         % comp.complex_stepsize if stepchg else ''))
                            sig = sig or ('partial' if ip == 0 else
                                          ('partial-after-stepsize-change' if stepchg and not at_prev
                                           else 'partial-at-stale-inputs'))
    # finally re-run: outputs at the last inputs
    p.run_model()
    vals = pvals(c['points'][-1])
    for j, t in enumerate(trees):
        y = np.array(p.get_val('c.y%d' % j), dtype=float).ravel()
        ns = dict(NPNS)
        ns.update({nm: (v if v.size > 1 else float(v[0])) for nm, v in vals.items()})
        ref = np.atleast_1d(np.asarray(eval(G.pysrc(t), {'__builtins__': {}}, ns), dtype=float)).ravel()
        if ref.size == 1 and y.size > 1:
            ref = np.full(y.size, ref[0])
        if y.shape != ref.shape or not np.all(np.abs(y - ref) <= 1e-10 * np.maximum(1.0, np.abs(ref))):
            msgs.append('output y%d %r differs from NumPy evaluation %r' % (j, y.tolist()[:4], ref.tolist()[:4]))
            sig = sig or 'output'
    return {'res': '__none__', 'ok': not msgs, 'msg': '; '.join(msgs[:3]), 'sig': sig,
            'kind': 'relin%d:%s:%s%s%s:steps%d' % (len(trees), cfg, 'arr' if n > 1 else 'scalar',
                                                 ':fac' if fac else '',
                                                 (':colored' if colored else '') + (':hchg' if stepchg else ''),
                                                 len(c['points']) - 1),
            'src': ' ; '.join(srcs)}


def handle(c):
    if c.get('multi'):
        return handle_multi(c)
    if c.get('relin'):
        return handle_relin(c)
    tree, cfg = c['tree'], c['config']
    names = [G.VARS[i] for i in c['vars']]
    shape = tuple(c['shape'])
    n = int(np.prod(shape)) if shape else 1
    reduce_sum = bool(c.get('sum'))
    rhs = G.pysrc(tree)
    src = 'y = sum(%s)' % rhs if reduce_sum else 'y = %s' % rhs
    inscalar = set(c.get('inscalar', []))
    yscalar = bool(c.get('yscalar'))

    def point_vals(pt):
        vals = {}
        for i in c['vars']:
            v = np.array(pt['inputs'][str(i)], dtype=float)
            if i in inscalar:
                v = v.reshape(())          # a true scalar, shape ()
            vals[G.VARS[i]] = v
        return vals

    vals0 = point_vals(c['points'][0])
    p = om.Problem()
    ivc = p.model.add_subsystem('ivc', om.IndepVarComp())
    for nm, v in vals0.items():
        ivc.add_output(nm, val=v.copy())
    kw = {}
    opts = {}
    if cfg == 'diag':
        opts['has_diag_partials'] = True
    if cfg == 'nocolor':
        opts['do_coloring'] = False
    yshape = (1,) if (reduce_sum or n == 1) else shape
    if cfg == 'shape_by_conn':
        for nm, v in vals0.items():
            kw[nm] = {'shape_by_conn': True}
        first_arr = [nm for nm, v in vals0.items() if v.size > 1]
        if first_arr and not reduce_sum:
            kw['y'] = {'copy_shape': first_arr[0]}
        else:
            kw['y'] = {'val': np.zeros(yshape)}
    else:
        for i, (nm, v) in zip(c['vars'], vals0.items()):
            kw[nm] = {'shape': ()} if i in inscalar else {'val': v.copy()}
        kw['y'] = {'shape': ()} if yscalar else {'val': np.zeros(yshape)}
    comp = om.ExecComp(src, **opts, **kw)
    if c.get('poly'):
        # power-of-two step: on dyadic data the complex arithmetic is then exact (see check.py, exact tie)
        comp.complex_stepsize = 2.0 ** -133
    p.model.add_subsystem('c', comp)
    for nm in vals0:
        p.model.connect('ivc.' + nm, 'c.' + nm)
    p.setup()

    msgs, sig = [], ''
    res_all = []
    colored = False
    bad_entries = []
    nonzero_later = []          # entries with a non-zero exact derivative at a later point
    for ip, pt in enumerate(c['points']):
        vals = point_vals(pt)
        for nm, v in vals.items():
            p.set_val('ivc.' + nm, v)
        p.run_model()
        y = np.array(p.get_val('c.y'), dtype=float).ravel()
        wrt = ['ivc.' + nm for nm in vals]
        J = p.compute_totals(of=['c.y'], wrt=wrt, return_format='dict')['c.y']
        colored = colored or comp._coloring_info.coloring is not None
        tag = 'point %d/%d: ' % (ip + 1, len(c['points']))

        # (1) outputs == NumPy evaluation of the same source
        ns = dict(NPNS)
        ns.update({nm: (v.ravel() if v.size > 1 else float(v.reshape(-1)[0])) for nm, v in vals.items()})
        ref = np.atleast_1d(np.asarray(eval(('sum(%s)' % rhs) if reduce_sum else rhs, {'__builtins__': {}}, ns),
                                       dtype=float)).ravel()
        if ref.size == 1 and y.size > 1:
            ref = np.full(y.size, ref[0])
        # ExecComp evaluates in complex arithmetic (its complex-step arrays) and returns the real part, so the
        # last bits can differ from the real NumPy evaluation (complex division / cosh ...), amplified by the conditioning of the expression: 1e-10 relative
        if y.shape != ref.shape or not np.all(np.abs(y - ref) <= 1e-10 * np.maximum(1.0, np.abs(ref))):
            k = int(np.argmax(y != ref)) if y.shape == ref.shape else 0
            msgs.append(tag + 'output %r differs from NumPy evaluation %r (element %d) of %s' % (
                y.tolist()[:4], ref.tolist()[:4], k, src))
            sig = sig or 'output'
        # (2) partials == exact derivative
        nout = y.size
        Jq = {}
        for i, nm in zip(c['vars'], names):
            Ji = np.array(J['ivc.' + nm], dtype=float).reshape(nout, vals[nm].size)
            Jq[str(i)] = [[q(float(t)) for t in row] for row in Ji]
            for k in range(nout):
                for l in range(vals[nm].size):
                    if reduce_sum:
                        if vals[nm].size > 1:
                            want = G.ev(tree, envs(tree, vals, c, l), i, margin=False).d
                        else:
                            want = sum(G.ev(tree, envs(tree, vals, c, kk), i, margin=False).d for kk in range(n))
                    elif vals[nm].size > 1 and k != l:
                        want = None        # structurally zero
                    else:
                        want = G.ev(tree, envs(tree, vals, c, k), i, margin=False).d
                    got = Ji[k, l]
                    if ip > 0 and want is not None and want != 0.0:
                        nonzero_later.append((i, k, l))
                    if want is None:
                        if got != 0.0:
                            msgs.append(tag + 'd y[%d] / d %s[%d] = %r, must be exactly 0' % (k, nm, l, got))
                            sig = sig or 'offdiag'
                    elif c.get('poly') and not reduce_sum and Fraction(float(got)) != G.evq(
                            tree, [Fraction(t_) for t_ in envs(tree, vals, c, k)], i)[1]:
                        msgs.append(tag + 'd y[%d] / d %s[%d] = %r is not the exact rational derivative %s of the '
                                    'polynomial %s on dyadic data (step 2^-133)' % (
                                        k, nm, l, got, G.evq(tree, [Fraction(t_) for t_ in envs(tree, vals, c, k)],
                                                             i)[1], src))
                        bad_entries.append((ip, i, k, l, got, want))
                    elif not (abs(got - want) <= 1e-9 * max(1.0, abs(want))):
                        msgs.append(tag + 'd y[%d] / d %s[%d] = %r, exact derivative %r (%s, config %s, %s=%r)' % (
                            k, nm, l, got, want, src, cfg, nm, vals[nm].tolist()))
                        bad_entries.append((ip, i, k, l, got, want))
        res_all.append({'y': [q(float(t)) for t in y], 'J': Jq})
    if bad_entries:
        if not colored or all(ip == 0 for ip, *_ in bad_entries):
            sig = sig or 'partial'
        else:
            # The automatic coloring fixed its sparsity at point 1.  If some entry that is non-zero at a later
            # point could not be seen there (FINDINGS.md F1), the stale pattern corrupts that entry AND the
            # entries sharing its colour: every partial mismatch of this case is attributed to F1.  If every
            # such entry was detectable at point 1, a lost entry is a different failure.
            det = detect_matrix(rhs, c, point_vals(c['points'][0]), reduce_sum, n)
            order = {v_: j_ for j_, v_ in enumerate(c['vars'])}
            stale = det is None or any(not det[order[i_]][k_, l_] for (i_, k_, l_) in nonzero_later)
            if stale:
                sig = sig or 'coloring-sparsity-zero-at-sampling-point'
                msgs[-1] += (' [the automatic coloring computed its sparsity at point 1, where a derivative that '
                             'is non-zero later vanishes to high order or lies on a locally constant branch]')
            elif all(g_ == 0.0 for (_ip, _i, _k, _l, g_, _w) in bad_entries):
                sig = sig or 'coloring-lost-detectable-entry'
            else:
                sig = sig or 'partial'
    return {'res': res_all, 'ok': not msgs, 'msg': '; '.join(msgs[:3]), 'sig': sig,
            'kind': '%s:%s%s%s%s%s:pts%d' % (cfg, 'arr' if n > 1 else 'scalar', ':sum' if reduce_sum else '',
                                          ':colored' if colored else '', ':y()' if yscalar else '',
                                          ':in()' if inscalar else '', len(c['points'])) + (':poly-exact' if c.get('poly') else ''),
            'src': src}


if __name__ == '__main__':
    main(handle)
