"""Expression trees for C14: generation, Python source, Coq term, float/dual evaluation.

Tree nodes (JSON lists):  ['var', i] ['cst', num, den] ['pi'] ['e'] ['neg', a] ['add', a, b] ['sub', a, b]
['mul', a, b] ['div', a, b] ['powi', a, n] ['powr', a, b] ['call', name, a] ['call2', name, a, b]"""
import math
from fractions import Fraction

VARS = ['a', 'b', 'c']

# name -> (Coq constructor applied through the generated table GenFuncs.v, arity)
UNARY = ['exp', 'log', 'log10', 'log1p', 'expm1', 'sin', 'cos', 'tan', 'arcsin', 'asin', 'arccos', 'acos',
         'arctan', 'atan', 'sinh', 'cosh', 'tanh', 'arcsinh', 'asinh', 'arccosh', 'acosh', 'abs']
BINARY = ['maximum', 'minimum', 'fmax', 'fmin']


class Reject(Exception):
    pass


class Dual(object):
    """forward-mode AD number (value, derivative) with the domain margins of the generator"""
    __slots__ = ('v', 'd')

    def __init__(self, v, d=0.0):
        self.v, self.d = float(v), float(d)


CHK_MAG = True      # the generator bounds magnitudes (conditioning); the oracle (impl.py) switches this off


def _chk(x):
    if not CHK_MAG:
        return x
    if not (math.isfinite(x.v) and math.isfinite(x.d)) or abs(x.v) > 1e3 or abs(x.d) > 1e5:
        raise Reject('magnitude')
    return x


def ev(t, env, wrt, margin=True):
    """dual-number evaluation; env: list of floats; wrt: index of the variable differentiated (or None)"""
    m = 1.0 if margin else 0.0
    k = t[0]
    if k == 'var':
        return Dual(env[t[1]], 1.0 if t[1] == wrt else 0.0)
    if k == 'cst':
        return Dual(t[1] / t[2])
    if k == 'pi':
        return Dual(math.pi)
    if k == 'e':
        return Dual(math.e)
    if k == 'neg':
        a = ev(t[1], env, wrt, margin)
        return Dual(-a.v, -a.d)
    if k in ('add', 'sub', 'mul', 'div'):
        a, b = ev(t[1], env, wrt, margin), ev(t[2], env, wrt, margin)
        if k == 'add':
            return _chk(Dual(a.v + b.v, a.d + b.d))
        if k == 'sub':
            return _chk(Dual(a.v - b.v, a.d - b.d))
        if k == 'mul':
            return _chk(Dual(a.v * b.v, a.d * b.v + a.v * b.d))
        if abs(b.v) < 0.05 * m or b.v == 0:
            raise Reject('div')
        return _chk(Dual(a.v / b.v, (a.d * b.v - a.v * b.d) / (b.v * b.v)))
    if k == 'powi':
        a, n = ev(t[1], env, wrt, margin), t[2]
        if n < 0 and (abs(a.v) < 0.05 * m or a.v == 0):
            raise Reject('powi')
        if n == 0:
            return Dual(1.0, 0.0)
        return _chk(Dual(a.v ** n, n * a.v ** (n - 1) * a.d))
    if k == 'powr':
        a, b = ev(t[1], env, wrt, margin), ev(t[2], env, wrt, margin)
        if a.v < 0.05 * m or a.v <= 0:
            raise Reject('powr')
        v = a.v ** b.v
        return _chk(Dual(v, v * (b.d * math.log(a.v) + b.v * a.d / a.v)))
    if k == 'call':
        f, a = t[1], ev(t[2], env, wrt, margin)
        x = a.v
        if f == 'exp':
            if x > 9:
                raise Reject('exp')
            r = (math.exp(x), math.exp(x))
        elif f == 'log':
            if x < 0.05 * m or x <= 0:
                raise Reject('log')
            r = (math.log(x), 1 / x)
        elif f == 'log10':
            if x < 0.05 * m or x <= 0:
                raise Reject('log')
            r = (math.log10(x), 1 / (x * math.log(10)))
        elif f == 'log1p':
            if 1 + x < 0.05 * m or 1 + x <= 0:
                raise Reject('log')
            r = (math.log1p(x), 1 / (1 + x))
        elif f == 'expm1':
            if x > 9:
                raise Reject('exp')
            r = (math.expm1(x), math.exp(x))
        elif f == 'sin':
            r = (math.sin(x), math.cos(x))
        elif f == 'cos':
            r = (math.cos(x), -math.sin(x))
        elif f == 'tan':
            if abs(math.cos(x)) < 0.05 * m or math.cos(x) == 0:
                raise Reject('tan')
            r = (math.tan(x), 1 + math.tan(x) ** 2)
        elif f in ('arcsin', 'asin'):
            if abs(x) > 1 - 0.05 * m or abs(x) >= 1:
                raise Reject('asin')
            r = (math.asin(x), 1 / math.sqrt(1 - x * x))
        elif f in ('arccos', 'acos'):
            if abs(x) > 1 - 0.05 * m or abs(x) >= 1:
                raise Reject('acos')
            r = (math.acos(x), -1 / math.sqrt(1 - x * x))
        elif f in ('arctan', 'atan'):
            r = (math.atan(x), 1 / (1 + x * x))
        elif f == 'sinh':
            if abs(x) > 9:
                raise Reject('sinh')
            r = (math.sinh(x), math.cosh(x))
        elif f == 'cosh':
            if abs(x) > 9:
                raise Reject('cosh')
            r = (math.cosh(x), math.sinh(x))
        elif f == 'tanh':
            r = (math.tanh(x), 1 - math.tanh(x) ** 2)
        elif f in ('arcsinh', 'asinh'):
            r = (math.asinh(x), 1 / math.sqrt(x * x + 1))
        elif f in ('arccosh', 'acosh'):
            if x < 1 + 0.05 * m or x <= 1:
                raise Reject('acosh')
            r = (math.acosh(x), 1 / math.sqrt(x * x - 1))
        elif f == 'abs':
            if abs(x) < 1e-3 * m or x == 0:
                raise Reject('abs-kink')
            r = (abs(x), 1.0 if x > 0 else -1.0)
        else:
            raise ValueError(f)
        return _chk(Dual(r[0], r[1] * a.d))
    if k == 'call2':
        f, a, b = t[1], ev(t[2], env, wrt, margin), ev(t[3], env, wrt, margin)
        if abs(a.v - b.v) < 1e-3 * m or a.v == b.v:
            raise Reject('max-tie')
        big = f in ('maximum', 'fmax')
        pick = a if (a.v > b.v) == big else b
        return Dual(pick.v, pick.d)
    raise ValueError(k)


def pysrc(t):
    k = t[0]
    if k == 'var':
        return VARS[t[1]]
    if k == 'cst':
        fr = Fraction(t[1], t[2])
        s = repr(float(fr))
        return '(%s)' % s if fr < 0 else s
    if k == 'pi':
        return 'pi'
    if k == 'e':
        return 'e'
    if k == 'neg':
        return '(-%s)' % pysrc(t[1])
    if k in ('add', 'sub', 'mul', 'div'):
        return '(%s %s %s)' % (pysrc(t[1]), {'add': '+', 'sub': '-', 'mul': '*', 'div': '/'}[k], pysrc(t[2]))
    if k == 'powi':
        return '(%s ** %s)' % (pysrc(t[1]), ('(%d)' % t[2]) if t[2] < 0 else str(t[2]))
    if k == 'powr':
        if t[-1] == 'fn':
            return 'power(%s, %s)' % (pysrc(t[1]), pysrc(t[2]))
        return '(%s ** %s)' % (pysrc(t[1]), pysrc(t[2]))
    if k == 'call':
        return '%s(%s)' % (t[1], pysrc(t[2]))
    if k == 'call2':
        return '%s(%s, %s)' % (t[1], pysrc(t[2]), pysrc(t[3]))
    raise ValueError(k)


def coq(t):
    k = t[0]
    if k == 'var':
        return '(EVar %d)' % t[1]
    if k == 'cst':
        fr = Fraction(t[1], t[2])
        return '(ECst ((%d) # %d))' % (fr.numerator, fr.denominator)
    if k == 'pi':
        return 'fn_pi'
    if k == 'e':
        return 'fn_e'
    if k == 'neg':
        return '(ENeg %s)' % coq(t[1])
    if k in ('add', 'sub', 'mul', 'div'):
        return '(E%s %s %s)' % (k.capitalize(), coq(t[1]), coq(t[2]))
    if k == 'powi':
        return '(EPow %s (%d))' % (coq(t[1]), t[2])
    if k == 'powr':
        return '(fn_power %s %s)' % (coq(t[1]), coq(t[2]))
    if k == 'call':
        return '(fn_%s %s)' % (t[1], coq(t[2]))
    if k == 'call2':
        return '(fn_%s %s %s)' % (t[1], coq(t[2]), coq(t[3]))
    raise ValueError(k)


def names_used(t, acc=None):
    acc = set() if acc is None else acc
    if t[0] in ('call', 'call2'):
        acc.add(t[1])
    if t[0] == 'powr' and t[-1] == 'fn':
        acc.add('power')
    if t[0] in ('pi', 'e'):
        acc.add(t[0])
    for s in t[1:]:
        if isinstance(s, list):
            names_used(s, acc)
    return acc


def vars_used(t, acc=None):
    acc = set() if acc is None else acc
    if t[0] == 'var':
        acc.add(t[1])
    for s in t[1:]:
        if isinstance(s, list):
            vars_used(s, acc)
    return acc


def dy_const(rng):
    """floats that are exactly representable with a short repr"""
    return rng.choice([rng.randint(-12, 12) / 4.0, rng.randint(1, 9) / 2.0, 2.0, 0.5, 3.0, 1.5, -1.0, 10.0])


def gen_tree(rng, depth, nvars):
    if depth == 0 or rng.random() < 0.15:
        r = rng.random()
        if r < 0.6:
            return ['var', rng.randrange(nvars)]
        if r < 0.9:
            fr = Fraction(dy_const(rng))
            return ['cst', fr.numerator, fr.denominator]
        return [rng.choice(['pi', 'e'])]
    r = rng.random()
    sub = lambda: gen_tree(rng, depth - 1, nvars)
    if r < 0.40:
        return [rng.choice(['add', 'sub', 'mul', 'mul', 'div']), sub(), sub()]
    if r < 0.45:
        return ['neg', sub()]
    if r < 0.55:
        return ['powi', sub(), rng.choice([2, 2, 3, -1, -2, 0, 1, 4])]
    if r < 0.62:
        ex = rng.choice([['cst', 1, 2], ['cst', 3, 2], ['cst', -1, 2], sub()])
        return ['powr', sub(), ex, rng.choice(['op', 'fn'])]
    if r < 0.93:
        return ['call', rng.choice(UNARY), sub()]
    return ['call2', rng.choice(BINARY), sub(), sub()]


def depth_of(t):
    return 1 + max([depth_of(s) for s in t[1:] if isinstance(s, list)] or [0])


# ------------------------------------------------------------------ polynomial fragment, exact rational duals

def gen_poly(rng, depth, nvars):
    if depth == 0 or rng.random() < 0.2:
        if rng.random() < 0.7:
            return ['var', rng.randrange(nvars)]
        fr = Fraction(rng.choice([k for k in range(-12, 13) if k]), 4)
        return ['cst', fr.numerator, fr.denominator]
    r = rng.random()
    sub = lambda: gen_poly(rng, depth - 1, nvars)
    if r < 0.55:
        return [rng.choice(['add', 'sub', 'mul', 'mul']), sub(), sub()]
    if r < 0.62:
        return ['neg', sub()]
    if r < 0.85:
        return ['powi', sub(), rng.choice([2, 2, 3, 1])]
    c = rng.choice([2, 4, Fraction(1, 2)])
    c = Fraction(c)
    return ['div', sub(), ['cst', c.numerator, c.denominator]]


def evq(t, env, wrt):
    """exact dual number (value, derivative) in Fractions; raises Reject when an intermediate real value is 0
    (then binary64 complex arithmetic with a tiny step is no longer the exact dual-number arithmetic) or when
    the numbers no longer fit comfortably in a double"""
    k = t[0]
    if k == 'var':
        r = (Fraction(env[t[1]]), Fraction(1 if t[1] == wrt else 0))
    elif k == 'cst':
        r = (Fraction(t[1], t[2]), Fraction(0))
    elif k == 'neg':
        a = evq(t[1], env, wrt)
        r = (-a[0], -a[1])
    elif k in ('add', 'sub', 'mul', 'div'):
        a, b = evq(t[1], env, wrt), evq(t[2], env, wrt)
        if k == 'add':
            r = (a[0] + b[0], a[1] + b[1])
        elif k == 'sub':
            r = (a[0] - b[0], a[1] - b[1])
        elif k == 'mul':
            r = (a[0] * b[0], a[1] * b[0] + a[0] * b[1])
        else:
            r = (a[0] / b[0], (a[1] * b[0] - a[0] * b[1]) / (b[0] * b[0]))
    elif k == 'powi':
        a, n = evq(t[1], env, wrt), t[2]
        r = (a[0] ** n, n * a[0] ** (n - 1) * a[1])
    else:
        raise Reject('not polynomial')
    for x in r:
        if x.numerator.bit_length() > 40 or x.denominator.bit_length() > 30 or \
                x.denominator & (x.denominator - 1):
            raise Reject('size')
    if r[0] == 0:
        raise Reject('zero intermediate')
    return r
