"""C14 — ExecComp evaluates its expressions and their exact partials.

  translate : exec_comp.py's _expr_dict is re-read with `ast` on every run (fail closed) and
              coq/C14/GenFuncs.v is regenerated: one definition fn_<name> per supported name with a lemma
              tying it to the Coq real function; names without a counterpart are excluded from the claim and
              listed in the evidence; an unknown name breaks the tie.
  proofs    : Expr.D_correct + C14/Proofs.v (array lifting, diagonal jacobian, has_diag_partials, sum).
  tie       : random well-defined expressions over the table -> real ExecComp (4 configurations) ->
              outputs vs evalR e and partials vs evalR (D e) as interval-checked goals, smoothness of the
              expression at the point as a goal too.
  oracle    : impl.py (NumPy evaluation bit-for-bit, independent forward-mode AD)."""
import ast
import concurrent.futures as cf
import json
import os
import random
import re
import sys
from fractions import Fraction

import core
from core import Verdict, proof_gate, run_impl, coq_script, workdir, seed_from_env, write_if_changed

sys.path.insert(0, os.path.dirname(os.path.abspath(__file__)))
import exprgen as G  # noqa: E402

PID = 'C14'
IMPL = 'props/C14/impl.py'
TOL = Fraction(1, 10**9)
HEADER = '''From Coq Require Import Reals QArith Qreals ZArith List Lra Lia.
From Interval Require Import Tactic.
From OMV Require Import Expr.Expr Expr.ExprProofs C14.GenFuncs.
Import ListNotations.
Open Scope R_scope.
(* Interval evaluates tan only inside (-PI/2, PI/2): expose it as sin / cos *)
Ltac c14_close := unfold_fns; expr_reduce; unfold tan; first [ interval | interval with (i_prec 100) ].
Ltac c14_dom :=
  unfold_fns; expr_reduce; unfold tan;
  repeat match goal with
  | |- _ /\ _ => split
  | |- True => exact I
  | |- (0 <= _)%Z \/ _ => first [ left; lia | right ]
  end;
  try match goal with
  | |- _ <> _ => first [ apply Rgt_not_eq; interval | apply Rlt_not_eq; interval ]
  | |- _ => interval
  end.
'''

# ------------------------------------------------------------------ translator (fail closed)

R1 = 'forall rho a, evalR rho (%s a) = %s (evalR rho a)'
SUPPORTED = {
    # name: (origin, arity, body, statement, proof)
    'exp': ('np', 1, 'EExp a', R1 % ('fn_exp', 'exp'), 'reflexivity'),
    'log': ('np', 1, 'ELn a', R1 % ('fn_log', 'ln'), 'reflexivity'),
    'log10': ('np', 1, 'e_log10 a', 'forall rho a, evalR rho (fn_log10 a) = ln (evalR rho a) / ln 10',
              'intros; apply e_log10_correct'),
    'log1p': ('np', 1, 'e_log1p a', 'forall rho a, evalR rho (fn_log1p a) = ln (1 + evalR rho a)',
              'intros; apply e_log1p_correct'),
    'expm1': ('np', 1, 'e_expm1 a', 'forall rho a, evalR rho (fn_expm1 a) = exp (evalR rho a) - 1',
              'intros; apply e_expm1_correct'),
    'sin': ('np', 1, 'ESin a', R1 % ('fn_sin', 'sin'), 'reflexivity'),
    'cos': ('np', 1, 'ECos a', R1 % ('fn_cos', 'cos'), 'reflexivity'),
    'tan': ('np', 1, 'ETan a', R1 % ('fn_tan', 'tan'), 'reflexivity'),
    'arcsin': ('np', 1, 'e_asin a',
               'forall rho a, -1 < evalR rho a < 1 -> evalR rho (fn_arcsin a) = asin (evalR rho a)',
               'intros; now apply e_asin_correct'),
    'arccos': ('np', 1, 'e_acos a',
               'forall rho a, -1 < evalR rho a < 1 -> evalR rho (fn_arccos a) = acos (evalR rho a)',
               'intros; now apply e_acos_correct'),
    'arctan': ('np', 1, 'EAtan a', R1 % ('fn_arctan', 'atan'), 'reflexivity'),
    'sinh': ('np', 1, 'e_sinh a', R1 % ('fn_sinh', 'sinh'), 'intros; apply e_sinh_correct'),
    'cosh': ('np', 1, 'e_cosh a', R1 % ('fn_cosh', 'cosh'), 'intros; apply e_cosh_correct'),
    'tanh': ('np', 1, 'ETanh a', R1 % ('fn_tanh', 'tanh'), 'reflexivity'),
    'arcsinh': ('np', 1, 'e_asinh a', R1 % ('fn_arcsinh', 'arcsinh'),
                'intros; unfold fn_arcsinh, e_asinh, arcsinh; cbn [evalR]; '
                'change (powerRZ (evalR rho a) 2) with (evalR rho a ^ 2); '
                'replace (Q2R 1) with 1 by (unfold Q2R; simpl; field); reflexivity'),
    'arccosh': ('np', 1, 'e_acosh a',
                'forall rho a, evalR rho (fn_arccosh a) = ln (evalR rho a + sqrt (evalR rho a ^ 2 - 1))',
                'intros; unfold fn_arccosh, e_acosh; cbn [evalR]; '
                'change (powerRZ (evalR rho a) 2) with (evalR rho a ^ 2); '
                'replace (Q2R 1) with 1 by (unfold Q2R; simpl; field); reflexivity'),
    'abs': ('cs_safe.abs', 1, 'EAbs a', R1 % ('fn_abs', 'Rabs'), 'reflexivity'),
    'power': ('np', 2, 'e_rpow a b',
              'forall rho a b, evalR rho (fn_power a b) = Rpower (evalR rho a) (evalR rho b)', 'reflexivity'),
    'maximum': ('np', 2, 'e_max a b',
                'forall rho a b, evalR rho (fn_maximum a b) = Rmax (evalR rho a) (evalR rho b)',
                'intros; apply e_max_correct'),
    'minimum': ('np', 2, 'e_min a b',
                'forall rho a b, evalR rho (fn_minimum a b) = Rmin (evalR rho a) (evalR rho b)',
                'intros; apply e_min_correct'),
    'fmax': ('np', 2, 'e_max a b', 'forall rho a b, evalR rho (fn_fmax a b) = Rmax (evalR rho a) (evalR rho b)',
             'intros; apply e_max_correct'),
    'fmin': ('np', 2, 'e_min a b', 'forall rho a b, evalR rho (fn_fmin a b) = Rmin (evalR rho a) (evalR rho b)',
             'intros; apply e_min_correct'),
    'pi': ('np', 0, 'EPi', 'forall rho, evalR rho fn_pi = PI', 'reflexivity'),
    'e': ('np', 0, 'e_e', 'forall rho, evalR rho fn_e = exp 1',
          'intros; unfold fn_e, e_e; cbn [evalR]; f_equal; unfold Q2R; simpl; field'),
    'sum': ('np', -1, None, None, None),      # reduction: modelled by C14.Model.exec_sum
}
ALIASES = {'asin': 'arcsin', 'acos': 'arccos', 'atan': 'arctan', 'asinh': 'arcsinh', 'acosh': 'arccosh'}
EXCLUDED = {
    'arange': 'array creation', 'ones': 'array creation', 'zeros': 'array creation', 'linspace': 'array creation',
    'isinf': 'logic, not differentiable', 'isnan': 'logic, not differentiable',
    'min': 'non-smooth reduction', 'max': 'non-smooth reduction', 'prod': 'reduction not modelled',
    'diff': 'structural operation not modelled', 'dot': 'linear algebra not modelled here (products: C26)',
    'tensordot': 'linear algebra not modelled', 'matmul': 'linear algebra not modelled',
    'outer': 'linear algebra not modelled', 'inner': 'linear algebra not modelled', 'kron': 'not modelled',
    'erf': 'no Coquelicot/Interval counterpart', 'erfc': 'no Coquelicot/Interval counterpart',
    'arctan2': 'piecewise; its complex-step derivative is the subject of C30',
    'np': 'error-message stub', 'numpy': 'error-message stub',
}


def read_table(src):
    """names registered in _expr_dict at import time -> origin; raises on anything unrecognised"""
    tree = ast.parse(src)
    table = {}

    def visit(stmts):
        for node in stmts:
            if isinstance(node, ast.Try):
                visit(node.body)
                visit(node.orelse)
                for h in node.handlers:
                    visit(h.body)
                continue
            txt = ast.unparse(node)
            if '_expr_dict' not in txt and '_import_functs' not in txt:
                continue
            if isinstance(node, (ast.FunctionDef, ast.ClassDef)):
                continue
            if isinstance(node, ast.Assign) and txt.replace(' ', '') == '_expr_dict={}':
                continue
            if (isinstance(node, ast.Expr) and isinstance(node.value, ast.Call)
                    and ast.unparse(node.value.func) == '_import_functs'):
                call = node.value
                if len(call.args) != 2 or ast.unparse(call.args[1]) != '_expr_dict' or len(call.keywords) != 1 \
                        or call.keywords[0].arg != 'names' or not isinstance(call.keywords[0].value, ast.List):
                    raise ValueError('unrecognised _import_functs call: ' + txt[:80])
                mod = ast.unparse(call.args[0])
                for el in call.keywords[0].value.elts:
                    if isinstance(el, ast.Constant) and isinstance(el.value, str):
                        table[el.value] = mod
                    elif isinstance(el, ast.Tuple) and len(el.elts) == 2 and all(
                            isinstance(x, ast.Constant) and isinstance(x.value, str) for x in el.elts):
                        table[el.elts[0].value] = mod
                        table[el.elts[1].value] = mod + ':alias:' + el.elts[0].value
                    else:
                        raise ValueError('unrecognised name entry: ' + ast.unparse(el))
                continue
            if (isinstance(node, ast.Assign) and len(node.targets) == 1
                    and isinstance(node.targets[0], ast.Subscript)
                    and ast.unparse(node.targets[0].value) == '_expr_dict'
                    and isinstance(node.targets[0].slice, ast.Constant)):
                table[node.targets[0].slice.value] = ast.unparse(node.value)
                continue
            raise ValueError('unrecognised statement touching _expr_dict: ' + txt[:80])
    visit(tree.body)
    return table


def translate():
    """regenerate coq/C14/GenFuncs.v; returns (broken list, info dict)"""
    src = open(os.path.join(core.REPO, 'openmdao', 'components', 'exec_comp.py')).read()
    broken = []
    table = read_table(src)
    supported, excluded = [], []
    for name, origin in sorted(table.items()):
        base = ALIASES.get(name, name)
        if base in SUPPORTED:
            want = SUPPORTED[base][0]
            org = origin.split(':alias:')[0]
            if name in ALIASES and not origin.endswith(':alias:' + base):
                broken.append('alias %s no longer maps to %s (%s)' % (name, base, origin))
            if (want == 'np' and org != 'np') or (want != 'np' and origin != want):
                broken.append('name %s now comes from %s (expected %s)' % (name, origin, want))
            supported.append(name)
        elif name in EXCLUDED:
            excluded.append(name)
        else:
            broken.append('unknown function-table name %r (%s)' % (name, origin))
    for name in list(SUPPORTED) + list(ALIASES):
        if name not in table:
            broken.append('supported name %r disappeared from _expr_dict' % name)
    out = ['(* GENERATED by props/C14/check.py from openmdao/components/exec_comp.py (_expr_dict) - do not edit. *)\n'
           'From Coq Require Import Reals QArith Qreals List String.\n'
           'From OMV Require Import Expr.Expr Expr.ExprProofs.\nImport ListNotations.\nOpen Scope R_scope.\n\n']
    fns = []
    for name in supported:
        base = ALIASES.get(name, name)
        origin, ar, body, stmt, proof = SUPPORTED[base]
        if body is None:
            continue
        args = {0: '', 1: '(a : expr) ', 2: '(a b : expr) '}[ar]
        out.append('Definition fn_%s %s: expr := %s.\n' % (name, args, body))
        st = stmt.replace('fn_' + base, 'fn_' + name)
        pr = proof.replace('fn_' + base, 'fn_' + name)
        out.append('Lemma fn_%s_sem : %s.\nProof. %s. Qed.\n\n' % (name, st, pr))
        fns.append('fn_' + name)
    out.append('Definition exec_supported : list string := [%s]%%string.\n'
               % '; '.join('"%s"' % n for n in supported))
    out.append('Definition exec_excluded : list string := [%s]%%string.\n'
               % '; '.join('"%s"' % n for n in excluded))
    out.append('Ltac unfold_fns := unfold %s.\n' % ', '.join(fns))
    write_if_changed(os.path.join(core.COQ, 'C14', 'GenFuncs.v'), ''.join(out))
    return broken, {'supported': supported, 'excluded': {n: EXCLUDED[n] for n in excluded}}


# ------------------------------------------------------------------ generator

DEGENERATE = [0.0, 0.0, 0.0, 1.0, -1.0, 1.0]


def _point(rng, used, arr, n, degenerate):
    vals = {}
    for i in used:
        m = n if arr[i] else 1
        if degenerate:
            mode = rng.random()
            if mode < 0.35:        # the whole input is one degenerate value
                d = rng.choice(DEGENERATE)
                v = [d] * m
            else:
                v = [rng.choice(DEGENERATE) if rng.random() < 0.6 else rng.uniform(-3, 3) for _ in range(m)]
        else:
            v = [rng.choice([rng.uniform(-3, 3), rng.uniform(0.1, 2.5), rng.randint(-8, 8) / 4.0]) for _ in range(m)]
        vals[str(i)] = v
    return vals


def _valid(tree, used, flat, n):
    try:
        for k in range(n):
            env = [flat[str(j)][k if len(flat[str(j)]) > 1 else 0] if j in used else 0.0 for j in range(3)]
            for w in used:
                G.ev(tree, env, w)
        return True
    except (G.Reject, OverflowError, ZeroDivisionError, ValueError):
        return False


def gen_case(rng, tier, allowed):
    """one ExecComp and a HISTORY of points: the first one (when the expression allows it) has inputs that are
    exactly 0.0 / 1.0 / -1.0 (where partials vanish and the automatic coloring computes its sparsity), the
    following ones are generic; outputs and partials are checked at every point on the same component object"""
    maxd = 3 if tier == 'quick' else 4
    for _ in range(400):
        nv = rng.randint(1, 3)
        tree = G.gen_tree(rng, rng.randint(1, maxd), nv)
        used = sorted(G.vars_used(tree))
        if not used or not G.names_used(tree) <= allowed:
            continue
        shape = rng.choice([[], [], [3], [3], [2, 2], [4], [4]])
        n = 1
        for s in shape:
            n *= s
        arr = {i: (n > 1 and rng.random() < 0.75) for i in used}
        if n > 1 and not any(arr.values()):
            arr[used[0]] = True
        npts = rng.choice([1, 2, 2, 2, 3])
        pts = []
        for j in range(npts):
            flat = None
            if j == 0 and npts > 1:
                for _try in range(25):
                    cand = _point(rng, used, arr, n, True)
                    if _valid(tree, used, cand, n):
                        flat = cand
                        break
            if flat is None:
                for _try in range(25):
                    cand = _point(rng, used, arr, n, False)
                    if _valid(tree, used, cand, n):
                        flat = cand
                        break
            if flat is None:
                break
            pts.append(flat)
        if len(pts) != npts:
            continue
        cfg = rng.choice(['default', 'default', 'diag', 'nocolor', 'nocolor', 'shape_by_conn'])
        sm = n > 1 and cfg != 'diag' and rng.random() < 0.35
        points = []
        for flat in pts:
            inp = {}
            for i in used:
                v = flat[str(i)]
                inp[str(i)] = (_reshape(v, shape) if len(v) > 1 else v)
            points.append({'inputs': inp, 'flat': flat})
        out_size1 = (n == 1) or sm
        return {'tree': tree, 'vars': used, 'shape': shape if n > 1 else [], 'points': points,
                'config': cfg, 'sum': sm, 'n': n,
                # true scalars: shape () instead of (1,)
                'yscalar': bool(out_size1 and cfg != 'shape_by_conn' and rng.random() < 0.5),
                'inscalar': [i for i in used if not arr[i] and cfg != 'shape_by_conn' and rng.random() < 0.5]}
    raise RuntimeError('generator could not find a well-defined expression')


def _reshape(v, shape):
    if len(shape) == 1:
        return v
    r, c = shape
    return [v[i * c:(i + 1) * c] for i in range(r)]


def gen_poly_case(rng):
    """polynomial fragment on dyadic data: ExecComp's complex step (with the power-of-two step 2^-133) is then
    EXACT, so its partials must equal evalQ (D e) exactly"""
    for _ in range(400):
        nv = rng.randint(1, 3)
        tree = G.gen_poly(rng, rng.randint(1, 3), nv)
        used = sorted(G.vars_used(tree))
        if not used:
            continue
        n = rng.choice([1, 3, 4])
        shape = [] if n == 1 else [n]
        arr = {i: (n > 1 and rng.random() < 0.75) for i in used}
        if n > 1 and not any(arr.values()):
            arr[used[0]] = True
        flat = {str(i): [rng.choice([k for k in range(-12, 13) if k]) / 4.0 for _ in range(n if arr[i] else 1)]
                for i in used}
        try:
            for k in range(n):
                env = [Fraction(flat[str(j)][k if len(flat[str(j)]) > 1 else 0]) if j in used else Fraction(0)
                       for j in range(3)]
                for w in used:
                    G.evq(tree, env, w)
        except (G.Reject, ZeroDivisionError):
            continue
        return {'tree': tree, 'vars': used, 'shape': shape, 'points': [{'inputs': dict(flat), 'flat': flat}],
                'config': rng.choice(['default', 'nocolor', 'diag']), 'sum': False, 'n': n, 'yscalar': False,
                'inscalar': [], 'tie': False, 'poly': True}
    raise RuntimeError('polynomial generator failed')


def poly_terms(cases, results):
    """exact tie: evalQ (D v e) at the dyadic point (vm_compute) vs the partial ExecComp returned"""
    idx, got, want = [], [], []
    for i, (c, r) in enumerate(zip(cases, results)):
        if not c.get('poly') or r.get('res') in (None, '__none__') or not r.get('ok', True):
            continue
        e = G.coq(c['tree'])
        flat = c['points'][0]['flat']
        res = r['res'][0]
        g, w = [], []
        for k in range(c['n']):
            env = '(envQ_of_list [%s])' % '; '.join(
                ('((%d) # %d)' % (Fraction(flat[str(j)][k if len(flat[str(j)]) > 1 else 0]).numerator,
                                  Fraction(flat[str(j)][k if len(flat[str(j)]) > 1 else 0]).denominator))
                if j in c['vars'] else '(0 # 1)' for j in range(3))
            for v_ in c['vars']:
                isarr = len(flat[str(v_)]) > 1
                g.append('(vopt VQ (evalQ %s (D %d %s)))' % (env, v_, e))
                w.append(res['J'][str(v_)][k][k if isarr else 0])
        got.append('(VL [%s])' % '; '.join(g))
        want.append(core.to_val(w))
        idx.append(i)
    return idx, got, want


def gen_multi_case(rng, allowed):
    """ONE ExecComp with 2-3 assignment statements whose right-hand sides share array inputs (and have some
    inputs of their own): several outputs then live in the same coloured column of _compute_colored_partials.
    One generic point (no history: the known coloring finding F1 is not the subject here)."""
    for _ in range(400):
        nv = rng.choice([2, 3, 3])
        nexpr = rng.choice([2, 2, 3])
        trees = [G.gen_tree(rng, rng.randint(1, 2), nv) for _ in range(nexpr)]
        uses = [sorted(G.vars_used(t)) for t in trees]
        if any(not u for u in uses) or not all(G.names_used(t) <= allowed for t in trees):
            continue
        used = sorted(set().union(*uses))
        n = rng.choice([3, 4, 5])
        arr = {i: rng.random() < 0.8 for i in used}
        shared = [i for i in used if arr[i] and sum(i in u for u in uses) >= 2]
        if not shared:
            continue
        flat = None
        for _try in range(25):
            cand = _point(rng, used, arr, n, False)
            if all(_valid(t, u, cand, n) for t, u in zip(trees, uses)):
                flat = cand
                break
        if flat is None:
            continue
        sums = [rng.random() < 0.15 for _ in trees]
        if all(sums):
            sums[0] = False
        return {'multi': True, 'trees': trees, 'sums': sums, 'vars': used, 'n': n,
                'points': [{'inputs': dict(flat), 'flat': flat}],
                'config': rng.choice(['default', 'default', 'default', 'default', 'nocolor']), 'tie': False}
    raise RuntimeError('multi-expression generator failed')


def gen_relin_case(rng, allowed):
    """HISTORY without re-running: run_model at p0, then 1-2 times { set the inputs to p_k, compute_totals
    WITHOUT run_model }: the partials must be the exact derivatives at the CURRENT inputs p_k.  All
    configurations: has_diag_partials / automatic coloring / do_coloring=False, each with
    setup(force_alloc_complex=True/False).  Generic (non-dyadic) points and no max/min, so that the sparsity of
    the automatic coloring is the same at every point (the known finding F1 is not the subject here)."""
    for _ in range(400):
        nv = rng.choice([1, 2, 3])
        nexpr = rng.choice([1, 1, 2])
        trees = [G.gen_tree(rng, rng.randint(1, 2), nv) for _ in range(nexpr)]
        uses = [sorted(G.vars_used(t)) for t in trees]
        if any(not u for u in uses):
            continue
        names = set().union(*[G.names_used(t) for t in trees])
        if not names <= allowed or names & set(G.BINARY):
            continue
        used = sorted(set().union(*uses))
        cfg = rng.choice(['diag', 'diag', 'default', 'nocolor'])
        n = rng.choice([1, 3, 3, 4])
        arr = {i: (n > 1 and rng.random() < 0.8) for i in used}
        if n > 1:
            for u in uses:                 # every statement has an array input: outputs are arrays
                if not any(arr[i] for i in u):
                    arr[u[0]] = True
        pts = []
        for j in range(rng.choice([2, 2, 3])):
            flat = None
            for _try in range(25):
                cand = {str(i): [rng.choice([rng.uniform(-3, 3), rng.uniform(0.1, 2.5)])
                                 for _ in range(n if arr[i] else 1)] for i in used}
                if all(_valid(t, u, cand, n) for t, u in zip(trees, uses)):
                    flat = cand
                    break
            if flat is None:
                break
            pts.append({'inputs': dict(flat), 'flat': flat})
        if len(pts) < 2:
            continue
        # between two linearizations the user may change the public attribute complex_stepsize
        steps = [None] + [rng.choice([None, 1e-30, 1e-20, 1e-50]) for _ in pts[1:]]
        return {'relin': True, 'trees': trees, 'vars': used, 'n': n, 'points': pts, 'config': cfg,
                'force_alloc_complex': rng.random() < 0.4, 'cs_steps': steps, 'tie': False}
    raise RuntimeError('relinearization generator failed')


def gen(tier, rng, allowed):
    n_tie, n_oracle = (75, 500) if tier == 'quick' else (600, 8000)
    n_poly = 150 if tier == 'quick' else 2000
    n_multi = 200 if tier == 'quick' else 2500
    cases = [gen_poly_case(rng) for _ in range(n_poly)]
    cases += [gen_multi_case(rng, allowed) for _ in range(n_multi)]
    cases += [gen_relin_case(rng, allowed) for _ in range(250 if tier == 'quick' else 3000)]
    for i in range(n_tie + n_oracle):
        c = gen_case(rng, tier, allowed)
        c['tie'] = i < n_tie
        cases.append(c)
    return cases


# ------------------------------------------------------------------ emission

def R(x):
    fr = Fraction(x)
    return '(Q2R (%d # %d))' % (fr.numerator, fr.denominator)


def rq(d):
    return Fraction(int(d['q'][0]), int(d['q'][1]))


def tolof(v):
    return TOL * max(1, abs(v))


def step(goal, tac, tag):
    return ('  first [ assert (%s) by (%s); idtac "OKGOAL %s" | idtac "BADGOAL %s" ].\n' % (goal, tac, tag, tag))


def env_of(c, k):
    vals = []
    for j in range(3):
        if j in c['vars']:
            v = c['points'][-1]['flat'][str(j)]
            vals.append(R(v[k if len(v) > 1 else 0]))
        else:
            vals.append('0')
    return '(env_of_list [%s])' % '; '.join(vals)


def lemma_for(i, c, res_all):
    res = res_all[-1]               # the last point of the history (all points go through the oracle)
    flat = c['points'][-1]['flat']
    e = G.coq(c['tree'])
    n = c['n']
    ks = [0] if n == 1 else sorted({0, n - 1})
    out = ['Lemma case_%d : True.\nProof.\n  pose (e := %s).\n' % (i, e)]
    cnt = 0
    allk = range(n) if c['sum'] else ks
    for k in allk:
        out.append(step('smooth %s e' % env_of(c, k), 'unfold e; c14_dom', '%d s%d' % (i, k)))
        cnt += 1
    y = [rq(t) for t in res['y']]
    if c['sum']:
        tot = ' + '.join('evalR %s e' % env_of(c, k) for k in range(n))
        out.append(step('Rabs (%s - %s) <= %s' % (tot, R(y[0]), R(tolof(y[0]))), 'unfold e; c14_close', '%d y' % i))
        cnt += 1
    else:
        for k in ks:
            out.append(step('Rabs (evalR %s e - %s) <= %s' % (env_of(c, k), R(y[k]), R(tolof(y[k]))),
                            'unfold e; c14_close', '%d y%d' % (i, k)))
            cnt += 1
    for w in c['vars']:
        Jw = res['J'][str(w)]
        isarr = len(flat[str(w)]) > 1
        if c['sum']:
            if isarr:
                for l in ks:
                    g = rq(Jw[0][l])
                    out.append(step('Rabs (evalR %s (D %d e) - %s) <= %s' % (env_of(c, l), w, R(g), R(tolof(g))),
                                    'unfold e; c14_close', '%d d%d_%d' % (i, w, l)))
                    cnt += 1
            else:
                g = rq(Jw[0][0])
                tot = ' + '.join('evalR %s (D %d e)' % (env_of(c, k), w) for k in range(n))
                out.append(step('Rabs (%s - %s) <= %s' % (tot, R(g), R(tolof(g))), 'unfold e; c14_close',
                                '%d d%d' % (i, w)))
                cnt += 1
        else:
            for k in ks:
                g = rq(Jw[k][k if isarr else 0])
                out.append(step('Rabs (evalR %s (D %d e) - %s) <= %s' % (env_of(c, k), w, R(g), R(tolof(g))),
                                'unfold e; c14_close', '%d d%d_%d' % (i, w, k)))
                cnt += 1
    out.append('  exact I.\nQed.\n')
    return ''.join(out), cnt


def run_goal_files(wd, items, per_file):
    files, cur, cnt = [], [], 0
    for idx, text, n in items:
        cur.append(text)
        cnt += n
        if cnt >= per_file:
            files.append(''.join(cur))
            cur, cnt = [], 0
    if cur:
        files.append(''.join(cur))
    ok, bad, errors = set(), set(), []

    def one(k):
        return k, coq_script(wd, 'ex_%d.v' % k, HEADER + files[k], timeout=1500)

    with cf.ThreadPoolExecutor(max_workers=core.NCPU) as ex:
        for k, (rc, outp) in ex.map(one, range(len(files))):
            ok.update(re.findall(r'OKGOAL (\d+ \w+)', outp))
            bad.update(re.findall(r'BADGOAL (\d+ \w+)', outp))
            if rc != 0:
                errors.append({'file': 'ex_%d.v' % k, 'rc': rc, 'log': outp[-1500:]})
    return ok, bad, errors, len(files)


def offdiag_ok(c, res_all):
    """elementwise jacobians are exactly diagonal (model: jac_entry = 0 off the diagonal), at every point"""
    if c['sum']:
        return True
    for pt, res in zip(c['points'], res_all):
        for w in c['vars']:
            if len(pt['flat'][str(w)]) > 1:
                Jw = res['J'][str(w)]
                for k, row in enumerate(Jw):
                    for l, t in enumerate(row):
                        if k != l and rq(t) != 0:
                            return False
    return True


def main(tier):
    seed = seed_from_env()
    rng = random.Random(seed * 1000003 + 14)
    wd = workdir(PID, tier)
    v = Verdict(PID, tier, seed)
    v.cov['rule'] = ('random well-defined expressions (depth <= 3 quick / 4 thorough) over the regenerated function '
                     'table and + - * / ** unary -, 1-3 variables, scalar / (3,) / (4,) / (2,2) shapes with scalar '
                     'broadcasting, y = e and y = sum(e), configurations default (coloring) / has_diag_partials / '
                     'do_coloring=False / shape_by_conn; components with 2-3 statements sharing array inputs (several outputs per '
                     'coloured column); histories run_model(p0) then set inputs / compute_totals WITHOUT re-running, '
                     'with force_alloc_complex True/False; true-scalar shape () outputs and inputs mixed with arrays; every '
                     'component is linearized along a history of 1-3 points, the first with inputs exactly 0.0/1.0/-1.0')
    v.assumptions = ['binary64 rounding of the implementation is not modelled (1e-9 relative, interval-checked)',
                     'points are generated away from kinks and poles (margins in exprgen.py); the smoothness of '
                     'each expression at its point is itself an interval-checked goal']
    info = {'supported': [], 'excluded': {}}
    try:
        broken, info = translate()
        for b in broken:
            v.broke('translate:' + b)
    except Exception as ex:          # fail closed
        v.broke('translate:%s' % ex)
    v.cov['function_table'] = info
    allowed = set(info['supported'])
    if not allowed:
        allowed = set(SUPPORTED) | set(ALIASES)
    gate = proof_gate(PID, wd, extra_dirs=('Base', 'Expr'))
    v.add_proof(gate)

    cases = core.load_corpus(PID) + gen(tier, rng, allowed)
    results, log = run_impl(IMPL, cases, wd, jobs=min(4, core.NCPU), timeout=1500)
    if results is None:
        v.broke('correspondence:implementation-run-failed')
        v.cov['broken_detail'] = log[-3000:]
        return v.finish()
    for c, r in zip(cases, results):
        v.count_case({'src': r.get('src'), 'points': [p_['inputs'] for p_ in c['points']], 'config': c['config']}, True, r.get('kind'))
        if not r.get('ok', True):
            v.failing(r.get('sig') or 'oracle', c, r.get('msg', ''))
    if gate['build_ok']:
        items, total, badc = [], 0, set()
        for i, (c, r) in enumerate(zip(cases, results)):
            res = r.get('res')
            if res in (None, '__none__'):
                continue
            if not r.get('ok', True) or c.get('multi') or c.get('relin'):
                continue        # already reported by the oracle on the real code (violation / known finding)
            if not offdiag_ok(c, res):
                badc.add(i)
            if not c.get('tie'):
                continue
            text, n = lemma_for(i, c, res)
            items.append((i, text, n))
            total += n
        pidx, pgot, pwant = poly_terms(cases, results)
        pbad, perr, pcmd = core.coq_mismatches(wd, ['Expr.Expr'], pgot, pwant, shard=200, tag='poly')
        v.add_correspondence('evalQ (D e) vs ExecComp partials on the polynomial fragment (dyadic data, step 2^-133)',
                             len(pidx), len(pbad), 'E3 exact', pcmd)
        if perr:
            v.broke('correspondence:model-evaluation-failed (polynomial fragment)')
            v.cov['broken_detail'] = json.dumps(perr[:2])[-3000:]
        if pbad:
            v.broke('correspondence:model-vs-implementation exact on the polynomial fragment (%d of %d differ)'
                    % (len(pbad), len(pidx)))
            v.cov['broken_detail'] = json.dumps({'cases': [cases[pidx[b]] for b in pbad[:3]]})[-5000:]
        ok, badg, errs, nfiles = run_goal_files(wd, items, per_file=max(50, total // core.NCPU + 1))
        badc |= {int(t.split()[0]) for t in badg}
        missing = total - len(ok) - len(badg)
        v.add_correspondence('evalR e / evalR (D e) vs ExecComp outputs / partials', len(items), len(badc),
                             'E4: %d interval-checked goals (values, partials, smoothness side conditions), '
                             '1e-9*max(1,|impl|); E1: off-diagonal entries exactly 0 on all %d cases'
                             % (total, len(cases)),
                             'coqc -Q coq OMV work/.../ex_<k>.v (%d files)' % nfiles)
        if errs or missing:
            v.broke('correspondence:model-evaluation-failed (%d files with errors, %d goals unreported)'
                    % (len(errs), missing))
            v.cov['broken_detail'] = json.dumps(errs[:2])[-3000:]
        if badc:
            b = sorted(badc)
            v.broke('correspondence:model-vs-implementation (%d cases differ)' % len(b))
            v.cov['broken_detail'] = json.dumps({'cases': [{'src': results[i].get('src'), 'case': cases[i]} for i in b[:3]],
                                                 'goals': sorted(badg)[:10]})[-6000:]
    else:
        v.broke('correspondence:model-not-built')
    if v.broken and not v.violations:
        rng2 = random.Random(seed + 77)
        extra = [dict(c, tie=False) for c in gen(tier, rng2, allowed)]
        res2, _ = run_impl(IMPL, extra, wd, tag='search', jobs=min(4, core.NCPU))
        if res2 is not None:
            for c, r in zip(extra, res2):
                v.count_case({'src': r.get('src'), 'points': [p_['inputs'] for p_ in c['points']]}, True, r.get('kind'))
                if not r.get('ok', True):
                    v.failing(r.get('sig') or 'oracle', c, r.get('msg', ''))
    return v.finish()


def replay(rep):
    case = rep.get('case')
    wd = workdir(PID, 'replay')
    res, log = run_impl(IMPL, [case], wd, jobs=1)
    print(json.dumps({'case': case, 'result': res, 'log': log[-500:]}, indent=1, default=str)[:6000])
    return 0 if res and res[0].get('ok') else 1


if __name__ == '__main__':
    sys.exit(main(sys.argv[1] if len(sys.argv) > 1 else 'quick'))
