"""Exact arithmetic shared by the C12 generator (check.py) and oracle (impl.py).

A system is a feed-forward chain of polynomial stages.  The environment is the perturbable vector z followed
by the outputs of the earlier stages; a polynomial is [[coef, [[env_index, exponent], ...]], ...] with
coef = [num, den].  The evaluation order is the one of the generated OpenMDAO components (and of the Coq
model): t = coef; t = t * x (exponent times, variable after variable); acc = acc + t."""
from fractions import Fraction


def fr(q):
    return Fraction(q[0], q[1])


def is_float(v):
    """v (a Fraction) is exactly representable as a binary64 number."""
    try:
        return Fraction(float(v)) == v
    except OverflowError:
        return False


class Inexact(Exception):
    pass


def _chk(v):
    if not is_float(v):
        raise Inexact()
    return v


def eval_chain(stages, z, check=False):
    """real evaluation with Fractions; with check=True raises Inexact when some intermediate value of the
    float evaluation would be rounded"""
    c = _chk if check else (lambda v: v)
    env = list(z)
    for st in stages:
        outs = []
        for poly in st:
            acc = Fraction(0)
            for coef, mon in poly:
                t = fr(coef)
                for var, e in mon:
                    for _ in range(e):
                        t = c(t * env[var])
                acc = c(acc + t)
            outs.append(acc)
        env = env + outs
    return env


def cmul(a, b, c):
    return (c(c(a[0] * b[0]) - c(a[1] * b[1])), c(c(a[0] * b[1]) + c(a[1] * b[0])))


def eval_chain_c(stages, z, check=False):
    """complex evaluation (pairs of Fractions), numpy's complex product formula"""
    c = _chk if check else (lambda v: v)
    env = list(z)
    for st in stages:
        outs = []
        for poly in st:
            acc = (Fraction(0), Fraction(0))
            for coef, mon in poly:
                t = (fr(coef), Fraction(0))
                for var, e in mon:
                    for _ in range(e):
                        t = cmul(t, env[var], c)
                acc = (c(acc[0] + t[0]), c(acc[1] + t[1]))
            outs.append(acc)
        env = env + outs
    return env


# ---- univariate polynomials in t (lists of Fractions, lowest degree first)

def padd(p, q):
    n = max(len(p), len(q))
    return [(p[i] if i < len(p) else 0) + (q[i] if i < len(q) else 0) for i in range(n)]


def pmul(p, q):
    if not p or not q:
        return []
    r = [Fraction(0)] * (len(p) + len(q) - 1)
    for i, a in enumerate(p):
        for j, b in enumerate(q):
            r[i + j] += a * b
    return r


def taylor(stages, z, j, absolute=False):
    """Taylor coefficients in t of every environment entry of the chain at z + t*e_j.
    absolute=True: coefficients and values replaced by their absolute values (magnitude bound)."""
    f = (lambda v: abs(v)) if absolute else (lambda v: v)
    env = [[f(v)] for v in z]
    env[j] = [f(z[j]), Fraction(1)]
    for st in stages:
        outs = []
        for poly in st:
            acc = []
            for coef, mon in poly:
                t = [f(fr(coef))]
                for var, e in mon:
                    for _ in range(e):
                        t = pmul(t, env[var])
                acc = padd(acc, t)
            outs.append(acc)
        env = env + outs
    return env


TRUE_STENCIL = {   # the mathematical definitions (NOT read from the code): deltas, coeffs, current
    'forward': ([1], [Fraction(1)], Fraction(-1)),
    'backward': ([-1], [Fraction(-1)], Fraction(1)),
    'central': ([1, -1], [Fraction(1, 2), Fraction(-1, 2)], Fraction(0)),
}


def fd_expected(a, form, h):
    """exact value of the FD formula on the polynomial with Taylor coefficients a: a1 + sum_{n>=2} a_n M_n h^(n-1)"""
    ds, cs, cur = TRUE_STENCIL[form]
    tot = Fraction(0)
    for n in range(1, len(a)):
        mn = sum(c * Fraction(d) ** n for d, c in zip(ds, cs))
        tot += a[n] * mn * h ** (n - 1)
    return tot


def cs_expected(a, h):
    """Im a(ih) / h = a1 - a3 h^2 + a5 h^4 - ..."""
    tot = Fraction(0)
    for n in range(1, len(a), 2):
        tot += a[n] * (-1) ** ((n - 1) // 2) * h ** (n - 1)
    return tot


def spec_steps(step_calc, step, minimum, v):
    """the step each entry of a wrt variable with value v is perturbed by, per the documented step_calc
    rules (exact rational arithmetic; rel_legacy needs an exact norm)"""
    n = len(v)
    if step_calc == 'abs':
        return [step] * n
    if step_calc in ('rel', 'rel_avg'):
        s = step * sum(abs(x) for x in v) / n
        return [max(s, minimum)] * n
    if step_calc == 'rel_legacy':
        ss = sum(x * x for x in v)
        r = exact_sqrt(ss)
        if r is None:
            return None
        return [max(step * r, minimum)] * n
    if step_calc == 'rel_element':
        return [max(abs(x) * step, minimum) for x in v]
    raise ValueError(step_calc)


def exact_sqrt(q):
    import math
    if q < 0:
        return None
    a, b = math.isqrt(q.numerator), math.isqrt(q.denominator)
    if a * a == q.numerator and b * b == q.denominator:
        return Fraction(a, b)
    return None
