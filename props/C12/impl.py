"""C12 implementation side: the real FiniteDifference / ComplexStep schemes of /repo on generated
polynomial components and groups.

kind 'data': FiniteDifference._get_approx_data on a real component (step rules + stencil scaling).
kind 'jac' : approximated partials (explicit / implicit component), semi-totals (group.approx_totals) and
             totals (model.approx_totals), fd x form x step_calc and cs, coloured and uncoloured, with a
             bitwise snapshot of inputs / outputs / residuals around the approximation."""
import os
import sys
import warnings
from fractions import Fraction

import numpy as np

sys.path.insert(0, os.path.dirname(os.path.abspath(__file__)))
from implutil import main, q, err  # noqa: E402
import polysim as ps  # noqa: E402

warnings.simplefilter('ignore')
import openmdao.api as om  # noqa: E402
from openmdao.approximation_schemes.finite_difference import FiniteDifference  # noqa: E402

U = Fraction(1, 2 ** 53)


def F(x):
    return Fraction(float(x))


def fl(qq):
    return float(Fraction(qq[0], qq[1]))


def eval_polys(polys, env, dt):
    outs = []
    for poly in polys:
        acc = dt(0)
        for coef, mon in poly:
            t = dt(coef)
            for var, e in mon:
                for _ in range(e):
                    t = t * env[var]
            acc = acc + t
        outs.append(acc)
    return outs


def fpolys(polys):
    return [[(fl(c), [(int(v), int(e)) for v, e in mon]) for c, mon in poly] for poly in polys]


class StageComp(om.ExplicitComponent):
    """outputs = polynomials of (owned external variables, outputs of earlier stages)"""

    def initialize(self):
        self.options.declare('spec', types=dict)

    def setup(self):
        s = self.options['spec']
        for name, size, off in s['ins']:
            self.add_input(name, np.zeros(size))
        self.add_output(s['out'], np.zeros(len(s['polys'])))
        if s.get('approx') is not None:
            wrt = s.get('wrt_a') or '*'
            self.declare_partials('*', wrt, **s['approx'])
            if s.get('color') is not None:
                self.declare_coloring(wrt=wrt, **s['color'])
            for names, kw in s.get('extra', []):
                self.declare_partials('*', names, **kw)      # declared last
        else:
            self.declare_partials('*', '*', method='fd')   # never used: the enclosing group approximates

    def compute(self, inputs, outputs):
        s = self.options['spec']
        dt = complex if inputs.asarray().dtype.kind == 'c' else float
        env = [dt(0)] * s['nenv']
        for name, size, off in s['ins']:
            v = inputs[name]
            for k in range(size):
                env[off + k] = v[k]
        outputs[s['out']] = eval_polys(s['fpolys'], env, dt)


class ImplComp(om.ImplicitComponent):
    """residuals = polynomials of (inputs, outputs)"""

    def initialize(self):
        self.options.declare('spec', types=dict)

    def setup(self):
        s = self.options['spec']
        for name, size, off in s['ins']:
            self.add_input(name, np.zeros(size))
        for name, size, off in s['states']:
            self.add_output(name, np.zeros(size))
        self.declare_partials('*', '*', **s['approx'])
        if s.get('color') is not None:
            self.declare_coloring(wrt='*', **s['color'])

    def apply_nonlinear(self, inputs, outputs, residuals):
        s = self.options['spec']
        dt = complex if inputs.asarray().dtype.kind == 'c' or outputs.asarray().dtype.kind == 'c' else float
        env = [dt(0)] * s['nenv']
        for name, size, off in s['ins']:
            v = inputs[name]
            for k in range(size):
                env[off + k] = v[k]
        for name, size, off in s['states']:
            v = outputs[name]
            for k in range(size):
                env[off + k] = v[k]
        res = eval_polys(s['fpolys'], env, dt)
        k0 = 0
        for name, size, off in s['states']:
            residuals[name] = res[k0:k0 + size]
            k0 += size


def approx_kwargs(c, coloring=False):
    kw = {'method': c['method']}
    if c['method'] == 'fd':
        kw['form'] = c['form']
        kw['step'] = fl(c['step'])
        if not coloring:
            kw['step_calc'] = c['step_calc']
            if c.get('minimum_step') is not None:
                kw['minimum_step'] = fl(c['minimum_step'])
    else:
        kw['step'] = fl(c['step'])
    return kw


def snapshot(model):
    return [model._inputs.asarray(copy=True).tobytes(), model._outputs.asarray(copy=True).tobytes(),
            model._residuals.asarray(copy=True).tobytes()]


def offsets(vars_):
    out, o = [], 0
    for name, size in vars_:
        out.append((name, size, o))
        o += size
    return out, o


def build(c, colored):
    """returns (problem, reader) where reader() -> dense J in the case's own ordering [col][row]"""
    level = c['level']
    invars, nz = offsets(c['invars'])
    z = [fl(v) for v in c['z']]
    stages = c['stages']
    p = om.Problem()
    kw = approx_kwargs(c)
    ckw = approx_kwargs(c, coloring=True) if colored else None
    if ckw is not None:
        ckw.update(num_full_jacs=2, tol=1e-20, min_improve_pct=0.0, show_summary=False, show_sparsity=False)
    comps = []
    if level in ('explicit', 'implicit'):
        if level == 'explicit':
            spec = {'ins': invars, 'out': 'y0', 'polys': stages[0], 'fpolys': fpolys(stages[0]), 'nenv': nz,
                    'approx': dict(kw) if not colored else {k: v for k, v in kw.items()
                                                            if k in ('method', 'form', 'step')},
                    'color': ckw}
            if c.get('varopts'):
                ncol = c['ncolored']
                spec['wrt_a'] = [n for n, _, _ in invars[:ncol]]
                spec['extra'] = []
                for (n, _, _), vo in zip(invars[ncol:], c['varopts'][ncol:]):
                    kb = {'method': 'fd', 'form': vo['form'], 'step': fl(vo['step']), 'step_calc': vo['step_calc']}
                    spec['extra'].append(([n], kb))
            comp = StageComp(spec=spec)
        else:
            nin = len(c['invars']) - c['nstatevars']
            spec = {'ins': invars[:nin], 'states': invars[nin:], 'polys': stages[0], 'fpolys': fpolys(stages[0]),
                    'nenv': nz,
                    'approx': dict(kw) if not colored else {k: v for k, v in kw.items()
                                                            if k in ('method', 'form', 'step')},
                    'color': ckw}
            comp = ImplComp(spec=spec)
        p.model.add_subsystem('c', comp, promotes=['*'])
        comps.append(comp)
    else:
        parent = p.model
        if level == 'semitotal':
            parent = p.model.add_subsystem('G', om.Group(), promotes=['*'])
        off = nz
        prev = []
        for k, st in enumerate(stages):
            owned = [iv for iv, own in zip(invars, c['owner']) if (own == k or level == 'total')]
            ins = list(owned) + list(prev)
            spec = {'ins': ins, 'out': 'y%d' % k, 'polys': st, 'fpolys': fpolys(st), 'nenv': off, 'approx': None}
            comp = StageComp(spec=spec)
            parent.add_subsystem('s%d' % k, comp, promotes=['*'])
            comps.append(comp)
            prev.append(('y%d' % k, len(st), off))
            off += len(st)
        parent.approx_totals(**kw)
        if colored:
            parent.declare_coloring(wrt='*', **ckw)
    p.setup(force_alloc_complex=True)
    for (name, size, o) in invars:
        p.set_val(name, np.array(z[o:o + size]))
    p.final_setup()
    return p, comps, invars, nz


def densify(v):
    if hasattr(v, 'toarray'):
        return v.toarray()
    return np.atleast_2d(np.asarray(v))


def run_jac(c, colored):
    level = c['level']
    p, comps, invars, nz = build(c, colored)
    p.run_model()
    if level == 'implicit':
        p.model.run_apply_nonlinear()
    nrows = sum(len(st) for st in c['stages'])
    J = np.zeros((nrows, nz))
    groups = None
    s0 = snapshot(p.model)
    if level in ('explicit', 'implicit'):
        comp = comps[0]
        p.model.run_linearize()
        s1 = snapshot(p.model)
        if level == 'explicit':
            ofs = [('y0', nrows, 0)]
        else:
            nin = len(c['invars']) - c['nstatevars']
            ofs, _ = offsets([(n, s) for n, s, _ in invars[nin:]])
        jac = comp._jacobian
        for on, osz, oo in ofs:
            for wn, wsz, wo in invars:
                key = (comp.pathname + '.' + on, comp.pathname + '.' + wn)
                sj = jac._subjacs.get(key) if hasattr(jac, '_subjacs') else None
                if sj is None:
                    continue
                J[oo:oo + osz, wo:wo + wsz] = np.asarray(sj.todense()).real
        coloring = comp._coloring_info.coloring if colored else None
    else:
        of = ['y%d' % k for k in range(len(c['stages']))]
        wrt = [n for n, _, _ in invars]
        tot = p.compute_totals(of=of, wrt=wrt, return_format='array')
        s1 = snapshot(p.model)
        J[:, :] = tot
        holder = p.model.G if level == 'semitotal' else p.model
        coloring = holder._coloring_info.coloring if colored else None
    if colored and coloring is not None:
        groups = extract_groups(c, p, comps, coloring, invars)
    return J, s0 == s1, groups, p


def extract_groups(c, p, comps, coloring, invars):
    """colour groups [(z column, [rows])] in the case's own ordering"""
    level = c['level']
    if level in ('explicit', 'implicit'):
        system = comps[0]
    elif level == 'semitotal':
        system = p.model.G
    else:
        system = p.model
    # column order of the system's jacobian -> index into z
    zidx = {}
    for n, s, o in invars:
        zidx[n] = o
    colmap = []
    wm = getattr(system._coloring_info, 'wrt_matches', None)
    for wrt, start, end, _, _, _ in system._get_jac_wrts():
        if wm is not None and wrt not in wm:
            continue        # columns of a partial colouring are numbered over the matched variables only
        nm = wrt.split('.')[-1]
        if nm in zidx:
            colmap += [zidx[nm] + k for k in range(end - start)]
        else:
            colmap += [None] * (end - start)
    if level == 'explicit':
        rowoff = {'y0': 0}
    elif level == 'implicit':
        nin = len(c['invars']) - c['nstatevars']
        ofs, _ = offsets([(n, s) for n, s, _ in invars[nin:]])
        rowoff = {n: o for n, s, o in ofs}
    else:
        rowoff, o = {}, 0
        for k, st in enumerate(c['stages']):
            rowoff['y%d' % k] = o
            o += len(st)
    rowmap = []
    for of, start, end, _, _ in system._get_jac_ofs():
        nm = of.split('.')[-1]
        if nm in rowoff:
            rowmap += [rowoff[nm] + k for k in range(end - start)]
        else:
            rowmap += [None] * (end - start)
    groups = []
    for cols, nzrows in coloring.color_nonzero_iter('fwd'):
        g = []
        for col, rows in zip(cols, nzrows):
            g.append([colmap[int(col)], sorted(rowmap[int(r)] for r in rows if rowmap[int(r)] is not None)])
        groups.append(g)
    return groups


def jac_oracle(c, J):
    """exact derivative + proved remainder of every entry; returns (ok, msg)"""
    z = [ps.fr(v) for v in c['z']]
    stages = c['stages']
    nz = len(z)
    sel0 = nz
    step = ps.fr(c['step'])
    # the step every column uses, per the documented rules
    hs = []
    o = 0
    forms = []
    for vi, (name, size) in enumerate(c['invars']):
        if c['method'] == 'cs':
            hs += [step] * size
            forms += [None] * size
        else:
            vo = (c.get('varopts') or [None] * len(c['invars']))[vi] or c
            mn = ps.fr(vo['minimum_step']) if vo.get('minimum_step') is not None else Fraction(1e-12)
            st = ps.spec_steps(vo['step_calc'], ps.fr(vo['step']), mn, z[o:o + size])
            if st is None:
                return True, ''
            hs += st
            forms += [vo['form']] * size
        o += size
    nrows = J.shape[0]
    for j in range(nz):
        tay = ps.taylor(stages, z, j)
        h = hs[j]
        for i in range(nrows):
            a = tay[sel0 + i]
            got = F(J[i, j])
            exact_d = a[1] if len(a) > 1 else Fraction(0)
            if c['method'] == 'cs':
                want = ps.cs_expected(a, h)
            else:
                want = ps.fd_expected(a, forms[j], h)
            if c['exact']:
                if got != want:
                    return False, ('J[%d,%d] = %s but %s of the polynomial gives exactly %s (exact derivative %s, '
                                   'step %s)' % (i, j, float(got), c['method'], float(want), float(exact_d),
                                                 float(h)))
            else:
                trunc = abs(want - exact_d)
                ta = ps.taylor(stages, z, j, absolute=True)[sel0 + i]
                habs = abs(h)
                mag = sum(x * habs ** n for n, x in enumerate(ta))
                if c['method'] == 'cs':
                    rb = 256 * U * (ta[1] if len(ta) > 1 else 0) + 256 * U * trunc
                else:
                    rb = 256 * U * mag * 2 / habs + 256 * U * abs(exact_d)
                if abs(got - exact_d) > trunc + rb:
                    return False, ('J[%d,%d] = %r, exact derivative %r: error %.3e exceeds truncation %.3e + '
                                   'round-off allowance %.3e' % (i, j, float(got), float(exact_d),
                                                                 float(abs(got - exact_d)), float(trunc),
                                                                 float(rb)))
    return True, ''


def handle_jac(c):
    kind = '%s:%s:%s:%s%s' % (c['level'], c['method'], c.get('form', '-') if c['method'] == 'fd' else '-',
                              c.get('step_calc', '-') if c['method'] == 'fd' else '-',
                              ':colored' if c['colored'] else '')
    sig = kind + (':exact' if c['exact'] else ':float')
    J, same, _, _ = run_jac(c, False)
    if not same:
        return {'res': '__none__', 'ok': False, 'sig': 'state:' + sig, 'kind': kind,
                'msg': 'inputs/outputs/residuals differ bitwise after the approximation'}
    ok, msg = jac_oracle(c, J)
    if not ok:
        return {'res': '__none__', 'ok': False, 'sig': 'value:' + sig, 'kind': kind, 'msg': msg}
    res = {'J': [[q(J[i, j]) for i in range(J.shape[0])] for j in range(J.shape[1])]}
    groups = None
    if c['colored']:
        Jc, same_c, groups, _ = run_jac(c, True)
        if not same_c:
            return {'res': '__none__', 'ok': False, 'sig': 'state-colored:' + sig, 'kind': kind,
                    'msg': 'inputs/outputs/residuals differ bitwise after the coloured approximation'}
        # The colouring drops entries whose magnitude is below its sparsity tolerance (1e-25 relative to the largest
        # entry): an entry that is zero in exact arithmetic but carries approximation noise (e.g. the O(h^2) term
        # -5e-41 of a complex step with h = 1e-20) is exactly 0 coloured and noise uncoloured.  Everything above that
        # floor must be identical.
        floor = 1e-22 * max(1.0, float(np.max(np.abs(J))) if J.size else 1.0)
        differs = (Jc != J) & ~((np.abs(Jc) <= floor) & (np.abs(J) <= floor))
        if np.any(differs):
            ij = np.argwhere(differs)[0]
            return {'res': '__none__', 'ok': False, 'sig': 'colored:' + sig, 'kind': kind,
                    'msg': 'coloured J[%d,%d] = %r, uncoloured %r' % (ij[0], ij[1], Jc[tuple(ij)], J[tuple(ij)])}
        if groups is not None:
            cols = []
            for g in groups:
                for col, rows in g:
                    cols.append([col, [q(Jc[i, col]) if i in rows else q(0.0) for i in range(Jc.shape[0])]])
            res['groups'] = groups
            res['Jc'] = cols
    out = {'ok': True, 'msg': '', 'sig': sig, 'kind': kind + ('' if c['exact'] else ':float')}
    out['res'] = res if c['exact'] else '__none__'
    if c['colored']:
        out['kind'] += ':groups' if groups is not None else ':nocoloring'
    return out


_data_cache = {}


def data_problem(n):
    if n not in _data_cache:
        p = om.Problem()
        comp = om.ExecComp('y = 2*x', x=np.zeros(n), y=np.zeros(n))
        p.model.add_subsystem('c', comp, promotes=['*'])
        p.setup()
        p.final_setup()
        _data_cache[n] = (p, comp)
    return _data_cache[n]


def handle_data(c):
    v = [ps.fr(x) for x in c['val']]
    p, comp = data_problem(len(v))
    comp._inputs['x'] = np.array([float(x) for x in v])
    kw = {'form': c['form'], 'step': fl(c['step']), 'step_calc': c['step_calc']}
    if c.get('order') is not None:
        kw['order'] = c['order']
    if c.get('minimum_step') is not None:
        kw['minimum_step'] = fl(c['minimum_step'])
    kind = 'data:%s:%s:%s' % (c['form'], c.get('order'), c['step_calc'])
    fd = FiniteDifference()
    try:
        fd.add_approximation('c.x', comp, kw)
        deltas, coeffs, cur = fd._get_approx_data(comp, 'c.x', fd._wrt_meta['c.x'])
    except ValueError as e:
        # unknown form / order / step_calc are rejected
        expected_reject = (c['form'] not in ps.TRUE_STENCIL or c['step_calc'] not in
                           ('abs', 'rel', 'rel_avg', 'rel_legacy', 'rel_element') or
                           (c.get('order') is not None and c['order'] != {'forward': 1, 'backward': 1,
                                                                          'central': 2}.get(c['form'])))
        return {'res': err(1), 'ok': bool(expected_reject), 'sig': kind + ':rejected', 'kind': kind + ':rejected',
                'msg': '' if expected_reject else 'valid options rejected: %s' % e}
    D = np.atleast_2d(np.asarray(deltas, dtype=float))
    Cf = np.atleast_2d(np.asarray(coeffs, dtype=float))
    if D.shape[0] == 1 and np.ndim(deltas) == 1 and len(np.atleast_1d(deltas)) > 1:
        D, Cf = D.T, Cf.T
    elif np.ndim(deltas) == 1:
        D, Cf = D.reshape(-1, 1), Cf.reshape(-1, 1)
    cu = np.atleast_1d(np.asarray(cur, dtype=float))
    # oracle: the documented step and the mathematical stencil, up to the roundings of 1/step and products
    step = ps.fr(c['step'])
    mn = ps.fr(c['minimum_step']) if c.get('minimum_step') is not None else Fraction(1e-12)
    hs = ps.spec_steps(c['step_calc'], step, mn, v)
    ok, msg = True, ''
    if hs is not None and c['form'] in ps.TRUE_STENCIL:
        ds, cs_, cur_t = ps.TRUE_STENCIL[c['form']]
        ncol = D.shape[1]
        hh = hs if c['step_calc'] == 'rel_element' else [hs[0]]
        if ncol != len(hh) or D.shape[0] != len(ds) or len(cu) != len(hh):
            ok, msg = False, 'shape of approximation data %s / %s for %d steps' % (D.shape, cu.shape, len(hh))
        else:
            for e in range(ncol):
                h = hh[e]
                for k in range(len(ds)):
                    if F(D[k, e]) != ds[k] * h:
                        ok, msg = False, 'delta[%d][%d] = %r, expected %r' % (k, e, D[k, e], float(ds[k] * h))
                    w = cs_[k] / h
                    if abs(F(Cf[k, e]) - w) > 3 * U * abs(w):
                        ok, msg = False, 'coeff[%d][%d] = %r, expected %r' % (k, e, Cf[k, e], float(w))
                w = cur_t / h
                if abs(F(cu[e]) - w) > 3 * U * abs(w):
                    ok, msg = False, 'current_coeff[%d] = %r, expected %r' % (e, cu[e], float(w))
    res = {'deltas': [[q(x) for x in row] for row in D], 'coeffs': [[q(x) for x in row] for row in Cf],
           'cur': [q(x) for x in cu]}
    return {'res': res, 'ok': ok, 'msg': msg, 'sig': kind, 'kind': kind}



# ----------------------------------------------------------------------------- group-level approximation around a solver

class CubicImplicit(om.ImplicitComponent):
    """R(x, y) = c3*y^3 + c1*y - k*x  (monotone in y: one real root), analytic partials for Newton"""

    def initialize(self):
        self.options.declare('n', types=int)
        self.options.declare('coef', types=tuple)

    def setup(self):
        n = self.options['n']
        self.add_input('x', np.ones(n))
        self.add_output('y', np.ones(n))
        ar = np.arange(n)
        self.declare_partials('y', 'y', rows=ar, cols=ar)
        self.declare_partials('y', 'x', rows=ar, cols=ar)

    def apply_nonlinear(self, inputs, outputs, residuals):
        c3, c1, k = self.options['coef']
        y = outputs['y']
        residuals['y'] = c3 * y * y * y + c1 * y - k * inputs['x']

    def linearize(self, inputs, outputs, partials):
        c3, c1, k = self.options['coef']
        y = outputs['y']
        partials['y', 'y'] = 3.0 * c3 * y * y + c1
        partials['y', 'x'] = -k * np.ones(self.options['n'])


class PostExplicit(om.ExplicitComponent):
    def initialize(self):
        self.options.declare('n', types=int)

    def setup(self):
        n = self.options['n']
        self.add_input('x', np.ones(n))
        self.add_input('y', np.ones(n))
        self.add_output('z', np.ones(n))
        ar = np.arange(n)
        self.declare_partials('z', 'y', rows=ar, cols=ar)
        self.declare_partials('z', 'x', rows=ar, cols=ar, val=0.5)

    def compute(self, inputs, outputs):
        outputs['z'] = inputs['y'] * inputs['y'] + 0.5 * inputs['x']

    def compute_partials(self, inputs, partials):
        partials['z', 'y'] = 2.0 * inputs['y']


def handle_solve(c):
    """approx_totals on a group / model whose nonlinear solve leaves small non-zero residuals: the three vectors
    must be bitwise identical before and after compute_totals; the totals must be the implicit-function derivative"""
    n = len(c['x'])
    x = np.array([fl(v) for v in c['x']])
    kw = approx_kwargs(c)
    kw.pop('minimum_step', None)
    kind = 'solve:%s:%s:%s:%s' % (c['level'], c['solver'], c['method'], c.get('form', '-') if c['method'] == 'fd' else '-')
    p = om.Problem()
    outer = p.model if c['level'] == 'total' else p.model.add_subsystem('G', om.Group(), promotes=['*'])
    # the solver lives in an inner group; the enclosing group / model approximates its totals
    parent = outer.add_subsystem('S', om.Group(), promotes=['*'])
    if c['solver'] == 'newton':
        coef = tuple(fl(v) for v in c['coef'])
        parent.add_subsystem('imp', CubicImplicit(n=n, coef=coef), promotes=['*'])
        outer.add_subsystem('post', PostExplicit(n=n), promotes=['*'])
        parent.nonlinear_solver = om.NewtonSolver(solve_subsystems=False, atol=fl(c['atol']), rtol=1e-300,
                                                  maxiter=40, iprint=-1)
        parent.linear_solver = om.DirectSolver()
    else:
        a, b = fl(c['coef'][0]), fl(c['coef'][1])
        parent.add_subsystem('c1', om.ExecComp('y = %r * w + x' % a, y=np.ones(n), w=np.ones(n), x=np.ones(n)),
                             promotes=['*'])
        parent.add_subsystem('c2', om.ExecComp('w = %r * y + 1.0' % b, y=np.ones(n), w=np.ones(n)), promotes=['*'])
        outer.add_subsystem('post', PostExplicit(n=n), promotes=['*'])
        parent.nonlinear_solver = om.NonlinearBlockGS(atol=fl(c['atol']), rtol=1e-300, maxiter=200, iprint=-1)
        parent.linear_solver = om.DirectSolver()
    outer.approx_totals(**kw)
    p.setup(force_alloc_complex=True)
    p.set_val('x', x)
    p.final_setup()
    p.run_model()
    s0 = snapshot(p.model)
    nzres = bool(np.any(p.model._residuals.asarray() != 0.0))
    tot = p.compute_totals(of=['y', 'z'], wrt=['x'], return_format='array')
    s1 = snapshot(p.model)
    kind += ':resid!=0' if nzres else ':resid=0'
    if s0 != s1:
        which = [nm for nm, a, b2 in zip(('inputs', 'outputs', 'residuals'), s0, s1) if a != b2]
        r0 = np.frombuffer(s0[2]).tolist()
        r1 = np.frombuffer(s1[2]).tolist()
        return {'res': '__none__', 'ok': False, 'sig': 'state:' + kind, 'kind': kind,
                'msg': '%s differ bitwise after compute_totals with approx_totals; residuals before %r, after %r'
                       % (', '.join(which), r0[:6], r1[:6])}
    # implicit-function derivative at the converged point
    y = np.asarray(p.get_val('y')).ravel()
    if c['solver'] == 'newton':
        c3, c1, k = coef
        dy = k / (3.0 * c3 * y * y + c1)
    else:
        dy = np.full(n, 1.0 / (1.0 - a * b))
    dz = 2.0 * y * dy + 0.5
    want = np.vstack([np.diag(dy), np.diag(dz)])
    h = abs(fl(c['step']))
    # the solver tolerance limits the accuracy of the perturbed solves (linear convergence for NLBGS)
    cs_tol = 1e-6 if c['solver'] == 'newton' else 1e-4
    tol = (cs_tol if c['method'] == 'cs' else 20.0 * h + 1e-4) * (1.0 + np.abs(want))
    if c['solver'] == 'nlbgs' and c['method'] == 'cs':
        # the block Gauss-Seidel iteration stops on the norm of the (unperturbed) real residual, so the imaginary
        # part is only as converged as the iteration count happens to make it: state comparison only
        tol = np.full_like(want, np.inf)
    bad = np.argwhere(np.abs(tot - want) > tol)
    if len(bad):
        i, j = bad[0]
        return {'res': '__none__', 'ok': False, 'sig': 'value:' + kind, 'kind': kind,
                'msg': 'total[%d,%d] = %r, implicit-function derivative %r' % (i, j, tot[i, j], want[i, j])}
    return {'res': '__none__', 'ok': True, 'msg': '', 'sig': kind, 'kind': kind}


def handle(c):
    if c['kind'] == 'solve':
        return handle_solve(c)
    if c['kind'] == 'data':
        return handle_data(c)
    return handle_jac(c)


if __name__ == '__main__':
    main(handle)
