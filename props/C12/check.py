"""C12 — FD and complex-step approximations are faithful and side-effect free."""
import os
import sys
from fractions import Fraction

import core
from core import Spec, standard_check, qlit, qlist, optlit

HERE = os.path.dirname(os.path.abspath(__file__))
sys.path.insert(0, HERE)
import polysim as ps  # noqa: E402
import translate as tr  # noqa: E402

DEFAULT_MIN = Fraction(1e-12)      # the float 1e-12, exactly
FORMS = ['forward', 'backward', 'central']
STEP_CALCS = ['abs', 'rel', 'rel_avg', 'rel_legacy', 'rel_element']
PYTH = [[3, 4], [5, 12], [1, 2, 2], [2, 3, 6], [1, 4, 8], [4, 4, 7], [1, 1, 1, 1], [2, 4, 5, 6], [0, 3], [6, 8, 0],
        [1], [3], [0], [2, 6, 9], [1, 2, 4, 10], [8, 9, 12]]


def jq(fr):
    fr = Fraction(fr)
    return [fr.numerator, fr.denominator]


def nat(n):
    return '%d%%nat' % n


def poly_term(poly):
    return '[%s]' % '; '.join('(%s, [%s])' % (qlit(ps.fr(c)), '; '.join('(%s, %s)' % (nat(v), nat(e)) for v, e in mon))
                              for c, mon in poly)


def stages_term(stages):
    return '[%s]' % '; '.join('[%s]' % '; '.join(poly_term(p) for p in st) for st in stages)


def groups_term(groups):
    return '[%s]' % '; '.join(
        '[%s]' % '; '.join('(%s, [%s])' % (nat(col), '; '.join(nat(r) for r in rows)) for col, rows in g)
        for g in groups)


def rows_lit(rows):
    return '[%s]' % '; '.join(qlist([ps.fr(x['q']) for x in row]) for row in rows)


def var_opts(c, vi):
    """fd options of wrt variable vi: the case's global options unless 'varopts' overrides them"""
    vo = (c.get('varopts') or [None] * len(c['invars']))[vi]
    if vo is None:
        return {'form': c['form'], 'step_calc': c['step_calc'], 'step': c['step'], 'minimum_step': c.get('minimum_step')}
    return vo


# ----------------------------------------------------------------------------- exactness simulation

def simulate_exact(c):
    """True when every float operation of the real run (component evaluation at every perturbed point and
    the FD / CS combination) is exact, so that the implementation must equal the rational model exactly."""
    try:
        z = [ps.fr(v) for v in c['z']]
        nz = len(z)
        stages = c['stages']
        step = ps.fr(c['step'])
        base_env = ps.eval_chain(stages, z, check=True)
        outs0 = base_env[nz:]
        if c['method'] == 'cs':
            if not ps.is_float(1 / step):
                return False
            for j in range(nz):
                zc = [(v, Fraction(0)) for v in z]
                zc[j] = (z[j], step)
                env = ps.eval_chain_c(stages, zc, check=True)
                for v in env[nz:]:
                    ps._chk(v[1] * (1 / step))
            return True
        o = 0
        for vi, (name, size) in enumerate(c['invars']):
            vo = var_opts(c, vi)
            step = ps.fr(vo['step'])
            mn = ps.fr(vo['minimum_step']) if vo.get('minimum_step') is not None else DEFAULT_MIN
            ds, cs_, cur = ps.TRUE_STENCIL[vo['form']]
            v = z[o:o + size]
            hs = ps.spec_steps(vo['step_calc'], step, mn, v)
            if hs is None:
                return False
            if vo['step_calc'] in ('rel', 'rel_avg'):
                ps._chk(sum(abs(x) for x in v) / size)
                ps._chk(step * sum(abs(x) for x in v) / size)
            for k in range(size):
                h = hs[k]
                if not (ps.is_float(h) and ps.is_float(1 / h)):
                    return False
                j = o + k
                if c['level'] == 'explicit':
                    base = [Fraction(0)] * len(outs0)
                else:
                    base = outs0
                acc = [ps._chk(b * ps._chk(cur / h)) for b in base]
                for d, cf in zip(ds, cs_):
                    zz = list(z)
                    zz[j] = ps._chk(z[j] + ps._chk(d * h))
                    env = ps.eval_chain(stages, zz, check=True)[nz:]
                    if c['level'] == 'explicit':
                        env = [ps._chk(e - y) for e, y in zip(env, outs0)]
                    coeff = ps._chk(cf / h)
                    acc = [ps._chk(a + ps._chk(e * coeff)) for a, e in zip(acc, env)]
            o += size
        return True
    except ps.Inexact:
        return False


# ----------------------------------------------------------------------------- generators

def gen_poly(rng, nenv, allowed, maxdeg):
    nterms = rng.choice([1, 1, 2, 2, 3])
    poly = []
    for _ in range(nterms):
        coef = Fraction(rng.choice([-6, -4, -3, -2, -1, 1, 2, 3, 4, 6]), rng.choice([1, 1, 2, 4]))
        nv = rng.choice([0, 1, 1, 1, 2, 2])
        mon, deg = [], 0
        for v in rng.sample(allowed, min(nv, len(allowed))):
            e = rng.choice([1, 1, 2, 3])
            if deg + e > maxdeg:
                e = maxdeg - deg
            if e <= 0:
                break
            mon.append([v, e])
            deg += e
        poly.append([jq(coef), mon])
    return poly


def gen_values(rng, n, pow2=False):
    if pow2:
        return [Fraction(rng.choice([-1, 1])) * Fraction(2) ** rng.choice([-2, -1, 0, 1]) for _ in range(n)]
    return [Fraction(rng.choice([k for k in range(-8, 9)]), 4) for _ in range(n)]


def gen_jac(rng, exact_bias=True):
    level = rng.choice(['explicit'] * 4 + ['implicit'] * 2 + ['semitotal'] + ['total'] * 2)
    method = rng.choice(['fd', 'fd', 'fd', 'cs'])
    nvars = rng.choice([1, 2, 2, 3])
    sizes = [rng.choice([1, 1, 2, 3]) for _ in range(nvars)]
    if level == 'implicit' and nvars == 1:
        nvars, sizes = 2, sizes + [rng.choice([1, 2])]
    names = ['v%d' % k for k in range(nvars)]
    c = {'kind': 'jac', 'level': level, 'method': method, 'invars': [[n, s] for n, s in zip(names, sizes)]}
    nz = sum(sizes)
    if method == 'fd':
        c['form'] = rng.choice(FORMS)
        c['step_calc'] = rng.choice(['abs'] * 5 + STEP_CALCS)
        c['minimum_step'] = None
        if level in ('explicit', 'implicit') and c['step_calc'] != 'abs' and rng.random() < 0.4:
            c['minimum_step'] = jq(Fraction(1, 2 ** rng.randrange(4, 12)))
    floaty = rng.random() < 0.15
    if floaty:
        c['step'] = jq(Fraction(rng.choice([1e-6, 1e-5, 1e-4, 3e-7]) if method == 'fd' else rng.choice([1e-40, 1e-30, 1e-20])))
    else:
        c['step'] = jq(Fraction(1, 2 ** (rng.randrange(2, 11) if method == 'fd' else rng.randrange(4, 31))))
        if method == 'fd' and rng.random() < 0.1:
            c['step'] = jq(-ps.fr(c['step']))
            if c['step_calc'] != 'abs':
                c['step_calc'] = 'abs'
    pow2 = method == 'fd' and c['step_calc'] in ('rel_element', 'rel', 'rel_avg', 'rel_legacy') and not floaty
    z = []
    for s in sizes:
        if pow2 and c['step_calc'] == 'rel_legacy':
            base = rng.choice([p for p in PYTH if len(p) == s] or [[1] * s])
            # norm of a scaled pythagorean vector; a power-of-two norm only for 1 or 4 equal entries
            sc = Fraction(2) ** rng.choice([-2, -1, 0, 1])
            vals = [Fraction(rng.choice([-1, 1]) * b) * sc for b in base]
            rng.shuffle(vals)
            z += vals
        elif pow2 and c['step_calc'] in ('rel', 'rel_avg'):
            for _ in range(20):
                vals = gen_values(rng, s)
                m = sum(abs(x) for x in vals) / s
                if m > 0 and ps.is_float(1 / m) and ps.is_float(m):
                    break
            z += vals
        else:
            z += gen_values(rng, s, pow2=pow2)
    c['z'] = [jq(v) for v in z]
    if level == 'implicit':
        c['nstatevars'] = rng.randrange(1, nvars)
        nstate = sum(sizes[nvars - c['nstatevars']:])
        nouts = [nstate]
    elif level == 'explicit':
        nouts = [rng.choice([1, 2, 3, 4])]
    else:
        nouts = [rng.choice([1, 2]) for _ in range(rng.choice([1, 2, 2, 3]))]
    maxdeg = 3 if len(nouts) == 1 else 2
    stages, off = [], nz
    owner = [rng.randrange(len(nouts)) for _ in range(nvars)]
    if level == 'semitotal':
        owner[0] = 0
    c['owner'] = owner
    offs, o = [], 0
    for s in sizes:
        offs.append(o)
        o += s
    for k, no in enumerate(nouts):
        allowed = []
        for vi in range(nvars):
            if level != 'semitotal' or owner[vi] == k:
                allowed += list(range(offs[vi], offs[vi] + sizes[vi]))
        allowed += list(range(nz, off))
        st = []
        for _ in range(no):
            # sparse rows: a row sees a small subset of what is allowed
            sub = rng.sample(allowed, min(len(allowed), rng.choice([1, 2, 2, 3]))) if allowed else []
            st.append(gen_poly(rng, off, sub, maxdeg) if sub else [[jq(Fraction(rng.randrange(-3, 4))), []]])
        stages.append(st)
        off += no
    c['stages'] = stages
    c['colored'] = bool(level in ('explicit', 'implicit') and (method == 'cs' or c['step_calc'] == 'abs')
                        and rng.random() < 0.5)
    if c['colored'] and method == 'fd':
        c['minimum_step'] = None
    if c['colored'] and method == 'fd' and level == 'explicit' and nvars >= 2 and rng.random() < 0.6:
        # partial colouring: only the first ncol variables are coloured; the others are declared LAST with the
        # same method but different options (step, form, step_calc)
        ncol = rng.randrange(1, nvars)
        c['ncolored'] = ncol
        vopts = [None] * nvars
        for vi in range(ncol, nvars):
            sgn = 1
            vopts[vi] = {'form': rng.choice(FORMS), 'step_calc': rng.choice(['abs', 'abs', 'rel_avg', 'rel_element']),
                         'step': jq(sgn * Fraction(1, 2 ** rng.randrange(1, 9))), 'minimum_step': None}
            if vopts[vi]['step'] == c['step'] and vopts[vi]['form'] == c['form']:
                vopts[vi]['step'] = jq(ps.fr(c['step']) / 4)
        c['varopts'] = vopts
    c['exact'] = (not floaty) and simulate_exact(c)
    return c


def gen_data(rng, malformed=False):
    c = {'kind': 'data', 'form': rng.choice(FORMS), 'order': None, 'step_calc': rng.choice(STEP_CALCS)}
    if rng.random() < 0.3:
        c['order'] = {'forward': 1, 'backward': 1, 'central': 2}[c['form']]
    if malformed:
        k = rng.randrange(3)
        if k == 0:
            c['form'] = rng.choice(['centred', 'Forward', 'complex', ''])
            c['order'] = None
        elif k == 1:
            c['order'] = rng.choice([0, 2, 3, 4]) if c['form'] != 'central' else rng.choice([1, 3, 4])
            if c['step_calc'] not in STEP_CALCS:
                c['step_calc'] = 'abs'
        else:
            c['step_calc'] = rng.choice(['relative', 'ABS', 'rel_elem'])
            c['order'] = None
    sgn = -1 if (c['step_calc'] == 'abs' and rng.random() < 0.15) else 1
    c['step'] = jq(sgn * Fraction(rng.choice([1, 1, 1, 3, 5]), 2 ** rng.randrange(1, 21)))
    c['minimum_step'] = None if rng.random() < 0.5 else jq(Fraction(rng.choice([1, 1, 3]), 2 ** rng.randrange(3, 30)))
    step = ps.fr(c['step'])
    for _ in range(200):
        if c['step_calc'] == 'rel_legacy':
            base = list(rng.choice(PYTH))
            sc = Fraction(rng.choice([1, 1, 3]), 2 ** rng.randrange(0, 4))
            v = [Fraction(rng.choice([-1, 1]) * b) * sc for b in base]
            rng.shuffle(v)
        else:
            n = rng.choice([1, 1, 2, 3, 4, 5])
            v = [Fraction(rng.randrange(-12, 13), rng.choice([1, 2, 4, 8])) for _ in range(n)]
            if rng.random() < 0.1:
                v = [Fraction(0)] * n
        n = len(v)
        ok = True
        if c['step_calc'] in ('rel', 'rel_avg'):
            m = sum(abs(x) for x in v) / n
            ok = ps.is_float(m) and ps.is_float(m * step)
        if ok:
            break
    c['val'] = [jq(x) for x in v]
    return c


def gen_solve(rng):
    """group-level / model-level approx_totals around an implicit component solved by Newton, or a cycle solved by
    NLBGS, with a convergence tolerance that leaves small non-zero residuals"""
    c = {'kind': 'solve', 'level': rng.choice(['total', 'semitotal']), 'solver': rng.choice(['newton', 'newton', 'nlbgs']),
         'method': rng.choice(['fd', 'fd', 'fd', 'cs'])}
    n = rng.choice([1, 2, 3])
    c['x'] = [jq(Fraction(rng.randrange(2, 40), 8)) for _ in range(n)]
    if c['solver'] == 'newton':
        c['coef'] = [jq(Fraction(rng.choice([1, 2, 3]), rng.choice([1, 2, 4]))), jq(Fraction(rng.choice([1, 2, 3]), 2)),
                     jq(Fraction(rng.choice([1, 2, 3]), rng.choice([1, 2])))]
    else:
        c['coef'] = [jq(Fraction(rng.choice([1, 2, 3]), 8)), jq(Fraction(rng.choice([1, 2, 3]), 4))]
    c['atol'] = jq(Fraction(rng.choice([1e-9, 1e-10, 1e-11, 1e-12])))
    if c['method'] == 'fd':
        c['form'] = rng.choice(FORMS)
        c['step_calc'] = rng.choice(['abs', 'abs', 'rel_avg', 'rel_element'])
        c['step'] = jq(Fraction(1, 2 ** rng.randrange(8, 14)))
    else:
        c['step'] = jq(Fraction(rng.choice([1e-40, 1e-30, 1e-20])))
    return c


class C12(Spec):
    pid = 'C12'
    imports = ['C12.Model']
    impl_script = 'props/C12/impl.py'
    exactness = ('E3 (dyadic-exact): every approximated jacobian entry of the exact cases, every delta of the '
                 'approximation data; coefficients 1/step within 3 roundings; E5: bitwise state before/after')
    shard = 150
    impl_jobs = 8
    rule = ('approximation data: form x order x step_calc x step x minimum_step x wrt value (exact rational oracle of '
            'the documented step rules, malformed options stream); jacobians: generated polynomial explicit / implicit '
            'components (partials), groups with approx_totals (semi-total) and models with approx_totals (total), '
            'fd forward/backward/central x step_calc, cs, coloured and uncoloured; a case is non-trivial when it is a '
            'distinct (system, options, point) triple')
    assumptions = ['float arithmetic is IEEE binary64 with correctly rounded + - * / (used to decide which generated '
                   'cases must agree exactly with the rational model)',
                   'the exact derivative and the truncation remainder of the oracle are computed by univariate '
                   'polynomial arithmetic over Fractions along every coordinate line (independent of the Coq model)']

    def translate(self, wd):
        tr.translate(core.REPO, os.path.join(core.COQ, 'C12', 'GenFDCoeffs.v'))
        return []

    def gen(self, tier, rng):
        nd, nm, nj = (400, 40, 200) if tier == 'quick' else (20000, 1000, 6000)
        cases = []
        # every (form, step_calc) on a fixed grid first
        for form in FORMS:
            for sc in STEP_CALCS:
                for v in ([[1, 1]], [[1, 2], [-3, 2]], [[0, 1], [4, 1], [-1, 2]]):
                    if sc == 'rel_legacy' and len(v) > 1:
                        v = [[3, 4], [-1, 1]] if len(v) == 2 else [[2, 1], [-3, 1], [6, 1]]
                    for mn in (None, [1, 8]):
                        cases.append({'kind': 'data', 'form': form, 'order': None, 'step_calc': sc,
                                      'step': [1, 16], 'minimum_step': mn, 'val': v})
        cases += [gen_data(rng) for _ in range(nd)]
        cases += [gen_data(rng, malformed=True) for _ in range(nm)]
        cases += [gen_jac(rng) for _ in range(nj)]
        cases += [gen_solve(rng) for _ in range(30 if tier == 'quick' else 600)]
        return cases

    def search_gen(self, tier, rng):
        return self.gen(tier, rng)

    def compare_case(self, c, res):
        # the coefficients / colour groups computed by the implementation are inputs of the model's checkers:
        # standard_check calls compare_case (with the result) before got_term, so the result is parked on the case
        ok = res.get('res', '__none__') != '__none__'
        if ok:
            c['_res'] = res['res']
        return ok

    def nontrivial(self, c, res):
        return True

    # ---- model terms
    def got_term(self, c):
        if c['kind'] == 'data':
            mn = ps.fr(c['minimum_step']) if c.get('minimum_step') is not None else DEFAULT_MIN
            args = '"%s" %s "%s" %s %s %s' % (c['form'], optlit(c.get('order')), c['step_calc'],
                                             qlit(ps.fr(c['step'])), qlit(mn), qlist([ps.fr(x) for x in c['val']]))
            r = c.get('_res')
            if r is None or 'e' in r:
                return '(v_adata (approx_data_opts %s))' % args
            return '(v_adata_check (3#1) (approx_data_opts %s) %s %s)' % (
                args, rows_lit(r['coeffs']), qlist([ps.fr(x['q']) for x in r['cur']]))
        z = [ps.fr(v) for v in c['z']]
        nz = len(z)
        nrows = sum(len(st) for st in c['stages'])
        sel = '[%s]' % '; '.join(nat(nz + i) for i in range(nrows))
        st = stages_term(c['stages'])
        groups = (c.get('_res') or {}).get('groups')
        if c['method'] == 'cs':
            parts = ['(vrows (cs_jac_uncolored %s %s %s %s))' % (st, sel, qlist(z), qlit(ps.fr(c['step'])))]
            if groups is not None:
                parts.append('(v_colored (cs_jac_colored %s %s %s %s %s))' % (
                    st, sel, qlist(z), qlit(ps.fr(c['step'])), groups_term(groups)))
            return '(VL [%s])' % '; '.join(parts)
        mn = ps.fr(c['minimum_step']) if c.get('minimum_step') is not None else DEFAULT_MIN
        vars_, o = [], 0
        for name, size in c['invars']:
            vars_.append('(%s, %s)' % (nat(o), nat(size)))
            o += size
        if c['level'] == 'explicit':
            y0 = '(sel_entries sel (run_stages stages x))'
            base = '(vzero y0)'
        else:
            y0 = '(vzero (sel_entries sel x))'
            base = '(sysfun stages sel y0 x)'
        if c.get('varopts'):
            vt = []
            for vi, vv in enumerate(vars_):
                vo = var_opts(c, vi)
                vmn = ps.fr(vo['minimum_step']) if vo.get('minimum_step') is not None else DEFAULT_MIN
                vt.append('(%s, (("%s", "%s"), (%s, %s)))' % (vv, vo['form'], vo['step_calc'], qlit(ps.fr(vo['step'])),
                                                             qlit(vmn)))
            parts = ['(fd_jac_varopts stages sel y0 base x [%s])' % '; '.join(vt)]
        else:
            parts = ['(fd_jac_opts stages sel y0 base x "%s" None "%s" %s %s [%s])' % (
                c['form'], c['step_calc'], qlit(ps.fr(c['step'])), qlit(mn), '; '.join(vars_))]
        if groups is not None:
            parts.append('(fd_jac_colored_opts stages sel y0 base x "%s" None %s %s %s %s)' % (
                c['form'], qlit(ps.fr(c['step'])), qlit(mn), vars_[0], groups_term(groups)))
        return ('(let stages := %s in let sel := %s in let x := %s in let y0 := %s in let base := %s in VL [%s])'
                % (st, sel, qlist(z), y0, base, '; '.join(parts)))

    def want_term(self, c, res):
        r = res['res']
        if c['kind'] == 'data':
            if 'e' in r:
                return '(VE 1)'
            return '(VL [vrows %s; VB true; VB true])' % rows_lit(r['deltas'])
        parts = ['(vrows %s)' % rows_lit(r['J'])]
        if r.get('groups') is not None:
            parts.append('(VL [%s])' % '; '.join(
                '(VL [VZ %d; vqs %s])' % (col, qlist([ps.fr(x['q']) for x in rows])) for col, rows in r['Jc']))
        return '(VL [%s])' % '; '.join(parts)

    def shrink(self, c):
        if c['kind'] != 'jac':
            return
        # drop one polynomial term at a time
        for si, st in enumerate(c['stages']):
            for pi, poly in enumerate(st):
                if len(poly) > 1:
                    for ti in range(len(poly)):
                        c2 = dict(c)
                        c2['stages'] = [[[t for k, t in enumerate(p) if not (a == si and b == pi and k == ti)]
                                         for b, p in enumerate(s)] for a, s in enumerate(c['stages'])]
                        c2['exact'] = c['exact'] and simulate_exact(c2)
                        yield c2


def main(tier):
    return standard_check(C12(), tier)
