"""Fail-closed translator: FD_COEFFS / DEFAULT_ORDER of finite_difference.py -> coq/C12/GenFDCoeffs.v.

Python ast -> exact Q literals (every float literal is converted with Fraction(float), i.e. exactly).
Any AST shape that is not recognised raises TranslateError (the check then treats the tie as broken)."""
import ast
import os
from fractions import Fraction


class TranslateError(Exception):
    pass


def _num(node):
    if isinstance(node, ast.UnaryOp) and isinstance(node.op, ast.USub):
        return -_num(node.operand)
    if isinstance(node, ast.UnaryOp) and isinstance(node.op, ast.UAdd):
        return _num(node.operand)
    if isinstance(node, ast.Constant) and type(node.value) in (int, float):
        return Fraction(node.value)
    if isinstance(node, ast.BinOp) and isinstance(node.op, ast.Div):
        d = _num(node.right)
        if d == 0:
            raise TranslateError('division by zero in a coefficient')
        return _num(node.left) / d
    raise TranslateError('unsupported numeric literal: ' + ast.dump(node)[:120])


def _np_array(node):
    if not (isinstance(node, ast.Call) and isinstance(node.func, ast.Attribute) and node.func.attr == 'array'
            and isinstance(node.func.value, ast.Name) and node.func.value.id in ('np', 'numpy')
            and len(node.args) == 1 and not node.keywords and isinstance(node.args[0], (ast.List, ast.Tuple))):
        raise TranslateError('expected np.array([...]): ' + ast.dump(node)[:120])
    return [_num(e) for e in node.args[0].elts]


def parse(src):
    tree = ast.parse(src)
    default_order, table, fields = None, None, None
    for node in tree.body:
        if isinstance(node, ast.Assign) and len(node.targets) == 1 and isinstance(node.targets[0], ast.Name) \
                and node.targets[0].id == 'DEFAULT_ORDER':
            if not isinstance(node.value, ast.Dict):
                raise TranslateError('DEFAULT_ORDER is not a dict literal')
            default_order = []
            for k, v in zip(node.value.keys, node.value.values):
                if not (isinstance(k, ast.Constant) and isinstance(k.value, str)
                        and isinstance(v, ast.Constant) and type(v.value) is int):
                    raise TranslateError('DEFAULT_ORDER entry not str -> int')
                default_order.append((k.value, v.value))
    fn = [n for n in tree.body if isinstance(n, ast.FunctionDef) and n.name == '_generate_fd_coeff']
    if len(fn) != 1:
        raise TranslateError('_generate_fd_coeff not found exactly once')
    fn = fn[0]
    if [a.arg for a in fn.args.args][:2] != ['form', 'order']:
        raise TranslateError('_generate_fd_coeff signature changed')
    lookups = 0
    for node in ast.walk(fn):
        if isinstance(node, ast.Assign) and len(node.targets) == 1 and isinstance(node.targets[0], ast.Name):
            name = node.targets[0].id
            if name == 'FDForm':
                v = node.value
                if not (isinstance(v, ast.Call) and isinstance(v.func, ast.Name) and v.func.id == 'namedtuple'
                        and len(v.args) == 2 and isinstance(v.args[1], ast.List)):
                    raise TranslateError('FDForm is not namedtuple(name, [fields])')
                fields = [e.value for e in v.args[1].elts]
            elif name == 'FD_COEFFS':
                if table is not None:
                    raise TranslateError('FD_COEFFS assigned twice')
                if not isinstance(node.value, ast.Dict):
                    raise TranslateError('FD_COEFFS is not a dict literal')
                table = []
                for k, v in zip(node.value.keys, node.value.values):
                    if not (isinstance(k, ast.Tuple) and len(k.elts) == 2 and isinstance(k.elts[0], ast.Constant)
                            and isinstance(k.elts[0].value, str) and isinstance(k.elts[1], ast.Constant)
                            and type(k.elts[1].value) is int):
                        raise TranslateError('FD_COEFFS key is not (str, int)')
                    if not (isinstance(v, ast.Call) and isinstance(v.func, ast.Name) and v.func.id == 'FDForm'):
                        raise TranslateError('FD_COEFFS value is not FDForm(...)')
                    kw = {}
                    if v.args:
                        if fields is None or len(v.args) > len(fields):
                            raise TranslateError('positional FDForm arguments without known fields')
                        for f, a in zip(fields, v.args):
                            kw[f] = a
                    for k2 in v.keywords:
                        if k2.arg in kw or k2.arg is None:
                            raise TranslateError('duplicate / starred FDForm argument')
                        kw[k2.arg] = k2.value
                    if sorted(kw) != ['coeffs', 'current_coeff', 'deltas']:
                        raise TranslateError('FDForm arguments are %s' % sorted(kw))
                    table.append(((k.elts[0].value, k.elts[1].value),
                                  (_np_array(kw['deltas']), _np_array(kw['coeffs']), _num(kw['current_coeff']))))
            elif name == 'fd_form':
                v = node.value
                ok = (isinstance(v, ast.Subscript) and isinstance(v.value, ast.Name) and v.value.id == 'FD_COEFFS')
                if ok:
                    sl = v.slice
                    ok = isinstance(sl, ast.Tuple) and [getattr(e, 'id', None) for e in sl.elts] == ['form', 'order']
                if not ok:
                    raise TranslateError('fd_form is not FD_COEFFS[form, order]')
                lookups += 1
    if fields != ['deltas', 'coeffs', 'current_coeff']:
        raise TranslateError('FDForm fields are %r' % (fields,))
    if default_order is None or table is None or lookups != 1:
        raise TranslateError('DEFAULT_ORDER / FD_COEFFS / lookup not found')
    keys = [k for k, _ in table]
    if len(set(keys)) != len(keys):
        raise TranslateError('duplicate key in FD_COEFFS (later entry would win in Python)')
    for k, (d, c, _) in table:
        if len(d) != len(c):
            raise TranslateError('deltas and coeffs of %r differ in length' % (k,))
    return default_order, table


def qlit(fr):
    return '((%d) # %d)' % (fr.numerator, fr.denominator)


def render(default_order, table):
    out = ['(* GENERATED on every run by props/C12/translate.py from',
           '   openmdao/approximation_schemes/finite_difference.py (FD_COEFFS, DEFAULT_ORDER).  Do not edit. *)',
           'From Coq Require Import ZArith QArith List String.',
           'Import ListNotations.', 'Open Scope string_scope.', '',
           '(* key (form, order)  ->  ((deltas, coeffs), current_coeff) *)',
           'Definition fd_coeffs_raw : list ((string * Z) * ((list Q * list Q) * Q)) := [']
    rows = []
    for (form, order), (d, c, cur) in table:
        rows.append('  (("%s", (%d)%%Z), (([%s], [%s]), %s))' % (
            form, order, '; '.join(qlit(x) for x in d), '; '.join(qlit(x) for x in c), qlit(cur)))
    out.append(';\n'.join(rows))
    out.append('].')
    out.append('')
    out.append('Definition fd_default_order_raw : list (string * Z) := [')
    out.append(';\n'.join('  ("%s", (%d)%%Z)' % (f, o) for f, o in default_order))
    out.append('].')
    return '\n'.join(out) + '\n'


def translate(repo, dest):
    src = open(os.path.join(repo, 'openmdao', 'approximation_schemes', 'finite_difference.py')).read()
    default_order, table = parse(src)
    txt = render(default_order, table)
    try:
        old = open(dest).read()
    except OSError:
        old = None
    if old != txt:
        with open(dest, 'w') as f:
            f.write(txt)
    return default_order, table


if __name__ == '__main__':
    import sys
    print(render(*parse(open(sys.argv[1]).read())))
