"""C19 -- loading a recorded case restores the recorded state."""
import json
import os
import random
import sys

sys.path.insert(0, os.path.dirname(os.path.abspath(__file__)))
import core  # noqa: E402
from core import Verdict, proof_gate, run_impl, coq_mismatches, coq_show, to_val, workdir, seed_from_env  # noqa: E402
import kmodels  # noqa: E402

PID = 'C19'
IMPL = 'props/C19/impl.py'


def gen_case(rng, tier, i):
    coupled = (i % 4 == 3)
    lagging = (i % 8 == 5)          # coupled, stopped after 2-3 sweeps, solver iterations recorded too
    override = (i % 8 in (2, 6))    # group 'seg' restores its own variables (load_case override) next to 'seg2'
    if lagging:
        spec = kmodels.gen_spec(rng, ncomp=(2, 4), sizes=(1, 2), coupled=True, nl_iters=rng.choice([2, 3]))
        spec['solvers'][''] = dict(spec['solvers'].get('', {'ln': 'direct'}), nl='nlbgs',
                                   maxiter=rng.choice([2, 3]))
    elif override:
        spec = kmodels.gen_spec(rng, ncomp=(3, 4), sizes=(1, 2), coupled=False, groups=True,
                                group_names=['seg', 'seg2'])
        paths = [c['path'] for c in spec['comps']]
        if any(p.startswith('seg.') for p in paths):
            spec['load_override'] = ['seg'] + (['seg.in'] if rng.random() < 0.3 and
                                               any(p.startswith('seg.in.') for p in paths) else [])
    else:
        spec = kmodels.gen_spec(rng, ncomp=(2, 4), sizes=(1, 2, 3), coupled=coupled, nl_iters=60)
    if not spec.get('coupled'):
        spec['solvers'] = {}
    # features around the automatically created sources and the stored form of a case
    free = {}
    for comp in spec['comps']:
        for v in comp['ins']:
            nm = kmodels.prom_name(comp, v, 'in')
            if nm in spec['init']:
                free[nm] = (comp, v)
    if not lagging and rng.random() < 0.5:
        # inputs in cm whose promoted name has defaults in m (the source is then in m)
        for nm, (comp, v) in free.items():
            if rng.random() < 0.7:
                comp.setdefault('units', {})[v] = 'cm'
                if v in comp['prom_in'] and rng.random() < 0.8:
                    spec.setdefault('input_defaults', {})[nm] = {'units': rng.choice(['m', 'mm'])}
    if rng.random() < 0.4:
        # solver scaling of outputs: system and solver cases are recorded while the vectors are scaled
        for comp in spec['comps']:
            for o in comp['outs']:
                if rng.random() < 0.6:
                    comp.setdefault('ref', {})[o] = rng.choice([[100.0, 0.0], [0.5, 0.0], [10.0, 1.0], [3.0, -2.0]])
    cand = [(nm, comp, v) for nm, (comp, v) in free.items()
            if v in comp['prom_in'] and nm not in spec.get('input_defaults', {}) and not comp.get('units', {}).get(v)]
    if cand and not lagging and rng.random() < 0.5:
        # the promoted name gets a default value and a second, shape_by_conn, input (connection resolution then
        # runs a second time at final_setup)
        nm, comp, v = rng.choice(cand)
        parent = comp['path'].rsplit('.', 1)[0] if '.' in comp['path'] else ''
        spec['sbc'] = {'group': parent, 'var': v, 'name': nm, 'val': [rng.choice([0.75, -1.5, 2.25]) for _ in range(comp['n'])]}
    cand2 = [t for t in cand if t[0] != spec.get('sbc', {}).get('name')]
    if cand2 and not lagging and rng.random() < 0.35:
        # a promoted input that takes entries [idx] of a larger automatically created source
        nm, comp, v = rng.choice(cand2)
        nn = comp['n']
        m = nn + rng.randint(1, 3)
        comp['src_idx'] = {v: {'idx': sorted(rng.sample(range(m), nn)) if rng.random() < 0.7 else
                               [rng.randrange(m) for _ in range(nn)], 'shape': m}}
        spec['init'][nm] = [rng.choice([-1, 0.5, 1, 2, 3]) for _ in range(m)]
    if not lagging and not spec.get('coupled') and rng.random() < 0.3:
        spec['discrete'] = True
        spec['init']['u_d'] = [rng.choice([-1, 0.5, 2, 3])]
    dvs = spec['dvs']
    n = spec['comps'][0]['n']
    dtype = rng.choice(['none', 'doe']) if dvs else 'none'
    driver = {'type': dtype}
    runs = []
    if dtype == 'doe':
        driver['points'] = [[[d['name'], [rng.choice([-1, 0.5, 2, 3, 0.125])] * n] for d in dvs]
                            for _ in range(rng.randint(2, 4))]
        if rng.random() < 0.5:
            runs += ['model', 'record:before']
        runs += ['driver', 'record:after']
    else:
        for k in range(rng.randint(2, 4)):
            runs += ['set', 'model']
            if rng.random() < 0.7:
                runs.append('record:p%d' % k)
    partial = None
    if rng.random() < 0.4:
        ins, outs = kmodels.all_abs_names(spec)
        nm = rng.choice(ins + outs)
        k = rng.randrange(1, len(nm))
        partial = rng.choice([[nm[:k] + '*'], ['*' + nm[k:]], [nm], ['*.' + nm.rsplit('.', 1)[1]], []])
    for pt in driver.get('points', []):
        for item in pt:
            item[1] = [item[1][0]] * len(spec['init'].get(item[0], item[1]))
    gpaths = sorted({cc['path'].rsplit('.', 1)[0] for cc in spec['comps'] if '.' in cc['path']})
    subrec = [g for g in gpaths if rng.random() < 0.5]
    # only_sub: the file is written by sub-group recorders alone (its promoted names are group-relative)
    only_sub = bool(subrec) and len(subrec) == 1 and rng.random() < 0.5
    return {'spec': spec, 'driver': driver, 'runs': runs, 'partial': partial, 'lagging': lagging,
            'sub_recorders': subrec, 'only_sub': only_sub,
            'ncases': (6 if lagging else 4) if tier == 'quick' else 8,
            'seed': rng.randrange(10 ** 6)}


def gen(tier, rng):
    n = 90 if tier == 'quick' else 300
    return [gen_case(rng, tier, i) for i in range(n)]


def s_(x):
    return '"%s"' % x


def kv(xs):
    return '[%s]' % '; '.join('(%s, (%d))' % (s_(k), v) for k, v in xs)


def got_want(res):
    got, want = [], []
    for e in res:
        got.append('(c19_load [%s] %s %s %s [%s] [%s])' % (
            '; '.join('(%s, %s)' % (s_(a), s_(b)) for a, b in e['conns']), kv(e['cin']), kv(e['cout']), kv(e['s']),
            '; '.join(s_(x) for x in e['outs']), '; '.join(s_(x) for x in e['ins'])))
        want.append(to_val(e['after']))
    return '(VL [%s])' % '; '.join(got), '(VL [%s])' % '; '.join(want)


RULE = ('generated models (2-4 components: explicit feed-forward incl. implicit components with their own solve, and '
        'every fourth one coupled and converged; inputs in units other than their promoted defaults, outputs with '
        'ref/ref0 scaling, a discrete component, groups overriding load_case) x run sequences (run_model with changed inputs, DOE, Problem.record) '
        'recorded on problem (complete or include-pattern partial), driver, root system, sub-groups (group-relative '
        'promoted names) and solvers x sampled cases loaded '
        'into a fresh or a dirty (other inputs, already run) problem; an evaluation is one loaded case')

ASSUMPTIONS = [
    'recorded states are consistent (end of a run of an explicit model, or of a converged coupled one): a case '
    'recorded in the middle of a coupled iteration holds inputs that lag their sources, and get_val of a connected '
    'input reads its source (Coq: lagging_input_refuted; FINDINGS.md)',
    'whole-variable connections without src_indices or unit conversion; no discrete variables; single process',
    'coupled models are compared at 1e-9 relative (solver tolerance), explicit ones bitwise',
]


def run_parallel(cases, wd, tag):
    import concurrent.futures as cf
    jobs = max(1, min(core.NCPU, 8, len(cases)))
    chunks = [cases[j::jobs] for j in range(jobs)]
    with cf.ThreadPoolExecutor(max_workers=jobs) as ex:
        futs = [ex.submit(run_impl, IMPL, ch, wd, '%s%d' % (tag, j), 1100, 1) for j, ch in enumerate(chunks)]
        outs = [f.result() for f in futs]
    if any(o[0] is None for o in outs):
        return None, '\n'.join(o[1] for o in outs)
    res = [None] * len(cases)
    for j, o in enumerate(outs):
        res[j::jobs] = o[0]
    return res, ''


def run_cases(v, wd, cases, tag, compare=True):
    results, log = run_parallel(cases, wd, tag)
    if results is None:
        v.broke('correspondence:implementation-run-failed')
        v.cov['broken_detail'] = log[-3000:]
        return False
    got, want, idx = [], [], []
    tot = {'cases': 0, 'values': 0, 'frame': 0, 'reruns': 0, 'skipped': 0}
    nmodel = 0
    for i, (c, r) in enumerate(zip(cases, results)):
        st = r.get('stats', {})
        for k in ('cases', 'values', 'frame', 'reruns'):
            tot[k] += st.get(k, 0)
        if r.get('kind') == 'skipped':
            tot['skipped'] += 1
        for j in range(max(1, st.get('cases', 0))):
            v.count_case({'scenario': i, 'case': c} if j == 0 else {'scenario': i, 'loaded': j, 'seed': c['seed'],
                                                                    'tag': tag}, True, r.get('kind'))
        if not r.get('ok', True):
            v.failing(r.get('sig') or 'C19', c, r.get('msg', ''))
        if r.get('res', '__none__') != '__none__':
            g, w = got_want(r['res'])
            idx.append(i)
            got.append(g)
            want.append(w)
            nmodel += len(r['res'])
    v.cov.setdefault('stats', {})[tag] = tot
    if compare and idx:
        bad, errors, cmd = coq_mismatches(wd, ['C19.Model'], got, want, shard=8, tag='cases_' + tag)
        v.add_correspondence('state after load_case (every output and input of the model, as identifiers of bit '
                             'patterns) = C19.Model.load on the state before and the recorded case',
                             nmodel, len(bad), 'E5 (bit patterns; explicit, converged and mid-iteration cases)', cmd)
        if errors:
            v.broke('correspondence:model-evaluation-failed')
            v.cov['broken_detail'] = json.dumps(errors[:2])[-3000:]
        if bad:
            v.broke('correspondence:model-vs-implementation (%d of %d scenarios differ)' % (len(bad), len(idx)))
            b = idx[bad[0]]
            v.cov['broken_detail'] = json.dumps({
                'scenario': cases[b], 'implementation': results[b]['res'][:1],
                'model': coq_show(wd, ['C19.Model'], [got[bad[0]]])[-3000:]})[-9000:]
    return True


def main(tier):
    seed = seed_from_env()
    rng = random.Random(seed * 1000003 + sum(map(ord, PID)))
    wd = workdir(PID, tier)
    v = Verdict(PID, tier, seed)
    v.cov['rule'] = RULE
    v.assumptions = list(ASSUMPTIONS)
    gate = proof_gate(PID, wd)
    v.add_proof(gate)
    cases = core.load_corpus(PID) + gen(tier, rng)
    ok = run_cases(v, wd, cases, 'impl')
    if ok and v.broken and not v.violations:
        rng2 = random.Random(seed + 77)
        run_cases(v, wd, gen('thorough' if tier == 'quick' else tier, rng2)[:150], 'search', compare=False)
    return v.finish()


def replay(rep):
    c = rep.get('case')
    if not c:
        print(json.dumps(rep, indent=1)[:3000])
        return 0
    wd = workdir(PID, 'replay')
    res, log = run_impl(IMPL, [c], wd, tag='replay', jobs=1)
    print(json.dumps({'ok': res[0].get('ok'), 'msg': res[0].get('msg')} if res else {'log': log[-2000:]}, indent=1))
    return 0 if res and res[0].get('ok') else 1
