"""C19 implementation side: real Problem.load_case / get_val / run_model on cases recorded by real runs.

One scenario: a generated model is run (run_model / DOE / Problem.record, inputs changed in between) with
recorders on the problem (optionally with include patterns -> partial cases), the driver and the root system.
Sampled cases are then loaded into a second problem built from the same description -- fresh, or dirty
(other input values, already run) -- and
  oracle : get_val of every recorded input/output == recorded value (bitwise for explicit models, 1e-9 for
           coupled ones); variables the case does not mention are bitwise untouched; for complete cases
           run_model reproduces the recorded outputs (bitwise explicit / 1e-9 coupled)
  model  : the state after load_case as value identifiers, compared with C19.Model.load in Coq.
"""
import os
import random
import sys
import warnings

warnings.simplefilter('ignore')
sys.path.insert(0, os.path.dirname(os.path.abspath(__file__)))
import numpy as np  # noqa: E402
import openmdao.api as om  # noqa: E402
from implutil import main  # noqa: E402
import kmodels  # noqa: E402


def make_driver(d):
    if d['type'] == 'doe':
        return om.DOEDriver(om.ListGenerator([[(n, np.array(v, dtype=float)) for n, v in pt] for pt in d['points']]))
    return None


def names(p):
    """absolute names of the continuous inputs and outputs"""
    mi = p.model.get_io_metadata(iotypes=('input',), return_rel_names=False)
    mo = p.model.get_io_metadata(iotypes=('output',), return_rel_names=False)
    ins = sorted(n for n, m in mi.items() if not m.get('discrete'))
    outs = sorted(n for n, m in mo.items() if not m.get('discrete'))
    return ins, outs


def snapshot(p, ins, outs):
    return ({n: np.array(p.get_val(n), dtype=float).ravel().copy() for n in ins},
            {n: np.array(p.get_val(n), dtype=float).ravel().copy() for n in outs})


def same(a, b, tol):
    a = np.asarray(a, dtype=float).ravel()
    b = np.asarray(b, dtype=float).ravel()
    if a.shape != b.shape:
        return False
    if tol == 0:
        return a.tobytes() == b.tobytes()
    return bool(np.all(np.abs(a - b) <= tol * np.maximum(1.0, np.abs(b))))


def handle(c):
    spec = c['spec']
    rnd = random.Random(c['seed'])
    coupled = bool(spec.get('coupled'))
    tol = 1e-9 if (coupled and not c.get('lagging')) else 0
    fname = './c19_%d.sql' % os.getpid()
    try:
        p = kmodels.build(spec, make_driver(c['driver']))
        rec = om.SqliteRecorder(fname, record_viewer_data=False)
        if not c.get('only_sub'):
            p.add_recorder(rec)
            p.recording_options['record_inputs'] = True
            p.recording_options['includes'] = c['partial'] if c.get('partial') is not None else ['*']
            p.driver.add_recorder(rec)
            p.driver.recording_options['includes'] = ['*']
            p.driver.recording_options['record_inputs'] = True
            p.model.add_recorder(rec)
        if c.get('lagging') and '' in spec.get('solvers', {}):
            pass
        p.setup()
        if c.get('lagging') and '' in spec.get('solvers', {}):
            p.model.nonlinear_solver.add_recorder(rec)
        for path in c.get('sub_recorders', []):
            p.model._get_subsystem(path).add_recorder(rec)
        kmodels.set_init(p, spec)
        free = sorted(spec.get('init', {}))
        n = spec['comps'][0]['n']
        for j, r in enumerate(c['runs']):
            if r == 'model':
                p.run_model(case_prefix='m%d' % j)
            elif r == 'driver':
                p.run_driver(case_prefix='d%d' % j)
            elif r == 'set':
                for nm in free:
                    if rnd.random() < 0.7:
                        p.set_val(nm, [rnd.choice([-2, -0.75, 0.25, 1.5, 4, 7.125]) for _ in spec['init'][nm]])
            elif r.startswith('record:'):
                p.record(r[7:])
        p.cleanup()
        cr = om.CaseReader(fname)
        ids = list(cr.list_cases(out_stream=None))
    except Exception as e:   # noqa
        return {'res': '__none__', 'ok': True, 'msg': 'scenario does not run: %r' % (e,), 'kind': 'skipped', 'sig': ''}
    msgs = []

    def bad(m):
        if len(msgs) < 5:
            msgs.append(m)

    pick = ids if len(ids) <= c['ncases'] else rnd.sample(ids, c['ncases'])
    out = []
    stats = {'cases': 0, 'values': 0, 'frame': 0, 'reruns': 0}
    for cid in pick:
        case = cr.get_case(cid)
        q = kmodels.build(spec)
        q.setup()
        dirty = rnd.random() < 0.5
        setup_only = (not dirty) and rnd.random() < 0.6     # load_case right after setup(), before final_setup
        if dirty:
            for nm in free:
                q.set_val(nm, [rnd.choice([-3.5, 0.125, 9, 2.75, -1.25]) for _ in spec['init'][nm]])
            q.run_model()
        elif not setup_only:
            q.final_setup()
        ins, outs = names(q)
        conns = {i: q.model.get_source(i) for i in ins}
        b_in, b_out = snapshot(q, ins, outs)
        cin = [(k, np.asarray(case.inputs[k], dtype=float).ravel()) for k in
               (list(case.inputs.absolute_names()) if case.inputs is not None else []) if k in conns]
        cout = [(k, np.asarray(case.outputs[k], dtype=float).ravel()) for k in
                (list(case.outputs.absolute_names()) if case.outputs is not None else []) if k in set(outs)]
        try:
            q.load_case(case)
            a_in, a_out = snapshot(q, ins, outs)
        except Exception as e:   # noqa
            bad('load_case(%r) failed: %s: %s' % (cid, type(e).__name__, str(e)[:200]))
            continue
        stats['cases'] += 1
        lab = 'case %r (%s) loaded into a %s problem' % (cid, case.source, 'dirty' if dirty else
                                                        'set-up (no final_setup)' if setup_only else 'fresh')
        for k, v in cout:
            stats['values'] += 1
            if not same(a_out[k], v, 0):
                bad('%s: get_val(%s) = %r, recorded %r' % (lab, k, a_out[k].tolist(), v.tolist()))
        cout_d = dict(cout)
        lag = False
        for k, v in cin:
            if conns[k] in cout_d and not same(cout_d[conns[k]], v, tol):
                # recorded in the middle of an iteration: this input lags its source; a connected input reads its
                # source, so only the model comparison (below) says what get_val must return here
                stats['lagging_inputs'] = stats.get('lagging_inputs', 0) + 1
                lag = True
                continue
            stats['values'] += 1
            if not same(a_in[k], v, tol):
                bad('%s: get_val(%s) = %r, recorded input %r' % (lab, k, a_in[k].tolist(), v.tolist()))
        touched = {k for k, _ in cout} | {conns[k] for k, _ in cin}
        for k in outs:
            if k not in touched:
                stats['frame'] += 1
                if not same(a_out[k], b_out[k], 0):
                    bad('%s: %s is not in the case but changed from %r to %r' % (lab, k, b_out[k].tolist(),
                                                                                a_out[k].tolist()))
        for k in ins:
            if conns[k] not in touched:
                stats['frame'] += 1
                if not same(a_in[k], b_in[k], 0):
                    bad('%s: input %s (source %s) is not in the case but changed from %r to %r' % (
                        lab, k, conns[k], b_in[k].tolist(), a_in[k].tolist()))
        complete = set(outs) <= {k for k, _ in cout}
        if complete and not c.get('lagging') and not lag:
            try:
                q.run_model()
                r_in, r_out = snapshot(q, ins, outs)
                stats['reruns'] += 1
                for k, v in cout:
                    if not same(r_out[k], v, tol):
                        bad('%s: run_model after load_case gives %s = %r, recorded %r' % (
                            lab, k, r_out[k].tolist(), v.tolist()))
            except Exception as e:   # noqa
                bad('%s: run_model after load_case failed: %r' % (lab, e))
        # value identifiers for the model comparison (exact bit patterns)
        table = {}

        def vid(a):
            return table.setdefault(np.asarray(a, dtype=float).ravel().tobytes(), len(table))
        # the abstract model has no unit conversion: a case is compared with it only when every connected input of
        # the model has the units of its source (the oracle above is evaluated in every case)
        mi = q.model.get_io_metadata(iotypes=('input',), metadata_keys=['units'], return_rel_names=False)
        mo = q.model.get_io_metadata(iotypes=('output',), metadata_keys=['units'], return_rel_names=False)
        if all(mi[k].get('units') == mo[conns[k]].get('units') for k in ins) and \
                not any(cc.get('src_idx') for cc in spec['comps']):
            out.append({'conns': sorted(conns.items()), 'cin': [[k, vid(v)] for k, v in cin],
                        'cout': [[k, vid(v)] for k, v in cout], 's': [[k, vid(b_out[k])] for k in outs],
                        'outs': outs, 'ins': ins,
                        'after': [[vid(a_out[k]) for k in outs], [vid(a_in[k]) for k in ins]]})
    try:
        os.remove(fname)
    except OSError:
        pass
    ok = not msgs
    sig = ''
    if msgs:
        m = msgs[0]
        sig = 'C19:' + ('frame' if 'not in the case' in m else 'rerun' if 'run_model after' in m else
                        'load-fails' if 'failed' in m else 'input' if 'recorded input' in m else 'output')
    return {'res': out if out else '__none__', 'ok': ok, 'msg': ' ;; '.join(msgs[:3]), 'sig': sig,
            'kind': ('lagging' if c.get('lagging') else 'coupled' if coupled else 'explicit') +
                    ('/override' if spec.get('load_override') else '') + '/' + c['driver']['type'] +
                    ('/partial' if c.get('partial') is not None else ''), 'stats': stats}


if __name__ == '__main__':
    main(handle)
