"""C25 — KS aggregation brackets the extremum and has exact gradients.

Real-valued model (coq/C25/Model.v): the correspondence is a set of Coq goals, one lemma per
aggregated row,  Rabs (model_at_the_rational_inputs - implementation_value) <= tol , closed by the
Interval tactic (kernel-checked numerics), plus an integer-exact comparison of the declared
rows/cols.  The property's oracle (bracket, exact gradient) is evaluated by impl.py on the real code."""
import concurrent.futures as cf
import json
import os
import random
import re
import struct
from decimal import Decimal, getcontext
from fractions import Fraction

import core
from core import Verdict, proof_gate, run_impl, coq_script, workdir, seed_from_env

PID = 'C25'
IMPL = 'props/C25/impl.py'
TOL = Fraction(1, 10**9)
HEADER = '''From Coq Require Import Reals QArith Qreals ZArith List Lra.
From Interval Require Import Tactic.
From OMV Require Import C25.Model C25.Proofs C25.ProofsTie.
Import ListNotations.
Open Scope R_scope.
'''


# ------------------------------------------------------------------ generator

def f_round(x):
    return float(x)


def nextafter(x, k):
    """the float k ulps above x (k may be negative)"""
    i = struct.unpack('<q', struct.pack('<d', x))[0]
    i = i + k if x >= 0 else i - k
    return struct.unpack('<d', struct.pack('<q', i))[0]


def gen_row(rng, width, mode):
    if mode == 'small':
        return [rng.uniform(-2, 2) for _ in range(width)]
    if mode == 'large':
        return [rng.uniform(-1e3, 1e3) for _ in range(width)]
    if mode == 'ties':
        pool = [rng.choice([-1.5, 0.0, 0.25, 1.0, 3.0, 1e3, -1e3]) for _ in range(2)]
        return [rng.choice(pool) for _ in range(width)]
    if mode == 'neartie':
        b = rng.uniform(-1e3, 1e3)
        return [nextafter(b, rng.randint(-3, 3)) if rng.random() < 0.7 else b - rng.uniform(0, 1e-6)
                for _ in range(width)]
    if mode == 'dyadic':
        return [rng.randint(-64, 64) / 16.0 for _ in range(width)]
    if mode == 'mixed':
        return [rng.choice([rng.uniform(-1e3, 1e3), rng.uniform(-1e-3, 1e-3), 0.0, -0.0])
                for _ in range(width)]
    raise ValueError(mode)


RHOS = [0.5, 1.0, 2.0, 10.0, 50.0, 100.0, 1000.0]
MODES = ['small', 'large', 'ties', 'neartie', 'dyadic', 'mixed']


def gen_rho(rng):
    return rng.choice(RHOS) if rng.random() < 0.7 else float(rng.uniform(0.05, 300.0))


def gen(tier, rng):
    # 'tie' cases are compared with the Coq model (interval goals, ~0.1 s each); all cases go through the
    # oracle on the real code
    n_comp, n_jax, n_kernel = (96, 24, 12) if tier == 'quick' else (800, 200, 100)
    n_comp_o, n_jax_o = (1200, 200) if tier == 'quick' else (20000, 2000)
    maxw = 6 if tier == 'quick' else 10
    cases = []
    # every flag combination x a few shapes first (structured), then random
    for mn in (False, True):
        for lw in (False, True):
            for (v, w) in ((1, 1), (1, 2), (2, 3), (1, 5)):
                for mode in ('small', 'ties', 'large'):
                    cases.append({'kind': 'comp', 'G': [gen_row(rng, w, mode) for _ in range(v)],
                                  'rho': 50.0 if mode != 'large' else rng.choice([1.0, 50.0]),
                                  'upper': 0.0 if mode == 'small' else rng.choice([0.0, 1.0, -2.5, 100.0]),
                                  'minimum': mn, 'lower_flag': lw, 'mode': mode})
    while len(cases) < n_comp:
        v = rng.choice([1, 1, 2, 3])
        w = rng.randint(1, maxw)
        mode = rng.choice(MODES)
        up = 0.0 if rng.random() < 0.4 else (rng.choice([1.0, -2.5, 0.125, 100.0, -1e3]) if rng.random() < 0.5
                                             else rng.uniform(-50, 50))
        cases.append({'kind': 'comp', 'G': [gen_row(rng, w, mode) for _ in range(v)], 'rho': gen_rho(rng),
                      'upper': up, 'minimum': rng.random() < 0.5, 'lower_flag': rng.random() < 0.4,
                      'mode': mode})
    for k in range(n_comp_o):
        v = rng.choice([1, 1, 2, 3, 4])
        w = rng.randint(1, 12)
        mode = rng.choice(MODES)
        up = 0.0 if rng.random() < 0.4 else (rng.choice([1.0, -2.5, 0.125, 100.0, -1e3]) if rng.random() < 0.5
                                             else rng.uniform(-50, 50))
        cases.append({'kind': 'comp', 'G': [gen_row(rng, w, mode) for _ in range(v)], 'rho': gen_rho(rng),
                      'upper': up, 'minimum': rng.random() < 0.5, 'lower_flag': rng.random() < 0.4,
                      'mode': mode, 'oracle_only': True})
    for k in range(n_jax + n_jax_o):
        n = rng.choice([1, 2, 3, 5, 8])
        mode = rng.choice(MODES)
        c = {'kind': 'jax', 'fn': rng.choice(['ks_max', 'ks_min']), 'x': gen_row(rng, n, mode),
             'rho': gen_rho(rng), 'mode': mode}
        if k >= n_jax:
            c['oracle_only'] = True
        cases.append(c)
    for _ in range(n_kernel):
        v, w = rng.choice([1, 2]), rng.randint(1, maxw)
        mode = rng.choice(MODES)
        cases.append({'kind': 'kernel', 'G': [gen_row(rng, w, mode) for _ in range(v)], 'rho': gen_rho(rng),
                      'mode': mode})
    return cases


# ------------------------------------------------------------------ Coq emission

getcontext().prec = 40


def dec(fr):
    fr = Fraction(fr)
    return Decimal(fr.numerator) / Decimal(fr.denominator)


def fq(x):
    fr = Fraction(x)
    return '(Q2R (%d # %d))' % (fr.numerator, fr.denominator)


def rq(res_q):
    n, d = res_q['q']
    return Fraction(int(n), int(d))


def lit(fr):
    return '(Q2R (%d # %d))' % (fr.numerator, fr.denominator)


def rlist(xs):
    return '[' + '; '.join(fq(v) for v in xs) + ']'


def tolof(v):
    return TOL * max(1, abs(v))


def boolc(b):
    return 'true' if b else 'false'


def step(goal, tac, tag):
    return ('  first [ assert (%s) by (%s); idtac "OKGOAL %s" | idtac "BADGOAL %s" ].\n'
            % (goal, tac, tag, tag))


def lemma_for(idx, case, res):
    """One lemma (kernel-checked at Qed) with one assertion per compared number."""
    out = ['Lemma case_%d : True.\nProof.\n' % idx]
    n_goals = 0
    if case['kind'] == 'comp':
        mn, lw = case['minimum'], case['lower_flag']
        s = (-1 if mn else 1) * (-1 if lw else 1)
        up, rho = Fraction(case['upper']), Fraction(case['rho'])
        G = case['G']
        width = len(G[0])
        for r, row in enumerate(G):
            con = [s * (Fraction(x) - up) for x in row]
            mx = max(con)
            m = lit(mx)
            o = rq(res['out'][r])
            args = '%s %s %s %s %s' % (boolc(mn), boolc(lw), fq(up), fq(rho), rlist(row))
            # one enclosure of the shifted sum, shared by the goals of this row
            S = 'S%d' % r
            sref = sum((dec(rho) * dec(x - mx)).exp() for x in con)
            slo = Fraction(sref) * (1 - Fraction(1, 10**12))
            shi = Fraction(sref) * (1 + Fraction(1, 10**12))
            out.append('  pose (%s := sumR (exponents %s %s (con_val %s %s %s %s))).\n'
                       % (S, fq(rho), m, boolc(mn), boolc(lw), fq(up), rlist(row)))
            out.append('  first [ assert (H%s : %s <= %s <= %s) by (ks_sum_bounds %s)'
                       ' | idtac "BADGOAL %d s%d"; assert (H%s : True) by exact I ].\n'
                       % (S, lit(slo), S, lit(shi), S, idx, r, S))
            side = '(try discriminate; q_nonzero)'
            goal = 'Rabs (kscomp_out %s - %s) <= %s' % (args, lit(o), lit(tolof(o)))
            tac = ('rewrite (kscomp_out_shiftS _ _ _ _ _ %s %s eq_refl) by %s; ks_closeS %s' % (m, S, side, S))
            out.append(step(goal, tac, '%d v%d' % (idx, r)))
            n_goals += 1
            for j in range(width):
                pj = rq(res['J'][r][r * width + j])
                goal = 'Rabs (nth %d (kscomp_partials %s) 0 - %s) <= %s' % (j, args, lit(pj), lit(tolof(pj)))
                tac = ('rewrite (kscomp_partials_shiftS _ _ _ _ _ %s %s eq_refl) by %s; ks_closeS %s'
                       % (m, S, side, S))
                out.append(step(goal, tac, '%d p%d_%d' % (idx, r, j)))
                n_goals += 1
            out.append('  clear H%s; clear %s.\n' % (S, S))
    elif case['kind'] == 'kernel':
        rho = Fraction(case['rho'])
        for r, row in enumerate(case['G']):
            m = lit(max(Fraction(x) for x in row))
            o = rq(res['out'][r])
            goal = 'Rabs (KS %s %s - %s) <= %s' % (fq(rho), rlist(row), lit(o), lit(tolof(o)))
            tac = 'rewrite (KS_shift_any _ _ %s) by (try discriminate; q_nonzero); ks_close' % m
            out.append(step(goal, tac, '%d v%d' % (idx, r)))
            n_goals += 1
            for j in range(len(row)):
                pj = rq(res['d'][r][j])
                goal = 'Rabs (nth %d (KS_dg %s %s) 0 - %s) <= %s' % (j, fq(rho), rlist(row), lit(pj),
                                                                       lit(tolof(pj)))
                tac = 'rewrite (KS_dg_shift_any _ _ %s) by (try discriminate; q_nonzero); ks_close' % m
                out.append(step(goal, tac, '%d p%d_%d' % (idx, r, j)))
                n_goals += 1
    else:
        rho = Fraction(case['rho'])
        x = case['x']
        mx = case['fn'] == 'ks_max'
        m = lit(max(Fraction(v) for v in x) if mx else min(Fraction(v) for v in x))
        fn = 'jax_ks_max' if mx else 'jax_ks_min'
        o = rq(res['val'])
        goal = 'Rabs (%s %s %s - %s) <= %s' % (fn, fq(rho), rlist(x), lit(o), lit(tolof(o)))
        tac = 'rewrite (%s_shift _ _ %s) by (try discriminate; q_nonzero); ks_close' % (fn, m)
        out.append(step(goal, tac, '%d v0' % idx))
        n_goals += 1
        for j in range(len(x)):
            pj = rq(res['grad'][j])
            goal = 'Rabs (nth %d (%s_grad %s %s) 0 - %s) <= %s' % (j, fn, fq(rho), rlist(x), lit(pj),
                                                                     lit(tolof(pj)))
            tac = 'rewrite (%s_grad_shift _ _ %s) by (try discriminate; q_nonzero); ks_close' % (fn, m)
            out.append(step(goal, tac, '%d p0_%d' % (idx, j)))
            n_goals += 1
    out.append('  exact I.\nQed.\n')
    return ''.join(out), n_goals


def run_goal_files(wd, items, per_file=170):
    """items: list of (idx, lemma_text, n_goals).  Returns (ok_tags, bad_tags, errors, n_files)."""
    files, cur, cnt = [], [], 0
    for idx, text, n in items:
        cur.append(text)
        cnt += n
        if cnt >= per_file:
            files.append(''.join(cur))
            cur, cnt = [], 0
    if cur:
        files.append(''.join(cur))
    ok, bad, errors = set(), set(), []

    def one(k):
        return k, coq_script(wd, 'ks_%d.v' % k, HEADER + files[k], timeout=1200)

    with cf.ThreadPoolExecutor(max_workers=core.NCPU) as ex:
        for k, (rc, outp) in ex.map(one, range(len(files))):
            ok.update(re.findall(r'OKGOAL (\d+ \w+)', outp))
            bad.update(re.findall(r'BADGOAL (\d+ \w+)', outp))
            if rc != 0:
                errors.append({'file': 'ks_%d.v' % k, 'rc': rc, 'log': outp[-1500:]})
    return ok, bad, errors, len(files)


def pattern_check(wd, shapes):
    """declared rows/cols (integer-exact) against the model's ks_rows / ks_cols, by vm_compute."""
    lines = ['From Coq Require Import List Arith.\nFrom OMV Require Import C25.Model.\nImport ListNotations.\n']
    for (v, w) in shapes:
        lines.append('Eval vm_compute in (ks_rows %d %d, ks_cols %d %d).\n' % (v, w, v, w))
    rc, out = coq_script(wd, 'pattern.v', ''.join(lines), timeout=300)
    vals = re.findall(r'=\s*\(\s*\[(.*?)\]\s*,\s*\[(.*?)\]\s*\)', out, re.S)
    res = {}
    if rc == 0 and len(vals) == len(shapes):
        for sh, (a, b) in zip(shapes, vals):
            res[sh] = ([int(t) for t in re.findall(r'\d+', a)], [int(t) for t in re.findall(r'\d+', b)])
    return rc, res, out


# ------------------------------------------------------------------ main

def check_cases(v, wd, cases, results, tag='tie'):
    """model-vs-implementation on the given cases; returns indices of mismatching cases"""
    items, total = [], 0
    bad_cases = set()
    shapes = sorted({(len(c['G']), len(c['G'][0])) for c in cases if c['kind'] == 'comp'})
    rc, pats, plog = pattern_check(wd, shapes)
    if rc != 0 or len(pats) != len(shapes):
        v.broke('correspondence:pattern-evaluation-failed')
        v.cov['broken_detail'] = plog[-2000:]
    for i, (c, r) in enumerate(zip(cases, results)):
        res = r.get('res')
        if res in (None, '__none__') or c.get('oracle_only'):
            continue
        if c['kind'] == 'jax' and res.get('val') is None:
            bad_cases.add(i)
            continue
        if c['kind'] == 'comp':
            sh = (len(c['G']), len(c['G'][0]))
            if sh in pats and (res['rows'], res['cols']) != pats[sh]:
                bad_cases.add(i)
            vs, w = sh
            for rr in range(vs):       # off-pattern entries of the dense total jacobian are exactly zero
                for k in range(vs * w):
                    if k // w != rr and rq(res['J'][rr][k]) != 0:
                        bad_cases.add(i)
        text, n = lemma_for(i, c, res)
        items.append((i, text, n))
        total += n
    ok, bad, errors, nfiles = run_goal_files(wd, items, per_file=max(60, total // core.NCPU + 1))
    for t in bad:
        bad_cases.add(int(t.split()[0]))
    missing = total - len(ok) - len(bad)
    if errors or missing:
        v.broke('correspondence:model-evaluation-failed (%d goal files with errors, %d goals unreported)'
                % (len(errors), missing))
        v.cov['broken_detail'] = json.dumps(errors[:2])[-3000:]
    v.add_correspondence(
        'model-vs-implementation (%s)' % tag, len(items), len(bad_cases),
        'E4: %d interval-checked goals |model - impl| <= 1e-9*max(1,|impl|) (values and every partial); '
        'E1: declared rows/cols and zero off-pattern entries' % total,
        'coqc -Q coq OMV work/.../ks_<k>.v (%d files; assert ... by (rewrite shift lemma; interval))' % nfiles)
    return sorted(bad_cases), total


def main(tier):
    seed = seed_from_env()
    rng = random.Random(seed * 1000003 + 25)
    wd = workdir(PID, tier)
    v = Verdict(PID, tier, seed)
    v.cov['rule'] = ('KSComp (all minimum/lower_flag combinations, upper, rho, vec_size x width), '
                     'KSfunction.compute/derivatives and jax ks_max/ks_min + jax.grad on random rows: '
                     'small, +-1e3, exact ties, near ties (few ulps), dyadic, mixed magnitudes, width 1')
    v.assumptions = ['floating-point rounding is not modelled: implementation values are compared with the '
                     'real-valued model within 1e-9 relative by kernel-checked interval arithmetic',
                     'jax AD / XLA are exercised, not modelled']
    gate = proof_gate(PID, wd)
    v.add_proof(gate)

    cases = core.load_corpus(PID) + gen(tier, rng)
    results, log = run_impl(IMPL, cases, wd, jobs=min(4, core.NCPU), timeout=1500)
    if results is None:
        v.broke('correspondence:implementation-run-failed')
        v.cov['broken_detail'] = log[-3000:]
        return v.finish()
    drho = {'rows': 0, 'equal_to_true_derivative': 0, 'equal_to_code_formula_without_ln_term': 0}
    for c, r in zip(cases, results):
        v.count_case(c, True, r.get('kind'))
        drho['rows'] += r.get('drho_rows', 0)
        drho['equal_to_true_derivative'] += r.get('drho_is_derivative', 0)
        drho['equal_to_code_formula_without_ln_term'] += r.get('drho_is_code_formula', 0)
        if not r.get('ok', True):
            v.failing(r.get('sig') or 'oracle', c, r.get('msg', ''))
    v.cov['dKS_drho_observation'] = drho      # KSfunction.derivatives()[1]; not part of the oracle (FINDINGS.md)
    if gate['build_ok']:
        bad, total = check_cases(v, wd, cases, results)
        if bad:
            v.broke('correspondence:model-vs-implementation (%d of %d cases differ)' % (len(bad), len(cases)))
            v.cov['broken_detail'] = json.dumps({'first_mismatching_cases': [cases[i] for i in bad[:3]],
                                                 'implementation': [results[i].get('res') for i in bad[:3]]})[-6000:]
    else:
        v.broke('correspondence:model-not-built')
    if v.broken and not v.violations:
        rng2 = random.Random(seed + 77)
        extra = gen('quick' if tier == 'quick' else tier, rng2)
        res2, _ = run_impl(IMPL, extra, wd, tag='search', jobs=min(4, core.NCPU))
        if res2 is not None:
            for c, r in zip(extra, res2):
                v.count_case(c, True, r.get('kind'))
                if not r.get('ok', True):
                    v.failing(r.get('sig') or 'oracle', c, r.get('msg', ''))
    return v.finish()


def replay(rep):
    case = rep.get('case')
    wd = workdir(PID, 'replay')
    res, log = run_impl(IMPL, [case], wd, jobs=1)
    print(json.dumps({'case': case, 'result': res, 'log': log[-500:]}, indent=1, default=str)[:6000])
    return 0 if res and res[0].get('ok') else 1


if __name__ == '__main__':
    import sys
    sys.exit(main(sys.argv[1] if len(sys.argv) > 1 else 'quick'))
