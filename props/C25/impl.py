"""C25 implementation side: the real KSComp (through an om.Problem: run_model + compute_totals) and the
real jax ks_max / ks_min with jax.grad, on generated arrays.  Returns exact rationals of the floats the
implementation produced, and evaluates the property's own oracle (bracket, exact gradient) directly on
them with a 50-digit decimal reference."""
import warnings
from decimal import Decimal, getcontext
from fractions import Fraction

import numpy as np
from implutil import main, q

warnings.simplefilter('ignore')
import openmdao.api as om  # noqa: E402
from openmdao.components.ks_comp import KSfunction  # noqa: E402

getcontext().prec = 60

try:
    import jax
    import jax.numpy as jnp
    from openmdao.jax_funcs.ks import ks_max, ks_min
    jax.config.update("jax_enable_x64", True)
    HAVE_JAX = True
except Exception:           # pragma: no cover
    HAVE_JAX = False

_PROBS = {}
_GRADS = {}


def get_problem(vec_size, width):
    key = (vec_size, width)
    if key not in _PROBS:
        p = om.Problem()
        p.model.add_subsystem('ks', om.KSComp(width=width, vec_size=vec_size))
        p.setup()
        p.final_setup()
        _PROBS[key] = p
    return _PROBS[key]


def dec(fr):
    fr = Fraction(fr)
    return Decimal(fr.numerator) / Decimal(fr.denominator)


def ref_lse(c, rho):
    """exact-ish (60 digits) max + ln(sum exp(rho (c - max))) / rho and softmax weights of a rational list"""
    m = max(c)
    ex = [(dec(rho) * dec(x - m)).exp() for x in c]
    s = sum(ex)
    return dec(m) + s.ln() / dec(rho), [e / s for e in ex], m


def close(a, b, tol):
    return abs(a - b) <= tol


def handle_comp(c):
    G = np.array(c['G'], dtype=float)
    vec_size, width = G.shape
    rho, upper = float(c['rho']), float(c['upper'])
    mn, lw = bool(c['minimum']), bool(c['lower_flag'])
    p = get_problem(vec_size, width)
    ks = p.model.ks
    ks.options['rho'] = rho
    ks.options['upper'] = upper
    ks.options['minimum'] = mn
    ks.options['lower_flag'] = lw
    p.set_val('ks.g', G)
    p.run_model()
    out = np.array(p.get_val('ks.KS'), dtype=float).reshape(vec_size)
    J = np.array(p.compute_totals(of=['ks.KS'], wrt=['ks.g'], return_format='array'), dtype=float)
    J = J.reshape(vec_size, vec_size * width)
    info = ks._subjacs_info[('ks.KS', 'ks.g')]
    rows = [int(v) for v in info['rows']]
    cols = [int(v) for v in info['cols']]

    # ---- oracle: the property evaluated on the implementation's own numbers
    msgs = []
    sig = ''
    s = (-1 if mn else 1) * (-1 if lw else 1)
    frho, fup = Fraction(rho), Fraction(upper)
    n = width
    for r in range(vec_size):
        g = [Fraction(float(v)) for v in G[r]]
        con = [s * (x - fup) for x in g]
        ref, w, M = ref_lse(con, frho)
        if not np.isfinite(out[r]) or not np.all(np.isfinite(J[r])):
            msgs.append('row %d: non-finite KS %r / partials %r' % (r, out[r], J[r].tolist()))
            sig = sig or 'nonfinite'
            continue
        o = dec(Fraction(float(out[r])))
        scale = max(1, abs(M), abs(fup), max(abs(x) for x in g))
        eps = Decimal(10) ** -12 * dec(scale)
        lnn = Decimal(n).ln() / dec(frho)
        if not np.isfinite(out[r]):
            msgs.append('row %d: non-finite KS %r' % (r, out[r]))
            sig = sig or 'nonfinite'
            continue
        if mn:
            lo, hi = -dec(M) - lnn, -dec(M)
        else:
            lo, hi = dec(M), dec(M) + lnn
        if not (lo - eps <= o <= hi + eps):
            msgs.append('row %d: KS=%s outside bracket [%s, %s] (minimum=%s lower_flag=%s upper=%r)'
                        % (r, o, lo, hi, mn, lw, upper))
            sig = sig or 'bracket'
        # gradient of the returned value: d out / d g_j = (lower_flag ? -1 : 1) * softmax_j
        l = -1 if lw else 1
        tol = Decimal(10) ** -9
        for j in range(width):
            want = l * w[j]
            got = dec(Fraction(float(J[r, r * width + j])))
            if not close(got, want, tol):
                msgs.append('row %d: dKS/dg[%d]=%s, exact derivative %s' % (r, j, got, want))
                sig = sig or 'gradient'
        for k in range(vec_size * width):
            if k // width != r and J[r, k] != 0.0:
                msgs.append('row %d: nonzero derivative %r w.r.t. entry %d of another row' % (r, J[r, k], k))
                sig = sig or 'pattern'
        # value against the reference too (tolerance 1e-9 relative)
        want_o = -ref if mn else ref
        if not close(o, want_o, Decimal(10) ** -9 * dec(max(1, abs(M)))):
            msgs.append('row %d: KS=%s, exact value %s' % (r, o, want_o))
            sig = sig or 'value'
    if sig == 'nonfinite':
        res = '__none__'
    else:
        res = {'out': [q(float(v)) for v in out],
               'J': [[q(float(v)) for v in row] for row in J],
               'rows': rows, 'cols': cols}
    return {'res': res, 'ok': not msgs, 'msg': '; '.join(msgs[:4]), 'sig': sig,
            'kind': 'comp:%s%s:w%d' % ('min' if mn else 'max', '+lower' if lw else '', width)}


def handle_jax(c):
    if not HAVE_JAX:
        return {'res': '__none__', 'ok': True, 'msg': 'jax not importable', 'kind': 'jax:skipped'}
    x = np.array(c['x'], dtype=float)
    rho = float(c['rho'])
    fn = ks_max if c['fn'] == 'ks_max' else ks_min
    val = float(fn(jnp.asarray(x), rho))
    if c['fn'] not in _GRADS:
        _GRADS[c['fn']] = jax.jit(jax.grad(fn))
    grad = np.array(_GRADS[c['fn']](jnp.asarray(x), rho), dtype=float)
    fx = [Fraction(float(v)) for v in x]
    frho = Fraction(rho)
    msgs, sig = [], ''
    n = len(fx)
    lnn = Decimal(n).ln() / dec(frho)
    if c['fn'] == 'ks_max':
        ref, w, M = ref_lse(fx, frho)
        lo, hi = dec(M), dec(M) + lnn
    else:
        ref, w, M = ref_lse([-v for v in fx], frho)
        ref = -ref
        lo, hi = -dec(M) - lnn, -dec(M)
    scale = max(1, abs(M))
    eps = Decimal(10) ** -12 * dec(scale)
    o = dec(Fraction(val)) if np.isfinite(val) else None
    if o is None:
        msgs.append('non-finite value %r' % val)
        sig = 'nonfinite'
    else:
        if not (lo - eps <= o <= hi + eps):
            msgs.append('%s=%s outside bracket [%s, %s]' % (c['fn'], o, lo, hi))
            sig = sig or 'bracket'
        if not close(o, ref, Decimal(10) ** -9 * dec(scale)):
            msgs.append('%s=%s, exact %s' % (c['fn'], o, ref))
            sig = sig or 'value'
        for j in range(n):
            got = dec(Fraction(float(grad[j])))
            if not close(got, w[j], Decimal(10) ** -9):
                msgs.append('grad[%d]=%s, exact derivative %s' % (j, got, w[j]))
                sig = sig or 'gradient'
    res = {'val': q(val) if o is not None else None, 'grad': [q(float(v)) for v in grad]}
    return {'res': res, 'ok': not msgs, 'msg': '; '.join(msgs[:4]), 'sig': sig,
            'kind': 'jax:%s:n%d' % (c['fn'], n)}


def handle_kernel(c):
    """KSfunction.compute / derivatives()[0] called directly (2-D input as KSComp passes it)."""
    G = np.array(c['G'], dtype=float)
    rho = float(c['rho'])
    out = np.array(KSfunction.compute(G, rho), dtype=float).reshape(G.shape[0])
    both = KSfunction.derivatives(G, rho)
    d = np.array(both[0], dtype=float)
    drho = np.array(both[1], dtype=float).reshape(G.shape[0])
    msgs, sig = [], ''
    drho_is_derivative, drho_is_code_formula = 0, 0
    frho = Fraction(rho)
    for r in range(G.shape[0]):
        g = [Fraction(float(v)) for v in G[r]]
        ref, w, M = ref_lse(g, frho)
        o = dec(Fraction(float(out[r])))
        eps = Decimal(10) ** -12 * dec(max(1, abs(M)))
        lnn = Decimal(len(g)).ln() / dec(frho)
        if not (dec(M) - eps <= o <= dec(M) + lnn + eps):
            msgs.append('row %d: KS=%s outside [%s, %s]' % (r, o, dec(M), dec(M) + lnn))
            sig = sig or 'bracket'
        # second return value dKS/drho (outside the property's observe_at; recorded, see FINDINGS.md):
        # code formula sum(w_j (g_j - M)) / rho ; true derivative = that - ln(S) / rho^2
        S = sum((dec(frho) * dec(x - M)).exp() for x in g)
        code = sum(wj * dec(x - M) for wj, x in zip(w, g)) / dec(frho)
        true = code - S.ln() / (dec(frho) * dec(frho))
        got_rho = dec(Fraction(float(drho[r])))
        tol_r = Decimal(10) ** -9 * max(1, abs(code), abs(true))
        drho_is_code_formula += int(abs(got_rho - code) <= tol_r)
        drho_is_derivative += int(abs(got_rho - true) <= tol_r)
        for j in range(len(g)):
            if not close(dec(Fraction(float(d[r, j]))), w[j], Decimal(10) ** -9):
                msgs.append('row %d: derivative[%d]=%r exact %s' % (r, j, d[r, j], w[j]))
                sig = sig or 'gradient'
    res = {'out': [q(float(v)) for v in out], 'd': [[q(float(v)) for v in row] for row in d]}
    return {'res': res, 'ok': not msgs, 'msg': '; '.join(msgs[:4]), 'sig': sig,
            'kind': 'kernel:w%d' % G.shape[1], 'drho_rows': int(G.shape[0]),
            'drho_is_derivative': drho_is_derivative, 'drho_is_code_formula': drho_is_code_formula}


def handle(c):
    if c['kind'] == 'comp':
        return handle_comp(c)
    if c['kind'] == 'jax':
        return handle_jax(c)
    return handle_kernel(c)


if __name__ == '__main__':
    main(handle)
