"""Exact optimum of the strictly convex QPs of C21 with its KKT certificate (stdlib only: imported by
check.py in the harness interpreter and by impl.py in the /venv interpreter)."""
import itertools
from fractions import Fraction as F

INF = F(1.0e30)


def fr(p):
    return F(int(p[0]), int(p[1]))


def bnd(b, n, default=None):
    if b is None:
        return default
    if 's' in b:
        return [fr(b['s'])] * n
    return [fr(e) for e in b['a']]


def con_size(c):
    return len(c['A']) if c['idx'] is None else len(c['idx'])


def con_rows(c):
    A = [[F(v) for v in row] for row in c['A']]
    return A if c['idx'] is None else [A[i] for i in c['idx']]


def solve_lin(M, r):
    """Gaussian elimination over Fractions; None if singular"""
    n = len(M)
    M = [row[:] + [r[i]] for i, row in enumerate(M)]
    for col in range(n):
        piv = next((i for i in range(col, n) if M[i][col] != 0), None)
        if piv is None:
            return None
        M[col], M[piv] = M[piv], M[col]
        pv = M[col][col]
        M[col] = [v / pv for v in M[col]]
        for i in range(n):
            if i != col and M[i][col] != 0:
                f = M[i][col]
                M[i] = [a - f * b for a, b in zip(M[i], M[col])]
    return [M[i][n] for i in range(n)]


def exact_optimum_cert(case):
    """the unique minimiser of the strictly convex QP over the polyhedron, by enumeration of active
    sets and exact solution of the KKT system, with its certificate {'x', 'rows': [(a, lo, hi)], 'lam'};
    None when infeasible"""
    n = case['n']
    H = [[F(v) for v in row] for row in case['H']]
    b = [F(v) for v in case['b']]
    rows = []   # (a, lo, hi, eq)
    for c in case['cons']:
        m = con_size(c)
        R = con_rows(c)
        lo, hi, eq = bnd(c['lower'], m), bnd(c['upper'], m), bnd(c['equals'], m)
        for j in range(m):
            if eq is not None:
                rows.append((R[j], None, None, eq[j]))
            else:
                l = lo[j] if lo is not None and lo[j] > -INF else None
                h = hi[j] if hi is not None and hi[j] < INF else None
                rows.append((R[j], l, h, None))
    dv = case['dv']
    dlo, dhi = bnd(dv['lower'], n), bnd(dv['upper'], n)
    for i in range(n):
        e = [F(1) if k == i else F(0) for k in range(n)]
        l = dlo[i] if dlo is not None and dlo[i] > -INF else None
        h = dhi[i] if dhi is not None and dhi[i] < INF else None
        if l is not None or h is not None:
            rows.append((e, l, h, None))
    choices = []
    for (a, l, h, e) in rows:
        if e is not None:
            choices.append([('eq', e)])
        else:
            ch = [('free', None)]
            if l is not None:
                ch.append(('lo', l))
            if h is not None:
                ch.append(('hi', h))
            choices.append(ch)
    for combo in itertools.product(*choices):
        act = [(rows[i][0], kind, val) for i, (kind, val) in enumerate(combo) if kind != 'free']
        k = len(act)
        if k > n:
            continue
        # [H  A'] [x  ]   [b]
        # [A  0 ] [lam] = [v]        gradient H x - b + A' lam = 0
        M = [H[i] + [act[j][0][i] for j in range(k)] for i in range(n)]
        M += [act[j][0] + [F(0)] * k for j in range(k)]
        r = b + [act[j][2] for j in range(k)]
        sol = solve_lin(M, r)
        if sol is None:
            continue
        x, lam = sol[:n], sol[n:]
        good = True
        for j in range(k):     # multiplier signs: at a lower bound lam <= 0, at an upper bound lam >= 0
            if act[j][1] == 'lo' and lam[j] > 0:
                good = False
            if act[j][1] == 'hi' and lam[j] < 0:
                good = False
        if not good:
            continue
        for (a, l, h, e) in rows:
            v = sum(ai * xi for ai, xi in zip(a, x))
            if e is not None and v != e:
                good = False
            if l is not None and v < l:
                good = False
            if h is not None and v > h:
                good = False
        if good:
            lam_full, it = [], iter(lam)
            for (kind, val) in combo:
                lam_full.append(F(0) if kind == 'free' else next(it))
            out_rows = [(a, (e if e is not None else l), (e if e is not None else h)) for (a, l, h, e) in rows]
            return {'x': x, 'rows': out_rows, 'lam': lam_full}
    return None


