"""C21 implementation side.

For every case a strictly convex QP  min 1/2 x'Hx - b'x  s.t. per-element bounds on g_i = A_i x  is
built as a real om.Problem with a ScipyOptimizeDriver; scipy.optimize.minimize is intercepted (in
this process only) to capture the constraint list the driver hands over; _confunc/_congradfunc are
probed at a dyadic point; then the real optimizer runs.

res : [descriptors, probes]  (compared exactly with the Coq model)
ok  : the property's oracle — success => model left at the returned design, every element of every
      constraint within its bounds (tolerance), design = the exact rational KKT optimum (tolerance)."""
import contextlib
import io
import itertools
import warnings
from fractions import Fraction as F

import numpy as np
from implutil import main, q

warnings.simplefilter('ignore')
import openmdao.api as om  # noqa: E402
import openmdao.drivers.scipy_optimizer as somod  # noqa: E402

INF = F(1.0e30)
NEW_STYLE = {'trust-constr'}


def fr(p):
    return F(int(p[0]), int(p[1]))


def bnd(b, n, default=None):
    if b is None:
        return default
    if 's' in b:
        return [fr(b['s'])] * n
    return [fr(e) for e in b['a']]


def pyb(b):
    if b is None:
        return None
    if 's' in b:
        return float(fr(b['s']))
    return np.array([float(fr(e)) for e in b['a']])


class QPComp(om.ExplicitComponent):
    def initialize(self):
        self.options.declare('H')
        self.options.declare('b')
        self.options.declare('As')

    def setup(self):
        H, As = self.options['H'], self.options['As']
        n = H.shape[0]
        self.add_input('x', np.zeros(n))
        self.add_output('f', 0.0)
        self.declare_partials('f', 'x')
        for i, A in enumerate(As):
            self.add_output('g%d' % i, np.zeros(A.shape[0]))
            self.declare_partials('g%d' % i, 'x', val=A)

    def compute(self, inputs, outputs):
        H, b = self.options['H'], self.options['b']
        x = inputs['x']
        outputs['f'] = 0.5 * x.dot(H.dot(x)) - b.dot(x)
        for i, A in enumerate(self.options['As']):
            outputs['g%d' % i] = A.dot(x)

    def compute_partials(self, inputs, partials):
        H, b = self.options['H'], self.options['b']
        partials['f', 'x'] = (H.dot(inputs['x']) - b).reshape(1, -1)


def con_size(c):
    return len(c['A']) if c['idx'] is None else len(c['idx'])


def con_rows(c):
    A = [[F(v) for v in row] for row in c['A']]
    return A if c['idx'] is None else [A[i] for i in c['idx']]


def total_adder_scaler(sc, n):
    if sc['t'] == 'none':
        return [F(0)] * n, [F(1)] * n
    if sc['t'] == 'as':
        return bnd(sc['adder'], n, [F(0)] * n), bnd(sc['scaler'], n, [F(1)] * n)
    r0 = bnd(sc['ref0'], n, [F(0)] * n)
    r = bnd(sc['ref'], n, [F(1)] * n)
    return [-a for a in r0], [1 / (a - b) for a, b in zip(r, r0)]


def build(case):
    p = om.Problem()
    n = case['n']
    H = np.array(case['H'], dtype=float)
    b = np.array(case['b'], dtype=float)
    As = [np.array(c['A'], dtype=float) for c in case['cons']]
    p.model.add_subsystem('qp', QPComp(H=H, b=b, As=As), promotes=['*'])
    dv = case['dv']
    kw = {}
    for key in ('lower', 'upper'):
        if dv[key] is not None:
            kw[key] = pyb(dv[key])
    for key in ('adder', 'scaler'):
        if dv[key] is not None:
            kw[key] = float(fr(dv[key]))
    p.model.add_design_var('x', **kw)
    ob = case['obj']
    okw = {}
    for key in ('adder', 'scaler'):
        if ob[key] is not None:
            okw[key] = float(fr(ob[key]))
    p.model.add_objective('f', **okw)
    for i, c in enumerate(case['cons']):
        kw = {}
        for key in ('lower', 'upper', 'equals'):
            if c[key] is not None:
                kw[key] = pyb(c[key])
        sc = c['scaling']
        if sc['t'] == 'as':
            for key in ('adder', 'scaler'):
                if sc[key] is not None:
                    kw[key] = pyb(sc[key])
        elif sc['t'] == 'ref':
            for key in ('ref0', 'ref'):
                if sc[key] is not None:
                    kw[key] = pyb(sc[key])
        if c['idx'] is not None:
            kw['indices'] = list(c['idx'])
        if c['linear']:
            kw['linear'] = True
        p.model.add_constraint('g%d' % i, **kw)
    opt = case['opt']
    p.driver = om.ScipyOptimizeDriver(optimizer=opt, disp=False, tol=case.get('tol', 1e-9))
    p.driver.options['maxiter'] = 1000
    if opt == 'COBYLA':
        p.driver.opt_settings['rhobeg'] = 0.5
        p.driver.opt_settings['catol'] = 1e-7
    if opt == 'trust-constr':
        p.driver.opt_settings['gtol'] = 1e-9
        p.driver.opt_settings['xtol'] = 1e-12
    p.setup()
    p.set_val('x', np.array([float(fr(e)) for e in case['x0']]))
    return p


from kkt import exact_optimum_cert  # noqa: E402  (props/C21/kkt.py, shared with check.py)


def exact_optimum(case):
    cert = exact_optimum_cert(case)
    return None if cert is None else cert['x']


def has_negative_scaler(case):
    for c in case['cons']:
        sc = c['scaling']
        if sc['t'] == 'as' and sc['scaler'] is not None:
            if any(v < 0 for v in bnd(sc['scaler'], con_size(c))):
                return True
    return False


def plain_scipy_miss(case, xstar):
    """The SAME scaled problem the driver poses (objective (f+a_f)*s_f, design vector (x+a_x)*s_x,
    constraints (A x + a_c)*s_c with their scaled bounds, exact gradients) given to
    scipy.optimize.minimize directly with the same settings.  Returns the distance of its result from
    the exact optimum (model space), or None when it does not report success."""
    from scipy.optimize import minimize, NonlinearConstraint, Bounds, BFGS
    H = np.array(case['H'], dtype=float)
    b = np.array(case['b'], dtype=float)
    n = case['n']
    opt = case['opt']
    dv, ob = case['dv'], case['obj']
    sx = float(fr(dv['scaler'])) if dv['scaler'] is not None else 1.0
    ax = float(fr(dv['adder'])) if dv['adder'] is not None else 0.0
    sf = float(fr(ob['scaler'])) if ob['scaler'] is not None else 1.0
    af = float(fr(ob['adder'])) if ob['adder'] is not None else 0.0

    def unscale(xs):
        return np.asarray(xs) / sx - ax

    cons = []
    for c in case['cons']:
        R = np.array([[float(v) for v in row] for row in con_rows(c)])
        m = con_size(c)
        lo, hi, eq = bnd(c['lower'], m), bnd(c['upper'], m), bnd(c['equals'], m)
        adder, scaler = total_adder_scaler(c['scaling'], m)
        if opt == 'trust-constr' and c['linear']:
            # as the driver does: one LinearConstraint (keep_feasible) on rows . x_s, bounds minus offset
            from scipy.optimize import LinearConstraint
            As, lbs, ubs = [], [], []
            for j in range(m):
                a, ac, sc = R[j], float(adder[j]), float(scaler[j])
                off = sc * (ac - a.sum() * ax)
                if eq is not None:
                    l = h = (float(eq[j]) + ac) * sc
                else:
                    l = (float(lo[j]) + ac) * sc if lo is not None and lo[j] > -INF else None
                    h = (float(hi[j]) + ac) * sc if hi is not None and hi[j] < INF else None
                    if sc < 0:
                        l, h = h, l
                As.append(sc * a / sx)
                lbs.append(-np.inf if l is None else l - off)
                ubs.append(np.inf if h is None else h - off)
            cons.append(LinearConstraint(np.array(As), np.array(lbs), np.array(ubs), keep_feasible=True))
            continue
        for j in range(m):
            a, ac, sc = R[j], float(adder[j]), float(scaler[j])
            fun = (lambda xs, a=a, ac=ac, sc=sc: (a.dot(unscale(xs)) + ac) * sc)
            jac = (lambda xs, a=a, sc=sc: sc * a / sx)
            if eq is not None:
                l = h = (float(eq[j]) + ac) * sc
            else:
                l = (float(lo[j]) + ac) * sc if lo is not None and lo[j] > -INF else None
                h = (float(hi[j]) + ac) * sc if hi is not None and hi[j] < INF else None
                if sc < 0:
                    l, h = h, l
                l = -np.inf if l is None else l
                h = np.inf if h is None else h
            if opt == 'trust-constr':
                cons.append(NonlinearConstraint(fun, l, h, jac=lambda xs, jac=jac: jac(xs).reshape(1, -1)))
            elif eq is not None:
                cons.append({'type': 'eq', 'fun': lambda xs, fun=fun, l=l: fun(xs) - l, 'jac': jac})
            else:
                if np.isfinite(l):
                    cons.append({'type': 'ineq', 'fun': lambda xs, fun=fun, l=l: fun(xs) - l, 'jac': jac})
                if np.isfinite(h):
                    cons.append({'type': 'ineq', 'fun': lambda xs, fun=fun, h=h: h - fun(xs),
                                 'jac': lambda xs, jac=jac: -jac(xs)})
    dlo, dhi = bnd(dv['lower'], n), bnd(dv['upper'], n)
    bounds = None
    if dlo is not None or dhi is not None or opt == 'trust-constr':   # the driver always passes Bounds to trust-constr
        bounds = Bounds([(float(v) + ax) * sx if v > -INF else -np.inf for v in (dlo or [-INF] * n)],
                        [(float(v) + ax) * sx if v < INF else np.inf for v in (dhi or [INF] * n)],
                        keep_feasible=(opt == 'trust-constr'))   # as the driver does for new-style bounds
    x0 = (np.array([float(fr(e)) for e in case['x0']]) + ax) * sx

    def f(xs):
        x = unscale(xs)
        return (0.5 * x.dot(H.dot(x)) - b.dot(x) + af) * sf

    kw = {'jac': (lambda xs: sf * (H.dot(unscale(xs)) - b) / sx)}
    options = {'maxiter': 1000}
    if opt == 'trust-constr':
        options.update(gtol=1e-9, xtol=1e-12)
        kw['hess'] = BFGS()
    try:
        rr = minimize(f, x0, method=opt, bounds=bounds, constraints=cons,
                      tol=case.get('tol', 1e-9), options=options, **kw)
    except Exception:   # noqa
        return None
    if not rr.success:
        return None
    return float(np.max(np.abs(unscale(rr.x) - xstar)))


# ----------------------------------------------------------------------------- capture / probes

def qinf(v):
    v = float(v)
    return None if np.isinf(v) else q(v)


def qbig(v):
    """a value formed with a +-1e30 sentinel is not exact in binary64: not compared"""
    v = float(v)
    return None if abs(v) >= 1e29 else q(v)


def describe(constraints):
    out = []
    for c in constraints:
        if isinstance(c, dict):
            name, dbl, idx = c['args']
            out.append([c['type'], int(name[1:]), bool(dbl), int(idx)])
        elif type(c).__name__ == 'NonlinearConstraint':
            args = None
            for cell in c.fun.__closure__:
                if isinstance(cell.cell_contents, (list, tuple)):
                    args = cell.cell_contents
            name, dbl, idx = args
            out.append(['nl', int(name[1:]), int(idx), qinf(c.lb), qinf(c.ub)])
        else:
            A = np.atleast_2d(np.asarray(c.A))
            out.append(['lin', [qinf(v) for v in np.atleast_1d(c.lb)], [qinf(v) for v in np.atleast_1d(c.ub)],
                        [[q(float(v)) for v in row] for row in A]])
    return out


def handle(case):
    p = build(case)
    drv = p.driver
    captured = {}
    orig = somod.minimize

    def spy(fun, x0, **kw):
        captured['constraints'] = describe(kw.get('constraints') or [])
        # probe _confunc / _congradfunc at a dyadic design point (scaled space)
        xm = np.array([float(fr(e)) for e in case['xp']])
        dvs, dva = case['dv']['scaler'], case['dv']['adder']
        s = float(fr(dvs)) if dvs is not None else 1.0
        a = float(fr(dva)) if dva is not None else 0.0
        xs = (xm + a) * s
        probes = []
        try:
            drv._objfunc(xs)
            if case['opt'] != 'COBYLA':
                drv._gradfunc(xs)
            for i, c in enumerate(case['cons']):
                rowp = []
                for j in range(con_size(c)):
                    v0 = drv._confunc(xs, 'g%d' % i, False, j)
                    v1 = drv._confunc(xs, 'g%d' % i, True, j)
                    if case['opt'] != 'COBYLA':
                        g0 = [q(float(v)) for v in np.asarray(drv._congradfunc(xs, 'g%d' % i, False, j)).ravel()]
                        g1 = [q(float(v)) for v in np.asarray(drv._congradfunc(xs, 'g%d' % i, True, j)).ravel()]
                        rowp.append([qbig(v0), qbig(v1), g0, g1])
                    else:
                        rowp.append([qbig(v0), qbig(v1)])
                probes.append(rowp)
        except Exception as e:   # noqa
            probes = {'e': 1}
            captured['probe_exc'] = '%s: %s' % (type(e).__name__, e)
        drv._exc_info = None
        captured['probes'] = probes
        return orig(fun, x0, **kw)

    somod.minimize = spy
    exc = None
    buf = io.StringIO()
    try:
        with contextlib.redirect_stdout(buf):
            p.run_driver()
    except Exception as e:   # noqa
        exc = e
    finally:
        somod.minimize = orig

    res = [captured.get('constraints', {'e': 1}), captured.get('probes', {'e': 1})]
    kind = '%s:' % case['opt']
    if exc is not None:
        # no success was reported: the property claims nothing (recorded in the distribution)
        return {'res': res if 'constraints' in captured else '__none__', 'ok': True, 'msg': '',
                'sig': '', 'kind': kind + 'raised:' + type(exc).__name__}
    success = bool(drv.result.success)
    if not success:
        return {'res': res, 'ok': True, 'msg': '', 'sig': '', 'kind': kind + 'no-success'}

    # ---- the oracle
    n = case['n']
    tol_f, tol_x = case['tol_feas'], case['tol_opt']
    xmod = np.asarray(p.get_val('x')).ravel()
    problems = []
    # (1) the model is left at the design the optimizer returned
    r = drv._scipy_optimize_result
    dvs, dva = case['dv']['scaler'], case['dv']['adder']
    s = float(fr(dvs)) if dvs is not None else 1.0
    a = float(fr(dva)) if dva is not None else 0.0
    xret = np.asarray(r.x).ravel() / s - a
    if np.max(np.abs(xret - xmod)) > 1e-9 * max(1.0, np.max(np.abs(xret))):
        problems.append(('C21:model-not-at-returned-design',
                         'success, optimizer returned x=%s (model space) but the model holds x=%s' % (xret.tolist(), xmod.tolist())))
    # (2) every element of every constraint within its bounds, evaluated on the model's outputs
    for i, c in enumerate(case['cons']):
        g = np.asarray(p.get_val('g%d' % i)).ravel()
        if c['idx'] is not None:
            g = g[list(c['idx'])]
        m = con_size(c)
        lo, hi, eq = bnd(c['lower'], m), bnd(c['upper'], m), bnd(c['equals'], m)
        for j in range(m):
            scale = max(1.0, abs(g[j]))
            if eq is not None:
                bad = abs(g[j] - float(eq[j])) > tol_f * scale
                what = 'equals %s' % eq[j]
            else:
                l = float(lo[j]) if lo is not None else -1e30
                h = float(hi[j]) if hi is not None else 1e30
                bad = g[j] < l - tol_f * scale or g[j] > h + tol_f * scale
                what = 'bounds [%g, %g]' % (l, h)
            if bad:
                problems.append(('C21:success-infeasible',
                                 'success reported by %s but constraint g%d element %d = %.9g violates its %s (x=%s)' % (
                                     case['opt'], i, j, g[j], what, xmod.tolist())))
                break
    # (3) the design is the exact optimum
    xstar = exact_optimum(case)
    if 'cert' in case and case['cert'] is not None and xstar is not None:
        # the optimum whose KKT certificate the Coq checker verifies (check.py) is the one used here
        assert [fr(e) for e in case['cert']['x']] == list(xstar), 'optimum differs from the certified one'
    if xstar is None:
        problems.append(('C21:success-on-infeasible-problem', 'success reported but the problem has no feasible point'))
    else:
        xs_ = np.array([float(v) for v in xstar])
        if np.max(np.abs(xs_ - xmod)) > tol_x * max(1.0, np.max(np.abs(xs_))):
            # SciPy's `success` is not a guarantee of accuracy (trust-constr: interior-point iterates stay
            # O(sqrt(barrier/scaler)) away from a degenerate active bound even at status 1, xtol
            # termination counts as success; SLSQP stalls on linearly dependent active constraints;
            # COBYLA has no optimality measure at all).  The miss is charged to the driver when plain
            # SciPy (SLSQP / trust-constr), given the SAME scaled problem with the same settings,
            # succeeds and comes clearly closer to the exact optimum than the driver did.  For COBYLA
            # the optimum clause is only recorded.
            miss = float(np.max(np.abs(xs_ - xmod)))
            ref = plain_scipy_miss(case, xs_) if case['opt'] != 'COBYLA' else None
            if ref is not None and miss > 4.0 * max(ref, 0.25 * tol_x * max(1.0, float(np.max(np.abs(xs_))))):
                problems.append(('C21:not-the-optimum',
                                 'success reported by %s at x=%s but the exact KKT optimum is %s (plain SciPy on the '
                                 'same scaled problem ends %.3g away, the driver %.3g)' % (
                                     case['opt'], xmod.tolist(), [str(v) for v in xstar], ref, miss)))
            else:
                kind += 'scipy-stops-early:'
    if problems:
        order = ['C21:success-infeasible', 'C21:success-on-infeasible-problem', 'C21:model-not-at-returned-design', 'C21:not-the-optimum']
        problems.sort(key=lambda t: order.index(t[0]))
        sig = problems[0][0]
        if sig == 'C21:success-infeasible':
            sig += ':' + ('new-style' if case['opt'] in NEW_STYLE else 'old-style')
        elif sig in ('C21:not-the-optimum', 'C21:model-not-at-returned-design'):
            sig += ':' + case['opt']
        if has_negative_scaler(case):
            # the cause is not known from the outcome: keep the observed class and mark the feature
            sig += '+negative-constraint-scaler'
        return {'res': res, 'ok': False, 'msg': problems[0][1], 'sig': sig, 'kind': kind + 'success'}
    return {'res': res, 'ok': True, 'msg': '', 'sig': '', 'kind': kind + 'success'}


if __name__ == '__main__':
    main(handle)
