"""C21 — optimizer success implies a feasible reported design."""
import copy
from fractions import Fraction as F

import core
from core import Spec, standard_check, qlit, boollit, to_val
import kkt

INF = F(1.0e30)
OPTS = ['SLSQP', 'COBYLA', 'trust-constr']
ALLOW_NEG = True     # negative constraint scalers in the random stream (FINDINGS.md section 4 / fix_4.diff)
GRAD = {'SLSQP': True, 'COBYLA': False, 'trust-constr': True}
NEW = {'SLSQP': False, 'COBYLA': False, 'trust-constr': True}


def jq(v):
    v = F(v)
    return [v.numerator, v.denominator]


def fr(p):
    return F(int(p[0]), int(p[1]))


def bs(v):
    return {'s': jq(v)}


def ba(vs):
    return {'a': [jq(v) for v in vs]}


def blist(b, n, default):
    if b is None:
        return [default] * n
    if 's' in b:
        return [fr(b['s'])] * n
    return [fr(e) for e in b['a']]


def qvec(xs):
    return '[%s]' % '; '.join(qlit(v) for v in xs)


def con_size(c):
    return len(c['A']) if c['idx'] is None else len(c['idx'])


def con_rows(c):
    A = [[F(v) for v in row] for row in c['A']]
    return A if c['idx'] is None else [A[i] for i in c['idx']]


def pow2(rng, lo=-2, hi=3):
    return F(2) ** rng.randrange(lo, hi + 1)


# ----------------------------------------------------------------------------- generator

def rnd_spd(rng, n):
    """H = M M' + diag(D), D > 0 (M, D are the positive-definiteness certificate checked in Coq)"""
    M = [[rng.randrange(-1, 2) for _ in range(n)] for _ in range(n)]
    H = [[sum(M[i][k] * M[j][k] for k in range(n)) for j in range(n)] for i in range(n)]
    D = [rng.randrange(1, 4) for _ in range(n)]
    for i in range(n):
        H[i][i] += D[i]
    return H, M, D


def add_cert(case):
    """exact optimum and KKT multipliers (active-set enumeration over Fractions), stored in the case"""
    c = kkt.exact_optimum_cert(case)
    case['cert'] = None if c is None else {
        'x': [jq(v) for v in c['x']], 'lam': [jq(v) for v in c['lam']],
        'rows': [[[jq(v) for v in a], None if l is None else jq(l), None if h is None else jq(h)] for (a, l, h) in c['rows']]}
    return case


def elem_pattern(rng, g, m0=0):
    """(lower, upper) around the feasible value g; +-INF = absent"""
    r1, r2 = F(rng.randrange(m0, 9), 4), F(rng.randrange(m0, 9), 4)
    k = rng.random()
    if k < 0.25:
        return g - r1, INF
    if k < 0.5:
        return -INF, g + r2
    if k < 0.9:
        return g - r1, g + r2
    return -INF, INF


def rnd_case(rng, opt=None, force_first_onesided=False, allow_neg=True):
    n = rng.choice([1, 2, 2, 3, 3])
    opt = opt or rng.choice(OPTS)
    H, M, D = rnd_spd(rng, n)
    b = [rng.randrange(-6, 7) for _ in range(n)]
    xf = [F(rng.randrange(-8, 9), 4) for _ in range(n)]
    cons = []
    have_eq = False
    for i in range(rng.choice([1, 1, 2])):
        iseq = (opt != 'COBYLA') and (not have_eq) and n >= 2 and rng.random() < 0.15
        if iseq:
            have_eq = True
            m = 1 if n == 2 else rng.choice([1, 2])
            A = []
            for j in range(m):
                A.append([0] * j + [1] + [rng.randrange(-2, 3) for _ in range(n - j - 1)])
        else:
            m = rng.choice([1, 2, 3, 3])
            A = []
            while len(A) < m:
                row = [rng.randrange(-2, 3) for _ in range(n)]
                if any(row):
                    A.append(row)
        idx = None
        if m >= 2 and rng.random() < 0.25:
            idx = rng.sample(range(m), rng.randrange(1, m + 1))
        rows = A if idx is None else [A[k] for k in idx]
        size = len(rows)
        g = [sum(F(a) * x for a, x in zip(row, xf)) for row in rows]
        c = {'A': A, 'idx': idx, 'lower': None, 'upper': None, 'equals': None,
             'linear': rng.random() < 0.35}
        if iseq:
            c['equals'] = ba(g) if (rng.random() < 0.6 or len(set(g)) > 1) else bs(g[0])
        else:
            # (trust-constr starts at xf: keep it off the boundary of keep_feasible linear constraints)
            prs = [elem_pattern(rng, gj, 1 if opt == 'trust-constr' else 0) for gj in g]
            if force_first_onesided and size >= 2:
                prs[0] = (g[0] - F(1, 2), INF) if rng.random() < 0.5 else (-INF, g[0] + F(1, 2))
                prs[1] = (g[1] - F(1, 4), g[1] + F(1, 4))
            form = rng.random()
            if form < 0.2:      # scalar bounds shared by all elements (must contain every g_j)
                mm = 1 if opt == 'trust-constr' else 0
                lo_, hi_ = min(g) - F(rng.randrange(mm, 5), 4), max(g) + F(rng.randrange(mm, 5), 4)
                side = rng.random()
                c['lower'] = bs(lo_) if side < 0.7 else None
                c['upper'] = bs(hi_) if side > 0.3 else None
                if c['lower'] is None and c['upper'] is None:
                    c['upper'] = bs(hi_)
            else:
                los, his = [p[0] for p in prs], [p[1] for p in prs]
                if all(v == -INF for v in los) and all(v == INF for v in his):
                    his[0] = g[0] + 1
                c['lower'] = None if all(v == -INF for v in los) else ba(los)
                c['upper'] = None if all(v == INF for v in his) else ba(his)
        k = rng.random()
        if k < 0.35:
            c['scaling'] = {'t': 'none'}
        else:
            def sc1():
                v = pow2(rng)
                return -v if (allow_neg and rng.random() < 0.12) else v
            sca = ba([sc1() for _ in range(size)]) if rng.random() < 0.4 else bs(sc1())
            add = None
            if rng.random() < 0.5:
                add = ba([F(rng.randrange(-4, 5), 2) for _ in range(size)]) if rng.random() < 0.4 else bs(F(rng.randrange(-4, 5), 2))
            c['scaling'] = {'t': 'as', 'adder': add, 'scaler': sca}
        cons.append(c)
    dv = {'lower': None, 'upper': None, 'adder': None, 'scaler': None}
    k = rng.random()
    # trust-constr is started at xf with keep_feasible bounds; SciPy does not leave a start point that
    # lies on a design-variable bound (it stops by xtol and calls that success), so keep xf interior
    m0 = 1 if opt == 'trust-constr' else 0
    if k < 0.3:
        dv['lower'] = bs(min(xf) - F(rng.randrange(m0, 9), 4))
        dv['upper'] = bs(max(xf) + F(rng.randrange(m0, 9), 4))
    elif k < 0.5:
        dv['lower'] = ba([v - F(rng.randrange(m0, 9), 4) for v in xf])
        if rng.random() < 0.5:
            dv['upper'] = ba([v + F(rng.randrange(m0, 9), 4) for v in xf])
    if rng.random() < 0.4:
        dv['scaler'] = jq(pow2(rng, -1, 2))
    if rng.random() < 0.3:
        dv['adder'] = jq(F(rng.randrange(-4, 5), 2))
    obj = {'adder': jq(F(rng.randrange(-4, 5), 2)) if rng.random() < 0.3 else None,
           'scaler': jq(pow2(rng, -2, 2)) if rng.random() < 0.4 else None}
    if opt == 'trust-constr' or rng.random() < 0.3:
        x0 = xf
    else:
        x0 = [v + F(rng.randrange(-8, 9), 4) for v in xf]
        lo, hi = blist(dv['lower'], n, -INF), blist(dv['upper'], n, INF)
        x0 = [min(max(v, l), h) for v, l, h in zip(x0, lo, hi)]
    case = {'kind': 'qp', 'n': n, 'H': H, 'M': M, 'D': D, 'b': b, 'cons': cons, 'dv': dv, 'obj': obj, 'opt': opt,
            'x0': [jq(v) for v in x0], 'xp': [jq(F(rng.randrange(-8, 9), 4)) for _ in range(n)],
            'tol_feas': 1e-6, 'tol_opt': {'SLSQP': 5e-5, 'COBYLA': 2e-4, 'trust-constr': 1e-2}[opt]}
    return case


def pattern_cases():
    """every per-element pattern {lower-only, upper-only, two-sided, none}^m for m <= 3 (encoding tie;
    the optimizer also runs): 1-variable-per-element problems"""
    import itertools
    out = []
    pats = ['l', 'u', 'b', 'n']
    for m in (1, 2, 3):
        for ci, combo in enumerate(itertools.product(pats, repeat=m)):
            for opt in OPTS:
                if m == 3 and opt != 'SLSQP' and ci % 3 != (1 if opt == 'COBYLA' else 2):
                    continue      # m = 3: all 64 patterns with SLSQP, a third each with COBYLA / trust-constr
                n = m
                H = [[(2 if i == j else 0) for j in range(n)] for i in range(n)]
                b = [(4 if (i % 2 == 0) else -4) for i in range(n)]     # unconstrained optimum +-2
                A = [[(1 if i == j else 0) for j in range(n)] for i in range(m)]
                los = [(-INF if p in 'un' else F(-1, 2)) for p in combo]
                his = [(INF if p in 'ln' else F(1)) for p in combo]
                c = {'A': A, 'idx': None, 'equals': None, 'linear': False,
                     'lower': None if all(v == -INF for v in los) else ba(los),
                     'upper': None if all(v == INF for v in his) else ba(his),
                     'scaling': {'t': 'none'}}
                if c['lower'] is None and c['upper'] is None:
                    continue
                out.append({'kind': 'qp', 'n': n, 'H': H, 'b': b, 'cons': [c],
                            'dv': {'lower': None, 'upper': None, 'adder': None, 'scaler': None},
                            'obj': {'adder': None, 'scaler': None}, 'opt': opt,
                            'x0': [jq(0)] * n, 'xp': [jq(F(3, 4))] * n, 'class': 'patterns',
                            'M': [], 'D': [2] * n,
                            'tol_feas': 1e-6, 'tol_opt': {'SLSQP': 5e-5, 'COBYLA': 2e-4, 'trust-constr': 1e-2}[opt]})
    return out


# ----------------------------------------------------------------------------- emitters

def econ_lets(case):
    lets, names = [], []
    sx = fr(case['dv']['scaler']) if case['dv']['scaler'] is not None else F(1)
    ax = fr(case['dv']['adder']) if case['dv']['adder'] is not None else F(0)
    for i, c in enumerate(case['cons']):
        m = con_size(c)
        lo, hi = blist(c['lower'], m, -INF), blist(c['upper'], m, INF)
        eq = None if c['equals'] is None else blist(c['equals'], m, None)
        sc = c['scaling']
        adder = blist(sc.get('adder'), m, F(0)) if sc['t'] == 'as' else [F(0)] * m
        scaler = blist(sc.get('scaler'), m, F(1)) if sc['t'] == 'as' else [F(1)] * m
        rows = con_rows(c)
        A = '[%s]' % '; '.join(qvec(r) for r in rows)
        lets.append('let a%d := %s in let s%d := %s in let A%d := %s in\n  let k%d := mk_econ (%d) %s %s %s a%d s%d %s A%d %s %s in' % (
            i, qvec(adder), i, qvec(scaler), i, A, i, i, qvec(lo), qvec(hi),
            'None' if eq is None else '(Some %s)' % qvec(eq), i, i, boollit(c['linear']), i, qlit(sx), qlit(ax)))
        names.append(i)
    return '\n  '.join(lets), names


def has_neg(con):
    sc = con['scaling']
    if sc['t'] != 'as' or sc['scaler'] is None:
        return False
    return any(v < 0 for v in blist(sc['scaler'], con_size(con), F(1)))


def cert_term(c):
    """kkt_check && gram_check on the exact optimum / multipliers / (M, D) stored in the case"""
    ce = c.get('cert')
    if not ce:
        return 'false'
    n = c['n']
    mat = lambda rows: '[%s]' % '; '.join(qvec([F(v) for v in r]) for r in rows)   # noqa: E731
    oq = lambda v: 'None' if v is None else '(Some %s)' % qlit(fr(v))               # noqa: E731
    cl = '; '.join('(mkrow %s %s %s, %s)' % (qvec([fr(v) for v in a]), oq(l), oq(h), qlit(fr(lam)))
                   for (a, l, h), lam in zip(ce['rows'], ce['lam']))
    m = len(c['M'][0]) if c['M'] else 0
    return ('kkt_check %d%%nat %s %s [%s] %s && gram_check %d%%nat %d%%nat %s %s %s' % (
        n, mat(c['H']), qvec([F(v) for v in c['b']]), cl, qvec([fr(v) for v in ce['x']]),
        n, m, mat(c['H']), mat(c['M']), qvec([F(v) for v in c['D']])))


class C21(Spec):
    pid = 'C21'
    imports = ['C21.Model', 'C21.ModelKKT']
    impl_script = 'props/C21/impl.py'
    exactness = ('E1/E3 exact: the list of constraint descriptors handed to scipy.optimize.minimize (type, name, dbl, idx; '
                 'lb/ub/A of new-style objects) and _confunc/_congradfunc probes on dyadic data; E4 (tolerances in each case: '
                 'feasibility 1e-6, optimum 5e-5 SLSQP / 1e-2 trust-constr; for COBYLA the optimum is recorded, not enforced) for the end-to-end oracle')
    shard = 80
    impl_jobs = 4
    rule = ('all per-element patterns {lower-only, upper-only, two-sided, none}^m, m <= 3 (m = 3: all with SLSQP, a third each with COBYLA and trust-constr), x 3 optimizers; random strictly convex QPs '
            '(n <= 3, 1-2 constraints of 1-3 elements, indices, linear flag, equality, scalar/array bounds with +-1e30 entries, '
            'constraint scaler +-2^j scalar/array and adder, design-variable bounds/scaler/adder, objective scaler/adder) x '
            'SLSQP / COBYLA / trust-constr; one case = one optimisation; distinct cases are non-trivial')
    assumptions = ['SciPy honours the constraints it is given (SLSQP, COBYLA, trust-constr)',
                   'floating point: descriptor/probe comparison exact on dyadic data; end-to-end oracle within the stated tolerances']

    def gen(self, tier, rng):
        cases = pattern_cases()
        nr = 180 if tier == 'quick' else 3000
        for k in range(nr):
            c = rnd_case(rng, opt=OPTS[k % 3], force_first_onesided=(k % 4 == 0), allow_neg=ALLOW_NEG)
            c['class'] = 'random'
            cases.append(c)
        return [add_cert(c) for c in cases]

    def search_gen(self, tier, rng):
        return [add_cert(dict(rnd_case(rng, allow_neg=ALLOW_NEG), **{'class': 'random'})) for _ in range(600)]

    def compare_case(self, case, res):
        # a case on which the oracle already fails is reported as a failing input (or as a known
        # finding by its signature); the descriptor comparison would only repeat it
        return bool(res.get('ok', True)) and res.get('res', '__none__') != '__none__'

    def kind(self, case, res):
        return res.get('kind') if isinstance(res, dict) else None

    def got_term(self, c):
        lets, names = econ_lets(c)
        xp = [fr(e) for e in c['xp']]
        ks = '[%s]' % '; '.join('k%d' % i for i in names)
        probes = '; '.join('probe %s %s k%d (con_vals a%d s%d A%d %s)' % (
            boollit(GRAD[c['opt']]), boollit(NEW[c['opt']]), i, i, i, i, qvec(xp)) for i in names)
        return '(%s\n  VL [encode_all %s %s; VL [%s]; VB (%s)])' % (lets, boollit(NEW[c['opt']]), ks, probes, cert_term(c))

    def want_term(self, case, res):
        # third component: the Coq checkers must accept the certificate of the optimum the oracle uses
        return to_val(list(res['res']) + [True])

    def shrink(self, c):
        for d in self._shrink(c):
            yield add_cert(d)

    def _shrink(self, c):
        if len(c['cons']) > 1:
            for k in range(len(c['cons'])):
                if has_neg(c['cons'][k]):
                    continue
                d = copy.deepcopy(c)
                del d['cons'][k]
                yield d
        for k, con in enumerate(c['cons']):
            if con['scaling']['t'] != 'none' and not has_neg(con):   # keep what the signature names
                d = copy.deepcopy(c)
                d['cons'][k]['scaling'] = {'t': 'none'}
                yield d
            if con['idx'] is not None:
                d = copy.deepcopy(c)
                d['cons'][k]['A'] = [con['A'][i] for i in con['idx']]
                d['cons'][k]['idx'] = None
                yield d
        for key in ('adder', 'scaler', 'lower', 'upper'):
            if c['dv'][key] is not None:
                d = copy.deepcopy(c)
                d['dv'][key] = None
                yield d
        for key in ('adder', 'scaler'):
            if c['obj'][key] is not None:
                d = copy.deepcopy(c)
                d['obj'][key] = None
                yield d


def main(tier):
    return standard_check(C21(), tier)
