#!/usr/bin/env python3
"""Single entry point of /verif.

  run.py setup                          build the whole Coq development (full .vo build)
  run.py check CXX [--tier quick|thorough]
  run.py replay CXX <replay.json>       re-run the failing input of a replay file on /repo
  run.py manifest                       regenerate MANIFEST.json from props/*/meta.json
  run.py all [--tier quick] [-j N]      run every claimed check, print a summary
"""
import argparse
import importlib.util
import json
import os
import subprocess
import sys
import time

HERE = os.path.dirname(os.path.abspath(__file__))
sys.path.insert(0, os.path.join(HERE, 'harness'))
import core  # noqa: E402


def load_check(pid):
    path = os.path.join(HERE, 'props', pid, 'check.py')
    spec = importlib.util.spec_from_file_location('check_' + pid, path)
    mod = importlib.util.module_from_spec(spec)
    sys.path.insert(0, os.path.dirname(path))
    spec.loader.exec_module(mod)
    return mod


def prop_ids():
    d = os.path.join(HERE, 'props')
    return sorted(p for p in os.listdir(d) if os.path.exists(os.path.join(d, p, 'check.py')))


def cmd_setup(_a):
    ok, cmd, out = core.coq_make_all()
    print(out[-3000:])
    print('setup: %s -> %s' % (cmd, 'ok' if ok else 'FAILED (individual checks report what broke)'))
    return 0


def cmd_check(a):
    tier = a.tier or os.environ.get('VERIF_TIER') or 'quick'
    mod = load_check(a.pid)
    return mod.main(tier)


def cmd_replay(a):
    mod = load_check(a.pid)
    rep = json.load(open(a.path))
    if hasattr(mod, 'replay'):
        return mod.replay(rep)
    # generic replay: run the recorded failing input through the real implementation's oracle again
    print(json.dumps({k: rep.get(k) for k in ('property', 'kind', 'signature', 'message', 'no_longer_checks')}, indent=1)[:3000])
    case = rep.get('case')
    spec = getattr(mod, 'SPEC', None)
    if case is None or spec is None or not getattr(spec, 'impl_script', None):
        return 0
    wd = core.workdir(a.pid, 'replay')
    res, log = core.run_impl(spec.impl_script, [case], wd, jobs=1)
    if res is None:
        print('implementation run failed:\n' + log[-2000:])
        return 1
    print('oracle on the recorded input now: ok=%s %s' % (res[0].get('ok'), res[0].get('msg', '')[:1500]))
    return 0 if res[0].get('ok', True) else 1


def manifest():
    props = {json.loads(l)['id']: json.loads(l) for l in open(os.path.join(HERE, 'properties.jsonl'))}
    checks, na = [], []
    for pid in sorted(props):
        mp = os.path.join(HERE, 'props', pid, 'meta.json')
        if not os.path.exists(mp) or not os.path.exists(os.path.join(HERE, 'props', pid, 'check.py')):
            na.append({'property_id': pid, 'reason': 'check not built yet (design in DESIGN.md section 5); not claimed'})
            continue
        m = json.load(open(mp))
        if not m.get('ready') and not m.get('not_applicable'):
            na.append({'property_id': pid, 'reason': 'check under construction (design in DESIGN.md section 5); not claimed yet'})
            continue
        if m.get('not_applicable'):
            na.append({'property_id': pid, 'reason': m['not_applicable']})
            continue
        checks.append({
            'property_id': pid,
            'quick_cmd': 'python3 run.py check %s --tier quick' % pid,
            'thorough_cmd': 'python3 run.py check %s --tier thorough' % pid,
            'evidence_file': 'evidence/%s.json' % pid,
            'replay_cmd_template': 'python3 run.py replay %s {path}' % pid,
            'engine': 'coq-proof+correspondence',
            'level_claimed': {'category': m.get('category', 'proof'), 'text': m['level_text'],
                              'design_ref': 'DESIGN.md section 5, ' + pid},
            'level_note': m['level_note'],
            'technique': m.get('technique', 'machine-checked proof in Coq 8.16 of a Gallina model + executable correspondence with /repo'),
        })
    man = {
        'version': 1,
        'setup_cmd': 'python3 run.py setup',
        'hooks': {'guard': core.GUARD,
                  'enable': 'checks export %s=1 for the implementation subprocesses; no source hooks exist in /repo (all instrumentation is done from the harness by subclassing / monkey-patching)' % core.GUARD,
                  'baseline_off_cmd': 'cd /repo && /venv/bin/python -m pytest -ra -q -p no:cacheprovider --timeout=900 --continue-on-collection-errors',
                  'source_commits': [], 'add_only': True},
        'engines': [{'name': 'coq-proof+correspondence', 'path': 'run.py',
                     'serves_properties': [c['property_id'] for c in checks],
                     'kind_free_text': 'Coq 8.16.1 theorems about hand-written Gallina models (coq/CXX), tied to /repo on every run by vm_compute correspondence and fail-closed translators (harness/, props/CXX)'}],
        'checks': checks,
        'not_applicable': na,
        'notes': 'See DESIGN.md. Known genuine defects: known_findings.json.',
    }
    with open(os.path.join(HERE, 'MANIFEST.json'), 'w') as f:
        json.dump(man, f, indent=1)
    return man


def cmd_manifest(_a):
    m = manifest()
    print('MANIFEST.json: %d checks, %d not claimed' % (len(m['checks']), len(m['not_applicable'])))
    return 0


def cmd_all(a):
    tier = a.tier or 'quick'
    pids = a.only.split(',') if a.only else prop_ids()
    procs, res = [], {}
    t0 = time.time()
    pending = list(pids)
    running = []
    while pending or running:
        while pending and len(running) < a.jobs:
            pid = pending.pop(0)
            log = open(os.path.join(HERE, 'work', 'all_%s.log' % pid), 'w')
            p = subprocess.Popen([sys.executable, os.path.join(HERE, 'run.py'), 'check', pid, '--tier', tier],
                                 cwd=HERE, stdout=log, stderr=subprocess.STDOUT)
            running.append((pid, p, time.time()))
        time.sleep(1)
        for it in list(running):
            pid, p, ts = it
            if p.poll() is not None:
                running.remove(it)
                res[pid] = (p.returncode, time.time() - ts)
                tail = open(os.path.join(HERE, 'work', 'all_%s.log' % pid)).read().strip().splitlines()[-3:]
                print('%s rc=%d %.0fs | %s' % (pid, p.returncode, time.time() - ts, ' | '.join(tail)))
                sys.stdout.flush()
    print('total %.0fs; failing: %s' % (time.time() - t0, [p for p, (rc, _) in res.items() if rc != 0]))
    return 0


def main():
    ap = argparse.ArgumentParser()
    sub = ap.add_subparsers(dest='cmd', required=True)
    sub.add_parser('setup')
    c = sub.add_parser('check'); c.add_argument('pid'); c.add_argument('--tier', default=None)
    r = sub.add_parser('replay'); r.add_argument('pid'); r.add_argument('path')
    sub.add_parser('manifest')
    al = sub.add_parser('all'); al.add_argument('--tier', default='quick'); al.add_argument('-j', dest='jobs', type=int, default=2)
    al.add_argument('--only', default='')
    a = ap.parse_args()
    os.makedirs(os.path.join(HERE, 'work'), exist_ok=True)
    rc = {'setup': cmd_setup, 'check': cmd_check, 'replay': cmd_replay, 'manifest': cmd_manifest, 'all': cmd_all}[a.cmd](a)
    sys.exit(rc or 0)


if __name__ == '__main__':
    main()
