(* C24 — property theorems (statements only; proofs by [exact] of lemmas in Proofs.v). *)
From Coq Require Import ZArith QArith List Bool.
From OMV Require Import Base.Val C01.Model C01.Proofs C24.Model C24.Proofs C24.ProofsCyclic.
Import ListNotations.
Open Scope Q_scope.

(* On a model evaluated in a topological execution order, with every system a linear map of its
   predecessors' values and of its own seed, skipping all systems outside D /\ A — D containing the support
   of the seed and closed downstream, A closed upstream — leaves the value of EVERY system in A (in
   particular the responses) unchanged.  All sizes, all graphs, all linear systems (blocks of any width). *)
Theorem C24_pruned_eq_full :
  forall (f : nat -> vec -> list vec -> vec) (width : nat -> nat) (deps : nat -> list nat)
         (rhs : nat -> vec) (inD inA : nat -> bool),
    (forall k b xs xs', Forall2 vec_eq xs xs' -> vec_eq (f k b xs) (f k b xs')) ->
    (forall k b xs, is_zero b -> Forall is_zero xs -> is_zero (f k b xs)) ->
    (forall k b xs, length (f k b xs) = width k) ->
    (forall k j, In j (deps k) -> (j < k)%nat) ->
    (forall k, inD k = false -> is_zero (rhs k)) ->
    (forall k j, In j (deps k) -> inD j = true -> inD k = true) ->
    (forall k j, In j (deps k) -> inA k = true -> inA j = true) ->
    forall k m, (k < m)%nat -> inA k = true ->
      vec_eq (nth k (run f width deps rhs (fun k => inD k && inA k) m) [])
             (nth k (run f width deps rhs (fun _ => true) m) []).
Proof. exact pruned_eq_full. Qed.
Print Assumptions C24_pruned_eq_full.

(* The same for any sets that pass the executable closure certificate [closedb] (the model's reachability
   sets and the sets read from the real Relevance object are both put through it on every run). *)
Theorem C24_pruned_eq_full_certified :
  forall (f : nat -> vec -> list vec -> vec) (width : nat -> nat) (depsl : list (list nat))
         (rhs : nat -> vec) (seeds targets : list nat) (D A : bset),
    (forall k b xs xs', Forall2 vec_eq xs xs' -> vec_eq (f k b xs) (f k b xs')) ->
    (forall k b xs, is_zero b -> Forall is_zero xs -> is_zero (f k b xs)) ->
    (forall k b xs, length (f k b xs) = width k) ->
    dagb depsl = true ->
    closedb depsl seeds targets D A = true ->
    (forall k, mem D k = false -> is_zero (rhs k)) ->
    forall k m, (k < m)%nat -> mem A k = true ->
      vec_eq (nth k (run f width (fun k => nth k depsl []) rhs (fun k => mem D k && mem A k) m) [])
             (nth k (run f width (fun k => nth k depsl []) rhs (fun _ => true) m) []).
Proof. exact pruned_eq_full_certified. Qed.
Print Assumptions C24_pruned_eq_full_certified.

Theorem C24_closure_certificate_sound :
  forall depsl seeds targets D A,
    closedb depsl seeds targets D A = true ->
    (forall s, In s seeds -> mem D s = true) /\
    (forall t, In t targets -> mem A t = true) /\
    (forall k j, In j (nth k depsl []) -> mem D j = true -> mem D k = true) /\
    (forall k j, In j (nth k depsl []) -> mem A k = true -> mem A j = true).
Proof. exact closedb_sound. Qed.
Print Assumptions C24_closure_certificate_sound.

(* multi-seed solves (parallel-derivative style colours): unions of closed sets are closed *)
Theorem C24_combine_seeds :
  forall (deps : nat -> list nat) (D1 D2 A1 A2 : nat -> bool),
    (forall k j, In j (deps k) -> D1 j = true -> D1 k = true) ->
    (forall k j, In j (deps k) -> D2 j = true -> D2 k = true) ->
    (forall k j, In j (deps k) -> A1 k = true -> A1 j = true) ->
    (forall k j, In j (deps k) -> A2 k = true -> A2 j = true) ->
    (forall k j, In j (deps k) -> (D1 j || D2 j) = true -> (D1 k || D2 k) = true) /\
    (forall k j, In j (deps k) -> (A1 k || A2 k) = true -> (A1 j || A2 j) = true).
Proof. exact combine_seeds_closed. Qed.
Print Assumptions C24_combine_seeds.

(* scalar block-triangular linear systems are instances of the abstract systems above *)
Theorem C24_linear_instance :
  forall coef diag,
    (forall k b xs xs', Forall2 vec_eq xs xs' -> vec_eq (lin_f coef diag k b xs) (lin_f coef diag k b xs')) /\
    (forall k b xs, is_zero b -> Forall is_zero xs -> is_zero (lin_f coef diag k b xs)).
Proof. exact lin_instance. Qed.
Print Assumptions C24_linear_instance.

(* The cyclic case (feedback connections, coupled groups): no execution order at all.  For ANY linear system
   M x = b of any size: if the seed is supported in D, D is closed downstream and A upstream with respect to the
   non-zero pattern of M, and the A-block of M is certified regular (left-inverse certificate of M with the rows
   outside A replaced by unit rows), then the solution of the system restricted to R = D /\ A (unknowns outside R
   zero, equations outside R dropped) equals the full solution on every system in A. *)
Theorem C24_pruned_eq_full_cyclic :
  forall (n : nat) (L M : mat) (b x xp : vec) (inD inA : nat -> bool),
    wf_mat n M -> length M = n -> length x = n -> length xp = n -> length b = n ->
    (forall k j, inA k = true -> inA j = false -> nth j (nth k M []) 0 == 0) ->
    (forall k j, inD j = true -> inD k = false -> nth j (nth k M []) 0 == 0) ->
    (forall k, inD k = false -> nth k b 0 == 0) ->
    vec_eq (mat_vec M x) b ->
    (forall k, (k < n)%nat -> inD k && inA k = true -> dot (nth k M []) xp == nth k b 0) ->
    (forall k, inD k && inA k = false -> nth k xp 0 == 0) ->
    left_inverse_cert L (maskA n inA M) n ->
    forall k, inA k = true -> nth k xp 0 == nth k x 0.
Proof. exact pruned_eq_full_cyclic_certified. Qed.
Print Assumptions C24_pruned_eq_full_cyclic.
