(* C24 — relevance pruning.  Systems (components) in execution order 0..n-1; [deps k] are the systems whose
   outputs feed system k.  Reachability sets as in utils/relevance.py (_dependent_nodes on the dataflow graph,
   projected to systems): D = systems downstream of a forward seed variable, A = systems upstream of a reverse
   seed variable; a system is skipped unless it is in D and in A (Relevance.filter / is_relevant_system).
   Definitions only. *)
From Coq Require Import ZArith QArith List Bool.
Import ListNotations.
From OMV Require Import Base.Val C01.Model.
Open Scope Q_scope.

Definition bset := list bool.
Definition mem (s : bset) (k : nat) : bool := nth k s false.

(* ---------------------------------------------------------------- reachability *)

(* one sweep: k joins if it is initial or one of its predecessors is in the set *)
Definition fwd_step (deps : list (list nat)) (init s : bset) : bset :=
  map (fun kd => mem init (fst kd) || existsb (mem s) (snd kd)) (combine (seq 0 (length deps)) deps).
(* one sweep backwards: j joins if it is initial or it feeds a member *)
Definition bwd_step (deps : list (list nat)) (init s : bset) : bset :=
  map (fun j => mem init j ||
                existsb (fun kd => mem s (fst kd) && existsb (Nat.eqb j) (snd kd))
                        (combine (seq 0 (length deps)) deps))
      (seq 0 (length deps)).

Fixpoint iter {A} (n : nat) (f : A -> A) (x : A) : A :=
  match n with O => x | S k => iter k f (f x) end.

Definition set_of (n : nat) (l : list nat) : bset := map (fun k => existsb (Nat.eqb k) l) (seq 0 n).

Definition reach_fwd (deps : list (list nat)) (init : list nat) : bset :=
  let i := set_of (length deps) init in iter (length deps) (fwd_step deps i) i.
Definition reach_bwd (deps : list (list nat)) (init : list nat) : bset :=
  let i := set_of (length deps) init in iter (length deps) (bwd_step deps i) i.

Definition inter (a b : bset) : bset := map (fun p => fst p && snd p) (combine a b).
Definition union (a b : bset) : bset := map (fun p => fst p || snd p) (combine a b).

(* systems re-run in every driver iteration (Relevance._setup_nonlinear_relevance: the strongly connected
   component of the component graph after tying all design-variable and response components together): the
   components that are downstream of some design-variable / response component AND upstream of one.  Every
   connection counts, continuous or discrete. *)
Definition iter_set (deps : list (list nat)) (seeds : list nat) : bset :=
  inter (reach_fwd deps seeds) (reach_bwd deps seeds).

(* ---------------------------------------------------------------- closure certificate *)

(* D contains the seeds and is closed downstream; A contains the targets and is closed upstream *)
Definition closedb (deps : list (list nat)) (seeds targets : list nat) (D A : bset) : bool :=
  forallb (mem D) seeds && forallb (mem A) targets &&
  forallb (fun kd => forallb (fun j => (negb (mem D j) || mem D (fst kd)) &&
                                      (negb (mem A (fst kd)) || mem A j)) (snd kd))
          (combine (seq 0 (length deps)) deps).

(* ---------------------------------------------------------------- evaluation in execution order *)

Section Eval.
  Variable f : nat -> vec -> list vec -> vec.     (* system k: own right-hand side, predecessor values *)
  Variable width : nat -> nat.
  Variable deps : nat -> list nat.
  Variable rhs : nat -> vec.
  Variable active : nat -> bool.

  Fixpoint run (m : nat) : list vec :=
    match m with
    | O => []
    | S k =>
        let prev := run k in
        prev ++ [if active k then f k (rhs k) (map (fun j => nth j prev []) (deps k)) else zeros (width k)]
    end.
End Eval.

(* a concrete linear system in block-triangular form: x_k = (rhs_k - sum_j c_kj * x_j) / d_k  (scalars) *)
Definition lin_f (coef : nat -> list Q) (diag : nat -> Q) (k : nat) (b : vec) (xs : list vec) : vec :=
  [ (nth 0 b 0 - dot (coef k) (map (fun x => nth 0 x 0) xs)) / diag k ].

(* ---------------------------------------------------------------- rendering *)

Definition v_bset (s : bset) : val := VL (map VB s).

(* per design variable: D; per response: A; plus the closure certificate of every (D, A) pair *)
Definition run_relevance (deps : list (list nat)) (dseeds : list (list nat)) (rseeds : list (list nat)) : val :=
  let Ds := map (reach_fwd deps) dseeds in
  let As := map (reach_bwd deps) rseeds in
  VL [VL (map v_bset Ds); VL (map v_bset As);
      VB (forallb (fun sd => forallb (fun ta => closedb deps (fst sd) (fst ta) (snd sd) (snd ta))
                                      (combine rseeds As)) (combine dseeds Ds))].

(* the certificate evaluated on sets that come from somewhere else (the real Relevance object) *)
Definition check_real (deps : list (list nat)) (dseeds rseeds : list (list nat)) (Ds As : list bset) : val :=
  VB (forallb (fun sd => forallb (fun ta => closedb deps (fst sd) (fst ta) (snd sd) (snd ta))
                                  (combine rseeds As)) (combine dseeds Ds)).
