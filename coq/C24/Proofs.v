(* C24 — proofs: skipping the systems outside Desc(seed) /\ Anc(response) is unobservable. *)
From Coq Require Import ZArith QArith List Bool Lia Wf_nat Setoid Morphisms.
From OMV Require Import Base.Val C01.Model C01.Proofs C24.Model.
Import ListNotations.
Open Scope Q_scope.

Definition is_zero (v : vec) : Prop := Forall (fun e => e == 0) v.

Lemma zero_vec_eq : forall a b, is_zero a -> is_zero b -> length a = length b -> vec_eq a b.
Proof.
  induction a as [|x a IH]; intros b Ha Hb Hl; destruct b as [|y b]; simpl in *; try discriminate;
    constructor.
  - inversion Ha; inversion Hb; subst. rewrite H1, H5. reflexivity.
  - inversion Ha; inversion Hb; subst. apply IH; auto.
Qed.

Lemma Forall2_map_in : forall {A B} (R : B -> B -> Prop) (g h : A -> B) (l : list A),
  (forall j, In j l -> R (g j) (h j)) -> Forall2 R (map g l) (map h l).
Proof.
  induction l; simpl; intros H; constructor; auto.
Qed.

Lemma Forall_map_in : forall {A B} (P : B -> Prop) (g : A -> B) (l : list A),
  (forall j, In j l -> P (g j)) -> Forall P (map g l).
Proof.
  induction l; simpl; intros H; constructor; auto.
Qed.

Section Pruning.
  Variable f : nat -> vec -> list vec -> vec.
  Variable width : nat -> nat.
  Variable deps : nat -> list nat.
  Variable rhs : nat -> vec.
  Variable inD inA : nat -> bool.

  (* systems are linear maps of their predecessors' values (and of their own right-hand side) *)
  Hypothesis f_proper : forall k b xs xs', Forall2 vec_eq xs xs' -> vec_eq (f k b xs) (f k b xs').
  Hypothesis f_zero : forall k b xs, is_zero b -> Forall is_zero xs -> is_zero (f k b xs).
  Hypothesis f_length : forall k b xs, length (f k b xs) = width k.
  (* execution order is a topological order *)
  Hypothesis deps_lt : forall k j, In j (deps k) -> (j < k)%nat.
  (* the right-hand side (seed) is supported in D; D is closed downstream, A upstream *)
  Hypothesis seed_D : forall k, inD k = false -> is_zero (rhs k).
  Hypothesis D_closed : forall k j, In j (deps k) -> inD j = true -> inD k = true.
  Hypothesis A_closed : forall k j, In j (deps k) -> inA k = true -> inA j = true.

  Lemma run_length : forall active m, length (run f width deps rhs active m) = m.
  Proof.
    induction m; simpl; auto. rewrite app_length, IHm. simpl. lia.
  Qed.

  Lemma nth_run : forall active m k, (k < m)%nat ->
    nth k (run f width deps rhs active m) [] =
    (if active k then f k (rhs k) (map (fun j => nth j (run f width deps rhs active k) []) (deps k))
     else zeros (width k)).
  Proof.
    induction m; intros k Hk. lia.
    simpl. destruct (Nat.eq_dec k m) as [E|E].
    - subst. rewrite app_nth2; rewrite run_length; try lia.
      rewrite Nat.sub_diag. reflexivity.
    - rewrite app_nth1 by (rewrite run_length; lia). apply IHm. lia.
  Qed.

  Let full := run f width deps rhs (fun _ => true).
  Let pruned := run f width deps rhs (fun k => inD k && inA k).

  (* systems not downstream of the seed hold zero in the full evaluation *)
  Lemma full_zero_outside_D : forall k m, (k < m)%nat -> inD k = false -> is_zero (nth k (full m) []).
  Proof.
    induction k as [k IH] using lt_wf_ind. intros m Hk HD.
    unfold full. rewrite nth_run by auto.
    apply f_zero. apply seed_D; auto.
    apply Forall_map_in. intros j Hj.
    apply IH. apply deps_lt; auto. apply deps_lt; auto.
    destruct (inD j) eqn:Ej; auto. rewrite (D_closed k j Hj Ej) in HD. discriminate.
  Qed.

  (* every system upstream of the response holds the same value with and without pruning *)
  Theorem pruned_eq_full : forall k m, (k < m)%nat -> inA k = true ->
    vec_eq (nth k (pruned m) []) (nth k (full m) []).
  Proof.
    induction k as [k IH] using lt_wf_ind. intros m Hk HA.
    unfold pruned. rewrite nth_run by auto. rewrite HA, andb_true_r.
    destruct (inD k) eqn:ED.
    - unfold full. rewrite nth_run by auto.
      apply f_proper. apply Forall2_map_in. intros j Hj.
      apply IH. apply deps_lt; auto. apply deps_lt; auto. apply (A_closed k j); auto.
    - apply zero_vec_eq.
      + apply zeros_all_zero.
      + apply full_zero_outside_D; auto.
      + unfold full. rewrite nth_run by auto. rewrite f_length. apply zeros_length.
  Qed.
End Pruning.

(* ---------------------------------------------------------------- the closure certificate *)

Definition dagb (depsl : list (list nat)) : bool :=
  forallb (fun kd => forallb (fun j => Nat.ltb j (fst kd)) (snd kd)) (combine (seq 0 (length depsl)) depsl).

Lemma in_combine_seq : forall {A} (l : list A) k (d : A), (k < length l)%nat ->
  In (k, nth k l d) (combine (seq 0 (length l)) l).
Proof.
  intros A l k d Hk.
  assert (G : forall (l : list A) s k, (k < length l)%nat -> In ((s + k)%nat, nth k l d) (combine (seq s (length l)) l)).
  { clear. induction l; intros s k Hk; simpl in *. lia.
    destruct k. left. f_equal. lia.
    right. replace (s + S k)%nat with (S s + k)%nat by lia. apply IHl. lia. }
  apply (G l 0%nat k Hk).
Qed.

Lemma dagb_sound : forall depsl, dagb depsl = true ->
  forall k j, In j (nth k depsl []) -> (j < k)%nat.
Proof.
  unfold dagb. intros depsl H k j Hj.
  destruct (Nat.lt_ge_cases k (length depsl)) as [Hk|Hk].
  - rewrite forallb_forall in H. specialize (H _ (in_combine_seq depsl k [] Hk)).
    rewrite forallb_forall in H. specialize (H j Hj). apply Nat.ltb_lt in H. exact H.
  - rewrite nth_overflow in Hj by lia. destruct Hj.
Qed.

Theorem closedb_sound : forall depsl seeds targets D A,
  closedb depsl seeds targets D A = true ->
  (forall s, In s seeds -> mem D s = true) /\
  (forall t, In t targets -> mem A t = true) /\
  (forall k j, In j (nth k depsl []) -> mem D j = true -> mem D k = true) /\
  (forall k j, In j (nth k depsl []) -> mem A k = true -> mem A j = true).
Proof.
  unfold closedb. intros depsl seeds targets D A H.
  apply andb_prop in H; destruct H as [H H3]. apply andb_prop in H; destruct H as [H1 H2].
  rewrite forallb_forall in H1, H2, H3.
  repeat split; auto.
  - intros k j Hj HD.
    destruct (Nat.lt_ge_cases k (length depsl)) as [Hk|Hk].
    + specialize (H3 _ (in_combine_seq depsl k [] Hk)). rewrite forallb_forall in H3.
      specialize (H3 j Hj). simpl in H3. apply andb_prop in H3; destruct H3 as [H3 _].
      rewrite HD in H3. simpl in H3. exact H3.
    + rewrite nth_overflow in Hj by lia. destruct Hj.
  - intros k j Hj HA.
    destruct (Nat.lt_ge_cases k (length depsl)) as [Hk|Hk].
    + specialize (H3 _ (in_combine_seq depsl k [] Hk)). rewrite forallb_forall in H3.
      specialize (H3 j Hj). simpl in H3. apply andb_prop in H3; destruct H3 as [_ H3].
      rewrite HA in H3. simpl in H3. exact H3.
    + rewrite nth_overflow in Hj by lia. destruct Hj.
Qed.

(* the theorem for any sets that pass the executable certificate (the model's own reachability sets, or the
   sets read out of the real Relevance object) *)
Theorem pruned_eq_full_certified :
  forall (f : nat -> vec -> list vec -> vec) (width : nat -> nat) (depsl : list (list nat))
         (rhs : nat -> vec) (seeds targets : list nat) (D A : bset),
    (forall k b xs xs', Forall2 vec_eq xs xs' -> vec_eq (f k b xs) (f k b xs')) ->
    (forall k b xs, is_zero b -> Forall is_zero xs -> is_zero (f k b xs)) ->
    (forall k b xs, length (f k b xs) = width k) ->
    dagb depsl = true ->
    closedb depsl seeds targets D A = true ->
    (forall k, mem D k = false -> is_zero (rhs k)) ->
    forall k m, (k < m)%nat -> mem A k = true ->
      vec_eq (nth k (run f width (fun k => nth k depsl []) rhs (fun k => mem D k && mem A k) m) [])
             (nth k (run f width (fun k => nth k depsl []) rhs (fun _ => true) m) []).
Proof.
  intros f width depsl rhs seeds targets D A Hp Hz Hl Hdag Hc Hseed k m Hk HA.
  destruct (closedb_sound _ _ _ _ _ Hc) as [_ [_ [HD HAc]]].
  apply (pruned_eq_full f width (fun k => nth k depsl []) rhs (mem D) (mem A)); auto.
  apply dagb_sound; auto.
Qed.

(* multi-seed solves: unions of closed sets are closed, so pruning with (union of D_s) /\ (union of A_t) is
   covered by the same theorem *)
Theorem combine_seeds_closed : forall (deps : nat -> list nat) (D1 D2 A1 A2 : nat -> bool),
  (forall k j, In j (deps k) -> D1 j = true -> D1 k = true) ->
  (forall k j, In j (deps k) -> D2 j = true -> D2 k = true) ->
  (forall k j, In j (deps k) -> A1 k = true -> A1 j = true) ->
  (forall k j, In j (deps k) -> A2 k = true -> A2 j = true) ->
  (forall k j, In j (deps k) -> (D1 j || D2 j) = true -> (D1 k || D2 k) = true) /\
  (forall k j, In j (deps k) -> (A1 k || A2 k) = true -> (A1 j || A2 j) = true).
Proof.
  intros deps D1 D2 A1 A2 H1 H2 H3 H4. split; intros k j Hj H.
  - apply orb_true_iff in H. apply orb_true_iff. destruct H; [left; eapply H1 | right; eapply H2]; eauto.
  - apply orb_true_iff in H. apply orb_true_iff. destruct H; [left; eapply H3 | right; eapply H4]; eauto.
Qed.

(* ---------------------------------------------------------------- the linear instance *)

Lemma lin_f_proper : forall coef diag k b xs xs',
  Forall2 vec_eq xs xs' -> vec_eq (lin_f coef diag k b xs) (lin_f coef diag k b xs').
Proof.
  intros coef diag k b xs xs' H. unfold lin_f. constructor; [|constructor].
  assert (E : vec_eq (map (fun x => nth 0 x 0) xs) (map (fun x => nth 0 x 0) xs')).
  { induction H; simpl; constructor; auto. apply vec_eq_nth; auto. }
  rewrite (dot_compat _ _ _ _ (vec_eq_refl (coef k)) E). reflexivity.
Qed.

Lemma lin_f_zero : forall coef diag k b xs,
  is_zero b -> Forall is_zero xs -> is_zero (lin_f coef diag k b xs).
Proof.
  intros coef diag k b xs Hb Hx. unfold lin_f. constructor; [|constructor].
  assert (Z : Forall (fun e => e == 0) (map (fun x => nth 0 x 0) xs)).
  { induction Hx; simpl; constructor; auto.
    destruct x as [|e x']; simpl. reflexivity. inversion H; auto. }
  rewrite (dot_comm (coef k)). rewrite (dot_zero_l _ _ Z).
  assert (B : nth 0 b 0 == 0) by (destruct b; simpl; [reflexivity | inversion Hb; auto]).
  rewrite B. unfold Qdiv. ring.
Qed.

Lemma lin_instance : forall coef diag,
  (forall k b xs xs', Forall2 vec_eq xs xs' -> vec_eq (lin_f coef diag k b xs) (lin_f coef diag k b xs')) /\
  (forall k b xs, is_zero b -> Forall is_zero xs -> is_zero (lin_f coef diag k b xs)).
Proof. intros; split; [exact (lin_f_proper coef diag) | exact (lin_f_zero coef diag)]. Qed.

(* non-vacuity: 0 (seed) -> 2 -> 3 (response), an unrelated source 1 -> 3, an irrelevant side branch 0 -> 4 *)
Definition ex_deps : list (list nat) := [[]; []; [0%nat]; [2%nat; 1%nat]; [0%nat]].
Example ex_sets :
  reach_fwd ex_deps [0%nat] = [true; false; true; true; true] /\
  reach_bwd ex_deps [3%nat] = [true; true; true; true; false] /\
  closedb ex_deps [0%nat] [3%nat] (reach_fwd ex_deps [0%nat]) (reach_bwd ex_deps [3%nat]) = true /\
  dagb ex_deps = true.
Proof. vm_compute. repeat split; reflexivity. Qed.
