(* C24 — the cyclic case: no execution order, any (coupled) linear system M x = b.
   The pruned solve restricts the system to R = D /\ A (unknowns outside R are zero, equations outside R are
   dropped); the full solve is M x = b.  If the seed b is supported in D, D is closed downstream and A is closed
   upstream with respect to the non-zero pattern of M (row k depends on column j), and the A-block of M has a
   trivial kernel (certified solves), then the pruned and the full solution agree on every system in A. *)
From Coq Require Import ZArith QArith List Bool Lia Setoid Morphisms.
From OMV Require Import Base.Val C01.Model C01.Proofs C24.Model.
Import ListNotations.
Open Scope Q_scope.

Definition mkvec (n : nat) (f : nat -> Q) : vec := map f (seq 0 n).

Lemma mkvec_length : forall n f, length (mkvec n f) = n.
Proof. intros; unfold mkvec; rewrite map_length, seq_length; auto. Qed.

Lemma mkvec_self : forall (x : vec), mkvec (length x) (fun j => nth j x 0) = x.
Proof. intros; unfold mkvec; apply map_nth_seq. Qed.

Lemma nth_mkvec : forall n f k, (k < n)%nat -> nth k (mkvec n f) 0 = f k.
Proof.
  intros n f k H. unfold mkvec.
  rewrite (nth_indep _ 0 (f 0%nat)) by (rewrite map_length, seq_length; auto).
  rewrite map_nth. rewrite seq_nth by auto. reflexivity.
Qed.

(* sums over the shifted index range *)
Lemma dot_ext_gen : forall (r : vec) (s : nat) (f g : nat -> Q),
  (forall j, (j < length r)%nat -> nth j r 0 * f (s + j)%nat == nth j r 0 * g (s + j)%nat) ->
  dot r (map f (seq s (length r))) == dot r (map g (seq s (length r))).
Proof.
  induction r as [|a r IH]; intros s f g H; simpl. reflexivity.
  pose proof (H 0%nat (Nat.lt_0_succ _)) as H0. simpl in H0. rewrite Nat.add_0_r in H0.
  rewrite H0. apply Qplus_comp. reflexivity.
  apply IH. intros j Hj. specialize (H (S j)). simpl in H.
  replace (S s + j)%nat with (s + S j)%nat by lia. apply H. lia.
Qed.

Lemma dot_ext : forall (r : vec) (n : nat) (f g : nat -> Q),
  length r = n ->
  (forall j, (j < n)%nat -> nth j r 0 * f j == nth j r 0 * g j) ->
  dot r (mkvec n f) == dot r (mkvec n g).
Proof.
  intros r n f g Hl H. unfold mkvec. subst n. apply dot_ext_gen. intros j Hj. simpl. apply H; auto.
Qed.

Lemma dot_mkvec_zero : forall (r : vec) n, dot r (mkvec n (fun _ => 0)) == 0.
Proof.
  intros. rewrite dot_comm. apply dot_zero_l. unfold mkvec.
  apply Forall_forall. intros x Hx. apply in_map_iff in Hx. destruct Hx as [j [E _]]. subst. reflexivity.
Qed.

Lemma dot_mkvec_sub : forall (r : vec) n f g, length r = n ->
  dot r (mkvec n (fun j => f j - g j)) == dot r (mkvec n f) - dot r (mkvec n g).
Proof.
  intros r n f g Hl. subst n. unfold mkvec. generalize 0%nat as s.
  induction r as [|a r IH]; intros s; simpl. ring.
  rewrite IH. ring.
Qed.

Section Cyclic.
  Variable n : nat.
  Variable M : mat.
  Variable b x xp : vec.
  Variable inD inA : nat -> bool.

  Let row (k : nat) : vec := nth k M [].
  Let entry (k j : nat) : Q := nth j (row k) 0.

  Hypothesis wfM : wf_mat n M.
  Hypothesis lenM : length M = n.
  Hypothesis lenx : length x = n.
  Hypothesis lenxp : length xp = n.
  Hypothesis lenb : length b = n.

  (* non-zero pattern: row k depends on column j *)
  Hypothesis A_closed : forall k j, inA k = true -> inA j = false -> entry k j == 0.
  Hypothesis D_closed : forall k j, inD j = true -> inD k = false -> entry k j == 0.
  Hypothesis seed_D : forall k, inD k = false -> nth k b 0 == 0.

  (* full solve, pruned solve *)
  Hypothesis full : vec_eq (mat_vec M x) b.
  Hypothesis pruned_rows : forall k, (k < n)%nat -> inD k && inA k = true -> dot (row k) xp == nth k b 0.
  Hypothesis pruned_zero : forall k, inD k && inA k = false -> nth k xp 0 == 0.

  (* the A-block of M has a trivial kernel *)
  Hypothesis A_block_injective : forall w, length w = n ->
    (forall k, inA k = false -> nth k w 0 == 0) ->
    (forall k, (k < n)%nat -> inA k = true -> dot (row k) w == 0) ->
    forall k, nth k w 0 == 0.

  Lemma row_length : forall k, (k < n)%nat -> length (row k) = n.
  Proof.
    intros k Hk. unfold row. unfold wf_mat in wfM. rewrite Forall_forall in wfM.
    apply wfM. apply nth_In. lia.
  Qed.

  Lemma full_row : forall k, (k < n)%nat -> dot (row k) x == nth k b 0.
  Proof.
    intros k Hk. rewrite <- (vec_eq_nth _ _ k full). rewrite nth_mat_vec. reflexivity.
  Qed.

  (* rows outside D see nothing of the pruned solution *)
  Lemma pruned_row_outside_D : forall k, (k < n)%nat -> inD k = false -> dot (row k) xp == 0.
  Proof.
    intros k Hk HD.
    rewrite <- (mkvec_self xp). rewrite lenxp.
    rewrite (dot_ext (row k) n (fun j => nth j xp 0) (fun _ => 0) (row_length k Hk)).
    - apply dot_mkvec_zero.
    - intros j Hj. destruct (inD j && inA j) eqn:ER.
      + apply andb_prop in ER. destruct ER as [EDj _].
        fold (entry k j). rewrite (D_closed k j EDj HD). ring.
      + rewrite (pruned_zero j ER). ring.
  Qed.

  Theorem pruned_eq_full_cyclic : forall k, inA k = true -> nth k xp 0 == nth k x 0.
  Proof.
    intros k0 HA0.
    set (w := mkvec n (fun j => if inA j then nth j x 0 - nth j xp 0 else 0)).
    assert (Lw : length w = n) by apply mkvec_length.
    assert (W0 : forall k, inA k = false -> nth k w 0 == 0).
    { intros k Hk. destruct (Nat.lt_ge_cases k n) as [L|L].
      - unfold w. rewrite nth_mkvec by auto. rewrite Hk. reflexivity.
      - rewrite nth_overflow by lia. reflexivity. }
    assert (WR : forall k, (k < n)%nat -> inA k = true -> dot (row k) w == 0).
    { intros k Hk HAk. unfold w.
      rewrite (dot_ext (row k) n _ (fun j => nth j x 0 - nth j xp 0) (row_length k Hk)).
      - rewrite (dot_mkvec_sub (row k) n _ _ (row_length k Hk)).
        rewrite <- lenx at 1. rewrite mkvec_self.
        rewrite <- lenxp. rewrite mkvec_self.
        rewrite (full_row k Hk).
        destruct (inD k) eqn:EDk.
        + rewrite (pruned_rows k Hk) by (rewrite EDk, HAk; reflexivity). ring.
        + rewrite (pruned_row_outside_D k Hk EDk). rewrite (seed_D k EDk). ring.
      - intros j Hj. destruct (inA j) eqn:EAj. reflexivity.
        fold (entry k j). rewrite (A_closed k j HAk EAj). ring. }
    pose proof (A_block_injective w Lw W0 WR k0) as Z.
    destruct (Nat.lt_ge_cases k0 n) as [L|L].
    - unfold w in Z. rewrite nth_mkvec in Z by auto. rewrite HA0 in Z.
      assert (E : nth k0 xp 0 == nth k0 x 0 - (nth k0 x 0 - nth k0 xp 0)) by ring.
      rewrite E, Z. ring.
    - rewrite !nth_overflow by lia. reflexivity.
  Qed.
End Cyclic.

(* ---------------------------------------------------------------- the kernel condition from a certificate *)

(* rows outside A replaced by unit rows: the matrix whose only non-trivial block is the A-block of M *)
Definition maskA (n : nat) (inA : nat -> bool) (M : mat) : mat :=
  map (fun k => if inA k then nth k M [] else unit_at n k 1) (seq 0 n).

Lemma nth_maskA : forall n inA M k, (k < n)%nat ->
  nth k (maskA n inA M) [] = if inA k then nth k M [] else unit_at n k 1.
Proof.
  intros n inA M k Hk. unfold maskA.
  rewrite (nth_indep _ [] ((fun k => if inA k then nth k M [] else unit_at n k 1) 0%nat))
    by (rewrite map_length, seq_length; auto).
  rewrite (map_nth (fun k => if inA k then nth k M [] else unit_at n k 1)).
  rewrite seq_nth by auto. reflexivity.
Qed.

Lemma maskA_wf : forall n inA M, wf_mat n M -> length M = n -> wf_mat n (maskA n inA M).
Proof.
  intros n inA M HM HL. unfold wf_mat, maskA. apply Forall_forall. intros r Hr.
  apply in_map_iff in Hr. destruct Hr as [k [E Hk]]. apply in_seq in Hk. subst r.
  destruct (inA k).
  - unfold wf_mat in HM. rewrite Forall_forall in HM. apply HM. apply nth_In. lia.
  - apply unit_at_length.
Qed.

Lemma A_block_injective_of_cert : forall (L M : mat) (n : nat) (inA : nat -> bool),
  wf_mat n M -> length M = n ->
  left_inverse_cert L (maskA n inA M) n ->
  forall w, length w = n ->
    (forall k, inA k = false -> nth k w 0 == 0) ->
    (forall k, (k < n)%nat -> inA k = true -> dot (nth k M []) w == 0) ->
    forall k, nth k w 0 == 0.
Proof.
  intros L M n inA HM HL HC w Lw W0 WR k.
  apply (kernel_trivial L (maskA n inA M) n w (maskA_wf n inA M HM HL) HC Lw).
  apply Forall_zero_of_nth. intros i.
  destruct (Nat.lt_ge_cases i n) as [Hi|Hi].
  - rewrite nth_mat_vec. rewrite nth_maskA by auto.
    destruct (inA i) eqn:E.
    + apply WR; auto.
    + rewrite (dot_unit_at n i 1 w Lw). rewrite (W0 i E). ring.
  - rewrite nth_overflow. reflexivity.
    rewrite mat_vec_length. unfold maskA. rewrite map_length, seq_length. lia.
Qed.

(* the cyclic theorem with certificates only *)
Theorem pruned_eq_full_cyclic_certified :
  forall (n : nat) (L M : mat) (b x xp : vec) (inD inA : nat -> bool),
    wf_mat n M -> length M = n -> length x = n -> length xp = n -> length b = n ->
    (forall k j, inA k = true -> inA j = false -> nth j (nth k M []) 0 == 0) ->
    (forall k j, inD j = true -> inD k = false -> nth j (nth k M []) 0 == 0) ->
    (forall k, inD k = false -> nth k b 0 == 0) ->
    vec_eq (mat_vec M x) b ->
    (forall k, (k < n)%nat -> inD k && inA k = true -> dot (nth k M []) xp == nth k b 0) ->
    (forall k, inD k && inA k = false -> nth k xp 0 == 0) ->
    left_inverse_cert L (maskA n inA M) n ->
    forall k, inA k = true -> nth k xp 0 == nth k x 0.
Proof.
  intros n L M b x xp inD inA HM HL Lx Lxp Lb HA HD Hb Hfull Hrows Hzero HC k Hk.
  apply (pruned_eq_full_cyclic n M b x xp inD inA HM HL Lx Lxp Lb HA HD Hb Hfull Hrows Hzero); auto.
  apply (A_block_injective_of_cert L M n inA HM HL HC).
Qed.

(* non-vacuity: a 2-cycle {1,2} driven by the seed 0, an unrelated source 3 feeding the response 2, and a
   side branch 4 off the cycle.  D = {0,1,2,4}, A = {0,1,2,3}.
     x0 = 1;  x1 = x0 + x2/2;  x2 = x1 + x3;  x3 = 0 (no seed);  x4 = 3 x1
   rows are  -x_k + ... = -b_k  in the sign convention of C01. *)
Definition exM : mat :=
  [[-1; 0; 0; 0; 0]; [1; -1; 1 # 2; 0; 0]; [0; 1; -1; 1; 0]; [0; 0; 0; -1; 0]; [0; 3; 0; 0; -1]].
Definition exb : vec := [-1; 0; 0; 0; 0].
Definition exD (k : nat) : bool := negb (Nat.eqb k 3).
Definition exA (k : nat) : bool := negb (Nat.eqb k 4).
Definition exx : vec := [1; 2; 2; 0; 6].
Definition exxp : vec := [1; 2; 2; 0; 0].
Definition exL : mat :=
  [[-1; 0; 0; 0; 0]; [-2; -2; -1; -1; 0]; [-2; -2; -2; -2; 0]; [0; 0; 0; -1; 0]; [0; 0; 0; 0; 1]].

Example ex_cyclic_premises :
  vec_eq (mat_vec exM exx) exb /\
  (forall k, (k < 5)%nat -> exD k && exA k = true -> dot (nth k exM []) exxp == nth k exb 0) /\
  (forall k, exD k && exA k = false -> nth k exxp 0 == 0) /\
  left_inverse_cert exL (maskA 5 exA exM) 5.
Proof.
  split; [apply vec_eqb_sound; vm_compute; reflexivity|].
  split; [|split].
  - intros k Hk HR.
    destruct k as [|[|[|[|[|k]]]]]; try lia; try (vm_compute in HR; discriminate); vm_compute; reflexivity.
  - intros k HR.
    destruct k as [|[|[|[|[|k]]]]]; try (vm_compute in HR; discriminate); try (vm_compute; reflexivity);
      simpl; destruct k; reflexivity.
  - apply left_inverse_certb_sound. vm_compute. reflexivity.
Qed.
