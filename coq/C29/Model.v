(* C29 — model of openmdao/utils/file_wrap.py (definitions only; proofs in Proofs.v).

   Generator side (InputFileGenerator): a line is cut by the regular expression [^<delimiters>\n]+ into
   maximal runs of non-delimiter characters (the fields) separated by runs of delimiters; re.sub with the
   _SubHelper callbacks replaces the k-th field (transfer_var) or a range of fields by the elements of an
   array (transfer_array, with the counter that survives from row to row, the stretch of the last line when
   the array is longer than the template, and the error when it is shorter); _getformat decides between
   "%.1f" and "%.16g".  The digits of a float are produced by Python's % operator: they are opaque text
   handed to the model (both renderings), the model only chooses.
   Parser side (FileParser): pyparsing's OneOrMore(nan | num_float | mixed_exp | num_int | string_text)
   with the delimiter characters as skipped whitespace, as a character-level lexer; the conversion of a
   float token's text to a double (float()) is external.  mark_anchor / reset_anchor as in both classes.

   Switches between the code as found and the repaired code (props/C29/fix_1.diff, fix_2.diff):
     c_special : _getformat accepts inf / nan, the parser reads inf / -inf (any of Inf, inf) with its sign;
     c_eol     : a stretched line keeps its line terminator;
     c_msign   : the parser's "3e5" form (mixed_exp: digits, exponent, no decimal point) accepts a leading sign,
                 so that "-2e-05" is one float and not the int -2 followed by the word "e-05" (fix_3.diff). *)
From Coq Require Import ZArith List Bool String Ascii.
From OMV Require Import Base.Val.
Import ListNotations.
Open Scope string_scope. Open Scope Z_scope.

Record cfg := mkcfg { c_special : bool; c_eol : bool; c_msign : bool }.
Definition cfg_fixed := mkcfg true true true.
Definition cfg_found := mkcfg false false false.

Definition nl : ascii := "010"%char.

Fixpoint mem_ascii (c : ascii) (s : string) : bool :=
  match s with
  | EmptyString => false
  | String d r => Ascii.eqb c d || mem_ascii c r
  end.

(* the generator's separators: the delimiter characters and the newline *)
Definition gsep (ds : string) (c : ascii) : bool := mem_ascii c ds || Ascii.eqb c nl.

(* ------------------------------------------------------------------ segments of a line *)

Inductive seg := Sep (s : string) | Run (s : string).

Fixpoint segs (ds : string) (s : string) : list seg :=
  match s with
  | EmptyString => []
  | String c r =>
      let b := gsep ds c in
      match segs ds r with
      | Sep t :: rest => if b then Sep (String c t) :: rest else Run (String c "") :: Sep t :: rest
      | Run t :: rest => if b then Sep (String c "") :: Run t :: rest else Run (String c t) :: rest
      | [] => [if b then Sep (String c "") else Run (String c "")]
      end
  end.

Definition seg_text (g : seg) : string := match g with Sep t => t | Run t => t end.

Fixpoint unsegs (l : list seg) : string :=
  match l with
  | [] => ""
  | g :: r => seg_text g ++ unsegs r
  end.

Fixpoint runs (l : list seg) : list string :=
  match l with
  | [] => []
  | Run t :: r => t :: runs r
  | Sep _ :: r => runs r
  end.

Fixpoint seps (l : list seg) : list string :=
  match l with
  | [] => []
  | Sep t :: r => t :: seps r
  | Run _ :: r => seps r
  end.

(* the fields of a line as the generator sees them *)
Definition fields (ds : string) (line : string) : list string := runs (segs ds line).

(* ------------------------------------------------------------------ values and _getformat *)

(* a float: finite (exact rational value given as numerator / 2^k is not needed: only whether it is an
   integer matters), with both renderings supplied by Python's % operator *)
Inductive fclass := FIntegral | FFraction | FInf | FNan.

(* str(int): decimal digits, most significant first, "-" for negatives *)
Definition digit_char (d : Z) : ascii := ascii_of_nat (48 + Z.to_nat d).

Fixpoint digs (fuel : nat) (n : Z) : string :=
  match fuel with
  | O => ""
  | S f => if n <? 10 then String (digit_char n) ""
           else digs f (n / 10) ++ String (digit_char (n mod 10)) ""
  end.

Definition print_nat (n : Z) : string := digs (S (Z.to_nat (Z.log2 n))) n.      (* n >= 0 *)

Definition print_int (z : Z) : string :=
  if z <? 0 then String "-"%char (print_nat (- z)) else print_nat z.

Inductive value :=
| VInt (z : Z)                               (* rendered by str(int) = print_int *)
| VStr (text : string)
| VFloat (k : fclass) (t1f : string) (t16g : string).   (* "%.1f" % v  and  "%.16g" % v *)

Inductive err := EOverflow | EValueErr | EIndex | ERuntime | EParse.
Definition err_code (e : err) : Z :=
  match e with EOverflow => 1 | EValueErr => 2 | EIndex => 3 | ERuntime => 4 | EParse => 5 end.

Inductive fmt := F1f | F16g.

(* _getformat: `int(val) == val` raises OverflowError on inf and ValueError on nan (code as found) *)
Definition getformat (c : cfg) (k : fclass) : err + fmt :=
  match k with
  | FIntegral => inr F1f
  | FFraction => inr F16g
  | FInf => if c_special c then inr F16g else inl EOverflow
  | FNan => if c_special c then inr F16g else inl EValueErr
  end.

(* the text _SubHelper.replace / replace_array inserts *)
Definition render (c : cfg) (v : value) : err + string :=
  match v with
  | VInt z => inr (print_int z)
  | VStr t => inr t
  | VFloat k t1 t16 => match getformat c k with
                       | inl e => inl e
                       | inr F1f => inr t1
                       | inr F16g => inr t16
                       end
  end.

(* ------------------------------------------------------------------ transfer_var *)

Fixpoint sub_segs (k : nat) (new : string) (l : list seg) (loc : nat) : list seg :=
  match l with
  | [] => []
  | Sep t :: r => Sep t :: sub_segs k new r loc
  | Run t :: r => (if Nat.eqb (S loc) k then Run new else Run t) :: sub_segs k new r (S loc)
  end.

Definition sub_field (ds : string) (k : nat) (new : string) (line : string) : string :=
  unsegs (sub_segs k new (segs ds line) 0).

(* ------------------------------------------------------------------ transfer_array *)

(* one re.sub pass with replace_array: fields start..end_ take the array elements from position cnt on *)
Definition le_end (loc : nat) (en : option nat) : bool :=
  match en with None => true | Some e => Nat.leb loc e end.    (* None: 99999 in the code *)

Fixpoint sub_array_segs (c : cfg) (st : nat) (en : option nat) (vals : list value) (l : list seg) (loc cnt : nat)
  : err + (list seg * nat) :=
  match l with
  | [] => inr ([], cnt)
  | Sep t :: r => match sub_array_segs c st en vals r loc cnt with
                  | inl e => inl e
                  | inr (r', n) => inr (Sep t :: r', n)
                  end
  | Run t :: r =>
      if Nat.leb st (S loc) && le_end (S loc) en && Nat.ltb cnt (List.length vals) then
        match nth_error vals cnt with
        | None => inl EIndex
        | Some v => match render c v with
                    | inl e => inl e
                    | inr txt => match sub_array_segs c st en vals r (S loc) (S cnt) with
                                 | inl e => inl e
                                 | inr (r', n) => inr (Run txt :: r', n)
                                 end
                    end
        end
      else match sub_array_segs c st en vals r (S loc) cnt with
           | inl e => inl e
           | inr (r', n) => inr (Run t :: r', n)
           end
  end.

(* str.rstrip(): remove trailing whitespace (space, \t, \n, \r, \v, \f) *)
Definition is_space (c : ascii) : bool :=
  match c with
  | " "%char | "009"%char | "010"%char | "011"%char | "012"%char | "013"%char => true
  | _ => false
  end.

Fixpoint rstrip (s : string) : string :=
  match s with
  | EmptyString => ""
  | String c r => match rstrip r with
                  | EmptyString => if is_space c then "" else String c ""
                  | t => String c t
                  end
  end.

Fixpoint ends_nl (s : string) : bool :=
  match s with
  | EmptyString => false
  | String c EmptyString => Ascii.eqb c nl
  | String _ r => ends_nl r
  end.

(* str(val) of an array element appended beyond the template: the harness supplies it as the VStr / VInt
   text or, for floats, as a third rendering; to keep values small the stretch text is given per element *)
Definition stretch (c : cfg) (line sep : string) (extra : list string) : string :=
  let body := fold_left (fun acc t => rstrip acc ++ sep ++ t) extra line in
  if c_eol c && ends_nl line then body ++ String nl "" else body.

(* ------------------------------------------------------------------ the file, anchors *)

Record gstate := mkg { g_data : list string; g_row : Z; g_anch : bool }.

Definition get_line (d : list string) (j : Z) : option string :=
  let n := Z.of_nat (List.length d) in
  let j' := if j <? 0 then j + n else j in
  if (0 <=? j') && (j' <? n) then nth_error d (Z.to_nat j') else None.

Fixpoint set_nth (d : list string) (i : nat) (x : string) : list string :=
  match d, i with
  | [], _ => []
  | _ :: r, O => x :: r
  | a :: r, S i' => a :: set_nth r i' x
  end.

Definition set_line (d : list string) (j : Z) (x : string) : list string :=
  let n := Z.of_nat (List.length d) in
  let j' := if j <? 0 then j + n else j in
  set_nth d (Z.to_nat j') x.

Fixpoint prefix (p s : string) : option string :=     (* s = p ++ rest *)
  match p, s with
  | EmptyString, _ => Some s
  | String a p', String b s' => if Ascii.eqb a b then prefix p' s' else None
  | _, EmptyString => None
  end.

(* position-free versions of str.find / str.split(anchor)[0] / [-1]  (anchor non-empty) *)
Fixpoint find_first (a s : string) : option (string * string) :=   (* (before, after) of the leftmost occurrence *)
  match prefix a s with
  | Some rest => Some ("", rest)
  | None => match s with
            | EmptyString => None
            | String c r => match find_first a r with
                            | Some (b, af) => Some (String c b, af)
                            | None => None
                            end
            end
  end.

Definition contains (a s : string) : bool := match find_first a s with Some _ => true | None => false end.

Fixpoint after_last (fuel : nat) (a s : string) : string :=       (* s.split(a)[-1] *)
  match fuel with
  | O => s
  | S f => match find_first a s with
           | Some (_, af) => after_last f a af
           | None => s
           end
  end.

Definition before_first (a s : string) : string :=                 (* s.split(a)[0] *)
  match find_first a s with Some (b, _) => b | None => s end.

(* forward search (occurrence > 0) from row `from`; returns the number of lines advanced *)
Fixpoint anchor_fwd (a : string) (lines : list string) (first anchored : bool) (need count : nat) : option nat :=
  match lines with
  | [] => None
  | l :: r =>
      let l' := if first && anchored then after_last (String.length l) a l else l in
      if contains a l' then
        match need with
        | S O => Some count
        | _ => anchor_fwd a r false anchored (pred need) (S count)
        end
      else anchor_fwd a r false anchored need (S count)
  end.

(* backward search (occurrence < 0) over the reversed file; returns the row found *)
Fixpoint anchor_bwd (a : string) (rlines : list string) (first anchored : bool) (need : nat) (count : Z) : option Z :=
  match rlines with
  | [] => None
  | l :: r =>
      let l' := if first && anchored then before_first a l else l in
      if contains a l' then
        match need with
        | S O => Some count
        | _ => anchor_bwd a r false anchored (pred need) (count - 1)
        end
      else anchor_bwd a r false anchored need (count - 1)
  end.

Definition mark_anchor (data : list string) (row : Z) (anch : bool) (a : string) (occ : Z) : err + (Z * bool) :=
  if occ =? 0 then inl EValueErr
  else if 0 <? occ then
    match anchor_fwd a (skipn (Z.to_nat row) data) true anch (Z.to_nat occ) 0 with
    | Some k => inr (row + Z.of_nat k, true)
    | None => inl ERuntime
    end
  else
    match anchor_bwd a (rev data) true anch (Z.to_nat (- occ)) (Z.of_nat (List.length data) - 1) with
    | Some k => inr (k, true)
    | None => inl ERuntime
    end.

(* ------------------------------------------------------------------ generator operations *)

Inductive gop :=
| GAnchor (a : string) (occ : Z)
| GReset
| GVar (v : value) (row : Z) (field : nat)
| GArray (vals : list value) (strs : list string) (row_start : Z) (field_start field_end : nat)
         (row_end : option Z) (sep : string)         (* strs: str(val) of every element, for the stretch *)
| GClear (row : Z).

Definition do_var (c : cfg) (ds : string) (g : gstate) (v : value) (row : Z) (field : nat) : err + gstate :=
  let j := g_row g + row in
  match get_line (g_data g) j with
  | None => inl EIndex
  | Some line =>
      (* the callback only renders when it reaches the field; a missing field leaves the line alone *)
      if Nat.leb 1 field && Nat.leb field (List.length (fields ds line)) then
        match render c v with
        | inl e => inl e
        | inr txt => inr (mkg (set_line (g_data g) j (sub_field ds field txt line)) (g_row g) (g_anch g))
        end
      else inr g
  end.

(* rows row_start .. row_end; a row that fails (rendering error) is left as it was but the rows before it
   stay substituted; returns the data, and the counter with the index / text of the last line processed *)
Fixpoint array_rows (c : cfg) (ds : string) (data : list string) (base : Z) (vals : list value)
         (rows : list Z) (row_end : Z) (fs fe : nat) (cnt : nat) (last : option (Z * string))
  : list string * (err + (nat * option (Z * string))) :=
  match rows with
  | [] => (data, inr (cnt, last))
  | row :: r =>
      let j := base + row in
      match get_line data j with
      | None => (data, inl EIndex)
      | Some line =>
          let en := if row =? row_end then Some fe else None in
          match sub_array_segs c fs en vals (segs ds line) 0 cnt with
          | inl e => (data, inl e)
          | inr (sg, cnt') =>
              let newline := unsegs sg in
              array_rows c ds (set_line data j newline) base vals r row_end 0 fe cnt' (Some (j, newline))
          end
      end
  end.

Definition zrange (a b : Z) : list Z := map (fun k => a + Z.of_nat k) (seq 0 (Z.to_nat (b - a + 1))).

Definition do_array (c : cfg) (ds : string) (g : gstate) (vals : list value) (strs : list string)
           (rs : Z) (fs fe : nat) (re : option Z) (sep : string) : gstate * option err :=
  let row_end := match re with Some x => x | None => rs end in
  match array_rows c ds (g_data g) (g_row g) vals (zrange rs row_end) row_end fs fe 0 None with
  | (data, inl e) => (mkg data (g_row g) (g_anch g), Some e)
  | (data, inr (cnt, last)) =>
      if Nat.ltb cnt (List.length vals) then
        match last with
        | None => (mkg data (g_row g) (g_anch g), Some ERuntime)   (* no row processed: `newline` unbound *)
        | Some (j, newline) =>
            (mkg (set_line data j (stretch c newline sep (skipn cnt strs))) (g_row g) (g_anch g), None)
        end
      else (mkg data (g_row g) (g_anch g), None)
      (* cnt > len(value) cannot happen: the callback stops at len(value) *)
  end.

Definition gstep (c : cfg) (ds : string) (g : gstate) (o : gop) : gstate * option err :=
  match o with
  | GAnchor a occ => match mark_anchor (g_data g) (g_row g) (g_anch g) a occ with
                     | inl e => (g, Some e)
                     | inr (r, b) => (mkg (g_data g) r b, None)
                     end
  | GReset => (mkg (g_data g) 0 false, None)
  | GVar v row field => match do_var c ds g v row field with
                        | inl e => (g, Some e)
                        | inr g' => (g', None)
                        end
  | GArray vals strs rs fs fe re sep => do_array c ds g vals strs rs fs fe re sep
  | GClear row => match get_line (g_data g) (g_row g + row) with
                  | None => (g, Some EIndex)
                  | Some _ => (mkg (set_line (g_data g) (g_row g + row) (String nl "")) (g_row g) (g_anch g), None)
                  end
  end.

(* every operation is attempted; a failing one is recorded *)
Fixpoint grun (c : cfg) (ds : string) (g : gstate) (ops : list gop) : gstate * list (option err) :=
  match ops with
  | [] => (g, [])
  | o :: r => let (g1, e) := gstep c ds g o in
              let (g', out) := grun c ds g1 r in (g', e :: out)
  end.

(* generate() writes the lines one after the other; FileParser.set_file reads them back with readlines() *)
Fixpoint readlines_aux (s : string) (cur : string) : list string :=
  match s with
  | EmptyString => match cur with EmptyString => [] | _ => [cur] end
  | String ch r => if Ascii.eqb ch nl then (cur ++ String nl "")%string :: readlines_aux r ""
                   else readlines_aux r (cur ++ String ch "")%string
  end.
Definition readlines (data : list string) : list string := readlines_aux (String.concat "" data) "".

(* ------------------------------------------------------------------ the parser's lexer *)

Inductive tok :=
| TInt (z : Z)
| TFloat (text : string)        (* Combine(...) text, exponent letter upper-cased by CaselessLiteral *)
| TInf (neg : bool)
| TNan
| TStr (text : string).

Definition is_digit (c : ascii) : bool :=
  let n := nat_of_ascii c in Nat.leb 48 n && Nat.leb n 57.

Fixpoint span_digits (s : string) : string * string :=
  match s with
  | EmptyString => ("", "")
  | String c r => if is_digit c then let (d, t) := span_digits r in (String c d, t) else ("", s)
  end.

Definition digits1 (s : string) : option (string * string) :=
  match span_digits s with
  | (EmptyString, _) => None
  | (d, r) => Some (d, r)
  end.

Definition opt_sign (s : string) : string * string :=
  match s with
  | String c r => if Ascii.eqb c "+"%char || Ascii.eqb c "-"%char then (String c "", r) else ("", s)
  | EmptyString => ("", "")
  end.

(* CaselessLiteral('E') | CaselessLiteral('D'): returns the literal as defined (upper case) *)
Definition exp_letter (s : string) : option (string * string) :=
  match s with
  | String c r =>
      if Ascii.eqb c "E"%char || Ascii.eqb c "e"%char then Some ("E", r)
      else if Ascii.eqb c "D"%char || Ascii.eqb c "d"%char then Some ("D", r)
      else None
  | EmptyString => None
  end.

(* Optional(ee + Optional(sign) + digits): all or nothing *)
Definition opt_exponent (s : string) : string * string :=
  match exp_letter s with
  | None => ("", s)
  | Some (e, r) => let (sg, r1) := opt_sign r in
                   match digits1 r1 with
                   | None => ("", s)
                   | Some (d, r2) => (e ++ sg ++ d, r2)
                   end
  end.

Definition dot_rest (s : string) : option string :=
  match s with
  | String c r => if Ascii.eqb c "."%char then Some r else None
  | EmptyString => None
  end.

Definition lex_float (s : string) : option (string * string) :=
  let (sg, r) := opt_sign s in
  match digits1 r with
  | Some (d, r0) =>
      match dot_rest r0 with
      | Some r1 =>
          let (d2, r2) := span_digits r1 in
          let (ex, r3) := opt_exponent r2 in
          Some (sg ++ d ++ "." ++ d2 ++ ex, r3)
      | None => None
      end
  | None => match dot_rest r with
            | Some r1 => match digits1 r1 with
                         | Some (d2, r2) => let (ex, r3) := opt_exponent r2 in
                                            Some (sg ++ "." ++ d2 ++ ex, r3)
                         | None => None
                         end
            | None => None
            end
  end.

Definition lex_mixed (c : cfg) (s : string) : option (string * string) :=
  let (sg0, s0) := if c_msign c then opt_sign s else ("", s) in
  match digits1 s0 with
  | None => None
  | Some (d, r) => match exp_letter r with
                   | None => None
                   | Some (e, r1) => let (sg, r2) := opt_sign r1 in
                                     match digits1 r2 with
                                     | None => None
                                     | Some (d2, r3) => Some (sg0 ++ d ++ e ++ sg ++ d2, r3)
                                     end
                   end
  end.

Fixpoint digits_val (s : string) (acc : Z) : Z :=
  match s with
  | EmptyString => acc
  | String c r => digits_val r (10 * acc + (Z.of_nat (nat_of_ascii c) - 48))
  end.

Definition lex_int (s : string) : option (Z * string) :=
  let (sg, r) := opt_sign s in
  match digits1 r with
  | None => None
  | Some (d, r1) => Some ((if String.eqb sg "-" then - digits_val d 0 else digits_val d 0), r1)
  end.

Fixpoint first_lit (lits : list string) (s : string) : option (string * string) :=
  match lits with
  | [] => None
  | l :: r => match prefix l s with
              | Some rest => Some (l, rest)
              | None => first_lit r s
              end
  end.

Definition inf_lits (c : cfg) : list string :=
  if c_special c then ["Inf"; "-Inf"; "inf"; "-inf"] else ["Inf"; "-Inf"].
(* oneOf puts a literal after the longer literals it is a prefix of *)
Definition nan_lits : list string :=
  ["NaN%"; "NaNQ"; "NaNS"; "NaN"; "nan"; "qNaN"; "sNaN"; "1.#SNAN"; "1.#QNAN"; "-1.#IND"].

(* Word(textchars): printables when the delimiter is white space only, else alphanums + the listed symbols
   that are not delimiters *)
Definition all_space (ds : string) : bool :=
  match ds with EmptyString => false | _ => (fix go (s : string) := match s with EmptyString => true | String c r => is_space c && go r end) ds end.

Definition is_alnum (c : ascii) : bool :=
  let n := nat_of_ascii c in
  (Nat.leb 48 n && Nat.leb n 57) || (Nat.leb 65 n && Nat.leb n 90) || (Nat.leb 97 n && Nat.leb n 122).

Definition symbols : string := "./+*^()[]=:;?%&!#|<>{}-_@$~".

Definition textchar (ds : string) (c : ascii) : bool :=
  if all_space ds then (let n := nat_of_ascii c in Nat.leb 33 n && Nat.leb n 126)
  else is_alnum c || (mem_ascii c symbols && negb (mem_ascii c ds)).

Fixpoint span_text (ds : string) (s : string) : string * string :=
  match s with
  | EmptyString => ("", "")
  | String c r => if textchar ds c then let (d, t) := span_text ds r in (String c d, t) else ("", s)
  end.

Fixpoint skip_ws (ds : string) (s : string) : string :=
  match s with
  | String c r => if mem_ascii c ds then skip_ws ds r else s
  | EmptyString => ""
  end.

Definition lex_one (c : cfg) (ds : string) (s : string) : option (tok * string) :=
  match first_lit (inf_lits c) s with
  | Some (l, r) => Some (TInf (if c_special c then (match l with String "-"%char _ => true | _ => false end) else false), r)
  | None =>
  match first_lit nan_lits s with
  | Some (_, r) => Some (TNan, r)
  | None =>
  match lex_float s with
  | Some (t, r) => Some (TFloat t, r)
  | None =>
  match lex_mixed c s with
  | Some (t, r) => Some (TFloat t, r)
  | None =>
  match lex_int s with
  | Some (z, r) => Some (TInt z, r)
  | None =>
  match span_text ds s with
  | (EmptyString, _) => None
  | (t, r) => Some (TStr t, r)
  end end end end end end.

Fixpoint lex (c : cfg) (ds : string) (fuel : nat) (s : string) : list tok :=
  match fuel with
  | O => []
  | S f => match lex_one c ds (skip_ws ds s) with
           | None => []
           | Some (t, r) => t :: lex c ds f r
           end
  end.

(* parseString(line): at least one token or ParseException *)
Definition parse_line (c : cfg) (ds : string) (line : string) : err + list tok :=
  match lex c ds (S (String.length line)) line with
  | [] => inl EParse
  | l => inr l
  end.

(* ------------------------------------------------------------------ parser operations *)

Inductive pop :=
| PAnchor (a : string) (occ : Z)
| PReset
| PVar (row : Z) (field : nat)
| PLine (row : Z).

Inductive pres := RNone | RTok (t : tok) | RText (s : string).

Definition pstep (c : cfg) (ds : string) (g : gstate) (o : pop) : err + (gstate * pres) :=
  match o with
  | PAnchor a occ => match mark_anchor (g_data g) (g_row g) (g_anch g) a occ with
                     | inl e => inl e
                     | inr (r, b) => inr (mkg (g_data g) r b, RNone)
                     end
  | PReset => inr (mkg (g_data g) 0 false, RNone)
  | PVar row field =>
      match get_line (g_data g) (g_row g + row) with
      | None => inl EIndex
      | Some line => match parse_line c ds line with
                     | inl e => inl e
                     | inr toks => match nth_error toks (field - 1) with
                                   | Some t => inr (g, RTok t)
                                   | None => inl EIndex
                                   end
                     end
      end
  | PLine row => match get_line (g_data g) (g_row g + row) with
                 | None => inl EIndex
                 | Some line => inr (g, RText (rstrip line))
                 end
  end.

Fixpoint prun (c : cfg) (ds : string) (g : gstate) (ops : list pop) : list (err + pres) :=
  match ops with
  | [] => []
  | o :: r => match pstep c ds g o with
              | inl e => inl e :: prun c ds g r
              | inr (g1, x) => inr x :: prun c ds g1 r
              end
  end.

(* ------------------------------------------------------------------ rendering for the correspondence *)

Definition v_tok (t : tok) : val :=
  match t with
  | TInt z => VZ z
  | TFloat s => VL [VS "f"; VS s]
  | TInf neg => VL [VS "inf"; VB neg]
  | TNan => VL [VS "nan"]
  | TStr s => VS s
  end.

Definition v_err (e : option err) : val := match e with None => VN | Some x => VE (err_code x) end.

Definition v_pres (r : err + pres) : val :=
  match r with
  | inl e => VE (err_code e)
  | inr RNone => VN
  | inr (RTok t) => v_tok t
  | inr (RText s) => VL [VS "t"; VS s]
  end.

(* generator ops on the template; the generated file; parser ops on it; the parse of each of its lines *)
Definition v_run (c : cfg) (ds : string) (template : list string) (gops : list gop) (pops : list pop) : val :=
  match grun c ds (mkg template 0 false) gops with
  | (g, outs) =>
      let file := readlines (g_data g) in
      VL [VL (map v_err outs);
          VL (map VS (g_data g));
          VL (map v_pres (prun c ds (mkg file 0 false) pops));
          VL (map (fun l => match parse_line c ds l with
                            | inl e => VE (err_code e)
                            | inr t => VL (map v_tok t)
                            end) file)]
  end.
