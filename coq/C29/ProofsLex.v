(* C29 — the parser's lexer on what the generator writes: printed integers and plain words come back as
   exactly one token with the same value, whatever follows them (a delimiter, the end of the line). *)
From Coq Require Import ZArith List Bool String Ascii Lia.
From OMV Require Import Base.Val C29.Model C29.Proofs.
Import ListNotations.
Open Scope string_scope. Open Scope Z_scope.
Local Arguments digit_char : simpl never.
Local Arguments nat_of_ascii : simpl never.
Local Arguments is_digit : simpl never.
Local Arguments Ascii.eqb : simpl never.
Local Arguments Z.mul : simpl never.
Local Arguments Z.pow : simpl never.

(* ------------------------------------------------------------------ characters *)

Lemma digit_ne : forall a b, is_digit b = true -> is_digit a = false -> Ascii.eqb a b = false.
Proof.
  intros a b Hb Ha. destruct (Ascii.eqb a b) eqn:E; auto.
  apply Ascii.eqb_eq in E. subst. congruence.
Qed.

Lemma mem_ascii_ne : forall c s x, mem_ascii c s = false -> mem_ascii x s = true -> Ascii.eqb x c = false.
Proof.
  intros c s x Hc Hx. destruct (Ascii.eqb x c) eqn:E; auto.
  apply Ascii.eqb_eq in E. subst. congruence.
Qed.

Lemma nondigit_ne : forall c, is_digit c = false -> forall x, is_digit x = true -> Ascii.eqb x c = false.
Proof.
  intros c Hc x Hx. destruct (Ascii.eqb x c) eqn:E; auto. apply Ascii.eqb_eq in E. subst. congruence.
Qed.

Lemma prefix_head_ne : forall a b p s, Ascii.eqb a b = false -> prefix (String a p) (String b s) = None.
Proof. intros. simpl. rewrite H. reflexivity. Qed.

Lemma str_all_app : forall p a b, str_all p (a ++ b) = str_all p a && str_all p b.
Proof. induction a as [|c a IH]; intros; simpl; auto. rewrite IH, andb_assoc. reflexivity. Qed.

Lemma app_nil_r_s : forall a : string, a ++ "" = a.
Proof. induction a; simpl; auto. rewrite IHa. reflexivity. Qed.

Lemma app_assoc_s : forall a b c : string, (a ++ b) ++ c = a ++ (b ++ c).
Proof. induction a; intros; simpl; auto. rewrite IHa. reflexivity. Qed.

(* ------------------------------------------------------------------ printing integers *)

Lemma digit_char_spec : forall d, 0 <= d < 10 ->
  is_digit (digit_char d) = true /\ Z.of_nat (nat_of_ascii (digit_char d)) - 48 = d.
Proof.
  intros d H.
  assert (K : d = 0 \/ d = 1 \/ d = 2 \/ d = 3 \/ d = 4 \/ d = 5 \/ d = 6 \/ d = 7 \/ d = 8 \/ d = 9) by lia.
  repeat (destruct K as [K | K]; [subst; split; reflexivity|]). subst; split; reflexivity.
Qed.

Lemma digits_val_app : forall a b acc, digits_val (a ++ b) acc = digits_val b (digits_val a acc).
Proof. induction a as [|c a IH]; intros; simpl; auto. Qed.

Lemma digs_spec : forall f n,
  0 <= n < 10 ^ Z.of_nat f -> (1 <= f)%nat ->
  digits_val (digs f n) 0 = n /\ str_all is_digit (digs f n) = true /\ digs f n <> "".
Proof.
  induction f as [|f IH]; intros n Hn Hf; [lia|].
  simpl digs. destruct (n <? 10) eqn:E.
  - apply Z.ltb_lt in E. destruct (digit_char_spec n ltac:(lia)) as [A B].
    cbn [digits_val str_all]. rewrite A, B. split; [lia|]. split; [reflexivity | discriminate].
  - apply Z.ltb_ge in E.
    assert (Hf1 : (1 <= f)%nat).
    { destruct f; [|lia]. change (10 ^ Z.of_nat 1) with 10 in Hn. lia. }
    assert (Hq : 0 <= n / 10 < 10 ^ Z.of_nat f).
    { rewrite Nat2Z.inj_succ, Z.pow_succ_r in Hn by lia. split; [apply Z.div_pos; lia|].
      apply Z.div_lt_upper_bound; lia. }
    destruct (IH (n / 10) Hq Hf1) as [V [D N]].
    destruct (digit_char_spec (n mod 10) ltac:(apply Z.mod_pos_bound; lia)) as [A B].
    split; [|split].
    + rewrite digits_val_app, V. cbn [digits_val]. rewrite B. pose proof (Z.div_mod n 10 ltac:(lia)). lia.
    + rewrite str_all_app, D. cbn [str_all andb]. rewrite A. reflexivity.
    + destruct (digs f (n / 10)); [contradiction | discriminate].
Qed.

Lemma print_nat_spec : forall n, 0 <= n ->
  digits_val (print_nat n) 0 = n /\ str_all is_digit (print_nat n) = true /\ print_nat n <> "".
Proof.
  intros n Hn. unfold print_nat. apply digs_spec; [|lia].
  split; auto.
  rewrite Nat2Z.inj_succ, Z2Nat.id by apply Z.log2_nonneg.
  destruct (Z.eq_dec n 0) as [->|Hz]; [reflexivity|].
  assert (P : n < 2 ^ Z.succ (Z.log2 n)) by (apply Z.log2_spec; lia).
  assert (Q : 2 ^ Z.succ (Z.log2 n) <= 10 ^ Z.succ (Z.log2 n)).
  { apply Z.pow_le_mono_l. pose proof (Z.log2_nonneg n). lia. }
  lia.
Qed.

(* ------------------------------------------------------------------ digit runs *)

Definition starts_digit (s : string) : bool := match s with String c _ => is_digit c | EmptyString => false end.

Lemma span_digits_app : forall d rest,
  str_all is_digit d = true -> starts_digit rest = false -> span_digits (d ++ rest) = (d, rest).
Proof.
  induction d as [|c d IH]; intros rest Hd Hr; simpl in *.
  - destruct rest as [|r0 r]; auto. simpl in *. rewrite Hr. reflexivity.
  - apply andb_true_iff in Hd. destruct Hd as [Hc Hd]. rewrite Hc, (IH rest Hd Hr). reflexivity.
Qed.

Lemma digits1_app : forall d rest,
  d <> "" -> str_all is_digit d = true -> starts_digit rest = false -> digits1 (d ++ rest) = Some (d, rest).
Proof.
  intros d rest Hn Hd Hr. unfold digits1. rewrite span_digits_app; auto. destruct d; [contradiction | reflexivity].
Qed.

Lemma digits1_nondigit : forall c s, is_digit c = false -> digits1 (String c s) = None.
Proof. intros. unfold digits1. simpl. rewrite H. reflexivity. Qed.

(* what may follow an integer so that it stays an integer: not a digit, not ".", not an exponent letter *)
Definition int_follow (rest : string) : bool :=
  match rest with
  | EmptyString => true
  | String c _ => negb (is_digit c) && negb (mem_ascii c ".eEdD")
  end.

Lemma int_follow_facts : forall rest, int_follow rest = true ->
  starts_digit rest = false /\ dot_rest rest = None /\ exp_letter rest = None.
Proof.
  intros [|c r] H; simpl in *; auto.
  apply andb_true_iff in H. destruct H as [H1 H2]. apply negb_true_iff in H1, H2.
  simpl in H2. repeat (apply orb_false_iff in H2; destruct H2 as [? H2]).
  split; auto. rewrite H. split; auto.
  rewrite (Ascii.eqb_sym c "E"), (Ascii.eqb_sym c "e"), (Ascii.eqb_sym c "D"), (Ascii.eqb_sym c "d") in *.
  repeat match goal with K : Ascii.eqb _ c = false |- _ => rewrite K; clear K end.
  rewrite ?(Ascii.eqb_sym "E" c), ?(Ascii.eqb_sym "e" c), ?(Ascii.eqb_sym "D" c), ?(Ascii.eqb_sym "d" c).
  repeat match goal with K : Ascii.eqb c _ = false |- _ => rewrite K; clear K end.
  reflexivity.
Qed.

(* ------------------------------------------------------------------ no literal matches a number *)

Lemma first_lit_none : forall lits s, Forall (fun l => prefix l s = None) lits -> first_lit lits s = None.
Proof.
  induction lits as [|l r IH]; intros s H; simpl; auto.
  inversion H; subst. rewrite H2. apply IH; auto.
Qed.

(* ".xyz" against the tail of a digit run followed by [rest] *)
Lemma prefix_dot_tail : forall p d rest,
  str_all is_digit d = true -> int_follow rest = true -> prefix (String "."%char p) (d ++ rest) = None.
Proof.
  intros p d rest Hd Hr. destruct d as [|c d]; simpl in *.
  - destruct rest as [|r0 r]; auto.
    destruct (int_follow_facts _ Hr) as [_ [K _]]. simpl in K.
    rewrite Ascii.eqb_sym. destruct (Ascii.eqb r0 "."); [discriminate | reflexivity].
  - apply andb_true_iff in Hd. destruct Hd as [Hc _]. rewrite (digit_ne "." c Hc eq_refl). reflexivity.
Qed.

Lemma prefix_cons : forall a b p s,
  prefix (String a p) (String b s) = if Ascii.eqb a b then prefix p s else None.
Proof. reflexivity. Qed.

Lemma prefix_one_dot : forall p c1 d1 rest,
  str_all is_digit d1 = true -> int_follow rest = true ->
  prefix (String "1"%char (String "."%char p)) (String c1 (d1 ++ rest)) = None.
Proof.
  intros. rewrite prefix_cons. destruct (Ascii.eqb "1" c1); auto. apply prefix_dot_tail; auto.
Qed.

Ltac lit_head Hc :=
  simpl prefix;
  match goal with
  | |- context [Ascii.eqb ?a ?b] => rewrite (digit_ne a b Hc eq_refl); reflexivity
  end.

Lemma lits_none_digits : forall (c : cfg) c1 d1 rest,
  is_digit c1 = true -> str_all is_digit d1 = true -> int_follow rest = true ->
  first_lit (inf_lits c) (String c1 (d1 ++ rest)) = None /\
  first_lit nan_lits (String c1 (d1 ++ rest)) = None.
Proof.
  intros c c1 d1 rest Hc Hd Hr.
  split; apply first_lit_none.
  - unfold inf_lits. destruct (c_special c); repeat constructor; lit_head Hc.
  - unfold nan_lits. repeat constructor; try (apply prefix_one_dot; assumption); lit_head Hc.
Qed.

Lemma lits_none_neg : forall (c : cfg) c1 d1 rest,
  is_digit c1 = true -> str_all is_digit d1 = true -> int_follow rest = true ->
  first_lit (inf_lits c) (String "-"%char (String c1 (d1 ++ rest))) = None /\
  first_lit nan_lits (String "-"%char (String c1 (d1 ++ rest))) = None.
Proof.
  intros c c1 d1 rest Hc Hd Hr.
  split; apply first_lit_none.
  - unfold inf_lits. destruct (c_special c); repeat constructor; try reflexivity; lit_head Hc.
  - unfold nan_lits. repeat constructor; try reflexivity.
    rewrite prefix_cons. change (Ascii.eqb "-" "-") with true. cbv iota. apply prefix_one_dot; assumption.
Qed.

(* ------------------------------------------------------------------ integers *)

(* A run of digits with an optional minus sign, followed by anything that is not a digit, a point or an
   exponent letter, is exactly one integer token with the value of the digits: every grammar variant,
   every delimiter set. *)
Theorem lex_one_digits : forall c ds (neg : bool) d rest,
  d <> "" -> str_all is_digit d = true -> int_follow rest = true ->
  lex_one c ds ((if neg then "-" else "") ++ d ++ rest) =
  Some (TInt (if neg then - digits_val d 0 else digits_val d 0), rest).
Proof.
  intros c ds neg d rest Hn Hd Hr.
  destruct (int_follow_facts _ Hr) as [Fs [Fd Fe]].
  destruct d as [|c1 d1]; [contradiction|].
  pose proof Hd as Hd'. simpl in Hd'. apply andb_true_iff in Hd'. destruct Hd' as [Hc Hd1].
  assert (ND : is_digit "-" = false) by reflexivity.
  assert (D1 : digits1 (String c1 d1 ++ rest) = Some (String c1 d1, rest)) by (apply digits1_app; auto).
  assert (OS : opt_sign (String c1 (d1 ++ rest)) = ("", String c1 (d1 ++ rest))).
  { unfold opt_sign. rewrite (Ascii.eqb_sym c1 "+"), (Ascii.eqb_sym c1 "-").
    rewrite (digit_ne "+" c1 Hc eq_refl), (digit_ne "-" c1 Hc eq_refl). reflexivity. }
  destruct neg.
  - change ("-" ++ String c1 d1 ++ rest) with (String "-"%char (String c1 (d1 ++ rest))).
    destruct (lits_none_neg c c1 d1 rest Hc Hd1 Hr) as [L1 L2].
    unfold lex_one. rewrite L1, L2.
    assert (OSn : opt_sign (String "-"%char (String c1 (d1 ++ rest))) = ("-", String c1 (d1 ++ rest))) by reflexivity.
    change (String c1 (d1 ++ rest)) with (String c1 d1 ++ rest) in *.
    unfold lex_float. rewrite OSn, D1, Fd.
    unfold lex_mixed. destruct (c_msign c).
    + rewrite OSn, D1, Fe. unfold lex_int. rewrite OSn, D1. reflexivity.
    + rewrite digits1_nondigit by exact ND. unfold lex_int. rewrite OSn, D1. reflexivity.
  - change ("" ++ String c1 d1 ++ rest) with (String c1 (d1 ++ rest)).
    destruct (lits_none_digits c c1 d1 rest Hc Hd1 Hr) as [L1 L2].
    unfold lex_one. rewrite L1, L2.
    change (String c1 (d1 ++ rest)) with (String c1 d1 ++ rest) in *.
    unfold lex_float. rewrite OS, D1, Fd.
    unfold lex_mixed. rewrite OS. destruct (c_msign c); rewrite D1, Fe; unfold lex_int; rewrite OS, D1; reflexivity.
Qed.

(* str(int) read back: for EVERY integer z, the text the generator writes for z, followed by a delimiter or
   the end of the line, lexes to the single token TInt z. *)
Theorem lex_one_print_int : forall c ds z rest,
  int_follow rest = true -> lex_one c ds (print_int z ++ rest) = Some (TInt z, rest).
Proof.
  intros c ds z rest Hr. unfold print_int. destruct (z <? 0) eqn:E.
  - apply Z.ltb_lt in E. destruct (print_nat_spec (- z) ltac:(lia)) as [V [D N]].
    pose proof (lex_one_digits c ds true (print_nat (- z)) rest N D Hr) as K.
    simpl in K. simpl. rewrite K, V. f_equal. f_equal. f_equal. lia.
  - apply Z.ltb_ge in E. destruct (print_nat_spec z E) as [V [D N]].
    pose proof (lex_one_digits c ds false (print_nat z) rest N D Hr) as K.
    simpl in K. rewrite K, V. reflexivity.
Qed.

(* ------------------------------------------------------------------ words *)

(* first character of a plain word: not a digit, a sign or a point, and not the first letter of a special literal *)
Definition word_start (c : ascii) : bool := negb (is_digit c) && negb (mem_ascii c "+-.INinqs").

Definition word_follow (ds rest : string) : bool :=
  match rest with EmptyString => true | String c _ => negb (textchar ds c) end.

Lemma span_text_app : forall ds w rest,
  str_all (textchar ds) w = true -> word_follow ds rest = true -> span_text ds (w ++ rest) = (w, rest).
Proof.
  induction w as [|c w IH]; intros rest Hw Hr; simpl in *.
  - destruct rest as [|r0 r]; auto. simpl in *. apply negb_true_iff in Hr. rewrite Hr. reflexivity.
  - apply andb_true_iff in Hw. destruct Hw as [Hc Hw]. rewrite Hc, (IH rest Hw Hr). reflexivity.
Qed.

(* A plain word is exactly one string token: every grammar variant, every delimiter set. *)
Theorem lex_one_word : forall c ds c0 w rest,
  word_start c0 = true -> str_all (textchar ds) (String c0 w) = true -> word_follow ds rest = true ->
  lex_one c ds (String c0 w ++ rest) = Some (TStr (String c0 w), rest).
Proof.
  intros c ds c0 w rest Hs Hw Hr.
  unfold word_start in Hs. apply andb_true_iff in Hs. destruct Hs as [Hd Hm].
  apply negb_true_iff in Hd, Hm.
  assert (NE : forall x, mem_ascii x "+-.INinqs" = true -> Ascii.eqb x c0 = false)
    by (intros x Hx; eapply mem_ascii_ne; eauto).
  assert (PH : forall x p, mem_ascii x "+-.INinqs" = true ->
                           prefix (String x p) (String c0 (w ++ rest)) = None)
    by (intros x p Hx; apply prefix_head_ne; apply NE; auto).
  change (String c0 w ++ rest) with (String c0 (w ++ rest)).
  assert (L1 : first_lit (inf_lits c) (String c0 (w ++ rest)) = None).
  { apply first_lit_none. unfold inf_lits. destruct (c_special c); repeat constructor; apply PH; reflexivity. }
  assert (L2 : first_lit nan_lits (String c0 (w ++ rest)) = None).
  { apply first_lit_none. unfold nan_lits. repeat constructor; try (apply PH; reflexivity);
      apply prefix_head_ne; apply (nondigit_ne c0 Hd); reflexivity. }
  assert (OS : opt_sign (String c0 (w ++ rest)) = ("", String c0 (w ++ rest))).
  { unfold opt_sign. rewrite (Ascii.eqb_sym c0 "+"), (Ascii.eqb_sym c0 "-").
    rewrite (NE "+"%char eq_refl), (NE "-"%char eq_refl). reflexivity. }
  assert (D1 : digits1 (String c0 (w ++ rest)) = None) by (apply digits1_nondigit; auto).
  assert (DR : dot_rest (String c0 (w ++ rest)) = None).
  { simpl. rewrite (Ascii.eqb_sym c0 "."), (NE "."%char eq_refl). reflexivity. }
  unfold lex_one. rewrite L1, L2.
  unfold lex_float. rewrite OS, D1, DR.
  unfold lex_mixed. rewrite OS. destruct (c_msign c); rewrite D1; unfold lex_int; rewrite OS, D1;
    change (String c0 (w ++ rest)) with (String c0 w ++ rest); rewrite (span_text_app ds (String c0 w) rest Hw Hr);
    reflexivity.
Qed.

(* ------------------------------------------------------------------ whole lines *)

(* what follows a field in a line: a delimiter, the newline, or nothing *)
Definition sep_follow (ds rest : string) : bool :=
  match rest with EmptyString => true | String c _ => gsep ds c end.

(* the text [t] is read as the single token [k] wherever it stands as a field *)
Definition reads_as (c : cfg) (ds t : string) (k : tok) : Prop :=
  forall rest, sep_follow ds rest = true -> lex_one c ds (t ++ rest) = Some (k, rest).

(* delimiter sets for which printed integers and words keep their shape: no letters, digits or "." *)
Definition ds_ok (ds : string) : bool :=
  str_all (fun x => negb (is_alnum x) && negb (Ascii.eqb x ".")) ds.

Lemma mem_str_all : forall p s x, str_all p s = true -> mem_ascii x s = true -> p x = true.
Proof.
  induction s as [|c s IH]; intros x H M; simpl in *; [discriminate|].
  apply andb_true_iff in H. destruct H as [Hc Hs].
  apply orb_true_iff in M. destruct M as [M | M]; [apply Ascii.eqb_eq in M; subst; auto | apply IH; auto].
Qed.

Lemma is_alnum_digit : forall x, is_digit x = true -> is_alnum x = true.
Proof. intros x H. unfold is_alnum. unfold is_digit in H. rewrite H. reflexivity. Qed.

Lemma gsep_shape : forall ds x, ds_ok ds = true -> gsep ds x = true ->
  is_alnum x = false /\ Ascii.eqb x "." = false.
Proof.
  intros ds x Hok Hg. unfold gsep in Hg. apply orb_true_iff in Hg. destruct Hg as [M | N].
  - pose proof (mem_str_all _ _ _ Hok M) as P. simpl in P. apply andb_true_iff in P. destruct P as [A B].
    apply negb_true_iff in A, B. auto.
  - apply Ascii.eqb_eq in N. subst. split; reflexivity.
Qed.

Lemma sep_int_follow : forall ds rest, ds_ok ds = true -> sep_follow ds rest = true -> int_follow rest = true.
Proof.
  intros ds [|x r] Hok H; simpl in *; auto.
  destruct (gsep_shape ds x Hok H) as [A B].
  assert (D : is_digit x = false).
  { destruct (is_digit x) eqn:E; auto. apply is_alnum_digit in E. congruence. }
  rewrite D. simpl. rewrite B. simpl.
  assert (L : forall y, is_alnum y = true -> Ascii.eqb x y = false).
  { intros y Hy. destruct (Ascii.eqb x y) eqn:E; auto. apply Ascii.eqb_eq in E. subst. congruence. }
  rewrite (L "e"%char eq_refl), (L "E"%char eq_refl), (L "d"%char eq_refl), (L "D"%char eq_refl). reflexivity.
Qed.

Lemma all_space_mem : forall ds x, all_space ds = true -> mem_ascii x ds = true -> is_space x = true.
Proof.
  intros ds x H M. destruct ds as [|c0 s]; [discriminate|].
  unfold all_space in H.
  assert (G : forall s, (fix go (s : string) : bool := match s with EmptyString => true | String c r => is_space c && go r end) s = true ->
                        mem_ascii x s = true -> is_space x = true).
  { induction s0 as [|c1 s1 IH]; intros H0 M0; simpl in *; [discriminate|].
    apply andb_true_iff in H0. destruct H0 as [A B].
    apply orb_true_iff in M0. destruct M0 as [M0 | M0]; [apply Ascii.eqb_eq in M0; subst; auto | apply IH; auto]. }
  apply (G (String c0 s)); auto.
Qed.

Lemma space_not_printable : forall x, is_space x = true ->
  (Nat.leb 33 (nat_of_ascii x) && Nat.leb (nat_of_ascii x) 126)%bool = false.
Proof.
  intros x H. unfold is_space in H.
  destruct x as [[] [] [] [] [] [] [] []]; try discriminate H; reflexivity.
Qed.

Lemma sep_word_follow : forall ds rest, ds_ok ds = true -> sep_follow ds rest = true -> word_follow ds rest = true.
Proof.
  intros ds [|x r] Hok H; simpl in *; auto.
  apply negb_true_iff. unfold textchar.
  destruct (gsep_shape ds x Hok H) as [A _].
  unfold gsep in H. apply orb_true_iff in H. destruct H as [M | N].
  - destruct (all_space ds) eqn:S.
    + apply space_not_printable. eapply all_space_mem; eauto.
    + rewrite A, M. simpl. rewrite andb_false_r. reflexivity.
  - apply Ascii.eqb_eq in N. subst. destruct (all_space ds); [reflexivity|].
    simpl. reflexivity.
Qed.

(* printed integers and plain words are fields that read as one token *)
Theorem int_reads : forall c ds z, ds_ok ds = true -> reads_as c ds (print_int z) (TInt z).
Proof.
  intros c ds z Hok rest Hr. apply lex_one_print_int. eapply sep_int_follow; eauto.
Qed.

Theorem word_reads : forall c ds c0 w,
  ds_ok ds = true -> word_start c0 = true -> str_all (textchar ds) (String c0 w) = true ->
  reads_as c ds (String c0 w) (TStr (String c0 w)).
Proof.
  intros c ds c0 w Hok Hs Hw rest Hr. apply lex_one_word; auto. eapply sep_word_follow; eauto.
Qed.

(* a segmented line whose fields read as the tokens ks; after a newline (which the parser does not skip)
   nothing more is read *)
Inductive reads (c : cfg) (ds : string) : list seg -> list tok -> Prop :=
| reads_nil : reads c ds [] []
| reads_sep : forall t r ks,
    str_all (fun x => mem_ascii x ds) t = true -> reads c ds r ks -> reads c ds (Sep t :: r) ks
| reads_eol : forall a b r,
    str_all (fun x => mem_ascii x ds) a = true -> mem_ascii nl ds = false ->
    reads c ds (Sep (a ++ String nl b) :: r) []
| reads_run : forall t r k ks,
    reads_as c ds t k -> reads c ds r ks -> reads c ds (Run t :: r) (k :: ks).

Lemma skip_ws_app : forall ds t u, str_all (fun x => mem_ascii x ds) t = true -> skip_ws ds (t ++ u) = skip_ws ds u.
Proof.
  induction t as [|c t IH]; intros u H; simpl in *; auto.
  apply andb_true_iff in H. destruct H as [A B]. rewrite A. apply IH; auto.
Qed.

Lemma lex_skip : forall c ds fuel s s', skip_ws ds s = skip_ws ds s' -> lex c ds fuel s = lex c ds fuel s'.
Proof. intros c ds [|f] s s' H; simpl; auto. rewrite H. reflexivity. Qed.

Lemma lex_one_nl : forall c ds r, lex_one c ds (String nl r) = None.
Proof.
  intros c ds r. unfold lex_one.
  assert (L1 : first_lit (inf_lits c) (String nl r) = None)
    by (unfold inf_lits; destruct (c_special c); reflexivity).
  assert (L2 : first_lit nan_lits (String nl r) = None) by reflexivity.
  rewrite L1, L2.
  assert (F : lex_float (String nl r) = None) by reflexivity.
  assert (M : lex_mixed c (String nl r) = None) by (unfold lex_mixed; destruct (c_msign c); reflexivity).
  assert (I : lex_int (String nl r) = None) by reflexivity.
  rewrite F, M, I.
  assert (T : textchar ds nl = false) by (unfold textchar; destruct (all_space ds); reflexivity).
  simpl span_text. rewrite T. reflexivity.
Qed.

Lemma lex_at_nl : forall c ds fuel r, mem_ascii nl ds = false -> lex c ds fuel (String nl r) = [].
Proof.
  intros c ds [|f] r H; simpl; auto. rewrite H. rewrite lex_one_nl. reflexivity.
Qed.

Lemma lex_empty : forall c ds fuel, lex c ds fuel "" = [].
Proof.
  intros c ds [|f]; simpl; auto. unfold lex_one, inf_lits, lex_mixed.
  destruct (c_special c), (c_msign c); reflexivity.
Qed.

Definition stop_tail (ds tail : string) : Prop :=
  tail = "" \/ exists r, tail = String nl r /\ mem_ascii nl ds = false.

Lemma run_head : forall ds t u,
  nonempty t = true -> str_all (fun c => negb (gsep ds c)) t = true -> skip_ws ds (t ++ u) = t ++ u.
Proof.
  intros ds [|c t] u Hn Ha; [discriminate|]. simpl in *.
  apply andb_true_iff in Ha. destruct Ha as [A _]. apply negb_true_iff in A.
  unfold gsep in A. apply orb_false_iff in A. destruct A as [A _]. rewrite A. reflexivity.
Qed.

Lemma sep_follow_next : forall ds r tail,
  canon ds r = true -> head_run r = false -> stop_tail ds tail -> sep_follow ds (unsegs r ++ tail) = true.
Proof.
  intros ds r tail Hc Hh Ht. destruct r as [|[t|t] r']; simpl in *.
  - destruct Ht as [-> | [r0 [-> _]]]; simpl; auto. unfold gsep. rewrite Ascii.eqb_refl. apply orb_true_r.
  - repeat (apply andb_true_iff in Hc; destruct Hc as [Hc ?]).
    destruct t as [|x t]; [discriminate|]. simpl in *.
    match goal with K : (gsep ds x && _)%bool = true |- _ => apply andb_true_iff in K; destruct K as [K _]; exact K end.
  - discriminate.
Qed.

(* the lexer on a canonical line: exactly the tokens of its fields, in order *)
Theorem lex_segments : forall c ds l ks tail fuel,
  canon ds l = true -> reads c ds l ks -> stop_tail ds tail -> (List.length ks < fuel)%nat ->
  lex c ds fuel (unsegs l ++ tail) = ks.
Proof.
  intros c ds l ks tail fuel Hc R. revert fuel Hc.
  induction R as [|t r ks Ht R IH|a b r Ha Hn|t r k ks Hk R IH]; intros fuel Hc Hs Hf.
  - simpl unsegs. simpl app. destruct fuel as [|f]; [simpl in Hf; lia|].
    destruct Hs as [-> | [r0 [-> Hn]]]; [apply lex_empty | apply lex_at_nl; auto].
  - simpl in Hc. repeat (apply andb_true_iff in Hc; destruct Hc as [Hc ?]).
    simpl unsegs. rewrite app_assoc_s.
    rewrite (lex_skip c ds fuel _ (unsegs r ++ tail)) by (apply skip_ws_app; auto).
    apply IH; auto.
  - simpl unsegs. rewrite !app_assoc_s.
    rewrite (lex_skip c ds fuel _ (String nl b ++ unsegs r ++ tail)) by (apply skip_ws_app; auto).
    simpl app. destruct fuel; [simpl in Hf; lia|]. apply lex_at_nl; auto.
  - simpl in Hc. repeat (apply andb_true_iff in Hc; destruct Hc as [Hc ?]).
    simpl unsegs. rewrite app_assoc_s.
    destruct fuel as [|f]; [simpl in Hf; lia|].
    simpl lex. rewrite run_head by auto.
    rewrite Hk.
    + f_equal. apply IH; auto. simpl in Hf. lia.
    + apply sep_follow_next; auto. apply negb_true_iff; auto.
Qed.

(* tokens with the k-th one replaced *)
Fixpoint replk (k : nat) (kn : tok) (ks : list tok) (loc : nat) : list tok :=
  match ks with
  | [] => []
  | t :: r => (if Nat.eqb (S loc) k then kn else t) :: replk k kn r (S loc)
  end.

Lemma reads_sub : forall c ds k new kn l ks,
  reads_as c ds new kn -> reads c ds l ks ->
  forall loc, reads c ds (sub_segs k new l loc) (replk k kn ks loc).
Proof.
  intros c ds k new kn l ks Hn R. induction R as [|t r ks Ht R IH|a b r Ha Hnl|t r k0 ks Hk R IH]; intros loc;
    cbn [sub_segs replk].
  - apply reads_nil.
  - apply reads_sep; [assumption | apply IH].
  - apply reads_eol; assumption.
  - destruct (Nat.eqb (S loc) k); apply reads_run; auto.
Qed.

Lemma replk_length : forall k kn ks loc, List.length (replk k kn ks loc) = List.length ks.
Proof. induction ks; intros; simpl; auto. Qed.

(* WRITE THEN PARSE.  For every grammar variant, delimiter set, template line whose fields read as the tokens
   ks, field number k and written text that reads as the token kn (non-empty, free of delimiters): the
   parser's token list of the generated line is ks with the k-th token replaced by kn - the written value
   comes back at its field, every other field reads as before. *)
Theorem write_then_parse : forall c ds line k new kn ks fuel,
  nonempty new = true -> str_all (fun x => negb (gsep ds x)) new = true ->
  reads_as c ds new kn -> reads c ds (segs ds line) ks -> (List.length ks < fuel)%nat ->
  lex c ds fuel (sub_field ds k new line) = replk k kn ks 0.
Proof.
  intros c ds line k new kn ks fuel Hn Ha Hr R Hf. unfold sub_field.
  rewrite <- (app_nil_r_s (unsegs _)).
  apply lex_segments.
  - apply canon_sub; auto. apply segs_canon.
  - apply reads_sub; auto.
  - left; reflexivity.
  - rewrite replk_length. auto.
Qed.

(* ... instantiated: an integer written by the generator (str(int)) is parsed back as that integer *)
Theorem write_then_parse_int : forall c ds line k z ks fuel,
  ds_ok ds = true -> mem_ascii "-" ds = false ->
  reads c ds (segs ds line) ks -> (List.length ks < fuel)%nat ->
  lex c ds fuel (sub_field ds k (print_int z) line) = replk k (TInt z) ks 0.
Proof.
  intros c ds line k z ks fuel Hok Hm R Hf.
  assert (P : nonempty (print_int z) = true /\ str_all (fun x => negb (gsep ds x)) (print_int z) = true).
  { assert (G : forall s, str_all is_digit s = true -> str_all (fun x => negb (gsep ds x)) s = true).
    { induction s as [|x s IH]; intros H; simpl in *; auto.
      apply andb_true_iff in H. destruct H as [A B]. rewrite (IH B), andb_true_r.
      destruct (gsep ds x) eqn:E; auto. destruct (gsep_shape ds x Hok E) as [K _].
      apply is_alnum_digit in A. congruence. }
    assert (M : gsep ds "-" = false).
    { unfold gsep. rewrite Hm. reflexivity. }
    unfold print_int. destruct (z <? 0) eqn:E.
    - apply Z.ltb_lt in E. destruct (print_nat_spec (- z) ltac:(lia)) as [_ [D N]].
      split; [reflexivity|]. simpl. rewrite M. simpl. apply G; auto.
    - apply Z.ltb_ge in E. destruct (print_nat_spec z E) as [_ [D N]].
      split; [destruct (print_nat z); [contradiction | reflexivity] | apply G; auto]. }
  destruct P as [P1 P2]. eapply write_then_parse; eauto. apply int_reads; auto.
Qed.

(* ... and a plain word written by the generator is parsed back as that word *)
Theorem write_then_parse_word : forall c ds line k c0 w ks fuel,
  ds_ok ds = true -> word_start c0 = true -> str_all (textchar ds) (String c0 w) = true ->
  str_all (fun x => negb (gsep ds x)) (String c0 w) = true ->
  reads c ds (segs ds line) ks -> (List.length ks < fuel)%nat ->
  lex c ds fuel (sub_field ds k (String c0 w) line) = replk k (TStr (String c0 w)) ks 0.
Proof.
  intros. eapply write_then_parse; eauto. apply word_reads; auto.
Qed.

(* non-vacuity: a template line whose fields read as tokens, and the theorem applied to it *)
Example reads_example :
  reads cfg_fixed " " (segs " " ("x 7 y" ++ String nl "")) [TStr "x"; TInt 7; TStr "y"].
Proof.
  change (segs " " ("x 7 y" ++ String nl ""))
    with [Run "x"; Sep " "; Run (print_int 7); Sep " "; Run "y"; Sep ("" ++ String nl "")].
  apply reads_run; [apply word_reads; reflexivity|].
  apply reads_sep; [reflexivity|].
  apply reads_run; [apply int_reads; reflexivity|].
  apply reads_sep; [reflexivity|].
  apply reads_run; [apply word_reads; reflexivity|].
  apply reads_eol; reflexivity.
Qed.

Example write_then_parse_example :
  lex cfg_fixed " " 10 (sub_field " " 2 (print_int (-42)) ("x 7 y" ++ String nl ""))
  = [TStr "x"; TInt (-42); TStr "y"].
Proof.
  rewrite (write_then_parse_int cfg_fixed " " _ 2 (-42) _ 10 eq_refl eq_refl reads_example) by (simpl; lia).
  reflexivity.
Qed.
