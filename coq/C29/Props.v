(* C29 — property theorems (statements only; proofs by [exact] of lemmas in Proofs.v).
   [fields ds line] are the maximal runs of non-delimiter characters of a line - what the generator's regular
   expression matches and what it numbers 1, 2, ...; [sub_field] is re.sub with _SubHelper.replace. *)
From Coq Require Import ZArith List Bool String Ascii.
From OMV Require Import Base.Val C29.Model C29.Proofs.
Import ListNotations.
Open Scope string_scope. Open Scope Z_scope.

(* Cutting a line into separators and fields loses nothing. *)
Theorem C29_segmentation_lossless : forall ds s, unsegs (segs ds s) = s.
Proof. exact unsegs_segs. Qed.
Print Assumptions C29_segmentation_lossless.

(* transfer_var, whole-line statement: for every delimiter set, line, field number and non-empty text free of
   delimiters, the new line has the text at field k, all other fields and all separators unchanged. *)
Theorem C29_sub_field_spec :
  forall ds k new line,
    nonempty new = true -> str_all (fun c => negb (gsep ds c)) new = true ->
    fields ds (sub_field ds k new line) = repl k new (fields ds line) 0 /\
    seps (segs ds (sub_field ds k new line)) = seps (segs ds line).
Proof. exact sub_field_spec. Qed.
Print Assumptions C29_sub_field_spec.

(* get after set: the written text is field k of the generated line. *)
Theorem C29_get_set_field :
  forall ds k new line,
    nonempty new = true -> str_all (fun c => negb (gsep ds c)) new = true ->
    (1 <= k <= List.length (fields ds line))%nat ->
    nth_error (fields ds (sub_field ds k new line)) (k - 1) = Some new.
Proof. exact get_set_field. Qed.
Print Assumptions C29_get_set_field.

(* frame: every other field reads as before. *)
Theorem C29_set_field_frame :
  forall ds k new line i,
    nonempty new = true -> str_all (fun c => negb (gsep ds c)) new = true ->
    S i <> k ->
    nth_error (fields ds (sub_field ds k new line)) i = nth_error (fields ds line) i.
Proof. exact set_field_frame. Qed.
Print Assumptions C29_set_field_frame.

(* a field number outside the line leaves the line untouched. *)
Theorem C29_sub_field_out_of_range :
  forall ds k new line,
    (k = 0 \/ List.length (fields ds line) < k)%nat -> sub_field ds k new line = line.
Proof. exact sub_field_out_of_range. Qed.
Print Assumptions C29_sub_field_out_of_range.

(* Repaired _getformat: every float (integral, fractional, inf, nan) has a format; every value renders. *)
Theorem C29_getformat_total : forall c k, c_special c = true -> exists f, getformat c k = inr f.
Proof. exact getformat_total. Qed.
Print Assumptions C29_getformat_total.

Theorem C29_render_total : forall c v, c_special c = true -> exists t, render c v = inr t.
Proof. exact render_total. Qed.
Print Assumptions C29_render_total.

(* As found: inf raises OverflowError, nan raises ValueError. *)
Theorem C29_getformat_found_refuted :
  getformat cfg_found FInf = inl EOverflow /\ getformat cfg_found FNan = inl EValueErr.
Proof. exact getformat_found_refuted. Qed.
Print Assumptions C29_getformat_found_refuted.

(* Repaired stretch of a line (array longer than the template): the line terminator survives. *)
Theorem C29_stretch_keeps_newline :
  forall c line sep extra,
    c_eol c = true -> ends_nl line = true -> ends_nl (stretch c line sep extra) = true.
Proof. exact stretch_keeps_newline. Qed.
Print Assumptions C29_stretch_keeps_newline.

(* A negative float whose "%.16g" text has one significant digit and an exponent ("-2e-05"): one float token in
   the repaired grammar; the int -2 and the word "e-05" (later fields shifted) in the grammar as found. *)
Theorem C29_mixed_exp_sign :
  parse_line cfg_fixed " " "x -2e-05 y" = inr [TStr "x"; TFloat "-2E-05"; TStr "y"] /\
  parse_line cfg_found " " "x -2e-05 y" = inr [TStr "x"; TInt (-2); TStr "e-05"; TStr "y"].
Proof. exact mixed_exp_sign. Qed.
Print Assumptions C29_mixed_exp_sign.

