(* C29 — property theorems (statements only; proofs by [exact] of lemmas in Proofs.v).
   [fields ds line] are the maximal runs of non-delimiter characters of a line - what the generator's regular
   expression matches and what it numbers 1, 2, ...; [sub_field] is re.sub with _SubHelper.replace. *)
From Coq Require Import ZArith List Bool String Ascii.
From OMV Require Import Base.Val C29.Model C29.Proofs C29.ProofsLex.
Import ListNotations.
Open Scope string_scope. Open Scope Z_scope.

(* Cutting a line into separators and fields loses nothing. *)
Theorem C29_segmentation_lossless : forall ds s, unsegs (segs ds s) = s.
Proof. exact unsegs_segs. Qed.
Print Assumptions C29_segmentation_lossless.

(* transfer_var, whole-line statement: for every delimiter set, line, field number and non-empty text free of
   delimiters, the new line has the text at field k, all other fields and all separators unchanged. *)
Theorem C29_sub_field_spec :
  forall ds k new line,
    nonempty new = true -> str_all (fun c => negb (gsep ds c)) new = true ->
    fields ds (sub_field ds k new line) = repl k new (fields ds line) 0 /\
    seps (segs ds (sub_field ds k new line)) = seps (segs ds line).
Proof. exact sub_field_spec. Qed.
Print Assumptions C29_sub_field_spec.

(* get after set: the written text is field k of the generated line. *)
Theorem C29_get_set_field :
  forall ds k new line,
    nonempty new = true -> str_all (fun c => negb (gsep ds c)) new = true ->
    (1 <= k <= List.length (fields ds line))%nat ->
    nth_error (fields ds (sub_field ds k new line)) (k - 1) = Some new.
Proof. exact get_set_field. Qed.
Print Assumptions C29_get_set_field.

(* frame: every other field reads as before. *)
Theorem C29_set_field_frame :
  forall ds k new line i,
    nonempty new = true -> str_all (fun c => negb (gsep ds c)) new = true ->
    S i <> k ->
    nth_error (fields ds (sub_field ds k new line)) i = nth_error (fields ds line) i.
Proof. exact set_field_frame. Qed.
Print Assumptions C29_set_field_frame.

(* a field number outside the line leaves the line untouched. *)
Theorem C29_sub_field_out_of_range :
  forall ds k new line,
    (k = 0 \/ List.length (fields ds line) < k)%nat -> sub_field ds k new line = line.
Proof. exact sub_field_out_of_range. Qed.
Print Assumptions C29_sub_field_out_of_range.

(* Repaired _getformat: every float (integral, fractional, inf, nan) has a format; every value renders. *)
Theorem C29_getformat_total : forall c k, c_special c = true -> exists f, getformat c k = inr f.
Proof. exact getformat_total. Qed.
Print Assumptions C29_getformat_total.

Theorem C29_render_total : forall c v, c_special c = true -> exists t, render c v = inr t.
Proof. exact render_total. Qed.
Print Assumptions C29_render_total.

(* As found: inf raises OverflowError, nan raises ValueError. *)
Theorem C29_getformat_found_refuted :
  getformat cfg_found FInf = inl EOverflow /\ getformat cfg_found FNan = inl EValueErr.
Proof. exact getformat_found_refuted. Qed.
Print Assumptions C29_getformat_found_refuted.

(* Repaired stretch of a line (array longer than the template): the line terminator survives. *)
Theorem C29_stretch_keeps_newline :
  forall c line sep extra,
    c_eol c = true -> ends_nl line = true -> ends_nl (stretch c line sep extra) = true.
Proof. exact stretch_keeps_newline. Qed.
Print Assumptions C29_stretch_keeps_newline.

(* A negative float whose "%.16g" text has one significant digit and an exponent ("-2e-05"): one float token in
   the repaired grammar; the int -2 and the word "e-05" (later fields shifted) in the grammar as found. *)
Theorem C29_mixed_exp_sign :
  parse_line cfg_fixed " " "x -2e-05 y" = inr [TStr "x"; TFloat "-2E-05"; TStr "y"] /\
  parse_line cfg_found " " "x -2e-05 y" = inr [TStr "x"; TInt (-2); TStr "e-05"; TStr "y"].
Proof. exact mixed_exp_sign. Qed.
Print Assumptions C29_mixed_exp_sign.

(* ---- the parser's lexer on what the generator writes (ProofsLex.v) ---- *)

(* str(int) is modelled by print_int (compared with Python's text on every run); its digits are the number. *)
Theorem C29_print_nat_spec :
  forall n, 0 <= n ->
    digits_val (print_nat n) 0 = n /\ str_all is_digit (print_nat n) = true /\ print_nat n <> "".
Proof. exact print_nat_spec. Qed.
Print Assumptions C29_print_nat_spec.

(* A digit run with an optional minus sign, followed by anything that is not a digit, "." or an exponent letter,
   is one integer token: every grammar variant (as found / repaired), every delimiter set, every digit string. *)
Theorem C29_lex_one_digits :
  forall c ds (neg : bool) d rest,
    d <> "" -> str_all is_digit d = true -> int_follow rest = true ->
    lex_one c ds ((if neg then "-" else "") ++ d ++ rest) =
    Some (TInt (if neg then - digits_val d 0 else digits_val d 0), rest).
Proof. exact lex_one_digits. Qed.
Print Assumptions C29_lex_one_digits.

(* For EVERY integer z: the text written for z lexes back to the single token TInt z. *)
Theorem C29_lex_one_print_int :
  forall c ds z rest, int_follow rest = true -> lex_one c ds (print_int z ++ rest) = Some (TInt z, rest).
Proof. exact lex_one_print_int. Qed.
Print Assumptions C29_lex_one_print_int.

(* Every plain word (first character not a digit, sign, point or the initial of a special literal; all characters
   word characters of the delimiter set) lexes to the single string token with that text. *)
Theorem C29_lex_one_word :
  forall c ds c0 w rest,
    word_start c0 = true -> str_all (textchar ds) (String c0 w) = true -> word_follow ds rest = true ->
    lex_one c ds (String c0 w ++ rest) = Some (TStr (String c0 w), rest).
Proof. exact lex_one_word. Qed.
Print Assumptions C29_lex_one_word.

(* The lexer on a whole canonical line: exactly the tokens of its fields, in order (nothing after a newline). *)
Theorem C29_lex_segments :
  forall c ds l ks tail fuel,
    canon ds l = true -> reads c ds l ks -> stop_tail ds tail -> (List.length ks < fuel)%nat ->
    lex c ds fuel (unsegs l ++ tail) = ks.
Proof. exact lex_segments. Qed.
Print Assumptions C29_lex_segments.

(* WRITE THEN PARSE: generator and parser composed.  For every grammar variant, delimiter set, template line whose
   fields read as the tokens ks, field number k and written text that reads as kn: the parser's tokens of the
   generated line are ks with the k-th replaced by kn. *)
Theorem C29_write_then_parse :
  forall c ds line k new kn ks fuel,
    nonempty new = true -> str_all (fun x => negb (gsep ds x)) new = true ->
    reads_as c ds new kn -> reads c ds (segs ds line) ks -> (List.length ks < fuel)%nat ->
    lex c ds fuel (sub_field ds k new line) = replk k kn ks 0.
Proof. exact write_then_parse. Qed.
Print Assumptions C29_write_then_parse.

(* ... for every integer (delimiters without letters, digits, "." and "-") ... *)
Theorem C29_write_then_parse_int :
  forall c ds line k z ks fuel,
    ds_ok ds = true -> mem_ascii "-" ds = false ->
    reads c ds (segs ds line) ks -> (List.length ks < fuel)%nat ->
    lex c ds fuel (sub_field ds k (print_int z) line) = replk k (TInt z) ks 0.
Proof. exact write_then_parse_int. Qed.
Print Assumptions C29_write_then_parse_int.

(* ... and for every plain word. *)
Theorem C29_write_then_parse_word :
  forall c ds line k c0 w ks fuel,
    ds_ok ds = true -> word_start c0 = true -> str_all (textchar ds) (String c0 w) = true ->
    str_all (fun x => negb (gsep ds x)) (String c0 w) = true ->
    reads c ds (segs ds line) ks -> (List.length ks < fuel)%nat ->
    lex c ds fuel (sub_field ds k (String c0 w) line) = replk k (TStr (String c0 w)) ks 0.
Proof. exact write_then_parse_word. Qed.
Print Assumptions C29_write_then_parse_word.

