(* C29 — proofs: field substitution is a get/set pair with a frame; _getformat is total (repaired). *)
From Coq Require Import ZArith List Bool String Ascii Lia.
From OMV Require Import Base.Val C29.Model.
Import ListNotations.
Open Scope string_scope. Open Scope Z_scope.
Local Arguments Nat.eqb : simpl never.

(* ------------------------------------------------------------------ segmentation is lossless *)

Lemma unsegs_segs : forall ds s, unsegs (segs ds s) = s.
Proof.
  intros ds. induction s as [|c r IH]; simpl; auto.
  destruct (segs ds r) as [|[t|t] rest] eqn:E; simpl in *; destruct (gsep ds c); simpl; rewrite <- IH; reflexivity.
Qed.

Fixpoint str_all (p : ascii -> bool) (s : string) : bool :=
  match s with
  | EmptyString => true
  | String c r => p c && str_all p r
  end.

Definition nonempty (s : string) : bool := match s with EmptyString => false | _ => true end.
Definition head_sep (l : list seg) : bool := match l with Sep _ :: _ => true | _ => false end.
Definition head_run (l : list seg) : bool := match l with Run _ :: _ => true | _ => false end.

(* alternating, non-empty, separators made of separators and fields free of them *)
Fixpoint canon (ds : string) (l : list seg) : bool :=
  match l with
  | [] => true
  | Sep t :: r => nonempty t && str_all (gsep ds) t && negb (head_sep r) && canon ds r
  | Run t :: r => nonempty t && str_all (fun c => negb (gsep ds c)) t && negb (head_run r) && canon ds r
  end.

Lemma segs_canon : forall ds s, canon ds (segs ds s) = true.
Proof.
  intros ds. induction s as [|c r IH]; simpl; auto.
  destruct (segs ds r) as [|[t|t] rest] eqn:E; destruct (gsep ds c) eqn:G; simpl in *; rewrite ?G; simpl; auto;
    repeat (apply andb_true_iff in IH; destruct IH as [IH ?]);
    repeat (apply andb_true_iff; split); auto.
Qed.

Lemma segs_prepend_sep' : forall ds t u,
  str_all (gsep ds) t = true -> head_sep (segs ds u) = false ->
  segs ds (t ++ u) = match t with EmptyString => segs ds u | _ => Sep t :: segs ds u end.
Proof.
  intros ds. induction t as [|c t IH]; intros u Ha Hh; [reflexivity|].
  simpl in Ha. apply andb_true_iff in Ha. destruct Ha as [Hc Ha].
  simpl. rewrite (IH u Ha Hh), Hc.
  destruct t; [|reflexivity].
  destruct (segs ds u) as [|[x|x] rest]; simpl in *; auto. discriminate.
Qed.

Lemma segs_prepend_sep : forall ds t u,
  nonempty t = true -> str_all (gsep ds) t = true -> head_sep (segs ds u) = false ->
  segs ds (t ++ u) = Sep t :: segs ds u.
Proof.
  intros ds t u Hn Ha Hh. rewrite segs_prepend_sep'; auto. destruct t; [discriminate | reflexivity].
Qed.

Lemma segs_prepend_run' : forall ds t u,
  str_all (fun c => negb (gsep ds c)) t = true -> head_run (segs ds u) = false ->
  segs ds (t ++ u) = match t with EmptyString => segs ds u | _ => Run t :: segs ds u end.
Proof.
  intros ds. induction t as [|c t IH]; intros u Ha Hh; [reflexivity|].
  simpl in Ha. apply andb_true_iff in Ha. destruct Ha as [Hc Ha]. apply negb_true_iff in Hc.
  simpl. rewrite (IH u Ha Hh), Hc.
  destruct t; [|reflexivity].
  destruct (segs ds u) as [|[x|x] rest]; simpl in *; auto. discriminate.
Qed.

Lemma segs_prepend_run : forall ds t u,
  nonempty t = true -> str_all (fun c => negb (gsep ds c)) t = true -> head_run (segs ds u) = false ->
  segs ds (t ++ u) = Run t :: segs ds u.
Proof.
  intros ds t u Hn Ha Hh. rewrite segs_prepend_run'; auto. destruct t; [discriminate | reflexivity].
Qed.

(* a canonical segment list is the segmentation of its own text *)
Lemma segs_unsegs : forall ds l, canon ds l = true -> segs ds (unsegs l) = l.
Proof.
  intros ds. induction l as [|g r IH]; intros H; simpl; auto.
  destruct g as [t|t]; simpl in H;
    repeat (apply andb_true_iff in H; destruct H as [H ?]);
    match goal with K : canon ds r = true |- _ => specialize (IH K) end.
  - simpl. rewrite segs_prepend_sep; auto; rewrite IH; auto. apply negb_true_iff; auto.
  - simpl. rewrite segs_prepend_run; auto; rewrite IH; auto. apply negb_true_iff; auto.
Qed.

(* ------------------------------------------------------------------ transfer_var: get / set / frame *)

Fixpoint repl (k : nat) (new : string) (rs : list string) (loc : nat) : list string :=
  match rs with
  | [] => []
  | t :: r => (if Nat.eqb (S loc) k then new else t) :: repl k new r (S loc)
  end.

Lemma runs_sub : forall k new l loc, runs (sub_segs k new l loc) = repl k new (runs l) loc.
Proof.
  induction l as [|[t|t] r IH]; intros loc; simpl; auto.
  destruct (Nat.eqb (S loc) k); simpl; rewrite IH; reflexivity.
Qed.

Lemma seps_sub : forall k new l loc, seps (sub_segs k new l loc) = seps l.
Proof.
  induction l as [|[t|t] r IH]; intros loc; simpl; auto.
  - rewrite IH. reflexivity.
  - destruct (Nat.eqb (S loc) k); simpl; auto.
Qed.

Lemma head_sub : forall k new l loc,
  head_sep (sub_segs k new l loc) = head_sep l /\ head_run (sub_segs k new l loc) = head_run l.
Proof.
  destruct l as [|[t|t] r]; intros; simpl; auto. destruct (Nat.eqb (S loc) k); auto.
Qed.

Lemma canon_sub : forall ds k new l loc,
  nonempty new = true -> str_all (fun c => negb (gsep ds c)) new = true ->
  canon ds l = true -> canon ds (sub_segs k new l loc) = true.
Proof.
  intros ds k new. induction l as [|[t|t] r IH]; intros loc Hn Ha H; simpl; auto; simpl in H;
    repeat (apply andb_true_iff in H; destruct H as [H ?]).
  - repeat (apply andb_true_iff; split); auto.
    destruct (head_sub k new r loc) as [E _]. rewrite E. auto.
  - destruct (head_sub k new r (S loc)) as [_ E].
    destruct (Nat.eqb (S loc) k); simpl; repeat (apply andb_true_iff; split); auto; rewrite E; auto.
Qed.

(* The generated line, cut into fields again, has the new text at field k, every other field as before,
   and exactly the separators it had: for every delimiter set, line, field number and new text that is
   non-empty and contains no delimiter (or newline). *)
Theorem sub_field_spec : forall ds k new line,
  nonempty new = true -> str_all (fun c => negb (gsep ds c)) new = true ->
  fields ds (sub_field ds k new line) = repl k new (fields ds line) 0 /\
  seps (segs ds (sub_field ds k new line)) = seps (segs ds line).
Proof.
  intros ds k new line Hn Ha. unfold fields, sub_field.
  rewrite segs_unsegs by (apply canon_sub; auto; apply segs_canon).
  split; [apply runs_sub | apply seps_sub].
Qed.

Lemma repl_nth : forall k new rs loc i,
  nth_error (repl k new rs loc) i =
  match nth_error rs i with
  | None => None
  | Some t => Some (if Nat.eqb (S (loc + i)) k then new else t)
  end.
Proof.
  induction rs as [|t r IH]; intros loc i; destruct i; simpl; auto.
  - rewrite Nat.add_0_r. reflexivity.
  - rewrite IH. replace (S loc + i)%nat with (loc + S i)%nat by lia. reflexivity.
Qed.

(* get after set *)
Theorem get_set_field : forall ds k new line,
  nonempty new = true -> str_all (fun c => negb (gsep ds c)) new = true ->
  (1 <= k <= List.length (fields ds line))%nat ->
  nth_error (fields ds (sub_field ds k new line)) (k - 1) = Some new.
Proof.
  intros ds k new line Hn Ha Hk.
  destruct (sub_field_spec ds k new line Hn Ha) as [E _]. rewrite E, repl_nth.
  destruct (nth_error (fields ds line) (k - 1)) eqn:N.
  - replace (S (0 + (k - 1)))%nat with k by lia. rewrite Nat.eqb_refl. reflexivity.
  - apply nth_error_None in N. lia.
Qed.

(* frame: the other fields, and the number of fields *)
Theorem set_field_frame : forall ds k new line i,
  nonempty new = true -> str_all (fun c => negb (gsep ds c)) new = true ->
  S i <> k ->
  nth_error (fields ds (sub_field ds k new line)) i = nth_error (fields ds line) i.
Proof.
  intros ds k new line i Hn Ha Hi.
  destruct (sub_field_spec ds k new line Hn Ha) as [E _]. rewrite E, repl_nth.
  destruct (nth_error (fields ds line) i); auto.
  simpl. destruct (Nat.eqb (S i) k) eqn:K; auto. apply Nat.eqb_eq in K. contradiction.
Qed.

(* a field number beyond the line (or 0) changes nothing at all *)
Theorem sub_field_out_of_range : forall ds k new line,
  (k = 0 \/ List.length (fields ds line) < k)%nat -> sub_field ds k new line = line.
Proof.
  intros ds k new line Hk. unfold sub_field, fields in *.
  assert (G : forall l loc, (k <= loc \/ loc + List.length (runs l) < k)%nat -> sub_segs k new l loc = l).
  { induction l as [|[t|t] r IH]; intros loc H; simpl in *; auto.
    - rewrite IH; auto.
    - destruct (Nat.eqb (S loc) k) eqn:K; [apply Nat.eqb_eq in K; lia|]. rewrite IH; auto. lia. }
  rewrite G; [apply unsegs_segs|]. lia.
Qed.

(* ------------------------------------------------------------------ _getformat *)

(* repaired: every class of float has a format, so every value can be rendered *)
Theorem getformat_total : forall c k, c_special c = true -> exists f, getformat c k = inr f.
Proof. intros c k H. destruct k; simpl; rewrite ?H; eauto. Qed.

Theorem render_total : forall c v, c_special c = true -> exists t, render c v = inr t.
Proof.
  intros c v H. destruct v as [t|t|k t1 t16]; simpl; eauto.
  destruct (getformat_total c k H) as [f E]. rewrite E. destruct f; eauto.
Qed.

(* as found: inf raises OverflowError, nan ValueError *)
Theorem getformat_found_refuted :
  getformat cfg_found FInf = inl EOverflow /\ getformat cfg_found FNan = inl EValueErr.
Proof. split; reflexivity. Qed.

(* ------------------------------------------------------------------ the stretched line keeps its terminator *)

Lemma ends_nl_app : forall a, ends_nl (a ++ String nl "") = true.
Proof.
  induction a as [|c r IH]; simpl; auto.
  destruct (r ++ String nl "") eqn:E; auto. destruct r; discriminate.
Qed.

Theorem stretch_keeps_newline : forall c line sep extra,
  c_eol c = true -> ends_nl line = true -> ends_nl (stretch c line sep extra) = true.
Proof.
  intros c line sep extra Hc Hl. unfold stretch. rewrite Hc, Hl. simpl. apply ends_nl_app.
Qed.

Example stretch_found_refuted :
  ends_nl (stretch cfg_found ("a 1 2" ++ String nl "") ", " ["3"]) = false.
Proof. reflexivity. Qed.

(* non-vacuity / sanity of the whole pipeline on the repaired model: inf written, read back as inf *)
Example roundtrip_example :
  v_run cfg_fixed " " ["x 0.0 y" ++ String nl ""]
        [GVar (VFloat FInf "inf" "-inf") 0 2] [PVar 0 2]
  = VL [VL [VN]; VL [VS ("x -inf y" ++ String nl "")]; VL [VL [VS "inf"; VB true]];
        VL [VL [VS "x"; VL [VS "inf"; VB true]; VS "y"]]].
Proof. vm_compute. reflexivity. Qed.

(* the "3e5" form with a leading sign: one float in the repaired grammar; as found, the int -2 and a word,
   which also shifts every later field of the line *)
Theorem mixed_exp_sign :
  parse_line cfg_fixed " " "x -2e-05 y" = inr [TStr "x"; TFloat "-2E-05"; TStr "y"] /\
  parse_line cfg_found " " "x -2e-05 y" = inr [TStr "x"; TInt (-2); TStr "e-05"; TStr "y"].
Proof. split; vm_compute; reflexivity. Qed.

