(* C08 — solver scaling (ref / ref0 / res_ref): executable model of the scale factors
   (Group._compute_root_scale_factors, DefaultVector._initialize_scaling), of the vector maps
   scale_to_norm / scale_to_phys (DefaultVector._scale_forward/_scale_reverse) and of the scaled block
   linear system D_r^-1 M D_u that the solvers see inside _scaled_context_all.  Definitions only. *)
From Coq Require Import ZArith QArith List Bool.
Import ListNotations.
From OMV Require Import Base.Val C01.Model.
Open Scope Q_scope.

(* ---------------------------------------------------------------- vector maps *)

(* _scale_forward: data -= adder; data /= scaler        (physical -> normalized) *)
Fixpoint to_norm (a0 a1 x : vec) : vec :=
  match a0, a1, x with
  | p :: a0', s :: a1', v :: x' => ((v - p) / s) :: to_norm a0' a1' x'
  | _, _, _ => []
  end.
(* _scale_reverse: data *= scaler; data += adder         (normalized -> physical) *)
Fixpoint to_phys (a0 a1 y : vec) : vec :=
  match a0, a1, y with
  | p :: a0', s :: a1', v :: y' => (v * s + p) :: to_phys a0' a1' y'
  | _, _, _ => []
  end.
(* linear vectors have no adder *)
Fixpoint lin_to_norm (a1 x : vec) : vec :=
  match a1, x with s :: a1', v :: x' => (v / s) :: lin_to_norm a1' x' | _, _ => [] end.
Fixpoint lin_to_phys (a1 y : vec) : vec :=
  match a1, y with s :: a1', v :: y' => (v * s) :: lin_to_phys a1' y' | _, _ => [] end.

(* ---------------------------------------------------------------- scale factors *)

(* per output variable: ref0, ref, res_ref, entrywise (scalars already broadcast) *)
Record oscal := mkoscal { os_ref0 : vec; os_ref : vec; os_res : option vec; os_explicit : bool;
                          os_ref_decl : vec }.

(* ExplicitComponent.add_output (also IndepVarComp) stores res_ref = ref when res_ref is not given — the ref
   of the add_output call itself (os_ref_decl), which a later set_output_solver_options(ref=...) does not
   update; ImplicitComponent: no residual scaling unless res_ref is given.  os_ref0 / os_ref / os_res are the
   effective values (add_output arguments overridden by set_output_solver_options). *)
Definition res_scale (s : oscal) : vec :=
  match os_res s with
  | Some r => r
  | None => if os_explicit s then os_ref_decl s else map (fun _ => 1) (os_ref s)
  end.

(* output vectors: a0 = ref0, a1 = ref - ref0; residual vectors: 0, res_ref *)
Definition out_a0 (s : oscal) : vec := os_ref0 s.
Definition out_a1 (s : oscal) : vec := map (fun p => fst p - snd p) (combine (os_ref s) (os_ref0 s)).

(* connected input, nonlinear vector: scale0 = (a0 + offset) * factor, scale1 = a1 * factor, with a0/a1 of the
   source gathered through src_indices; linear input vector: scale1 = factor / a1 *)
Definition gather (idx : list nat) (v : vec) : vec := map (fun i => nth i v 0) idx.
Definition in_scale0 (s : oscal) (idx : list nat) (factor offset : Q) : vec :=
  map (fun a0 => (a0 + offset) * factor) (gather idx (out_a0 s)).
Definition in_scale1 (s : oscal) (idx : list nat) (factor : Q) : vec :=
  map (fun a1 => a1 * factor) (gather idx (out_a1 s)).
Definition in_lin_scale1 (s : oscal) (idx : list nat) (factor : Q) : vec :=
  map (fun a1 => factor / a1) (gather idx (out_a1 s)).

(* all root scaling arrays of a spec: outputs (scaler, adder), residuals (scaler), nonlinear inputs
   (scaler, adder), linear inputs (scaler) *)
Definition comp_ins (c : comp) : list inp :=
  match c with CIvc _ => [] | CExp ins _ => ins | CImp ins _ => ins end.

Definition scaling_arrays (s : spec) (sc : list oscal) : val :=
  let dflt := mkoscal [] [] None true [] in
  let ins := flat_map comp_ins s in
  VL [ vqs (flat_map out_a1 sc); vqs (flat_map out_a0 sc); vqs (flat_map res_scale sc);
       vqs (flat_map (fun i => in_scale1 (nth (in_src i) sc dflt) (in_idx i) (in_fac i)) ins);
       vqs (flat_map (fun i => in_scale0 (nth (in_src i) sc dflt) (in_idx i) (in_fac i) 0) ins);
       vqs (flat_map (fun i => in_lin_scale1 (nth (in_src i) sc dflt) (in_idx i) (in_fac i)) ins) ].

(* ---------------------------------------------------------------- the scaled linear system *)

(* Ms[i][j] = M[i][j] * du[j] / dr[i],  bs[i] = b[i] / dr[i] *)
Fixpoint scale_cols (du row : vec) : vec :=
  match du, row with d :: du', m :: row' => (m * d) :: scale_cols du' row' | _, _ => [] end.
Fixpoint scale_sys (dr du : vec) (M : mat) : mat :=
  match dr, M with
  | r :: dr', row :: M' => map (fun m => m / r) (scale_cols du row) :: scale_sys dr' du M'
  | _, _ => []
  end.

(* what the correspondence compares: the scaling arrays and the (scaling-independent) physical results *)
Definition run_scaled (s : spec) (sc : list oscal) (dvs rs : list voi) : val :=
  VL [scaling_arrays s sc; run_totals s dvs rs].
