(* C08 — property theorems (statements only; proofs by [exact] of lemmas in Proofs.v). *)
From Coq Require Import ZArith QArith List.
From OMV Require Import Base.Val C01.Model C01.Proofs C08.Model C08.Proofs.
Import ListNotations.
Open Scope Q_scope.

(* scale_to_phys (scale_to_norm x) = x for every vector and all scale factors with a1 = ref - ref0 <> 0
   (positive or negative), and the other way round; same for the linear vectors (no adder). *)
Theorem C08_scale_roundtrip :
  forall a0 a1 x, length a0 = length x -> length a1 = length x -> nonzero a1 ->
    vec_eq (to_phys a0 a1 (to_norm a0 a1 x)) x.
Proof. exact to_phys_to_norm. Qed.
Print Assumptions C08_scale_roundtrip.

Theorem C08_scale_roundtrip_norm :
  forall a0 a1 y, length a0 = length y -> length a1 = length y -> nonzero a1 ->
    vec_eq (to_norm a0 a1 (to_phys a0 a1 y)) y.
Proof. exact to_norm_to_phys. Qed.
Print Assumptions C08_scale_roundtrip_norm.

Theorem C08_linear_roundtrip :
  forall a1 x, length a1 = length x -> nonzero a1 -> vec_eq (lin_to_phys a1 (lin_to_norm a1 x)) x.
Proof. exact lin_to_phys_to_norm. Qed.
Print Assumptions C08_linear_roundtrip.

Theorem C08_scaled_residual_same_zero :
  forall r s : Q, ~ s == 0 -> (r / s == 0 <-> r == 0).
Proof. exact scaled_residual_same_zero. Qed.
Print Assumptions C08_scaled_residual_same_zero.

Theorem C08_input_scaling_is_unit_conversion :
  forall a0 a1 factor offset norm : Q,
    (a0 + offset) * factor + (a1 * factor) * norm == ((a0 + a1 * norm) + offset) * factor.
Proof. exact input_scaling_is_unit_conversion. Qed.
Print Assumptions C08_input_scaling_is_unit_conversion.

(* D_r^-1 M D_u algebra, every matrix, every size, every nonzero (also negative) res_ref: a solution of the
   scaled system mapped back to physical solves the unscaled system ... *)
Theorem C08_scaled_system_sound :
  forall (M : mat) (dr du xs b : vec),
    length dr = length M -> length b = length M -> nonzero dr ->
    vec_eq (mat_vec (scale_sys dr du M) xs) (lin_to_norm dr b) ->
    vec_eq (mat_vec M (lin_to_phys du xs)) b.
Proof. exact scaled_system_sound. Qed.
Print Assumptions C08_scaled_system_sound.

(* ... the normalized physical solution solves the scaled system ... *)
Theorem C08_scaled_system_complete :
  forall (M : mat) (dr du x b : vec),
    length dr = length M -> length b = length M -> length du = length x -> nonzero du ->
    vec_eq (mat_vec M x) b ->
    vec_eq (mat_vec (scale_sys dr du M) (lin_to_norm du x)) (lin_to_norm dr b).
Proof. exact scaled_system_complete. Qed.
Print Assumptions C08_scaled_system_complete.

(* ... and with a certified left inverse of M the mapped-back scaled solution IS the unscaled solution. *)
Theorem C08_scaled_solution_is_unscaled_solution :
  forall (L M : mat) (n : nat) (dr du xs x b : vec),
    wf_mat n M -> length M = n -> left_inverse_cert L M n ->
    length dr = n -> length du = n -> length xs = n -> length x = n -> length b = n ->
    nonzero dr ->
    vec_eq (mat_vec M x) b ->
    vec_eq (mat_vec (scale_sys dr du M) xs) (lin_to_norm dr b) ->
    forall i, nth i (lin_to_phys du xs) 0 == nth i x 0.
Proof. exact scaled_solution_is_unscaled_solution. Qed.
Print Assumptions C08_scaled_solution_is_unscaled_solution.

(* Hence total derivatives do not depend on ref / ref0 / res_ref. *)
Theorem C08_totals_scale_invariant :
  forall (L N M : mat) (n p : nat) (dr du xs x : vec),
    wf_mat n M -> length M = n -> left_inverse_cert L M n ->
    length dr = n -> length du = n -> length xs = n -> nonzero dr ->
    solve_with N M (unit_at n p (-1)) = Some x ->
    vec_eq (mat_vec (scale_sys dr du M) xs) (lin_to_norm dr (unit_at n p (-1))) ->
    forall q, nth q (lin_to_phys du xs) 0 == nth q x 0.
Proof. exact totals_scale_invariant. Qed.
Print Assumptions C08_totals_scale_invariant.
