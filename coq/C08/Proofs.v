(* C08 — proofs: solver scaling is an invertible change of coordinates that does not move the solution. *)
From Coq Require Import ZArith QArith List Bool Lia Setoid Morphisms.
From OMV Require Import Base.Val C01.Model C01.Proofs C08.Model.
Import ListNotations.
Open Scope Q_scope.

Definition nonzero (v : vec) : Prop := Forall (fun s => ~ s == 0) v.

(* ---------------------------------------------------------------- round trips *)

Theorem to_phys_to_norm : forall a0 a1 x,
  length a0 = length x -> length a1 = length x -> nonzero a1 ->
  vec_eq (to_phys a0 a1 (to_norm a0 a1 x)) x.
Proof.
  induction a0 as [|p a0 IH]; intros a1 x H0 H1 Hz; destruct a1 as [|s a1]; destruct x as [|v x];
    simpl in *; try discriminate; try constructor.
  - inversion Hz; subst. field. auto.
  - inversion Hz; subst. apply IH; auto.
Qed.

Theorem to_norm_to_phys : forall a0 a1 y,
  length a0 = length y -> length a1 = length y -> nonzero a1 ->
  vec_eq (to_norm a0 a1 (to_phys a0 a1 y)) y.
Proof.
  induction a0 as [|p a0 IH]; intros a1 y H0 H1 Hz; destruct a1 as [|s a1]; destruct y as [|v y];
    simpl in *; try discriminate; try constructor.
  - inversion Hz; subst. field. auto.
  - inversion Hz; subst. apply IH; auto.
Qed.

Theorem lin_to_phys_to_norm : forall a1 x,
  length a1 = length x -> nonzero a1 -> vec_eq (lin_to_phys a1 (lin_to_norm a1 x)) x.
Proof.
  induction a1 as [|s a1 IH]; intros x H1 Hz; destruct x as [|v x]; simpl in *; try discriminate;
    constructor.
  - inversion Hz; subst. field. auto.
  - inversion Hz; subst. apply IH; auto.
Qed.

Theorem lin_to_norm_to_phys : forall a1 y,
  length a1 = length y -> nonzero a1 -> vec_eq (lin_to_norm a1 (lin_to_phys a1 y)) y.
Proof.
  induction a1 as [|s a1 IH]; intros y H1 Hz; destruct y as [|v y]; simpl in *; try discriminate;
    constructor.
  - inversion Hz; subst. field. auto.
  - inversion Hz; subst. apply IH; auto.
Qed.

(* a scaled residual vanishes exactly when the physical residual does *)
Theorem scaled_residual_same_zero : forall r s : Q, ~ s == 0 -> (r / s == 0 <-> r == 0).
Proof.
  intros r s Hs; split; intros H.
  - assert (E : r == (r / s) * s) by (field; auto). rewrite E, H. ring.
  - rewrite H. field. auto.
Qed.

(* a connected input in the scaled model holds the unit conversion of the physical source value:
   phys_in = scale0 + scale1 * norm  with scale0 = (a0 + offset) * factor, scale1 = a1 * factor *)
Theorem input_scaling_is_unit_conversion : forall a0 a1 factor offset norm : Q,
  (a0 + offset) * factor + (a1 * factor) * norm == ((a0 + a1 * norm) + offset) * factor.
Proof. intros; ring. Qed.

(* ---------------------------------------------------------------- the scaled system *)

Lemma dot_scale_cols : forall du row xs, dot (scale_cols du row) xs == dot row (lin_to_phys du xs).
Proof.
  induction du as [|d du IH]; intros row xs; destruct row as [|m row]; destruct xs as [|v xs];
    simpl; try reflexivity.
  rewrite IH. ring.
Qed.

Lemma dot_map_div : forall r v x, dot (map (fun m => m / r) v) x == dot v x / r.
Proof.
  intros r; induction v as [|m v IH]; intros x; destruct x as [|a x]; simpl;
    try (unfold Qdiv; ring).
  rewrite IH. unfold Qdiv. ring.
Qed.

(* a solution of the scaled system D_r^-1 M D_u xs = D_r^-1 b, mapped back to physical, solves M x = b *)
Theorem scaled_system_sound : forall (M : mat) (dr du xs b : vec),
  length dr = length M -> length b = length M -> nonzero dr ->
  vec_eq (mat_vec (scale_sys dr du M) xs) (lin_to_norm dr b) ->
  vec_eq (mat_vec M (lin_to_phys du xs)) b.
Proof.
  induction M as [|row M IH]; intros dr du xs b Hr Hb Hz H;
    destruct dr as [|r dr]; destruct b as [|b0 b]; simpl in *; try discriminate; constructor.
  - inversion H; subst. inversion Hz; subst.
    rewrite dot_map_div, dot_scale_cols in H3.
    assert (E : dot row (lin_to_phys du xs) == (dot row (lin_to_phys du xs) / r) * r) by (field; auto).
    rewrite E, H3. field. auto.
  - inversion H; subst. inversion Hz; subst. apply (IH dr du xs b); auto.
Qed.

(* and conversely: the physical solution, normalized, solves the scaled system *)
Theorem scaled_system_complete : forall (M : mat) (dr du x b : vec),
  length dr = length M -> length b = length M -> length du = length x -> nonzero du ->
  vec_eq (mat_vec M x) b ->
  vec_eq (mat_vec (scale_sys dr du M) (lin_to_norm du x)) (lin_to_norm dr b).
Proof.
  induction M as [|row M IH]; intros dr du x b Hr Hb Hu Hz H;
    destruct dr as [|r dr]; destruct b as [|b0 b]; simpl in *; try discriminate; constructor.
  - inversion H; subst.
    rewrite dot_map_div, dot_scale_cols.
    rewrite (dot_compat _ _ _ _ (vec_eq_refl row) (lin_to_phys_to_norm du x Hu Hz)).
    rewrite H3. reflexivity.
  - inversion H; subst. apply IH; auto.
Qed.

Lemma lin_to_phys_length : forall du xs, length du = length xs -> length (lin_to_phys du xs) = length xs.
Proof.
  induction du; destruct xs; simpl; intros; try discriminate; auto.
Qed.

(* with a certified left inverse the physical solution is unique, hence the mapped-back solution of the
   scaled system IS the solution of the unscaled system, entry by entry *)
Theorem scaled_solution_is_unscaled_solution :
  forall (L M : mat) (n : nat) (dr du xs x b : vec),
    wf_mat n M -> length M = n -> left_inverse_cert L M n ->
    length dr = n -> length du = n -> length xs = n -> length x = n -> length b = n ->
    nonzero dr ->
    vec_eq (mat_vec M x) b ->
    vec_eq (mat_vec (scale_sys dr du M) xs) (lin_to_norm dr b) ->
    forall i, nth i (lin_to_phys du xs) 0 == nth i x 0.
Proof.
  intros L M n dr du xs x b HM Hn HC Lr Lu Lxs Lx Lb Hz Hx Hs i.
  assert (Hp : vec_eq (mat_vec M (lin_to_phys du xs)) b)
    by (apply (scaled_system_sound M dr du xs b); auto; lia).
  set (p := lin_to_phys du xs) in *.
  assert (Lp : length p = n) by (unfold p; rewrite lin_to_phys_length; lia).
  set (w := vadd p (vscale (-1) x)).
  assert (Lw : length w = n) by (unfold w; rewrite vadd_length; rewrite ?vscale_length; lia).
  assert (Z : forall k, nth k (mat_vec M w) 0 == 0).
  { intros k. rewrite nth_mat_vec. unfold w.
    rewrite dot_vadd_r by (rewrite vscale_length; lia).
    rewrite dot_vscale_r. rewrite <- !nth_mat_vec.
    rewrite (vec_eq_nth _ _ k Hp), (vec_eq_nth _ _ k Hx). ring. }
  pose proof (kernel_trivial L M n w HM HC Lw (Forall_zero_of_nth _ Z) i) as W.
  unfold w in W. rewrite nth_vadd in W by (rewrite vscale_length; lia).
  rewrite nth_vscale in W.
  assert (E : nth i p 0 == (nth i p 0 + -1 * nth i x 0) + nth i x 0) by ring.
  rewrite W in E. rewrite E. ring.
Qed.

(* total derivatives are invariant: the forward solve for the seed of design entry p done in the scaled
   system (seed normalized with res_ref, solution mapped back with ref - ref0) gives the same entries as the
   unscaled forward solve *)
Theorem totals_scale_invariant :
  forall (L N M : mat) (n p : nat) (dr du xs x : vec),
    wf_mat n M -> length M = n -> left_inverse_cert L M n ->
    length dr = n -> length du = n -> length xs = n -> nonzero dr ->
    solve_with N M (unit_at n p (-1)) = Some x ->
    vec_eq (mat_vec (scale_sys dr du M) xs) (lin_to_norm dr (unit_at n p (-1))) ->
    forall q, nth q (lin_to_phys du xs) 0 == nth q x 0.
Proof.
  intros L N M n p dr du xs x HM Hn HC Lr Lu Lxs Hz Hx Hs q.
  apply solve_with_sound in Hx. destruct Hx as [Hx Lx].
  eapply (scaled_solution_is_unscaled_solution L M n dr du xs x (unit_at n p (-1))); eauto.
  lia. apply unit_at_length.
Qed.

(* ---------------------------------------------------------------- non-vacuity *)

Example ex_roundtrip_negative_ref :
  vec_eq (to_phys [2; -1] [-3; 1 # 2] (to_norm [2; -1] [-3; 1 # 2] [5; 7])) [5; 7].
Proof. apply vec_eqb_sound. vm_compute. reflexivity. Qed.

(* M = [[-1;0];[2;-1]], dr = [-2; 4], du = [1/2; -3]: scaled solve of the seed of entry 0 *)
Example ex_scaled_solve :
  let M := [[-1; 0]; [2; -1]] in
  vec_eq (mat_vec (scale_sys [-2; 4] [1 # 2; -3] M) [2; - (2 # 3)])
         (lin_to_norm [-2; 4] (unit_at 2 0 (-1)))
  /\ vec_eq (lin_to_phys [1 # 2; -3] [2; - (2 # 3)]) [1; 2].
Proof. split; apply vec_eqb_sound; vm_compute; reflexivity. Qed.
