(* C07 — property theorems (statements only; proofs by [exact] of lemmas in Proofs.v). *)
From Coq Require Import ZArith QArith List.
From OMV Require Import Base.Val C05.Model C04.Model C07.Model C07.Proofs.
Import ListNotations.
Open Scope Z_scope.

(* set_val(name, v, units, indices) then get_val(name, units, indices) returns v: for every source
   array, every list of distinct in-range flat positions (whatever chain of src_indices and user
   indices produced them) and every pair of affine units with non-zero factors. *)
Theorem C07_set_get_roundtrip :
  forall (s : list Q) (P : list Z) (ua us : unit) (vals : list Q),
    NoDup P -> in_range s P -> length vals = length P ->
    ~ (uf ua == 0)%Q -> ~ (uf us == 0)%Q ->
    Forall2 Qeq (get_arr (set_arr s P ua us vals) P us ua) vals.
Proof. exact set_get_roundtrip. Qed.
Print Assumptions C07_set_get_roundtrip.

(* entries that are not addressed keep their value *)
Theorem C07_set_frame :
  forall (s : list Q) (P : list Z) (ua us : unit) (vals : list Q) (p : Z),
    0 <= p -> (forall q, In q P -> 0 <= q) -> ~ In p P ->
    nth (Z.to_nat p) (set_arr s P ua us vals) 0%Q = nth (Z.to_nat p) s 0%Q.
Proof. exact set_frame. Qed.
Print Assumptions C07_set_frame.

(* other variables keep their value *)
Theorem C07_set_other_var :
  forall (st : store) (v w : Z) (a : list Q), w <> v -> sset st v a w = st w.
Proof. exact set_other_var. Qed.
Print Assumptions C07_set_other_var.


(* The same round trip through the code's own level-by-level read and write-back (get_subarray /
   set_subarray): for every array, every chain of (flat_src, index) levels in which each level selects
   distinct in-range entries of the array it indexes, every value of the innermost size and every pair
   of affine units with non-zero factors. *)
Theorem C07_set_get_roundtrip_through :
  forall (a : list Q) (shape : list Z) (chain : list level) (ua us : unit) (vals : list Q),
    levels_ok (length a) shape chain (length vals) ->
    ~ (uf ua == 0)%Q -> ~ (uf us == 0)%Q ->
    Forall2 Qeq (do_get (do_set a shape chain ua us vals) shape chain us ua) vals.
Proof. exact set_get_roundtrip_through. Qed.
Print Assumptions C07_set_get_roundtrip_through.

(* entries outside the first level's selection keep their value *)
Theorem C07_through_frame :
  forall (s : list Q) (shape : list Z) (lv : level) (r : list level) (vals s' : list Q)
         (q : list Z * list Z) (p : Z),
    set_through s shape (lv :: r) vals = Some s' ->
    om_index shape (fst lv) (snd lv) = Some q ->
    0 <= p -> (forall x, In x (fst q) -> 0 <= x) -> ~ In p (fst q) ->
    nth (Z.to_nat p) s' 0%Q = nth (Z.to_nat p) s 0%Q.
Proof. exact through_frame. Qed.
Print Assumptions C07_through_frame.

(* aliasing (a level that reads one entry several times): after the write-back the entry holds the
   value of its LAST alias — for all position lists and values *)
Theorem C07_last_alias_wins :
  forall (P : list Z) (s vals : list Q) (k : nat),
    length vals = length P -> (k < length P)%nat ->
    (forall p, In p P -> 0 <= p < Z.of_nat (length s)) ->
    (forall j, (k < j < length P)%nat -> nth j P 0 <> nth k P 0) ->
    nth (Z.to_nat (nth k P 0)) (scatterz s P vals) 0%Q = nth k vals 0%Q.
Proof. exact scatterz_last_wins. Qed.
Print Assumptions C07_last_alias_wins.

(* the phase (metadata store before final_setup, root vector after it, after run_model) is
   unobservable: for every history the code's answers are those of one abstract map *)
Theorem C07_set_get_phase_independent :
  forall (h : list op) (c : cstate), run_code c h = run_abs (current c) h.
Proof. exact phase_independent. Qed.
Print Assumptions C07_set_get_phase_independent.

(* hence any two placements of final_setup / run_model in the same sequence of sets and gets
   give the same answers *)
Theorem C07_same_answers_any_phase :
  forall (h1 h2 : list op) (st : store),
    strip h1 = strip h2 ->
    run_code (mkc false st (fun _ => [])) h1 = run_code (mkc false st (fun _ => [])) h2.
Proof. exact same_answers_any_phase. Qed.
Print Assumptions C07_same_answers_any_phase.

(* with repeated positions the last value wins: the NoDup premise of the round trip is necessary *)
Theorem C07_nodup_necessary :
  exists s P u vals, in_range s P /\ length vals = length P /\
    ~ Forall2 Qeq (get_arr (set_arr s P u u vals) P u u) vals.
Proof. exact nodup_necessary. Qed.
Print Assumptions C07_nodup_necessary.
