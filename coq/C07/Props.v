(* C07 — property theorems (statements only; proofs by [exact] of lemmas in Proofs.v). *)
From Coq Require Import ZArith QArith List.
From OMV Require Import Base.Val C05.Model C04.Model C07.Model C07.Proofs.
Import ListNotations.
Open Scope Z_scope.

(* set_val(name, v, units, indices) then get_val(name, units, indices) returns v: for every source
   array, every list of distinct in-range flat positions (whatever chain of src_indices and user
   indices produced them) and every pair of affine units with non-zero factors. *)
Theorem C07_set_get_roundtrip :
  forall (s : list Q) (P : list Z) (ua us : unit) (vals : list Q),
    NoDup P -> in_range s P -> length vals = length P ->
    ~ (uf ua == 0)%Q -> ~ (uf us == 0)%Q ->
    Forall2 Qeq (get_arr (set_arr s P ua us vals) P us ua) vals.
Proof. exact set_get_roundtrip. Qed.
Print Assumptions C07_set_get_roundtrip.

(* entries that are not addressed keep their value *)
Theorem C07_set_frame :
  forall (s : list Q) (P : list Z) (ua us : unit) (vals : list Q) (p : Z),
    0 <= p -> (forall q, In q P -> 0 <= q) -> ~ In p P ->
    nth (Z.to_nat p) (set_arr s P ua us vals) 0%Q = nth (Z.to_nat p) s 0%Q.
Proof. exact set_frame. Qed.
Print Assumptions C07_set_frame.

(* other variables keep their value *)
Theorem C07_set_other_var :
  forall (st : store) (v w : Z) (a : list Q), w <> v -> sset st v a w = st w.
Proof. exact set_other_var. Qed.
Print Assumptions C07_set_other_var.

(* the phase (metadata store before final_setup, root vector after it, after run_model) is
   unobservable: for every history the code's answers are those of one abstract map *)
Theorem C07_set_get_phase_independent :
  forall (h : list op) (c : cstate), run_code c h = run_abs (current c) h.
Proof. exact phase_independent. Qed.
Print Assumptions C07_set_get_phase_independent.

(* hence any two placements of final_setup / run_model in the same sequence of sets and gets
   give the same answers *)
Theorem C07_same_answers_any_phase :
  forall (h1 h2 : list op) (st : store),
    strip h1 = strip h2 ->
    run_code (mkc false st (fun _ => [])) h1 = run_code (mkc false st (fun _ => [])) h2.
Proof. exact same_answers_any_phase. Qed.
Print Assumptions C07_same_answers_any_phase.

(* with repeated positions the last value wins: the NoDup premise of the round trip is necessary *)
Theorem C07_nodup_necessary :
  exists s P u vals, in_range s P /\ length vals = length P /\
    ~ Forall2 Qeq (get_arr (set_arr s P u u vals) P u u) vals.
Proof. exact nodup_necessary. Qed.
Print Assumptions C07_nodup_necessary.
