(* C07 — proofs: set/get round trip, frame, phase independence. *)
From Coq Require Import ZArith QArith List Bool Lia Lqa.
From OMV Require Import Base.Val Base.Tactics C05.Model C04.Model C04.Proofs C07.Model.
Import ListNotations.
Open Scope Z_scope.

(* ------------------------------------------------------------------ units *)

Lemma conv_inverse : forall a b x,
  ~ (uf a == 0)%Q -> ~ (uf b == 0)%Q -> (conv b a (conv a b x) == x)%Q.
Proof. intros. unfold conv. field. split; auto. Qed.

Lemma conv_same : forall a x, ~ (uf a == 0)%Q -> (conv a a x == x)%Q.
Proof. intros. unfold conv. field. auto. Qed.

(* ------------------------------------------------------------------ scatter / pick *)

Definition in_range (s : list Q) (P : list Z) : Prop := forall p, In p P -> 0 <= p < Z.of_nat (length s).

Lemma scatterz_length : forall P s vals, length (scatterz s P vals) = length s.
Proof.
  induction P; intros s vals; cbn; auto. destruct vals; auto.
  rewrite IHP. apply set_nth_length.
Qed.

Lemma scatterz_frame : forall P s vals p d,
  0 <= p -> (forall q, In q P -> 0 <= q) -> ~ In p P ->
  nth (Z.to_nat p) (scatterz s P vals) d = nth (Z.to_nat p) s d.
Proof.
  induction P as [|q P IH]; intros s vals p d Hp Hq Hn; cbn; auto.
  destruct vals as [|x vals]; auto.
  rewrite IH; auto.
  - apply set_nth_other. intro E.
    assert (0 <= q) by (apply Hq; left; auto).
    apply Hn. left. lia.
  - intros q' Hq'. apply Hq. right; auto.
  - intro; apply Hn; right; auto.
Qed.

Lemma scatterz_pick : forall P s vals d,
  NoDup P -> in_range s P -> length vals = length P ->
  pick d (scatterz s P vals) P = vals.
Proof.
  induction P as [|p P IH]; intros s vals d ND R L.
  - destruct vals; cbn in *; try lia. reflexivity.
  - destruct vals as [|x vals]; cbn in L; try lia. inv ND.
    assert (Rp : 0 <= p < Z.of_nat (length s)) by (apply R; left; auto).
    cbn [scatterz pick map]. f_equal.
    + rewrite scatterz_frame; auto; try lia.
      * apply set_nth_same. lia.
      * intros q Hq. assert (0 <= q < Z.of_nat (length s)) by (apply R; right; auto). lia.
    + apply IH; auto; try lia.
      intros q Hq. rewrite set_nth_length. apply R. right; auto.
Qed.

(* ------------------------------------------------------------------ round trip and frame *)

Lemma map_conv_inverse : forall a b vals,
  ~ (uf a == 0)%Q -> ~ (uf b == 0)%Q ->
  Forall2 Qeq (map (conv b a) (map (conv a b) vals)) vals.
Proof.
  induction vals; cbn; intros; constructor; auto. apply conv_inverse; auto.
Qed.

(* set_val(name, v, units, indices) followed by get_val(name, units, indices) returns v *)
Theorem set_get_roundtrip : forall s P ua us vals,
  NoDup P -> in_range s P -> length vals = length P ->
  ~ (uf ua == 0)%Q -> ~ (uf us == 0)%Q ->
  Forall2 Qeq (get_arr (set_arr s P ua us vals) P us ua) vals.
Proof.
  intros. unfold get_arr, set_arr.
  rewrite scatterz_pick; auto. apply map_conv_inverse; auto.
  rewrite map_length. auto.
Qed.

(* every entry of the source that is not addressed keeps its value ... *)
Theorem set_frame : forall s P ua us vals p,
  0 <= p -> (forall q, In q P -> 0 <= q) -> ~ In p P ->
  nth (Z.to_nat p) (set_arr s P ua us vals) 0%Q = nth (Z.to_nat p) s 0%Q.
Proof. intros. unfold set_arr. apply scatterz_frame; auto. Qed.

(* ... and so does every other variable *)
Theorem set_other_var : forall (st : store) v w a, w <> v -> sset st v a w = st w.
Proof. intros. unfold sset. replace (w =? v) with false by lia. reflexivity. Qed.

Lemma set_length : forall s P ua us vals, length (set_arr s P ua us vals) = length s.
Proof. intros. unfold set_arr. apply scatterz_length. Qed.

(* with repeated positions the last value wins, so the NoDup premise is necessary *)
Example dup_indices_last_wins :
  let u := mkunit 1 0 in
  get_arr (set_arr [0; 0; 0]%Q [1; 1] u u [5; 7]%Q) [1; 1] u u = map (conv u u) (map (conv u u) [7; 7]%Q).
Proof. reflexivity. Qed.

Example nodup_necessary :
  exists s P u vals, in_range s P /\ length vals = length P /\
    ~ Forall2 Qeq (get_arr (set_arr s P u u vals) P u u) vals.
Proof.
  exists [0; 0; 0]%Q, [1; 1], (mkunit 1 0), [5; 7]%Q. split; [|split].
  - intros p [<- | [<- | []]]; cbn; lia.
  - reflexivity.
  - intro H. inversion H; subst. vm_compute in H3. discriminate.
Qed.

(* ------------------------------------------------------------------ phase independence *)

Lemma current_final : forall c, current (c_final c) = current c.
Proof. intros [[|] m v]; reflexivity. Qed.

(* Whatever the interleaving of set / get / final_setup / run_model, the answers of the code
   (metadata store before the vectors exist, root vector afterwards) are those of the single
   abstract map: the phase is unobservable. *)
Theorem phase_independent : forall h c, run_code c h = run_abs (current c) h.
Proof.
  induction h as [|o h IH]; intros c; cbn [run_code run_abs]; auto.
  destruct o; cbn [c_step].
  - destruct c as [[|] m v]; cbn [has_vectors meta vec]; rewrite IH; reflexivity.
  - rewrite IH. destruct c as [[|] m v]; reflexivity.
  - rewrite IH, current_final. reflexivity.
  - rewrite IH, current_final. reflexivity.
Qed.

(* two placements of final_setup / run_model in the same sequence of sets and gets *)
Fixpoint strip (h : list op) : list op :=
  match h with
  | [] => []
  | OFinal :: r => strip r
  | ORun :: r => strip r
  | o :: r => o :: strip r
  end.

Lemma run_abs_strip : forall h st, run_abs st (strip h) = run_abs st h.
Proof.
  induction h as [|o h IH]; intros st; cbn; auto.
  destruct o; cbn [run_abs]; rewrite ?IH; auto.
Qed.

Theorem same_answers_any_phase : forall h1 h2 st,
  strip h1 = strip h2 ->
  run_code (mkc false st (fun _ => [])) h1 = run_code (mkc false st (fun _ => [])) h2.
Proof.
  intros. rewrite !phase_independent. cbn [current has_vectors meta].
  rewrite <- (run_abs_strip h1), <- (run_abs_strip h2), H. reflexivity.
Qed.

(* non-vacuity *)
Example ex_roundtrip :
  let km := mkunit 1000 0 in let m := mkunit 1 0 in
  Forall2 Qeq (get_arr (set_arr [0; 0; 0; 0]%Q [3; 1] km m [2; 5]%Q) [3; 1] m km) [2; 5]%Q.
Proof.
  cbn zeta. constructor; [vm_compute; reflexivity | constructor; [vm_compute; reflexivity | constructor]].
Qed.
