(* C07 — proofs: set/get round trip, frame, phase independence. *)
From Coq Require Import ZArith QArith List Bool Lia Lqa.
From OMV Require Import Base.Val Base.Tactics C05.Model C04.Model C04.Proofs C07.Model.
Import ListNotations.
Open Scope Z_scope.

(* ------------------------------------------------------------------ units *)

Lemma conv_inverse : forall a b x,
  ~ (uf a == 0)%Q -> ~ (uf b == 0)%Q -> (conv b a (conv a b x) == x)%Q.
Proof. intros. unfold conv. field. split; auto. Qed.

Lemma conv_same : forall a x, ~ (uf a == 0)%Q -> (conv a a x == x)%Q.
Proof. intros. unfold conv. field. auto. Qed.

(* ------------------------------------------------------------------ scatter / pick *)

Definition in_range (s : list Q) (P : list Z) : Prop := forall p, In p P -> 0 <= p < Z.of_nat (length s).

Lemma scatterz_length : forall P s vals, length (scatterz s P vals) = length s.
Proof.
  induction P; intros s vals; cbn; auto. destruct vals; auto.
  rewrite IHP. apply set_nth_length.
Qed.

Lemma scatterz_frame : forall P s vals p d,
  0 <= p -> (forall q, In q P -> 0 <= q) -> ~ In p P ->
  nth (Z.to_nat p) (scatterz s P vals) d = nth (Z.to_nat p) s d.
Proof.
  induction P as [|q P IH]; intros s vals p d Hp Hq Hn; cbn; auto.
  destruct vals as [|x vals]; auto.
  rewrite IH; auto.
  - apply set_nth_other. intro E.
    assert (0 <= q) by (apply Hq; left; auto).
    apply Hn. left. lia.
  - intros q' Hq'. apply Hq. right; auto.
  - intro; apply Hn; right; auto.
Qed.

Lemma scatterz_pick : forall P s vals d,
  NoDup P -> in_range s P -> length vals = length P ->
  pick d (scatterz s P vals) P = vals.
Proof.
  induction P as [|p P IH]; intros s vals d ND R L.
  - destruct vals; cbn in *; try lia. reflexivity.
  - destruct vals as [|x vals]; cbn in L; try lia. inv ND.
    assert (Rp : 0 <= p < Z.of_nat (length s)) by (apply R; left; auto).
    cbn [scatterz pick map]. f_equal.
    + rewrite scatterz_frame; auto; try lia.
      * apply set_nth_same. lia.
      * intros q Hq. assert (0 <= q < Z.of_nat (length s)) by (apply R; right; auto). lia.
    + apply IH; auto; try lia.
      intros q Hq. rewrite set_nth_length. apply R. right; auto.
Qed.

(* ------------------------------------------------------------------ round trip and frame *)

Lemma map_conv_inverse : forall a b vals,
  ~ (uf a == 0)%Q -> ~ (uf b == 0)%Q ->
  Forall2 Qeq (map (conv b a) (map (conv a b) vals)) vals.
Proof.
  induction vals; cbn; intros; constructor; auto. apply conv_inverse; auto.
Qed.

(* set_val(name, v, units, indices) followed by get_val(name, units, indices) returns v *)
Theorem set_get_roundtrip : forall s P ua us vals,
  NoDup P -> in_range s P -> length vals = length P ->
  ~ (uf ua == 0)%Q -> ~ (uf us == 0)%Q ->
  Forall2 Qeq (get_arr (set_arr s P ua us vals) P us ua) vals.
Proof.
  intros. unfold get_arr, set_arr.
  rewrite scatterz_pick; auto. apply map_conv_inverse; auto.
  rewrite map_length. auto.
Qed.

(* every entry of the source that is not addressed keeps its value ... *)
Theorem set_frame : forall s P ua us vals p,
  0 <= p -> (forall q, In q P -> 0 <= q) -> ~ In p P ->
  nth (Z.to_nat p) (set_arr s P ua us vals) 0%Q = nth (Z.to_nat p) s 0%Q.
Proof. intros. unfold set_arr. apply scatterz_frame; auto. Qed.

(* ... and so does every other variable *)
Theorem set_other_var : forall (st : store) v w a, w <> v -> sset st v a w = st w.
Proof. intros. unfold sset. replace (w =? v) with false by lia. reflexivity. Qed.

Lemma set_length : forall s P ua us vals, length (set_arr s P ua us vals) = length s.
Proof. intros. unfold set_arr. apply scatterz_length. Qed.

(* with repeated positions the last value wins, so the NoDup premise is necessary *)
Example dup_indices_last_wins :
  let u := mkunit 1 0 in
  get_arr (set_arr [0; 0; 0]%Q [1; 1] u u [5; 7]%Q) [1; 1] u u = map (conv u u) (map (conv u u) [7; 7]%Q).
Proof. reflexivity. Qed.

Example nodup_necessary :
  exists s P u vals, in_range s P /\ length vals = length P /\
    ~ Forall2 Qeq (get_arr (set_arr s P u u vals) P u u) vals.
Proof.
  exists [0; 0; 0]%Q, [1; 1], (mkunit 1 0), [5; 7]%Q. split; [|split].
  - intros p [<- | [<- | []]]; cbn; lia.
  - reflexivity.
  - intro H. inversion H; subst. vm_compute in H3. discriminate.
Qed.

(* ------------------------------------------------------------------ the level-wise code paths *)

(* every level selects distinct in-range entries of the array it indexes (no aliasing), and the value
   has the size of the innermost sub-array *)
Fixpoint levels_ok (n : nat) (shape : list Z) (chain : list level) (m : nat) : Prop :=
  match chain with
  | [] => n = m
  | lv :: r =>
      match om_index shape (fst lv) (snd lv) with
      | None => False
      | Some q => NoDup (fst q) /\ (forall p, In p (fst q) -> 0 <= p < Z.of_nat n) /\
                  levels_ok (length (fst q)) (snd q) r m
      end
  end.

Lemma pick_length : forall A (d : A) a sel, length (pick d a sel) = length sel.
Proof. intros. unfold pick. apply map_length. Qed.

Lemma through_roundtrip : forall chain s shape vals,
  levels_ok (length s) shape chain (length vals) ->
  exists s', set_through s shape chain vals = Some s' /\ length s' = length s /\
             get_through s' shape chain = Some vals.
Proof.
  induction chain as [|lv r IH]; intros s shape vals H; cbn [levels_ok set_through] in *.
  - exists vals. repeat split; auto.
  - destruct (om_index shape (fst lv) (snd lv)) as [q|] eqn:O; [|tauto].
    destruct H as [ND [R L]].
    specialize (IH (pick 0%Q s (fst q)) (snd q) vals).
    rewrite pick_length in IH. destruct (IH L) as [sub' [S [Ls G]]].
    rewrite S. eexists. split; [reflexivity|]. split. apply scatterz_length.
    unfold get_through. cbn [apply_chain]. unfold apply_level. cbn [fst snd]. rewrite O.
    rewrite scatterz_pick; auto; try exact G; try (rewrite Ls; apply pick_length).
Qed.

(* set_val(name, v, units, indices) followed by get_val(name, units, indices) returns v, through
   the code's own level-by-level read / write-back, for every chain without aliasing *)
Theorem set_get_roundtrip_through : forall a shape chain ua us vals,
  levels_ok (length a) shape chain (length vals) ->
  ~ (uf ua == 0)%Q -> ~ (uf us == 0)%Q ->
  Forall2 Qeq (do_get (do_set a shape chain ua us vals) shape chain us ua) vals.
Proof.
  intros a shape chain ua us vals H Na Ns. unfold do_get, do_set.
  assert (H' : levels_ok (length a) shape chain (length (map (conv ua us) vals)))
    by (rewrite map_length; auto).
  destruct (through_roundtrip chain a shape _ H') as [s' [S [_ G]]].
  rewrite S, G. apply map_conv_inverse; auto.
Qed.

(* entries outside the first level's selection keep their value *)
Theorem through_frame : forall s shape lv r vals s' q p,
  set_through s shape (lv :: r) vals = Some s' ->
  om_index shape (fst lv) (snd lv) = Some q ->
  0 <= p -> (forall x, In x (fst q) -> 0 <= x) -> ~ In p (fst q) ->
  nth (Z.to_nat p) s' 0%Q = nth (Z.to_nat p) s 0%Q.
Proof.
  intros s shape lv r vals s' q p H O Hp Hq Hn. cbn [set_through] in H. rewrite O in H.
  destruct (set_through (pick 0%Q s (fst q)) (snd q) r vals); inv H.
  apply scatterz_frame; auto.
Qed.

(* repeated positions: the LAST occurrence wins *)
Lemma scatterz_last_wins : forall P s vals k,
  length vals = length P -> (k < length P)%nat ->
  (forall p, In p P -> 0 <= p < Z.of_nat (length s)) ->
  (forall j, (k < j < length P)%nat -> nth j P 0 <> nth k P 0) ->
  nth (Z.to_nat (nth k P 0)) (scatterz s P vals) 0%Q = nth k vals 0%Q.
Proof.
  induction P as [|p P IH]; intros s vals k L K R Last; cbn in K; try lia.
  destruct vals as [|x vals]; cbn in L; try lia. cbn [scatterz].
  destruct k; cbn [nth].
  - rewrite scatterz_frame.
    + apply set_nth_same. assert (0 <= p < Z.of_nat (length s)) by (apply R; left; auto). lia.
    + assert (0 <= p < Z.of_nat (length s)) by (apply R; left; auto). lia.
    + intros q Hq. assert (0 <= q < Z.of_nat (length s)) by (apply R; right; auto). lia.
    + intro Hin. apply In_nth with (d := 0) in Hin as [j [Hj Ej]].
      apply (Last (S j)). cbn. lia. cbn. auto.
  - apply IH; try lia.
    + intros q Hq. rewrite set_nth_length. apply R. right; auto.
    + intros j Hj. apply (Last (S j)). cbn. lia.
Qed.

(* an input that reads one source entry twice (src_indices=[0,0]): setting its first entry is
   undone by the write-back of the second alias, so the round trip fails although the user's own
   position is a single one; the no-aliasing premise of the round trip is necessary *)
Example alias_last_wins :
  let u := mkunit 1 0 in
  let chain := [(true, I1 (IArr [0; 0])); (true, I1 (IInt 0))] in
  do_set [5; 6]%Q [2] chain u u [9]%Q = [5; 6]%Q /\
  do_get (do_set [5; 6]%Q [2] chain u u [9]%Q) [2] chain u u = map (conv u u) [5]%Q.
Proof. vm_compute. split; reflexivity. Qed.

Example ex_levels_ok :
  levels_ok 6 [2; 3] [(false, I1 (IInt (-1))); (true, I1 (IArr [2; 0]))] 2.
Proof.
  cbn [levels_ok fst snd].
  replace (om_index [2; 3] false (I1 (IInt (-1)))) with (Some ([3; 4; 5], [3])) by (vm_compute; reflexivity).
  cbn [fst snd length].
  replace (om_index [3] true (I1 (IArr [2; 0]))) with (Some ([2; 0], [2])) by (vm_compute; reflexivity).
  cbn [fst snd length].
  split; [|split; [|split; [|split]]]; auto.
  - repeat constructor; cbn; intuition lia.
  - intros p Hp; cbn in Hp; intuition lia.
  - repeat constructor; cbn; intuition lia.
  - intros p Hp; cbn in Hp; intuition lia.
Qed.

(* ------------------------------------------------------------------ phase independence *)

Lemma current_final : forall c, current (c_final c) = current c.
Proof. intros [[|] m v]; reflexivity. Qed.

(* Whatever the interleaving of set / get / final_setup / run_model, the answers of the code
   (metadata store before the vectors exist, root vector afterwards) are those of the single
   abstract map: the phase is unobservable. *)
Theorem phase_independent : forall h c, run_code c h = run_abs (current c) h.
Proof.
  induction h as [|o h IH]; intros c; cbn [run_code run_abs]; auto.
  destruct o; cbn [c_step].
  - destruct c as [[|] m v]; cbn [has_vectors meta vec]; rewrite IH; reflexivity.
  - rewrite IH. destruct c as [[|] m v]; reflexivity.
  - rewrite IH, current_final. reflexivity.
  - rewrite IH, current_final. reflexivity.
Qed.

(* two placements of final_setup / run_model in the same sequence of sets and gets *)
Fixpoint strip (h : list op) : list op :=
  match h with
  | [] => []
  | OFinal :: r => strip r
  | ORun :: r => strip r
  | o :: r => o :: strip r
  end.

Lemma run_abs_strip : forall h st, run_abs st (strip h) = run_abs st h.
Proof.
  induction h as [|o h IH]; intros st; cbn; auto.
  destruct o; cbn [run_abs]; rewrite ?IH; auto.
Qed.

Theorem same_answers_any_phase : forall h1 h2 st,
  strip h1 = strip h2 ->
  run_code (mkc false st (fun _ => [])) h1 = run_code (mkc false st (fun _ => [])) h2.
Proof.
  intros. rewrite !phase_independent. cbn [current has_vectors meta].
  rewrite <- (run_abs_strip h1), <- (run_abs_strip h2), H. reflexivity.
Qed.

(* non-vacuity *)
Example ex_roundtrip :
  let km := mkunit 1000 0 in let m := mkunit 1 0 in
  Forall2 Qeq (get_arr (set_arr [0; 0; 0; 0]%Q [3; 1] km m [2; 5]%Q) [3; 1] m km) [2; 5]%Q.
Proof.
  cbn zeta. constructor; [vm_compute; reflexivity | constructor; [vm_compute; reflexivity | constructor]].
Qed.
