(* C07 — model of Problem.set_val / get_val through the connection graph.

   Anchors: openmdao/core/conn_graph.py  AllConnGraph.set_val / convert_set / set_subarray /
            set_tree_val, get_val / get_val_from_src / convert_get / get_subarray.
   A name the user may address (absolute output, promoted output, absolute or promoted input,
   auto-IVC backed or connected) resolves to a SOURCE array and a chain of src_indices levels
   (node_meta.src_inds_list) to which the user's [indices] is appended; values are converted
   between the user's units and the source's units.  The abstract state is the map
   source -> flat array.  Before final_setup the code keeps it in the graph metadata
   (src_meta.val), afterwards in the root output vector; [cstate] models both stores.
   Definitions only; proofs are in Proofs.v. *)
From Coq Require Import ZArith QArith List Bool.
From OMV Require Import Base.Val C05.Model C04.Model.
Import ListNotations.
Open Scope Z_scope.

(* affine units: value_in_base = (x + uo) * uf *)
Record unit := mkunit { uf : Q; uo : Q }.

(* unit_conversion(a, b) = (factor, offset), x_b = (x_a + offset) * factor *)
Definition conv (a b : unit) (x : Q) : Q :=
  ((x + (uo a - uo b * uf b / uf a)) * (uf a / uf b))%Q.

Definition store := Z -> list Q.
Definition sset (st : store) (v : Z) (a : list Q) : store :=
  fun w => if w =? v then a else st w.

(* arr[...] = vals through the flat positions (later entries win) *)
Fixpoint scatterz (s : list Q) (P : list Z) (vals : list Q) : list Q :=
  match P, vals with
  | p :: P', x :: vals' => scatterz (set_nth s (Z.to_nat p) x) P' vals'
  | _, _ => s
  end.

(* set_val: the value, given in units ua, is converted to the source's units us and written at P *)
Definition set_arr (s : list Q) (P : list Z) (ua us : unit) (vals : list Q) : list Q :=
  scatterz s P (map (conv ua us) vals).

(* get_val (from the source): the entries at P converted from us to ua *)
Definition get_arr (s : list Q) (P : list Z) (us ua : unit) : list Q :=
  map (conv us ua) (pick 0%Q s P).

(* flat source positions addressed by a name's chain followed by the user's indices *)
Definition positions_of (shape : list Z) (chain : list level) : option (list Z) :=
  option_map fst (chain_on_arange shape chain).

(* ------------------------------------------------------------------ the code's level-wise paths *)

(* get_subarray: the levels applied one after another (OpenMDAO's own index algorithm) *)
Definition get_through (s : list Q) (shape : list Z) (chain : list level) : option (list Q) :=
  option_map fst (apply_chain om_index 0%Q (s, shape) chain).

(* set_subarray: read the sub-arrays level by level, overwrite the innermost one, then write every
   sub-array back into the array it was taken from (NumPy assignment through the level's positions:
   when a level reads one entry twice the LAST alias wins).  No level: arr[:] = val. *)
Fixpoint set_through (s : list Q) (shape : list Z) (chain : list level) (vals : list Q)
  : option (list Q) :=
  match chain with
  | [] => Some vals
  | lv :: r =>
      match om_index shape (fst lv) (snd lv) with
      | None => None
      | Some q =>
          match set_through (pick 0%Q s (fst q)) (snd q) r vals with
          | None => None
          | Some sub' => Some (scatterz s (fst q) sub')
          end
      end
  end.

(* ------------------------------------------------------------------ histories *)

Inductive op :=
| OSet (var : Z) (shape : list Z) (chain : list level) (ua us : unit) (vals : list Q)
| OGet (var : Z) (shape : list Z) (chain : list level) (us ua : unit)
| OFinal          (* final_setup *)
| ORun.           (* run_model (sources addressed by the user are independent variables) *)

Definition do_set (a : list Q) (shape : list Z) (chain : list level) (ua us : unit) (vals : list Q)
  : list Q :=
  match set_through a shape chain (map (conv ua us) vals) with
  | Some a' => a'
  | None => a
  end.

Definition do_get (a : list Q) (shape : list Z) (chain : list level) (us ua : unit) : list Q :=
  match get_through a shape chain with
  | Some v => map (conv us ua) v
  | None => []
  end.

(* abstract semantics: one map, no phases *)
Fixpoint run_abs (st : store) (h : list op) : list (list Q) :=
  match h with
  | [] => []
  | OSet v sh ch ua us vals :: r => run_abs (sset st v (do_set (st v) sh ch ua us vals)) r
  | OGet v sh ch us ua :: r => do_get (st v) sh ch us ua :: run_abs st r
  | OFinal :: r => run_abs st r
  | ORun :: r => run_abs st r
  end.

(* the code: metadata values until vectors exist, the root vector afterwards *)
Record cstate := mkc { has_vectors : bool; meta : store; vec : store }.

Definition c_final (c : cstate) : cstate :=
  if has_vectors c then c else mkc true (meta c) (meta c).

Definition c_step (c : cstate) (o : op) : cstate * option (list Q) :=
  match o with
  | OSet v sh ch ua us vals =>
      if has_vectors c
      then (mkc true (meta c) (sset (vec c) v (do_set (vec c v) sh ch ua us vals)), None)
      else (mkc false (sset (meta c) v (do_set (meta c v) sh ch ua us vals)) (vec c), None)
  | OGet v sh ch us ua =>
      (c, Some (do_get ((if has_vectors c then vec c else meta c) v) sh ch us ua))
  | OFinal => (c_final c, None)
  | ORun => (c_final c, None)
  end.

Fixpoint run_code (c : cstate) (h : list op) : list (list Q) :=
  match h with
  | [] => []
  | o :: r => match c_step c o with
              | (c', Some a) => a :: run_code c' r
              | (c', None) => run_code c' r
              end
  end.

Definition current (c : cstate) : store := if has_vectors c then vec c else meta c.

(* ------------------------------------------------------------------ harness encoding *)

Fixpoint init_store (l : list (Z * list Q)) : store :=
  match l with
  | [] => fun _ => []
  | (v, a) :: r => sset (init_store r) v a
  end.

(* answers of all gets of the history, by the code model *)
Definition run_case (init : list (Z * list Q)) (h : list op) : val :=
  VL (map vqs (run_code (mkc false (init_store init) (fun _ => [])) h)).
