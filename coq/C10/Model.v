(* C10 — executable model of the bounds-enforcing line searches
   (openmdao/solvers/linesearch/backtracking.py: LinesearchSolver._setup_solvers,
   _enforce_bounds_vector / _scalar / _wall, the ArmijoGoldsteinLS update).  Definitions only.

   Values are rationals.  A bound is an extended rational: [None] stands for the infinite bound
   of its side (-inf for a lower bound, +inf for an upper bound; `lower_bounds is None` in the
   code behaves like an array of -inf, which the correspondence checks). *)
From Coq Require Import ZArith QArith Qminmax Qabs List Bool.
From OMV Require Import Base.Val.
Import ListNotations.
Open Scope Q_scope.

(* one entry of the output vector inside the line search:
   u = value AFTER alpha*du has been added, du = Newton step, lo/hi = scaled bounds *)
Record ent := mkent { e_u : Q; e_du : Q; e_lo : option Q; e_hi : option Q }.

Definition Qlt_bool (a b : Q) : bool := negb (Qle_bool b a).
Definition Qnz (a : Q) : bool := negb (Qeq_bool a 0).

(* ---------- _enforce_bounds_scalar ---------- *)
(* change_lower = np.maximum(u, lower) - u ; change_upper = np.minimum(u, upper) - u *)
Definition change_lower (e : ent) : Q :=
  match e_lo e with Some l => Qmax (e_u e) l - e_u e | None => 0 end.
Definition change_upper (e : ent) : Q :=
  match e_hi e with Some h => Qmin (e_u e) h - e_u e | None => 0 end.
Definition change (e : ent) : Q := change_lower e + change_upper e.

(* u_data += change ; du += change / alpha *)
Definition scalar_ent (alpha : Q) (e : ent) : ent :=
  mkent (e_u e + change e) (e_du e + change e / alpha) (e_lo e) (e_hi e).
Definition enforce_scalar (alpha : Q) (es : list ent) : list ent := map (scalar_ent alpha) es.

(* ---------- _enforce_bounds_wall ---------- *)
(* as scalar, then du_data[change.astype(bool)] = 0 *)
Definition wall_ent (alpha : Q) (e : ent) : ent :=
  mkent (e_u e + change e)
        (if Qnz (change e) then 0 else e_du e + change e / alpha) (e_lo e) (e_hi e).
Definition enforce_wall (alpha : Q) (es : list ent) : list ent := map (wall_ent alpha) es.

(* ---------- _enforce_bounds_vector ---------- *)
(* values in Q u {-inf}: None = -inf *)
Definition omax (a b : option Q) : option Q :=
  match a, b with
  | Some x, Some y => Some (Qmax x y)
  | Some x, None => Some x
  | None, b => b
  end.
Definition amax (l : list (option Q)) : option Q := fold_right omax None l.
(* m > d *)
Definition ogt (m : option Q) (d : Q) : bool :=
  match m with Some x => Qlt_bool d x | None => false end.
Definition oget (m : option Q) (d : Q) : Q := match m with Some x => x | None => d end.

(* (lower_bounds[mask] - u_mask) / abs_du_mask ; (u_mask - upper_bounds[mask]) / abs_du_mask *)
Definition cand_lo (e : ent) : option Q :=
  match e_lo e with Some l => Some ((l - e_u e) / Qabs (e_du e)) | None => None end.
Definition cand_hi (e : ent) : option Q :=
  match e_hi e with Some h => Some ((e_u e - h) / Qabs (e_du e)) | None => None end.

Definition masked (es : list ent) : list ent := filter (fun e => Qnz (e_du e)) es.

Definition vec_dalpha (es : list ent) : Q :=
  let d0 := 0 in
  match masked es with
  | [] => d0                                 (* mask.any() is False *)
  | ms =>
      let m1 := amax (map cand_lo ms) in
      let d1 := if ogt m1 d0 then oget m1 d0 else d0 in
      let m2 := amax (map cand_hi ms) in
      if ogt m2 d1 then oget m2 d1 else d1
  end.

(* if d_alpha > 0: u.add_scal_vec(-d_alpha, du); du *= 1 - d_alpha / alpha *)
Definition vector_ent (alpha d : Q) (e : ent) : ent :=
  mkent (e_u e + (- d) * e_du e) (e_du e * (1 - d / alpha)) (e_lo e) (e_hi e).
(* the kernel before props/C10/fix_2.diff: d_alpha is used as computed *)
Definition enforce_vector_cur (alpha : Q) (es : list ent) : list ent :=
  let d := vec_dalpha es in
  if Qlt_bool 0 d then map (vector_ent alpha d) es else es.
(* repaired (fix_2.diff):  if d_alpha > alpha: d_alpha = alpha *)
Definition clampd (alpha d : Q) : Q := if Qlt_bool alpha d then alpha else d.
Definition enforce_vector (alpha : Q) (es : list ent) : list ent :=
  let d := clampd alpha (vec_dalpha es) in
  if Qlt_bool 0 d then map (vector_ent alpha d) es else es.

Inductive method := Vector | Scalar | Wall.
Definition enforce (m : method) (alpha : Q) (es : list ent) : list ent :=
  match m with
  | Vector => enforce_vector alpha es
  | Scalar => enforce_scalar alpha es
  | Wall => enforce_wall alpha es
  end.

(* ---------- ArmijoGoldsteinLS backtracking: u.add_scal_vec(alpha_new - alpha_old, du) ---------- *)
Definition ag_move (a_old a_new : Q) (e : ent) : ent :=
  mkent (e_u e + (a_new - a_old) * e_du e) (e_du e) (e_lo e) (e_hi e).
(* successive step lengths [a1; a2; ...] starting from alpha *)
Fixpoint ag_steps (a_old : Q) (alphas : list Q) (es : list ent) : list ent :=
  match alphas with
  | [] => es
  | a :: rest => ag_steps a rest (map (ag_move a_old a) es)
  end.

(* ---------- LinesearchSolver._setup_solvers: bounds mapped into the scaled space ---------- *)
(* present code: lower' = (lower - ref0)/(ref - ref0), upper' = (upper - ref0)/(ref - ref0) *)
Definition to_scaled (ref ref0 x : Q) : Q := (x - ref0) / (ref - ref0).
Definition to_phys (ref ref0 u : Q) : Q := ref0 + u * (ref - ref0).
Definition omapq (f : Q -> Q) (o : option Q) : option Q :=
  match o with Some x => Some (f x) | None => None end.

Definition scaled_lower_cur (ref ref0 : Q) (lo hi : option Q) : option Q := omapq (to_scaled ref ref0) lo.
Definition scaled_upper_cur (ref ref0 : Q) (lo hi : option Q) : option Q := omapq (to_scaled ref ref0) hi.

(* repaired (props/C10/fix_1.diff): with a = image of lower (or of -inf), b = image of upper (or of
   +inf), lower' = min(a, b), upper' = max(a, b); for lower <= upper this is: swap the roles where
   ref - ref0 < 0 (the image of the missing bound is the infinity of the other side) *)
Definition scaled_lower (ref ref0 : Q) (lo hi : option Q) : option Q :=
  if Qlt_bool (ref - ref0) 0 then omapq (to_scaled ref ref0) hi else omapq (to_scaled ref ref0) lo.
Definition scaled_upper (ref ref0 : Q) (lo hi : option Q) : option Q :=
  if Qlt_bool (ref - ref0) 0 then omapq (to_scaled ref ref0) lo else omapq (to_scaled ref ref0) hi.

(* an output entry in physical units with its scaling *)
Record pent := mkpent { p_x0 : Q; p_step : Q; p_lo : option Q; p_hi : option Q; p_ref : Q; p_ref0 : Q }.

(* the scaled entry the line search sees after u += alpha * du *)
Definition scale_ent_gen (fixd : bool) (alpha : Q) (p : pent) : ent :=
  let u0 := to_scaled (p_ref p) (p_ref0 p) (p_x0 p) in
  let du := p_step p / (p_ref p - p_ref0 p) in
  mkent (u0 + alpha * du) du
        ((if fixd then scaled_lower else scaled_lower_cur) (p_ref p) (p_ref0 p) (p_lo p) (p_hi p))
        ((if fixd then scaled_upper else scaled_upper_cur) (p_ref p) (p_ref0 p) (p_lo p) (p_hi p)).

(* one bounds-enforced update in physical units: the new physical values *)
Definition phys_update_gen (fixd : bool) (m : method) (alpha : Q) (ps : list pent) : list Q :=
  map (fun pe => to_phys (p_ref (fst pe)) (p_ref0 (fst pe)) (e_u (snd pe)))
      (combine ps (enforce m alpha (map (scale_ent_gen fixd alpha) ps))).
Definition phys_update := phys_update_gen true.
Definition phys_update_cur := phys_update_gen false.

(* ---------- specification predicates ---------- *)
Definition ole (o : option Q) (x : Q) : Prop := match o with Some l => l <= x | None => True end.  (* lo <= x *)
Definition leo (x : Q) (o : option Q) : Prop := match o with Some h => x <= h | None => True end.  (* x <= hi *)
Definition inb (lo hi : option Q) (x : Q) : Prop := ole lo x /\ leo x hi.
(* x lies between a and b (in either order) *)
Definition between (a b x : Q) : Prop := (a <= x /\ x <= b) \/ (b <= x /\ x <= a).

Definition inb_b (lo hi : option Q) (x : Q) : bool :=
  match lo with Some l => Qle_bool l x | None => true end &&
  match hi with Some h => Qle_bool x h | None => true end.
Definition between_b (a b x : Q) : bool :=
  (Qle_bool a x && Qle_bool x b) || (Qle_bool b x && Qle_bool x a).

(* ---------- executable interface for the correspondence ---------- *)
Definition v_ents (es : list ent) : val :=
  VL [VL (map (fun e => VQ (e_u e)) es); VL (map (fun e => VQ (e_du e)) es)].
Definition run_kernel (m : method) (alpha : Q) (es : list ent) : val := v_ents (enforce m alpha es).
Definition run_vector_cur (alpha : Q) (es : list ent) : val := v_ents (enforce_vector_cur alpha es).
Definition v_oq (o : option Q) : val := match o with Some q => VQ q | None => VN end.
Definition run_setup (fixd : bool) (ref ref0 : Q) (lo hi : option Q) : val :=
  if fixd then VL [v_oq (scaled_lower ref ref0 lo hi); v_oq (scaled_upper ref ref0 lo hi)]
  else VL [v_oq (scaled_lower_cur ref ref0 lo hi); v_oq (scaled_upper_cur ref ref0 lo hi)].
