(* C10 — property theorems (statements only; proofs by [exact] of lemmas in Proofs*.v).
   Quantification: vectors of any length, all rational values, all bound patterns (each bound
   finite or infinite), every alpha > 0, all three enforcement methods, every scaling ref <> ref0. *)
From Coq Require Import ZArith QArith List Bool.
From OMV Require Import Base.Val C10.Model C10.ProofsKernel C10.ProofsScale.
Import ListNotations.
Open Scope Q_scope.

(* Kernels (scaled space).  [ps] pairs every entry as the kernel sees it (u = value after
   alpha*du was added, du, lo, hi) with its start u0; [good]: u == u0 + alpha du and lo <= u0 <= hi.
   [post alpha t]: the point reached with step length t, u' + (t - alpha) du', is within the bounds
   and between u0 and the full step u.  t = alpha is the enforced point itself, the other t in
   [0, alpha] are the later backtracking points of ArmijoGoldsteinLS. *)
Theorem C10_enforce_in_bounds_along_step : forall m alpha t ps,
  0 < alpha -> 0 <= t -> t <= alpha -> Forall (good alpha) ps ->
  Forall2 (post alpha t) ps (enforce m alpha (map fst ps)).
Proof. exact enforce_post. Qed.
Print Assumptions C10_enforce_in_bounds_along_step.

(* the enforced point: within the bounds, never opposite to the step, never beyond it *)
Theorem C10_enforce_in_bounds : forall m alpha ps,
  0 < alpha -> Forall (good alpha) ps -> Forall2 post0 ps (enforce m alpha (map fst ps)).
Proof. exact enforce_in_bounds. Qed.
Print Assumptions C10_enforce_in_bounds.

(* vector enforcement: the required change in step size satisfies 0 <= d_alpha <= alpha (the
   comment in _enforce_bounds_vector) *)
Theorem C10_vector_dalpha_range : forall alpha ps,
  0 < alpha -> Forall (good alpha) ps ->
  0 <= vec_dalpha (map fst ps) /\ vec_dalpha (map fst ps) <= alpha.
Proof. exact vector_dalpha_range. Qed.
Print Assumptions C10_vector_dalpha_range.

(* vector enforcement with the clamp of props/C10/fix_2.diff: whatever the bounds and whatever the
   relation between u and the start (no premise - covers u = fl(u0 + alpha du) perturbed by rounding),
   no entry is moved opposite to the step or beyond it *)
Theorem C10_vector_clamped_along_step : forall alpha es e',
  0 < alpha -> In e' (combine es (enforce_vector alpha es)) ->
  between (e_u (fst e') - alpha * e_du (fst e')) (e_u (fst e')) (e_u (snd e')).
Proof. exact vector_clamped_along_step. Qed.
Print Assumptions C10_vector_clamped_along_step.

(* ... which the kernel before that fix violates as soon as u is not exactly u0 + alpha du *)
Theorem C10_vector_unclamped_refuted :
  let es := [mkent 8 8 None (Some 100); mkent (2003#2000) (1#1000) None (Some 1)] in
  exists a b, enforce_vector_cur 1 es = [a; b] /\ vec_dalpha es == 3#2 /\
              e_u a == -4 /\ ~ between (8 - 1 * 8) 8 (e_u a).
Proof. exact vector_unclamped_refuted. Qed.
Print Assumptions C10_vector_unclamped_refuted.

(* wall enforcement: an entry moved to its bound has a zero step afterwards *)
Theorem C10_wall_du_zero : forall alpha e, ~ change e == 0 -> e_du (wall_ent alpha e) = 0.
Proof. exact wall_du_zero. Qed.
Print Assumptions C10_wall_du_zero.

(* every later ArmijoGoldstein iterate u += (alpha_new - alpha_old) du, with step lengths in
   [0, alpha] (alpha rho^k, 0 <= rho <= 1), stays within the bounds and between start and full step *)
Theorem C10_ag_stays_in_bounds : forall m alpha alphas ps,
  0 < alpha -> Forall (good alpha) ps -> Forall (fun a => 0 <= a /\ a <= alpha) alphas ->
  Forall2 post0 ps (ag_steps alpha alphas (enforce m alpha (map fst ps))).
Proof. exact ag_stays_in_bounds. Qed.
Print Assumptions C10_ag_stays_in_bounds.

(* _setup_solvers as it is in the pinned commit is right for ref > ref0 ... *)
Theorem C10_scaled_bounds_orientation : forall ref ref0 lo hi x,
  ref0 < ref ->
  (inb lo hi x <->
   inb (scaled_lower_cur ref ref0 lo hi) (scaled_upper_cur ref ref0 lo hi) (to_scaled ref ref0 x)).
Proof. exact scaled_bounds_orientation. Qed.
Print Assumptions C10_scaled_bounds_orientation.

(* ... and wrong for ref < ref0: the mapped lower exceeds the mapped upper, a point within the
   physical bounds is outside the mapped ones *)
Theorem C10_scaled_bounds_reversed_refuted :
  exists ref ref0 lo hi x,
    ref < ref0 /\ inb (Some lo) (Some hi) x /\
    (exists l' h', scaled_lower_cur ref ref0 (Some lo) (Some hi) = Some l' /\
                   scaled_upper_cur ref ref0 (Some lo) (Some hi) = Some h' /\ h' < l') /\
    ~ inb (scaled_lower_cur ref ref0 (Some lo) (Some hi)) (scaled_upper_cur ref ref0 (Some lo) (Some hi))
          (to_scaled ref ref0 x).
Proof. exact scaled_bounds_reversed_refuted. Qed.
Print Assumptions C10_scaled_bounds_reversed_refuted.

(* ... so that the update of the pinned commit violates the property: moves opposite to the Newton
   step (all methods), or leaves the bounds *)
Theorem C10_phys_update_present_code_refuted :
  let p := mkpent 1 9 (Some (1#2)) (Some 3) (1#2) 2 in
  let p2 := mkpent (1#2) 4 None (Some 2) (-1) 0 in
  (forall m, m <> Vector -> exists x, phys_update_cur m 1 [p] = [x] /\ x == 1#2 /\ x < p_x0 p /\ 0 < p_step p) /\
  (forall m, exists x, phys_update_cur m 1 [p2] = [x] /\ x == 9#2 /\ ~ inb (p_lo p2) (p_hi p2) x).
Proof. exact phys_update_cur_refuted. Qed.
Print Assumptions C10_phys_update_present_code_refuted.

(* the repaired mapping (props/C10/fix_1.diff) is right for every scaling *)
Theorem C10_scaled_bounds_repaired : forall ref ref0 lo hi x,
  ~ ref == ref0 ->
  (inb lo hi x <->
   inb (scaled_lower ref ref0 lo hi) (scaled_upper ref ref0 lo hi) (to_scaled ref ref0 x)).
Proof. exact scaled_bounds_repaired. Qed.
Print Assumptions C10_scaled_bounds_repaired.

(* End to end in physical units (repaired mapping): from a start within the declared bounds, for
   any method, any length, any ref/ref0 with ref <> ref0 (ref < ref0 and negative ref included),
   every output stays within [lower, upper] and lies between its start and start + alpha * step. *)
Theorem C10_phys_update_in_bounds : forall m alpha ps,
  0 < alpha -> Forall pgood ps -> Forall2 (ppost alpha) ps (phys_update m alpha ps).
Proof. exact phys_update_in_bounds. Qed.
Print Assumptions C10_phys_update_in_bounds.
