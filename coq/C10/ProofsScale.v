(* C10 — the bounds mapped into the scaled space (LinesearchSolver._setup_solvers) and the
   end-to-end statement in physical units, for every non-degenerate scaling ref <> ref0. *)
From Coq Require Import ZArith QArith Qminmax Qabs List Bool Lqa.
From OMV Require Import Base.Val C10.Model C10.ProofsKernel.
Import ListNotations.
Open Scope Q_scope.

Lemma scaled_le_pos : forall s a b, 0 < s -> (a / s <= b / s <-> a <= b).
Proof.
  intros s a b Hs. unfold Qdiv. apply Qmult_le_r. apply Qinv_lt_0_compat; auto.
Qed.

Lemma scaled_le_neg : forall s a b, s < 0 -> (a / s <= b / s <-> b <= a).
Proof.
  intros s a b Hs.
  assert (E : forall x, x / s == (- x) / (- s)) by (intros; field; lra).
  rewrite (E a), (E b). rewrite scaled_le_pos by lra. split; lra.
Qed.

(* present code, ref > ref0: the mapping preserves "within the bounds" *)
Lemma scaled_bounds_orientation : forall ref ref0 lo hi x,
  ref0 < ref ->
  (inb lo hi x <->
   inb (scaled_lower_cur ref ref0 lo hi) (scaled_upper_cur ref ref0 lo hi) (to_scaled ref ref0 x)).
Proof.
  intros ref ref0 lo hi x H. unfold inb, scaled_lower_cur, scaled_upper_cur, to_scaled, ole, leo.
  destruct lo as [l|], hi as [h|]; cbn; rewrite ?scaled_le_pos by lra; split; intros [A B]; split; auto; lra.
Qed.

(* present code, ref < ref0: the mapped "lower" exceeds the mapped "upper"; a point within the
   physical bounds is outside the mapped ones *)
Lemma scaled_bounds_reversed_refuted :
  exists ref ref0 lo hi x,
    ref < ref0 /\ inb (Some lo) (Some hi) x /\
    (exists l' h', scaled_lower_cur ref ref0 (Some lo) (Some hi) = Some l' /\
                   scaled_upper_cur ref ref0 (Some lo) (Some hi) = Some h' /\ h' < l') /\
    ~ inb (scaled_lower_cur ref ref0 (Some lo) (Some hi)) (scaled_upper_cur ref ref0 (Some lo) (Some hi))
          (to_scaled ref ref0 x).
Proof.
  exists (1#2), 2, (1#2), 3, 1.
  split; [vm_compute; reflexivity|].
  split; [split; vm_compute; discriminate|].
  split.
  - eexists; eexists. split; [reflexivity|]. split; [reflexivity|]. vm_compute; reflexivity.
  - intros [A _]. vm_compute in A. apply A; reflexivity.
Qed.

(* ... and the whole update then violates the property (DESIGN section 6): start 1 within
   [1/2, 3], ref = 1/2, ref0 = 2, Newton step +9 (to 10): scalar and wall land on 1/2, i.e. move
   opposite to the step; with only an upper bound 2, ref = -1, start 1/2 and step +4 nothing is
   enforced by any method and the output leaves the bounds (9/2) *)
Lemma phys_update_cur_refuted :
  let p := mkpent 1 9 (Some (1#2)) (Some 3) (1#2) 2 in
  let p2 := mkpent (1#2) 4 None (Some 2) (-1) 0 in
  (forall m, m <> Vector -> exists x, phys_update_cur m 1 [p] = [x] /\ x == 1#2 /\ x < p_x0 p /\ 0 < p_step p) /\
  (forall m, exists x, phys_update_cur m 1 [p2] = [x] /\ x == 9#2 /\ ~ inb (p_lo p2) (p_hi p2) x).
Proof.
  cbn zeta. split; intros m.
  - intros Hm. destruct m; [contradiction| |];
      eexists; (split; [vm_compute; reflexivity|]); repeat split; vm_compute; reflexivity.
  - destruct m; eexists; (split; [vm_compute; reflexivity|]); (split; [vm_compute; reflexivity|]);
      intros [_ B]; vm_compute in B; apply B; reflexivity.
Qed.

(* repaired mapping: correct for every scaling ref <> ref0 *)
Lemma scaled_bounds_repaired : forall ref ref0 lo hi x,
  ~ ref == ref0 ->
  (inb lo hi x <->
   inb (scaled_lower ref ref0 lo hi) (scaled_upper ref ref0 lo hi) (to_scaled ref ref0 x)).
Proof.
  intros ref ref0 lo hi x H. unfold inb, scaled_lower, scaled_upper, to_scaled, ole, leo.
  destruct (Qlt_bool (ref - ref0) 0) eqn:S.
  - apply Qlt_bool_iff in S.
    destruct lo as [l|], hi as [h|]; cbn; rewrite ?scaled_le_neg by lra; split; intros [A B]; split; auto; lra.
  - apply Qlt_bool_false in S. assert (0 < ref - ref0) by (destruct (Qlt_le_dec 0 (ref - ref0)); auto; exfalso; apply H; lra).
    destruct lo as [l|], hi as [h|]; cbn; rewrite ?scaled_le_pos by lra; split; intros [A B]; split; auto; lra.
Qed.

Lemma to_phys_scaled : forall ref ref0 x, ~ ref == ref0 -> to_phys ref ref0 (to_scaled ref ref0 x) == x.
Proof. intros; unfold to_phys, to_scaled; field; lra. Qed.

Lemma to_scaled_phys : forall ref ref0 u, ~ ref == ref0 -> to_scaled ref ref0 (to_phys ref ref0 u) == u.
Proof. intros; unfold to_phys, to_scaled; field; lra. Qed.

Lemma between_affine : forall r0 s a b x, between a b x -> between (r0 + a * s) (r0 + b * s) (r0 + x * s).
Proof.
  unfold between; intros r0 s a b x H.
  destruct (Qlt_le_dec s 0); destruct H as [[H1 H2]|[H1 H2]]; [right|left|left|right]; split; nra.
Qed.

Definition pgood (p : pent) : Prop := inb (p_lo p) (p_hi p) (p_x0 p) /\ ~ p_ref p == p_ref0 p.

(* the property in physical units for one entry *)
Definition ppost (alpha : Q) (p : pent) (x' : Q) : Prop :=
  inb (p_lo p) (p_hi p) x' /\ between (p_x0 p) (p_x0 p + alpha * p_step p) x'.

Lemma scale_ent_good : forall alpha p, pgood p ->
  good alpha (scale_ent_gen true alpha p, to_scaled (p_ref p) (p_ref0 p) (p_x0 p)).
Proof.
  intros alpha p [I N]. unfold good, scale_ent_gen; cbn [fst snd e_u e_du e_lo e_hi]. split; [reflexivity|].
  apply scaled_bounds_repaired; auto.
Qed.

Lemma phys_of_post0 : forall alpha p e',
  pgood p ->
  post0 (scale_ent_gen true alpha p, to_scaled (p_ref p) (p_ref0 p) (p_x0 p)) e' ->
  ppost alpha p (to_phys (p_ref p) (p_ref0 p) (e_u e')).
Proof.
  intros alpha p e' [I N] [P1 P2]. unfold scale_ent_gen in *; cbn [fst snd e_u e_du e_lo e_hi] in *.
  unfold ppost. split.
  - apply (scaled_bounds_repaired (p_ref p) (p_ref0 p)); auto.
    eapply inb_eq; [symmetry; apply to_scaled_phys; auto|exact P1].
  - pose proof (between_affine (p_ref0 p) (p_ref p - p_ref0 p) _ _ _ P2) as B.
    eapply between_eq; [| |reflexivity|exact B].
    + unfold to_scaled. field. lra.
    + unfold to_scaled. field. lra.
Qed.

Lemma map_fst_combine_self : forall alpha (ps : list pent),
  map fst (map (fun p => (scale_ent_gen true alpha p, to_scaled (p_ref p) (p_ref0 p) (p_x0 p))) ps)
  = map (scale_ent_gen true alpha) ps.
Proof. intros; rewrite map_map; reflexivity. Qed.

(* End to end, repaired mapping, any method, any length, any scaling with ref <> ref0: starting
   within the declared bounds, every bounded output stays within [lower, upper] in physical units,
   and no entry moves opposite to its Newton step or beyond alpha times it. *)
Lemma phys_update_in_bounds : forall m alpha ps,
  0 < alpha -> Forall pgood ps ->
  Forall2 (ppost alpha) ps (phys_update m alpha ps).
Proof.
  intros m alpha ps Ha G.
  set (qs := map (fun p => (scale_ent_gen true alpha p, to_scaled (p_ref p) (p_ref0 p) (p_x0 p))) ps).
  assert (GQ : Forall (good alpha) qs).
  { unfold qs. apply Forall_forall. intros q Hq. apply in_map_iff in Hq as (p & Hp & Hin). subst q.
    apply scale_ent_good. rewrite Forall_forall in G; auto. }
  pose proof (enforce_in_bounds m alpha qs Ha GQ) as P.
  unfold qs in P at 2. rewrite map_fst_combine_self in P.
  unfold phys_update, phys_update_gen.
  remember (enforce m alpha (map (scale_ent_gen true alpha) ps)) as es' eqn:Ees. clear Ees.
  unfold qs in P. clear qs GQ.
  revert es' P. induction ps as [|p ps IH]; intros es' P.
  - inversion P; subst. constructor.
  - cbn [map] in P. inversion P as [|q e' qs' es'' Hq Hrest]; subst. cbn [combine map fst snd].
    inversion G; subst. constructor.
    + apply phys_of_post0; auto.
    + apply IH; auto.
Qed.

(* non-vacuity: a repaired run on the witness of the refutation stays within the bounds and moves along the step *)
Example phys_update_witness :
  let p := mkpent 1 9 (Some (1#2)) (Some 3) (1#2) 2 in
  pgood p /\ (exists x, phys_update Scalar 1 [p] = [x] /\ x == 3) /\
  (exists x, phys_update Vector 1 [p] = [x] /\ x == 3).
Proof.
  cbn zeta. split; [split; [split; cbn; lra | cbn; lra]|].
  split; eexists; (split; [vm_compute; reflexivity | reflexivity]).
Qed.
