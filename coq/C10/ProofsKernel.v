(* C10 — proofs about the three enforcement kernels and the ArmijoGoldstein backtracking update,
   over the rationals with extended-rational bounds, for vectors of ANY length. *)
From Coq Require Import ZArith QArith Qminmax Qabs List Bool Lqa.
From OMV Require Import Base.Val C10.Model.
Import ListNotations.
Open Scope Q_scope.

(* ---------- small facts ---------- *)

Lemma Qlt_bool_iff : forall a b, Qlt_bool a b = true <-> a < b.
Proof.
  intros a b. unfold Qlt_bool. rewrite negb_true_iff. split; intros H.
  - apply Qnot_le_lt. intros L. apply Qle_bool_iff in L. congruence.
  - destruct (Qle_bool b a) eqn:E; [|reflexivity]. apply Qle_bool_iff in E. lra.
Qed.

Lemma Qlt_bool_false : forall a b, Qlt_bool a b = false <-> b <= a.
Proof.
  intros a b. unfold Qlt_bool. rewrite negb_false_iff. apply Qle_bool_iff.
Qed.

Lemma Qnz_true : forall a, Qnz a = true <-> ~ a == 0.
Proof.
  intros a. unfold Qnz. rewrite negb_true_iff. split; intros H.
  - intros E. apply Qeq_bool_iff in E. congruence.
  - destruct (Qeq_bool a 0) eqn:E; [|reflexivity]. apply Qeq_bool_iff in E. contradiction.
Qed.

Lemma Qnz_false : forall a, Qnz a = false <-> a == 0.
Proof. intros a. unfold Qnz. rewrite negb_false_iff. apply Qeq_bool_iff. Qed.

Lemma div_mul : forall a b, ~ b == 0 -> (a / b) * b == a.
Proof. intros; field; auto. Qed.

(* ---------- the specification predicates respect == ---------- *)

Lemma inb_eq : forall lo hi x y, x == y -> inb lo hi x -> inb lo hi y.
Proof.
  unfold inb, ole, leo; intros lo hi x y E [A B]; split.
  - destruct lo; auto; lra.
  - destruct hi; auto; lra.
Qed.

Lemma between_eq : forall a b x a' b' x',
  a == a' -> b == b' -> x == x' -> between a b x -> between a' b' x'.
Proof. unfold between; intros; lra. Qed.

Lemma between_refl_r : forall a b, between a b b.
Proof. unfold between; intros. destruct (Qlt_le_dec a b); [left|right]; lra. Qed.

Lemma between_trans : forall a b c w, between a b c -> between a c w -> between a b w.
Proof. unfold between; intros; lra. Qed.

Lemma inb_between : forall lo hi a b w, inb lo hi a -> inb lo hi b -> between a b w -> inb lo hi w.
Proof.
  unfold inb, ole, leo, between; intros lo hi a b w [A1 A2] [B1 B2] H; split.
  - destruct lo; auto; lra.
  - destruct hi; auto; lra.
Qed.

Lemma convex_between : forall a b lam, 0 <= lam -> lam <= 1 -> between a b (a + lam * (b - a)).
Proof.
  unfold between; intros a b lam H0 H1.
  destruct (Qlt_le_dec a b); [left|right]; split; nra.
Qed.

(* the point reached with step length t when the enforced pair (u', du') satisfies
   u' == u0 + alpha du' is the convex combination u0 + (t/alpha)(u' - u0) *)
Lemma step_point : forall alpha t u0 u' du',
  0 < alpha -> u' == u0 + alpha * du' ->
  u' + (t - alpha) * du' == u0 + (t / alpha) * (u' - u0).
Proof.
  intros alpha t u0 u' du' Ha E.
  rewrite E. field. lra.
Qed.

Lemma ratio_range : forall alpha t, 0 < alpha -> 0 <= t -> t <= alpha -> 0 <= t / alpha /\ t / alpha <= 1.
Proof.
  intros alpha t Ha H0 H1. split.
  - apply Qle_shift_div_l; lra.
  - apply Qle_shift_div_r; lra.
Qed.

(* generic conclusion: from u' in bounds, between u0 and u, and u' == u0 + alpha du', every point
   u' + (t - alpha) du' with 0 <= t <= alpha is in bounds and between u0 and u *)
Lemma along_step : forall lo hi alpha t u0 u u' du',
  0 < alpha -> 0 <= t -> t <= alpha ->
  inb lo hi u0 -> inb lo hi u' -> between u0 u u' -> u' == u0 + alpha * du' ->
  inb lo hi (u' + (t - alpha) * du') /\ between u0 u (u' + (t - alpha) * du').
Proof.
  intros lo hi alpha t u0 u u' du' Ha H0 H1 I0 I' B E.
  destruct (ratio_range alpha t Ha H0 H1) as [R0 R1].
  assert (W : between u0 u' (u' + (t - alpha) * du')).
  { apply (between_eq u0 u' (u0 + (t / alpha) * (u' - u0)) u0 u' (u' + (t - alpha) * du'));
      [reflexivity | reflexivity | symmetry; apply step_point; auto | apply convex_between; auto]. }
  split.
  - apply (inb_between lo hi u0 u'); auto.
  - apply (between_trans u0 u u'); auto.
Qed.

(* ---------- scalar / wall: the clamp ---------- *)

(* a good entry: u is the full-step point u0 + alpha du, and the start u0 is within the bounds *)
Definition good (alpha : Q) (p : ent * Q) : Prop :=
  e_u (fst p) == snd p + alpha * e_du (fst p) /\ inb (e_lo (fst p)) (e_hi (fst p)) (snd p).

Lemma clamp_spec : forall e u0,
  inb (e_lo e) (e_hi e) u0 ->
  inb (e_lo e) (e_hi e) (e_u e + change e) /\ between u0 (e_u e) (e_u e + change e).
Proof.
  intros e u0 [A B]. unfold change, change_lower, change_upper, inb, ole, leo, between in *.
  destruct (e_lo e) as [l|], (e_hi e) as [h|]; cbn in *.
  - destruct (Q.max_spec (e_u e) l) as [[M1 M2]|[M1 M2]], (Q.min_spec (e_u e) h) as [[N1 N2]|[N1 N2]]; lra.
  - destruct (Q.max_spec (e_u e) l) as [[M1 M2]|[M1 M2]]; lra.
  - destruct (Q.min_spec (e_u e) h) as [[N1 N2]|[N1 N2]]; lra.
  - lra.
Qed.

(* post-condition of one entry: every backtracking point with step length t in [0, alpha] *)
Definition post (alpha t : Q) (p : ent * Q) (e' : ent) : Prop :=
  let w := e_u e' + (t - alpha) * e_du e' in
  inb (e_lo (fst p)) (e_hi (fst p)) w /\ between (snd p) (e_u (fst p)) w.

Lemma scalar_ent_post : forall alpha t p,
  0 < alpha -> 0 <= t -> t <= alpha -> good alpha p -> post alpha t p (scalar_ent alpha (fst p)).
Proof.
  intros alpha t [e u0] Ha H0 H1 [E I]; cbn [fst snd] in *.
  destruct (clamp_spec e u0 I) as (I' & B).
  unfold post, scalar_ent; cbn [fst snd e_u e_du].
  apply along_step; auto.
  rewrite E. field. lra.
Qed.

Lemma wall_ent_post : forall alpha t p,
  0 < alpha -> 0 <= t -> t <= alpha -> good alpha p -> post alpha t p (wall_ent alpha (fst p)).
Proof.
  intros alpha t [e u0] Ha H0 H1 [E I]; cbn [fst snd] in *.
  destruct (clamp_spec e u0 I) as (I' & B).
  unfold post, wall_ent; cbn [fst snd e_u e_du].
  destruct (Qnz (change e)) eqn:Z.
  - (* entry moved to its bound: du := 0, it stays there *)
    split.
    + eapply inb_eq; [|exact I']. ring.
    + eapply between_eq; [reflexivity | reflexivity | | exact B]. ring.
  - apply Qnz_false in Z.
    apply along_step; auto.
    rewrite E, Z. field. lra.
Qed.

Lemma Forall2_map_fst : forall (R : ent * Q -> ent -> Prop) (f : ent -> ent) ps,
  (forall p, In p ps -> R p (f (fst p))) -> Forall2 R ps (map f (map fst ps)).
Proof.
  induction ps as [|p ps IH]; intros H; cbn; constructor.
  - apply H; left; auto.
  - apply IH; intros; apply H; right; auto.
Qed.

Lemma Forall2_fst : forall (R : ent * Q -> ent -> Prop) ps,
  (forall p, In p ps -> R p (fst p)) -> Forall2 R ps (map fst ps).
Proof.
  induction ps as [|p ps IH]; intros H; cbn; constructor.
  - apply H; left; auto.
  - apply IH; intros; apply H; right; auto.
Qed.

Lemma scalar_post : forall alpha t ps,
  0 < alpha -> 0 <= t -> t <= alpha -> Forall (good alpha) ps ->
  Forall2 (post alpha t) ps (enforce_scalar alpha (map fst ps)).
Proof.
  intros alpha t ps Ha H0 H1 G. unfold enforce_scalar.
  apply Forall2_map_fst. intros p Hp. apply scalar_ent_post; auto.
  rewrite Forall_forall in G; auto.
Qed.

Lemma wall_post : forall alpha t ps,
  0 < alpha -> 0 <= t -> t <= alpha -> Forall (good alpha) ps ->
  Forall2 (post alpha t) ps (enforce_wall alpha (map fst ps)).
Proof.
  intros alpha t ps Ha H0 H1 G. unfold enforce_wall.
  apply Forall2_map_fst. intros p Hp. apply wall_ent_post; auto.
  rewrite Forall_forall in G; auto.
Qed.

(* wall: an entry that was moved to its bound has a zero step afterwards *)
Lemma wall_du_zero : forall alpha e, ~ change e == 0 -> e_du (wall_ent alpha e) = 0.
Proof.
  intros alpha e H. unfold wall_ent; cbn. apply Qnz_true in H. rewrite H. reflexivity.
Qed.

(* ---------- vector ---------- *)

Lemma amax_ge : forall l c, In (Some c) l -> exists m, amax l = Some m /\ c <= m.
Proof.
  induction l as [|a l IH]; intros c H; [destruct H|].
  cbn [amax fold_right]. fold (amax l). destruct H as [H|H].
  - subst a. destruct (amax l) as [y|]; cbn.
    + exists (Qmax c y); split; auto. apply Q.le_max_l.
    + exists c; split; auto; lra.
  - destruct (IH c H) as (m & Hm & Hc). rewrite Hm. destruct a as [x|]; cbn.
    + exists (Qmax x m); split; auto. pose proof (Q.le_max_r x m); lra.
    + exists m; auto.
Qed.

Lemma amax_le : forall l B, (forall c, In (Some c) l -> c <= B) -> forall m, amax l = Some m -> m <= B.
Proof.
  induction l as [|a l IH]; intros B H m Hm; [discriminate|].
  cbn [amax fold_right] in Hm. fold (amax l) in Hm.
  destruct a as [x|], (amax l) as [y|] eqn:A; cbn in Hm; inversion Hm; subst.
  - apply Q.max_lub; [apply H; left; auto | eapply IH; eauto; intros; apply H; right; auto].
  - apply H; left; auto.
  - eapply IH; eauto; intros; apply H; right; auto.
Qed.

(* d2 := if m > d then m else d *)
Definition bump (m : option Q) (d : Q) : Q := if ogt m d then oget m d else d.

Lemma bump_ge : forall m d, d <= bump m d.
Proof.
  intros m d. unfold bump, ogt, oget. destruct m as [x|]; [|lra].
  destruct (Qlt_bool d x) eqn:E; [apply Qlt_bool_iff in E|]; lra.
Qed.

Lemma bump_ge_m : forall x d, x <= bump (Some x) d.
Proof.
  intros x d. unfold bump, ogt, oget.
  destruct (Qlt_bool d x) eqn:E; [lra | apply Qlt_bool_false in E; lra].
Qed.

Lemma bump_le : forall m d B, d <= B -> (forall x, m = Some x -> x <= B) -> bump m d <= B.
Proof.
  intros m d B Hd Hm. unfold bump, ogt, oget. destruct m as [x|]; auto.
  destruct (Qlt_bool d x); auto.
Qed.

Lemma vd_empty : forall es, masked es = [] -> vec_dalpha es = 0.
Proof. intros es H; unfold vec_dalpha; rewrite H; reflexivity. Qed.

Lemma vd_nonempty : forall es, masked es <> [] ->
  vec_dalpha es = bump (amax (map cand_hi (masked es))) (bump (amax (map cand_lo (masked es))) 0).
Proof. intros es H; unfold vec_dalpha, bump. destruct (masked es); [contradiction|reflexivity]. Qed.

Lemma vd_nonneg : forall es, 0 <= vec_dalpha es.
Proof.
  intros es. destruct (masked es) as [|e ms] eqn:M.
  - rewrite vd_empty by auto. lra.
  - rewrite vd_nonempty by (rewrite M; discriminate).
    eapply Qle_trans; [|apply bump_ge]. apply bump_ge.
Qed.

Lemma in_masked : forall es e, In e es -> Qnz (e_du e) = true -> In e (masked es).
Proof. intros; unfold masked; apply filter_In; auto. Qed.

Lemma vd_ge_lo : forall es e c, In e es -> Qnz (e_du e) = true -> cand_lo e = Some c -> c <= vec_dalpha es.
Proof.
  intros es e c Hin Hnz Hc.
  pose proof (in_masked es e Hin Hnz) as Hm.
  rewrite vd_nonempty by (intros E; rewrite E in Hm; destruct Hm).
  assert (Hi : In (Some c) (map cand_lo (masked es))) by (rewrite <- Hc; apply in_map; auto).
  destruct (amax_ge _ _ Hi) as (m & Hma & Hle). rewrite Hma.
  eapply Qle_trans; [|apply bump_ge]. eapply Qle_trans; [exact Hle|apply bump_ge_m].
Qed.

Lemma vd_ge_hi : forall es e c, In e es -> Qnz (e_du e) = true -> cand_hi e = Some c -> c <= vec_dalpha es.
Proof.
  intros es e c Hin Hnz Hc.
  pose proof (in_masked es e Hin Hnz) as Hm.
  rewrite vd_nonempty by (intros E; rewrite E in Hm; destruct Hm).
  assert (Hi : In (Some c) (map cand_hi (masked es))) by (rewrite <- Hc; apply in_map; auto).
  destruct (amax_ge _ _ Hi) as (m & Hma & Hle). rewrite Hma.
  eapply Qle_trans; [exact Hle|apply bump_ge_m].
Qed.

Lemma vd_le : forall es B, 0 <= B ->
  (forall e c, In e es -> Qnz (e_du e) = true -> cand_lo e = Some c -> c <= B) ->
  (forall e c, In e es -> Qnz (e_du e) = true -> cand_hi e = Some c -> c <= B) ->
  vec_dalpha es <= B.
Proof.
  intros es B HB Hl Hh.
  destruct (masked es) as [|e0 ms] eqn:M; [rewrite vd_empty by auto; exact HB|].
  rewrite vd_nonempty by (rewrite M; discriminate).
  assert (Hsub : forall e, In e (masked es) -> In e es /\ Qnz (e_du e) = true).
  { intros e He. unfold masked in He. apply filter_In in He. exact He. }
  apply bump_le; [apply bump_le; auto|].
  - intros x Hx. eapply amax_le; [|exact Hx]. intros c Hc.
    apply in_map_iff in Hc as (e & Hce & He). destruct (Hsub e He). eapply Hl; eauto.
  - intros x Hx. eapply amax_le; [|exact Hx]. intros c Hc.
    apply in_map_iff in Hc as (e & Hce & He). destruct (Hsub e He). eapply Hh; eauto.
Qed.

Lemma Qabs_nz_pos : forall x, ~ x == 0 -> 0 < Qabs x.
Proof.
  intros x H. destruct (Qlt_le_dec 0 (Qabs x)); auto.
  pose proof (Qabs_nonneg x). assert (E : Qabs x == 0) by lra.
  destruct (Qlt_le_dec x 0).
  - rewrite Qabs_neg in E by lra. exfalso; apply H; lra.
  - rewrite Qabs_pos in E by lra. contradiction.
Qed.

(* 0 <= d_alpha <= alpha whenever the starting point is within the bounds *)
Lemma vector_dalpha_range : forall alpha ps,
  0 < alpha -> Forall (good alpha) ps ->
  0 <= vec_dalpha (map fst ps) /\ vec_dalpha (map fst ps) <= alpha.
Proof.
  intros alpha ps Ha G. split; [apply vd_nonneg|].
  rewrite Forall_forall in G.
  apply vd_le; [lra| |]; intros e c Hin Hnz Hc; apply in_map_iff in Hin as ([e1 u0] & He & Hp);
    cbn in He; subst e1; destruct (G _ Hp) as [E [I1 I2]]; cbn [fst snd] in *;
    apply Qnz_true in Hnz; pose proof (Qabs_nz_pos _ Hnz) as Hpos.
  - unfold cand_lo in Hc. destruct (e_lo e) as [l|]; [|discriminate]. inversion Hc; subst c; clear Hc.
    cbn in I1. apply Qle_shift_div_r; auto.
    destruct (Qlt_le_dec (e_du e) 0).
    + rewrite Qabs_neg by lra. nra.
    + rewrite Qabs_pos by lra. nra.
  - unfold cand_hi in Hc. destruct (e_hi e) as [h|]; [|discriminate]. inversion Hc; subst c; clear Hc.
    cbn in I2. apply Qle_shift_div_r; auto.
    destruct (Qlt_le_dec (e_du e) 0).
    + rewrite Qabs_neg by lra. nra.
    + rewrite Qabs_pos by lra. nra.
Qed.

(* the entry after the vector enforcement with backtracking amount d *)
Lemma vector_ent_inb : forall alpha ps p,
  0 < alpha -> Forall (good alpha) ps -> In p ps ->
  let d := vec_dalpha (map fst ps) in
  inb (e_lo (fst p)) (e_hi (fst p)) (e_u (fst p) + (- d) * e_du (fst p)).
Proof.
  intros alpha ps [e u0] Ha G Hp d.
  destruct (vector_dalpha_range alpha ps Ha G) as [D0 D1]. fold d in D0, D1.
  rewrite Forall_forall in G. destruct (G _ Hp) as [E [I1 I2]]. cbn [fst snd] in *.
  assert (Hin : In e (map fst ps)) by (apply in_map_iff; exists (e, u0); auto).
  destruct (Qnz (e_du e)) eqn:Z.
  - pose proof Z as Z'. apply Qnz_true in Z'. pose proof (Qabs_nz_pos _ Z') as Hpos.
    split.
    + unfold ole. destruct (e_lo e) as [l|] eqn:L; auto. cbn in I1.
      pose proof (vd_ge_lo (map fst ps) e ((l - e_u e) / Qabs (e_du e)) Hin Z) as Hc.
      unfold cand_lo in Hc. rewrite L in Hc. specialize (Hc eq_refl). fold d in Hc.
      assert (M : l - e_u e <= d * Qabs (e_du e)).
      { rewrite <- (div_mul (l - e_u e) (Qabs (e_du e))) by lra. apply Qmult_le_compat_r; lra. }
      destruct (Qlt_le_dec (e_du e) 0).
      * rewrite Qabs_neg in M by lra. lra.
      * nra.
    + unfold leo. destruct (e_hi e) as [h|] eqn:Hh; auto. cbn in I2.
      pose proof (vd_ge_hi (map fst ps) e ((e_u e - h) / Qabs (e_du e)) Hin Z) as Hc.
      unfold cand_hi in Hc. rewrite Hh in Hc. specialize (Hc eq_refl). fold d in Hc.
      assert (M : e_u e - h <= d * Qabs (e_du e)).
      { rewrite <- (div_mul (e_u e - h) (Qabs (e_du e))) by lra. apply Qmult_le_compat_r; lra. }
      destruct (Qlt_le_dec (e_du e) 0).
      * nra.
      * rewrite Qabs_pos in M by lra. lra.
  - apply Qnz_false in Z. eapply inb_eq; [|split; [exact I1|exact I2]]. rewrite E, Z. ring.
Qed.

Lemma vector_ent_post : forall alpha t ps p,
  0 < alpha -> 0 <= t -> t <= alpha -> Forall (good alpha) ps -> In p ps ->
  post alpha t p (vector_ent alpha (vec_dalpha (map fst ps)) (fst p)).
Proof.
  intros alpha t ps p Ha H0 H1 G Hp.
  pose proof (vector_ent_inb alpha ps p Ha G Hp) as I'. cbn zeta in I'.
  destruct (vector_dalpha_range alpha ps Ha G) as [D0 D1].
  set (d := vec_dalpha (map fst ps)) in *.
  rewrite Forall_forall in G. destruct (G _ Hp) as [E I]. destruct p as [e u0]; cbn [fst snd] in *.
  unfold post, vector_ent; cbn [fst snd e_u e_du].
  apply along_step; auto.
  - (* between u0 and the full step *)
    eapply between_eq with (a := u0) (b := e_u e) (x := u0 + ((alpha - d) / alpha) * (e_u e - u0));
      try reflexivity.
    + rewrite E. field. lra.
    + destruct (ratio_range alpha (alpha - d) Ha) as [R0 R1]; try lra.
      apply convex_between; auto.
  - rewrite E. field. lra.
Qed.

(* under the premises the clamp of fix_2.diff is the identity *)
Lemma clampd_id : forall alpha d, d <= alpha -> clampd alpha d = d.
Proof.
  intros alpha d H. unfold clampd. destruct (Qlt_bool alpha d) eqn:E; [|reflexivity].
  apply Qlt_bool_iff in E. lra.
Qed.

Lemma clampd_range : forall alpha d, 0 < alpha -> 0 <= d -> 0 <= clampd alpha d /\ clampd alpha d <= alpha.
Proof.
  intros alpha d Ha Hd. unfold clampd. destruct (Qlt_bool alpha d) eqn:E.
  - lra.
  - apply Qlt_bool_false in E. lra.
Qed.

Lemma in_combine_map : forall (f : ent -> ent) es e r, In (e, r) (combine es (map f es)) -> r = f e.
Proof.
  induction es as [|a es IH]; cbn; intros e r H; [tauto|].
  destruct H as [H|H]; [inversion H; reflexivity | auto].
Qed.

Lemma in_combine_self : forall (es : list ent) e r, In (e, r) (combine es es) -> r = e.
Proof.
  induction es as [|a es IH]; cbn; intros e r H; [tauto|].
  destruct H as [H|H]; [inversion H; reflexivity | auto].
Qed.

(* The clamped kernel never reverses or overshoots the step, WHATEVER the bounds and whatever the
   relation between u and the start (no premise: this also covers a u = fl(u0 + alpha du) perturbed
   by rounding): every entry ends between u - alpha du and u. *)
Lemma vector_clamped_along_step : forall alpha es e',
  0 < alpha -> In e' (combine es (enforce_vector alpha es)) ->
  between (e_u (fst e') - alpha * e_du (fst e')) (e_u (fst e')) (e_u (snd e')).
Proof.
  intros alpha es [e r] Ha Hin. cbn [fst snd]. unfold enforce_vector in Hin.
  destruct (clampd_range alpha (vec_dalpha es) Ha (vd_nonneg es)) as [C0 C1].
  set (d := clampd alpha (vec_dalpha es)) in *.
  assert (K : between (e_u e - alpha * e_du e) (e_u e) (e_u e + (- d) * e_du e)).
  { destruct (ratio_range alpha (alpha - d) Ha) as [R0 R1]; try lra.
    apply (between_eq (e_u e - alpha * e_du e) (e_u e)
             ((e_u e - alpha * e_du e) + ((alpha - d) / alpha) * (e_u e - (e_u e - alpha * e_du e))));
      [reflexivity | reflexivity | field; lra | apply convex_between; auto]. }
  destruct (Qlt_bool 0 d) eqn:D.
  - apply in_combine_map in Hin. subst r. exact K.
  - apply in_combine_self in Hin. subst r. apply Qlt_bool_false in D. assert (Dz : d == 0) by lra.
    eapply between_eq; [reflexivity|reflexivity| |exact K]. rewrite Dz. ring.
Qed.

(* The kernel of the pinned commit does not have that property: an entry on its upper bound whose
   tiny outward step was rounded up (u = 1 + 3/2 eps instead of 1 + eps) gives d_alpha = 3/2 > alpha
   and moves the other entry, whose step is +8, backwards (from 0 to -4). *)
Lemma vector_unclamped_refuted :
  let es := [mkent 8 8 None (Some 100); mkent (2003#2000) (1#1000) None (Some 1)] in
  exists a b, enforce_vector_cur 1 es = [a; b] /\ vec_dalpha es == 3#2 /\
              e_u a == -4 /\ ~ between (8 - 1 * 8) 8 (e_u a).
Proof.
  cbn zeta. eexists; eexists. split; [vm_compute; reflexivity|].
  split; [vm_compute; reflexivity|]. split; [vm_compute; reflexivity|].
  unfold between. cbn [e_u]. intros [[A _]|[A _]]; vm_compute in A; apply A; reflexivity.
Qed.

Lemma vector_post : forall alpha t ps,
  0 < alpha -> 0 <= t -> t <= alpha -> Forall (good alpha) ps ->
  Forall2 (post alpha t) ps (enforce_vector alpha (map fst ps)).
Proof.
  intros alpha t ps Ha H0 H1 G. unfold enforce_vector.
  rewrite clampd_id by (apply (vector_dalpha_range alpha ps); auto).
  destruct (Qlt_bool 0 (vec_dalpha (map fst ps))) eqn:D.
  - apply Forall2_map_fst. intros p Hp. apply vector_ent_post; auto.
  - (* d_alpha = 0: nothing is changed, and that is what vector_ent with d = 0 computes *)
    apply Qlt_bool_false in D. pose proof (vd_nonneg (map fst ps)) as D0.
    assert (Dz : vec_dalpha (map fst ps) == 0) by lra.
    apply Forall2_fst. intros p Hp.
    pose proof (vector_ent_post alpha t ps p Ha H0 H1 G Hp) as P.
    unfold post, vector_ent in *; cbn [e_u e_du] in *.
    destruct P as [P1 P2]. split.
    + eapply inb_eq; [|exact P1]. rewrite Dz. field. lra.
    + eapply between_eq; [reflexivity|reflexivity| |exact P2]. rewrite Dz. field. lra.
Qed.

(* ---------- all three methods ---------- *)

Lemma enforce_post : forall m alpha t ps,
  0 < alpha -> 0 <= t -> t <= alpha -> Forall (good alpha) ps ->
  Forall2 (post alpha t) ps (enforce m alpha (map fst ps)).
Proof.
  intros [| |] alpha t ps Ha H0 H1 G; cbn [enforce];
    [apply vector_post | apply scalar_post | apply wall_post]; auto.
Qed.

(* t = alpha: the enforced point itself is within the bounds and between start and full step *)
Definition post0 (p : ent * Q) (e' : ent) : Prop :=
  inb (e_lo (fst p)) (e_hi (fst p)) (e_u e') /\ between (snd p) (e_u (fst p)) (e_u e').

Lemma Forall2_impl : forall A B (R S : A -> B -> Prop) l1 l2,
  (forall a b, R a b -> S a b) -> Forall2 R l1 l2 -> Forall2 S l1 l2.
Proof. induction 2; constructor; auto. Qed.

Lemma enforce_in_bounds : forall m alpha ps,
  0 < alpha -> Forall (good alpha) ps -> Forall2 post0 ps (enforce m alpha (map fst ps)).
Proof.
  intros m alpha ps Ha G.
  eapply Forall2_impl; [|apply (enforce_post m alpha alpha ps); auto; lra].
  intros p e' [P1 P2]. unfold post0. split.
  - eapply inb_eq; [|exact P1]. ring.
  - eapply between_eq; [reflexivity|reflexivity| |exact P2]. ring.
Qed.

(* ---------- ArmijoGoldstein backtracking ---------- *)

Definition ag_rel (alpha a : Q) (e' c : ent) : Prop :=
  e_u c == e_u e' + (a - alpha) * e_du e' /\ e_du c = e_du e'.

Lemma last_cons : forall (rest : list Q) a1 a, last (a1 :: rest) a = last rest a1.
Proof.
  induction rest as [|b rest IH]; intros a1 a; [reflexivity|].
  change (last (a1 :: b :: rest) a) with (last (b :: rest) a).
  rewrite (IH b a), (IH b a1). reflexivity.
Qed.

Lemma ag_steps_rel : forall alpha alphas a es' cur,
  Forall2 (ag_rel alpha a) es' cur ->
  Forall2 (ag_rel alpha (last alphas a)) es' (ag_steps a alphas cur).
Proof.
  induction alphas as [|a1 rest IH]; intros a es' cur H; [exact H|].
  cbn [ag_steps]. rewrite last_cons.
  apply IH. clear IH. induction H; cbn; constructor; auto.
  destruct H as [Hu Hd]. unfold ag_rel, ag_move; cbn [e_u e_du]. split; auto.
  rewrite Hu, Hd. ring.
Qed.

Lemma Forall2_refl_ag : forall alpha es, Forall2 (ag_rel alpha alpha) es es.
Proof. induction es; constructor; auto. unfold ag_rel; split; auto. ring. Qed.

Lemma Forall2_comp : forall A B C (R : A -> B -> Prop) (S : B -> C -> Prop) (T : A -> C -> Prop) l1 l2 l3,
  (forall a b c, R a b -> S b c -> T a c) -> Forall2 R l1 l2 -> Forall2 S l2 l3 -> Forall2 T l1 l3.
Proof.
  intros A B C R S T l1 l2 l3 H H1. revert l3. induction H1; intros l3 H2; inversion H2; subst; constructor; eauto.
Qed.

Lemma last_in_range : forall (P : Q -> Prop) alphas a, P a -> Forall P alphas -> P (last alphas a).
Proof.
  induction alphas as [|x rest IH]; intros a Ha H; [exact Ha|].
  inversion H; subst. rewrite last_cons. apply IH; auto.
Qed.

(* every later ArmijoGoldstein iterate (step lengths in [0, alpha], e.g. alpha rho^k) is within the
   bounds and between the start and the full step *)
Lemma ag_stays_in_bounds : forall m alpha alphas ps,
  0 < alpha -> Forall (good alpha) ps -> Forall (fun a => 0 <= a /\ a <= alpha) alphas ->
  Forall2 post0 ps (ag_steps alpha alphas (enforce m alpha (map fst ps))).
Proof.
  intros m alpha alphas ps Ha G HA.
  set (t := last alphas alpha).
  assert (Ht : 0 <= t /\ t <= alpha).
  { unfold t. apply (last_in_range (fun a => 0 <= a /\ a <= alpha)); auto. lra. }
  destruct Ht as [T0 T1].
  pose proof (enforce_post m alpha t ps Ha T0 T1 G) as P.
  pose proof (ag_steps_rel alpha alphas alpha _ _ (Forall2_refl_ag alpha (enforce m alpha (map fst ps)))) as R.
  fold t in R.
  eapply Forall2_comp; [|exact P|exact R].
  intros p e' c [P1 P2] [Hu Hd]. unfold post0. split.
  - eapply inb_eq; [symmetry; exact Hu|exact P1].
  - eapply between_eq; [reflexivity|reflexivity|symmetry; exact Hu|exact P2].
Qed.

(* non-vacuity: a good two-entry vector whose first entry crosses its upper bound; the three methods *)
Example kernels_witness :
  let ps := [(mkent 5 4 (Some 0) (Some 3), 1); (mkent (-1) (-2) None (Some 3), 1)] in
  Forall (good 1) ps /\
  map e_u (enforce Scalar 1 (map fst ps)) = [3; -1] /\
  map e_u (enforce Wall 1 (map fst ps)) = [3; -1] /\
  map e_du (enforce Wall 1 (map fst ps)) = [0; -2] /\
  (exists a b, map e_u (enforce Vector 1 (map fst ps)) = [a; b] /\ a == 3 /\ b == 0) /\
  vec_dalpha (map fst ps) == 1#2.
Proof.
  cbn zeta. split.
  - repeat constructor; cbn; lra.
  - repeat split; try (vm_compute; reflexivity).
    eexists; eexists. split; [vm_compute; reflexivity|]. split; vm_compute; reflexivity.
Qed.
