(* C31 — proofs about the API-state machine (Model.v). *)
From Coq Require Import ZArith List Bool Arith Lia.
From OMV Require Import Base.Val C31.Model.
Import ListNotations.

Section Proofs.
Variables N A : Type.
Notation instr := (instr N A).
Notation mstate := (@mstate N A).

(* invariant while a guarded program runs from nonlinear state n0 with an empty stack: outside every bracket
   the nonlinear state is n0; inside, the outermost saved copy is n0 *)
Definition inv (n0 : N) (d : nat) (s : mstate) : Prop :=
  length (stack s) = d /\
  match d with
  | O => nl s = n0
  | S _ => last (stack s) n0 = n0
  end.

Lemma guarded_exec : forall (p : list instr) d n0 (s : mstate),
  guarded d p = true -> inv n0 d s ->
  nl (exec p s) = n0 /\ stack (exec p s) = [].
Proof.
  induction p as [| i r IH]; intros d n0 s G [L I].
  - cbn in G. apply Nat.eqb_eq in G. subst d. cbn. split; auto.
    destruct (stack s); auto; discriminate.
  - destruct i; cbn [guarded] in G; cbn [exec].
    + (* save *)
      apply (IH (S d) n0); auto. split; cbn [step stack nl length]; [lia |].
      destruct d.
      * destruct (stack s); try discriminate. cbn. exact I.
      * destruct (stack s) as [| x t]; try discriminate. exact I.
    + (* restore *)
      destruct d as [| d']; try discriminate.
      destruct (stack s) as [| x t] eqn:E; try discriminate.
      apply (IH d' n0); auto. cbn [step]. rewrite E. split; cbn [stack nl]; [cbn in L; lia |].
      destruct d'.
      * cbn in L. destruct t; try discriminate. cbn in I. exact I.
      * cbn in L. destruct t as [| y u]; try discriminate. exact I.
    + (* perturb: only inside a bracket *)
      apply andb_true_iff in G as [G1 G2]. apply negb_true_iff, Nat.eqb_neq in G1.
      destruct d as [| d']; try contradiction.
      apply (IH (S d') n0); auto. split; cbn [step stack nl]; auto.
    + (* aux *)
      apply (IH d n0); auto. split; cbn [step stack nl]; auto.
Qed.

(* a derivative query leaves inputs and outputs as they were, whatever it perturbs in between and whatever
   it writes elsewhere *)
Theorem query_frame : forall (p : list instr) (n : N) (a : A),
  guarded 0 p = true ->
  nl (exec p (mkm n a [])) = n /\ stack (exec p (mkm n a [])) = [].
Proof.
  intros p n a G. apply (guarded_exec p 0 n); auto. split; reflexivity.
Qed.

Lemma exec_app (p q : list instr) s : exec (p ++ q) s = exec q (exec p s).
Proof. revert s. induction p; cbn; auto. Qed.

(* any sequence of queries *)
Theorem queries_frame : forall (qs : list (list instr)) (n : N) (a : A),
  forallb (guarded 0) qs = true ->
  nl (fold_left (fun s q => exec q s) qs (mkm n a [])) = n.
Proof.
  intros qs n a. revert a.
  assert (forall (s : mstate), stack s = [] -> forallb (guarded 0) qs = true ->
            nl (fold_left (fun s q => exec q s) qs s) = nl s) as H.
  { induction qs as [| q r IH]; cbn; intros s E G; auto.
    apply andb_true_iff in G as [G1 G2].
    destruct s as [n1 a1 st]. cbn in E. subst st.
    destruct (query_frame q n1 a1 G1) as [F1 F2].
    rewrite IH; auto. }
  intros a G. now rewrite H.
Qed.

(* run_model is a function of the nonlinear state only: the same state gives the same outputs, no matter how
   many queries ran in between and what they left in the auxiliary state *)
Theorem run_after_queries : forall (ev : N -> N) (qs : list (list instr)) (n : N) (a a' : A),
  forallb (guarded 0) qs = true ->
  nl (run_model ev (fold_left (fun s q => exec q s) qs (mkm n a []))) = nl (run_model ev (mkm n a' [])).
Proof.
  intros ev qs n a a' G. cbn. now rewrite queries_frame.
Qed.

(* a converged evaluation is a fixed point: running again changes nothing *)
Theorem run_twice : forall (ev : N -> N) (s : mstate),
  (forall n, ev (ev n) = ev n) ->
  nl (run_model ev (run_model ev s)) = nl (run_model ev s).
Proof. intros ev s H. cbn. apply H. Qed.

End Proofs.

(* what the guard excludes: a perturbation outside a bracket survives *)
Example unguarded_leaks :
  guarded (N:=Z) (A:=unit) 0 [IPerturb (fun n => n + 1)%Z] = false /\
  nl (exec [IPerturb (fun n => n + 1)%Z] (mkm 5%Z tt [])) = 6%Z.
Proof. split; reflexivity. Qed.

(* non-vacuity: the shape of a forward-difference check of two inputs with a nested sub-point *)
Example fd_query_guarded :
  let p := [IAux (fun (n : Z) (a : Z) => a); ISave; IPerturb (fun n => n + 1)%Z; IAux (fun n a => (a + n)%Z);
            ISave; IPerturb (fun n => 2 * n)%Z; IRestore; IPerturb (fun n => n - 7)%Z; IRestore;
            IAux (fun n a => (a * 2)%Z)] in
  guarded 0 p = true /\ nl (exec p (mkm 5%Z 0%Z [])) = 5%Z /\ aux (exec p (mkm 5%Z 0%Z [])) = 12%Z.
Proof. vm_compute. repeat split. Qed.

(* replay: a history in which a query changed the state, or run_model was not a function of the state, is not
   reproduced by the model *)
Example replay_example :
  replay [] [(KRun, (0, 0), (0, 1)); (KQuery, (0, 1), (0, 1)); (KSet, (0, 1), (0, 2)); (KRun, (0, 2), (3, 4));
             (KRun, (0, 0), (0, 1))]%Z = [(0, 1); (0, 1); (0, 2); (3, 4); (0, 1)]%Z.
Proof. reflexivity. Qed.
