(* C31 — property theorems (statements only; proofs by [exact] of lemmas in Proofs.v). *)
From Coq Require Import ZArith List Bool.
From OMV Require Import Base.Val C31.Model C31.Proofs.
Import ListNotations.

(* A query made of save / perturb / restore / auxiliary-write steps, well bracketed and perturbing only inside a
   bracket, leaves the nonlinear state (inputs, outputs) exactly as it was -- for every such program, every
   perturbation and every state. *)
Theorem C31_query_frame : forall (N A : Type) (p : list (instr N A)) (n : N) (a : A),
  guarded 0 p = true ->
  nl (exec p (mkm n a [])) = n /\ stack (exec p (mkm n a [])) = [].
Proof. exact query_frame. Qed.
Print Assumptions C31_query_frame.

(* ... and so does every sequence of queries. *)
Theorem C31_queries_frame : forall (N A : Type) (qs : list (list (instr N A))) (n : N) (a : A),
  forallb (guarded 0) qs = true ->
  nl (fold_left (fun s q => exec q s) qs (mkm n a [])) = n.
Proof. exact queries_frame. Qed.
Print Assumptions C31_queries_frame.

(* run_model after any sequence of queries gives what it gives without them (no leak through the auxiliary
   state), and running twice from a converged state changes nothing. *)
Theorem C31_run_after_queries : forall (N A : Type) (ev : N -> N) (qs : list (list (instr N A))) (n : N) (a a' : A),
  forallb (guarded 0) qs = true ->
  nl (run_model ev (fold_left (fun s q => exec q s) qs (mkm n a []))) = nl (run_model ev (mkm n a' [])).
Proof. exact run_after_queries. Qed.
Print Assumptions C31_run_after_queries.

Theorem C31_run_twice : forall (N A : Type) (ev : N -> N) (s : @mstate N A),
  (forall n, ev (ev n) = ev n) ->
  nl (run_model ev (run_model ev s)) = nl (run_model ev s).
Proof. exact run_twice. Qed.
Print Assumptions C31_run_twice.
