(* C31 — thin model of the API state of a Problem (definitions only).

   The nonlinear state N (inputs, outputs) is what the property is about; A stands for everything else the
   derivative machinery writes (linear vectors, jacobians, caches, coloring data).  A derivative query
   (compute_totals, compute_jacvec_product, check_partials, check_totals, coloring, list_inputs/outputs) is
   a sequence of primitive steps of a small stack machine: it may write A at any time, and it may perturb N
   (finite-difference / complex-step points, re-runs of the model at perturbed points) only between a SAVE
   and the matching RESTORE -- the shape of Component.check_partials, ApproximationScheme._run_point /
   _run_sub_point and _compute_total_coloring_context. *)
From Coq Require Import ZArith List Bool.
From OMV Require Import Base.Val.
Import ListNotations.

Section Machine.
Variables N A : Type.

Inductive instr :=
| ISave                          (* push a copy of the nonlinear state *)
| IRestore                       (* pop it back *)
| IPerturb (f : N -> N)          (* write inputs/outputs (perturbation, model evaluation at another point) *)
| IAux (g : N -> A -> A).        (* write linear vectors / jacobians / caches *)

Record mstate := mkm { nl : N; aux : A; stack : list N }.

Definition step (i : instr) (s : mstate) : mstate :=
  match i with
  | ISave => mkm (nl s) (aux s) (nl s :: stack s)
  | IRestore => match stack s with
                | x :: r => mkm x (aux s) r
                | [] => s
                end
  | IPerturb f => mkm (f (nl s)) (aux s) (stack s)
  | IAux g => mkm (nl s) (g (nl s) (aux s)) (stack s)
  end.

Fixpoint exec (p : list instr) (s : mstate) : mstate :=
  match p with [] => s | i :: r => exec r (step i s) end.

(* well-bracketed with perturbations only inside a bracket *)
Fixpoint guarded (d : nat) (p : list instr) : bool :=
  match p with
  | [] => Nat.eqb d 0
  | ISave :: r => guarded (S d) r
  | IRestore :: r => match d with O => false | S d' => guarded d' r end
  | IPerturb _ :: r => negb (Nat.eqb d 0) && guarded d r
  | IAux _ :: r => guarded d r
  end.

(* run_model of a model whose outputs are a function of its inputs-that-are-independent: [ev] *)
Definition run_model (ev : N -> N) (s : mstate) : mstate := mkm (ev (nl s)) (aux s) (stack s).

End Machine.

Arguments ISave {N A}. Arguments IRestore {N A}. Arguments IPerturb {N A}. Arguments IAux {N A}.
Arguments mkm {N A}. Arguments nl {N A}. Arguments aux {N A}. Arguments stack {N A}.
Arguments step {N A}. Arguments exec {N A}. Arguments guarded {N A}. Arguments run_model {N A}.

(* ------------------------------------------------------------------ observed histories (for the harness) *)

(* one API call as observed on the real code: identifiers of the bit patterns of (inputs, outputs) before and
   after.  The model predicts the state after each call from the state before: a query keeps it, run_model is a
   function of it (the first observation of a state defines the function), set_val is an external write. *)
Inductive opkind := KRun | KSet | KQuery.

Definition obs := (opkind * (Z * Z) * (Z * Z))%type.

Definition pair_eqb (a b : Z * Z) : bool := Z.eqb (fst a) (fst b) && Z.eqb (snd a) (snd b).

Fixpoint memo_find (m : list ((Z * Z) * (Z * Z))) (k : Z * Z) : option (Z * Z) :=
  match m with
  | [] => None
  | (k', v) :: r => if pair_eqb k' k then Some v else memo_find r k
  end.

Fixpoint replay (m : list ((Z * Z) * (Z * Z))) (l : list obs) : list (Z * Z) :=
  match l with
  | [] => []
  | (KQuery, b, _) :: r => b :: replay m r
  | (KSet, _, a) :: r => a :: replay m r
  | (KRun, b, a) :: r =>
      match memo_find m b with
      | Some a' => a' :: replay m r
      | None => a :: replay ((b, a) :: m) r
      end
  end.

Definition c31_replay (l : list obs) : val :=
  VL (map (fun p => VL [VZ (fst p); VZ (snd p)]) (replay [] l)).
