(* C19 — property theorems (statements only; proofs by [exact] of lemmas in Proofs.v).
   State = map from source variables to values; load = set every recorded input (through its source), then
   every recorded output; see Model.v. *)
From Coq Require Import ZArith List Bool String.
From OMV Require Import Base.Val C19.Model C19.Proofs.
Import ListNotations.
Open Scope string_scope.

(* load_case then get_val of a recorded output returns the recorded value, for every previous state. *)
Theorem C19_load_get_output : forall (V : Type) conns (cin cout s : list (string * V)) o v,
  NoDup (map fst cout) -> In (o, v) cout -> In o (map fst s) ->
  get_out (load conns cin cout s) o = Some v.
Proof. exact load_get_output. Qed.
Print Assumptions C19_load_get_output.

(* ... and of a recorded input, when the recorded state is consistent (an input recorded with its source
   has the source's value; inputs sharing a source agree).  The premise is necessary: lagging_input_refuted. *)
Theorem C19_load_get_input : forall (V : Type) conns (cin cout s : list (string * V)) i v,
  consistent V conns cin cout ->
  In (i, v) cin -> In (src_of conns i) (map fst s) ->
  get_in conns (load conns cin cout s) i = Some v.
Proof. exact load_get_input. Qed.
Print Assumptions C19_load_get_input.

(* what the case does not record (neither as an output nor as the source of a recorded input) is untouched *)
Theorem C19_load_frame : forall (V : Type) conns (cin cout s : list (string * V)) x,
  ~ In x (map fst cout) -> ~ In x (map (fun kv => src_of conns (fst kv)) cin) ->
  lookup (load conns cin cout s) x = lookup s x.
Proof. exact load_frame. Qed.
Print Assumptions C19_load_frame.

(* run_model after load_case reproduces the recorded outputs of an explicit model: dependent outputs are a
   function F of the independents, the case records every independent and was itself produced by a run. *)
Theorem C19_load_then_run : forall (V : Type) (F : string -> (string -> option V) -> V) ind conns
                                   (cin cout s : list (string * V)),
  (forall d f g, (forall x, In x ind -> f x = g x) -> F d f = F d g) ->
  NoDup (map fst cout) ->
  (forall x, In x ind -> In x (map fst cout) /\ In x (map fst s)) ->
  (forall d v, In (d, v) cout -> is_ind ind d = false -> v = F d (lookup cout)) ->
  forall d v, In (d, v) cout -> In d (map fst s) ->
    lookup (run F ind (load conns cin cout s)) d = Some v.
Proof. exact load_then_run. Qed.
Print Assumptions C19_load_then_run.
