(* C19 — proofs about the abstract load_case model (Model.v). *)
From Coq Require Import ZArith List Bool String Lia.
From OMV Require Import Base.Val C19.Model.
Import ListNotations.
Open Scope string_scope.
Open Scope list_scope.

Section Proofs.
Variable V : Type.
Notation st := (list (string * V)).

Lemma lookup_upd_same (s : st) x v : In x (map fst s) -> lookup (upd s x v) x = Some v.
Proof.
  induction s as [| [k w] r IH]; cbn; intros H; [contradiction |].
  destruct (String.eqb k x) eqn:E; cbn; rewrite E; auto.
  destruct H as [H | H]; auto. cbn in H. subst. now rewrite String.eqb_refl in E.
Qed.

Lemma lookup_upd_other (s : st) x y v : x <> y -> lookup (upd s x v) y = lookup s y.
Proof.
  intros N. induction s as [| [k w] r IH]; cbn; auto.
  destruct (String.eqb k x) eqn:E; cbn.
  - apply String.eqb_eq in E. subst k.
    destruct (String.eqb x y) eqn:E2; auto. apply String.eqb_eq in E2. contradiction.
  - destruct (String.eqb k y); auto.
Qed.

Lemma keys_upd (s : st) x v : map fst (upd s x v) = map fst s.
Proof.
  induction s as [| [k w] r IH]; cbn; auto.
  destruct (String.eqb k x); cbn; congruence.
Qed.

(* a sequence of writes (key, value): the last write to a key wins, untouched keys keep their value *)
Definition writes (l : list (string * V)) (s : st) : st :=
  fold_left (fun s kv => upd s (fst kv) (snd kv)) l s.

Lemma keys_writes l : forall s, map fst (writes l s) = map fst s.
Proof. induction l as [| [k v] r IH]; cbn; intros s; auto. rewrite IH. apply keys_upd. Qed.

Lemma writes_frame l : forall s x, ~ In x (map fst l) -> lookup (writes l s) x = lookup s x.
Proof.
  induction l as [| [k v] r IH]; cbn; intros s x H; auto.
  rewrite IH by tauto. apply lookup_upd_other. tauto.
Qed.

Lemma writes_agree l : forall s x v,
  In x (map fst s) -> In x (map fst l) -> (forall w, In (x, w) l -> w = v) ->
  lookup (writes l s) x = Some v.
Proof.
  induction l as [| [k w] r IH]; cbn; intros s x v Hs Hl Hv; [contradiction |].
  destruct (in_dec string_dec x (map fst r)) as [Hr | Hr].
  - apply IH; auto. now rewrite keys_upd.
  - rewrite writes_frame by auto. destruct Hl as [Hl | Hl]; [| contradiction]. subst k.
    rewrite (Hv w) by auto. now apply lookup_upd_same.
Qed.

Lemma set_outputs_writes (cout s : st) : set_outputs cout s = writes cout s.
Proof. reflexivity. Qed.

Lemma set_inputs_writes conns (cin s : st) :
  set_inputs conns cin s = writes (map (fun kv => (src_of conns (fst kv), snd kv)) cin) s.
Proof.
  unfold set_inputs, writes. revert s. induction cin as [| [k v] r IH]; cbn; intros s; auto.
Qed.

(* ---------------------------------------------------------------- load then get *)

Theorem load_get_output : forall conns (cin cout s : st) o v,
  NoDup (map fst cout) -> In (o, v) cout -> In o (map fst s) ->
  get_out (load conns cin cout s) o = Some v.
Proof.
  intros conns cin cout s o v ND Hin Hs. unfold get_out, load. rewrite set_outputs_writes.
  apply writes_agree.
  - rewrite set_inputs_writes, keys_writes. exact Hs.
  - apply in_map_iff. exists (o, v). auto.
  - intros w Hw. clear - ND Hin Hw.
    induction cout as [| [k u] r IH]; [contradiction |]. cbn in ND. inversion ND; subst.
    destruct Hin as [Hin | Hin], Hw as [Hw | Hw].
    + congruence.
    + inversion Hin; subst. exfalso. apply H1. apply in_map_iff. exists (o, w). auto.
    + inversion Hw; subst. exfalso. apply H1. apply in_map_iff. exists (o, v). auto.
    + auto.
Qed.

(* the recorded state is consistent: an input recorded together with its source output has the source's
   value, and inputs sharing a source have one value *)
Definition consistent conns (cin cout : st) : Prop :=
  forall i v, In (i, v) cin ->
    (forall w, In (src_of conns i, w) cout -> w = v) /\
    (forall j w, In (j, w) cin -> src_of conns j = src_of conns i -> w = v).

Theorem load_get_input : forall conns (cin cout s : st) i v,
  consistent conns cin cout ->
  In (i, v) cin -> In (src_of conns i) (map fst s) ->
  get_in conns (load conns cin cout s) i = Some v.
Proof.
  intros conns cin cout s i v C Hin Hs. unfold get_in, load. rewrite set_outputs_writes.
  destruct (C i v Hin) as [C1 C2].
  destruct (in_dec string_dec (src_of conns i) (map fst cout)) as [Ho | Ho].
  - apply writes_agree; auto. rewrite set_inputs_writes, keys_writes. exact Hs.
  - rewrite writes_frame by auto. rewrite set_inputs_writes. apply writes_agree; auto.
    + apply in_map_iff. exists (src_of conns i, v). split; auto.
      apply in_map_iff. exists (i, v). auto.
    + intros w Hw. apply in_map_iff in Hw as [[j u] [E Hj]]. cbn in E. inversion E; subst.
      eapply C2; eauto.
Qed.

(* what the case does not mention is untouched *)
Theorem load_frame : forall conns (cin cout s : st) x,
  ~ In x (map fst cout) -> ~ In x (map (fun kv => src_of conns (fst kv)) cin) ->
  lookup (load conns cin cout s) x = lookup s x.
Proof.
  intros conns cin cout s x Ho Hi. unfold load. rewrite set_outputs_writes, writes_frame by auto.
  rewrite set_inputs_writes. apply writes_frame. rewrite map_map. exact Hi.
Qed.

(* ---------------------------------------------------------------- load then run *)

Lemma lookup_map_gen (F : string -> (string -> option V) -> V) ind f (s : st) x :
  lookup (map (fun kv => if is_ind ind (fst kv) then kv else (fst kv, F (fst kv) f)) s) x =
  match lookup s x with
  | Some v => Some (if is_ind ind x then v else F x f)
  | None => None
  end.
Proof.
  induction s as [| [k w] r IH]; cbn; auto.
  destruct (is_ind ind k) eqn:I; cbn; destruct (String.eqb k x) eqn:E; auto;
    apply String.eqb_eq in E; subst; now rewrite I.
Qed.

Lemma lookup_map_run F ind (s : st) x :
  lookup (run F ind s) x =
  match lookup s x with
  | Some v => Some (if is_ind ind x then v else F x (lookup s))
  | None => None
  end.
Proof. unfold run. apply lookup_map_gen. Qed.

(* For a model whose dependent outputs are a function F of the independent ones (F looks at independents
   only), a case that records every independent and whose recorded dependent outputs were produced by a run
   is reproduced by run_model after load_case, whatever the state was before. *)
Theorem load_then_run : forall (F : string -> (string -> option V) -> V) ind conns (cin cout s : st),
  (forall d f g, (forall x, In x ind -> f x = g x) -> F d f = F d g) ->
  NoDup (map fst cout) ->
  (forall x, In x ind -> In x (map fst cout) /\ In x (map fst s)) ->
  (forall d v, In (d, v) cout -> is_ind ind d = false -> v = F d (lookup cout)) ->
  forall d v, In (d, v) cout -> In d (map fst s) ->
    lookup (run F ind (load conns cin cout s)) d = Some v.
Proof.
  intros F ind conns cin cout s Fext ND Hind Hrun d v Hd Hs.
  rewrite lookup_map_run.
  pose proof (load_get_output conns cin cout s d v ND Hd Hs) as L. unfold get_out in L. rewrite L.
  destruct (is_ind ind d) eqn:I; auto. f_equal.
  rewrite (Hrun d v Hd I). apply Fext. intros x Hx.
  destruct (Hind x Hx) as [Hc Hsx]. apply in_map_iff in Hc as [[x' w] [E Hc]]. cbn in E. subst x'.
  pose proof (load_get_output conns cin cout s x w ND Hc Hsx) as Lx. unfold get_out in Lx. rewrite Lx.
  symmetry. clear - ND Hc.
  induction cout as [| [k u] r IH]; [contradiction |]. cbn in ND. inversion ND; subst. cbn.
  destruct Hc as [Hc | Hc].
  - inversion Hc; subst. now rewrite String.eqb_refl.
  - destruct (String.eqb k x) eqn:E; auto. apply String.eqb_eq in E. subst k.
    exfalso. apply H1. apply in_map_iff. exists (x, w). auto.
Qed.

End Proofs.

(* non-vacuity: y = F(x); the case was recorded at x = 3 *)
Example load_run_example :
  let F := fun (d : string) (f : string -> option Z) => match f "x" with Some x => (2 * x + 1)%Z | None => 0%Z end in
  let s := [("x", 5%Z); ("y", 11%Z); ("w", 9%Z)] in
  let c := load [("c.x", "x")] [("c.x", 3%Z)] [("x", 3%Z); ("y", 7%Z)] s in
  (lookup c "x", lookup c "y", lookup c "w", lookup (run F ["x"; "w"] c) "y") = (Some 3%Z, Some 7%Z, Some 9%Z, Some 7%Z).
Proof. vm_compute. reflexivity. Qed.

(* the premise of load_get_input is necessary: a case recorded in the middle of a coupled iteration holds an
   input that lags its source; after load_case the input reads the source's recorded value *)
Example lagging_input_refuted :
  exists conns cin cout s i v,
    In (i, v) cin /\ get_in conns (load (V:=Z) conns cin cout s) i <> Some v.
Proof.
  exists [("c1.x", "c2.z")], [("c1.x", 225%Z)], [("c2.z", 256%Z)], [("c2.z", 0%Z)], "c1.x", 225%Z.
  split; [cbn; auto | vm_compute; discriminate].
Qed.
