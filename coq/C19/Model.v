(* C19 — abstract model of Problem.load_case / get_val / run_model (definitions only).

   The state of a model outside a run is a map from SOURCE variables (absolute output names, including the
   automatic independent-variable component) to values; a connected input has no value of its own: get_val of
   an input reads its source, set_val of an input writes its source (no src_indices / unit conversion here:
   the generated models connect whole variables without units).  load_case first sets every recorded input,
   then every recorded output (core/problem.py:load_case, the two loops in that order). *)
From Coq Require Import ZArith List Bool String.
From OMV Require Import Base.Val.
Import ListNotations.
Open Scope string_scope.

Section Load.
Variable V : Type.

Definition st := list (string * V).

Fixpoint lookup (s : st) (x : string) : option V :=
  match s with
  | [] => None
  | (k, v) :: r => if String.eqb k x then Some v else lookup r x
  end.

(* set_val on an existing variable: replace in place; unknown names are ignored (load_case warns) *)
Fixpoint upd (s : st) (x : string) (v : V) : st :=
  match s with
  | [] => []
  | (k, w) :: r => if String.eqb k x then (k, v) :: r else (k, w) :: upd r x v
  end.

(* conns: input absolute name -> absolute name of its source *)
Definition src_of (conns : list (string * string)) (i : string) : string :=
  match (fix find (l : list (string * string)) : option string :=
           match l with [] => None | (k, s) :: r => if String.eqb k i then Some s else find r end) conns with
  | Some s => s
  | None => i
  end.

Definition set_inputs (conns : list (string * string)) (cin : st) (s : st) : st :=
  fold_left (fun s kv => upd s (src_of conns (fst kv)) (snd kv)) cin s.

Definition set_outputs (cout : st) (s : st) : st :=
  fold_left (fun s kv => upd s (fst kv) (snd kv)) cout s.

Definition load (conns : list (string * string)) (cin cout : st) (s : st) : st :=
  set_outputs cout (set_inputs conns cin s).

Definition get_out (s : st) (o : string) : option V := lookup s o.
Definition get_in (conns : list (string * string)) (s : st) (i : string) : option V := lookup s (src_of conns i).

(* run_model of an explicit (feed-forward) model: the dependent outputs become a function F of the
   independent ones; independents keep their values *)
Definition is_ind (ind : list string) (x : string) : bool := existsb (String.eqb x) ind.

Definition run (F : string -> (string -> option V) -> V) (ind : list string) (s : st) : st :=
  map (fun kv => if is_ind ind (fst kv) then kv else (fst kv, F (fst kv) (lookup s))) s.

End Load.

Arguments lookup {V}. Arguments upd {V}. Arguments set_inputs {V}. Arguments set_outputs {V}.
Arguments load {V}. Arguments get_out {V}. Arguments get_in {V}. Arguments run {V}.

(* evaluation for the harness: values are identifiers of bit patterns *)
Definition vopt_z (o : option Z) : val := match o with Some z => VZ z | None => VN end.

Definition c19_load (conns : list (string * string)) (cin cout s : list (string * Z))
           (outs ins : list string) : val :=
  let s' := load conns cin cout s in
  VL [VL (map (fun o => vopt_z (get_out s' o)) outs); VL (map (fun i => vopt_z (get_in conns s' i)) ins)].
