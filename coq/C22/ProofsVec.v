(* C22 — the vector-level algorithm (broadcast bounds, masks, scaler) against the per-element spec;
   the least-squares residual; the refutations of the algorithm at the pinned commit. *)
From Coq Require Import ZArith QArith Qabs List Bool Lia Lqa.
From OMV Require Import Base.Val C22.Model C22.Proofs.
Import ListNotations.
Open Scope Q_scope.

(* ------------------------------------------------------------------ list helpers *)

Lemma bcast_length : forall n b l, bcast n b = Some l -> length l = n.
Proof.
  intros n [q | m] l; cbn [bcast].
  - intros H; inversion H; apply repeat_length.
  - destruct (Nat.eqb (length m) n) eqn:E.
    + intros H; inversion H; subst. now apply Nat.eqb_eq.
    + destruct (Nat.eqb (length m) 1); [| discriminate].
      intros H; inversion H; apply repeat_length.
Qed.

Lemma zip3_length : forall f a b c n,
  length a = n -> length b = n -> length c = n -> length (zip3 f a b c) = n.
Proof.
  intros f a. induction a as [| x a IH]; intros [| y b] [| z c] n Ha Hb Hc; cbn in *; try lia.
  destruct n; [lia |]. f_equal. apply IH; lia.
Qed.

Lemma zip3_nth : forall f a b c j,
  length a = length c -> length b = length c -> (j < length c)%nat ->
  nth j (zip3 f a b c) 0 = f (nth j a 0) (nth j b 0) (nth j c 0).
Proof.
  intros f a. induction a as [| x a IH]; intros [| y b] [| z c] j Ha Hb Hj; cbn in *; try lia.
  destruct j; [reflexivity |]. apply IH; lia.
Qed.

Lemma zip2_length : forall f a b n, length a = n -> length b = n -> length (zip2 f a b) = n.
Proof.
  intros f a. induction a as [| x a IH]; intros [| y b] n Ha Hb; cbn in *; try lia.
  destruct n; [lia |]. f_equal. apply IH; lia.
Qed.

Lemma zip2_nth : forall f a b j,
  length b = length a -> (j < length a)%nat ->
  nth j (zip2 f a b) 0 = f (nth j a 0) (nth j b 0).
Proof.
  intros f a. induction a as [| x a IH]; intros [| y b] j Hb Hj; cbn in *; try lia.
  destruct j; [reflexivity |]. apply IH; lia.
Qed.

(* ------------------------------------------------------------------ the algorithm computes the spec *)

Definition factor (ds : bool) (s : list Q) (j : nat) : Q := if ds then nth j s 0 else 1.

Lemma code_viol_ineq_correct : forall k ds cv lo hi s,
  c_equals k = None ->
  bcast (length cv) (c_lower k) = Some lo ->
  bcast (length cv) (c_upper k) = Some hi ->
  bcast (length cv) (c_scaler k) = Some s ->
  (forall j, (j < length cv)%nat -> nth j lo 0 <= nth j hi 0) ->
  exists v, code_viol k ds cv = Some v /\ length v = length cv /\
    forall j, (j < length cv)%nat ->
      nth j v 0 == factor ds s j * viol (nth j lo 0) (nth j hi 0) (nth j cv 0).
Proof.
  intros k ds cv lo hi s He Hlo Hhi Hs Hord.
  pose proof (bcast_length _ _ _ Hlo) as Llo. pose proof (bcast_length _ _ _ Hhi) as Lhi.
  pose proof (bcast_length _ _ _ Hs) as Ls.
  unfold code_viol. rewrite He, Hlo, Hhi, Hs.
  assert (Lz : length (zip3 code_viol1 lo hi cv) = length cv) by (apply zip3_length; auto).
  destruct ds; unfold factor.
  - eexists. split; [reflexivity |]. split; [apply zip2_length; auto |].
    intros j Hj. rewrite zip2_nth by lia. rewrite zip3_nth by lia.
    rewrite code_viol1_eq_spec by (apply Hord; exact Hj). ring.
  - eexists. split; [reflexivity |]. split; [exact Lz |].
    intros j Hj. rewrite zip3_nth by lia.
    rewrite code_viol1_eq_spec by (apply Hord; exact Hj). ring.
Qed.

Lemma code_viol_eq_correct : forall k ds cv e el s,
  c_equals k = Some e ->
  bcast (length cv) e = Some el ->
  bcast (length cv) (c_scaler k) = Some s ->
  exists v, code_viol k ds cv = Some v /\ length v = length cv /\
    forall j, (j < length cv)%nat ->
      nth j v 0 == factor ds s j * viol_eq (nth j el 0) (nth j cv 0).
Proof.
  intros k ds cv e el s He Hel Hs.
  pose proof (bcast_length _ _ _ Hel) as Lel. pose proof (bcast_length _ _ _ Hs) as Ls.
  unfold code_viol. rewrite He, Hel, Hs.
  assert (Lz : length (zip2 (fun c e => c - e) cv el) = length cv) by (apply zip2_length; auto).
  destruct ds; unfold factor, viol_eq.
  - eexists. split; [reflexivity |]. split; [apply zip2_length; auto |].
    intros j Hj. rewrite zip2_nth by lia. rewrite zip2_nth by lia. ring.
  - eexists. split; [reflexivity |]. split; [exact Lz |].
    intros j Hj. rewrite zip2_nth by lia. ring.
Qed.

(* the violation vector vanishes exactly when every element satisfies its bounds *)
Lemma code_viol_zero_iff_feasible : forall k ds cv lo hi s v,
  c_equals k = None ->
  bcast (length cv) (c_lower k) = Some lo ->
  bcast (length cv) (c_upper k) = Some hi ->
  bcast (length cv) (c_scaler k) = Some s ->
  (forall j, (j < length cv)%nat -> nth j lo 0 <= nth j hi 0) ->
  (forall j, (j < length cv)%nat -> ~ nth j s 0 == 0) ->
  code_viol k ds cv = Some v ->
  (Forall (fun r => r == 0) v <->
   forall j, (j < length cv)%nat -> satisfied (nth j lo 0) (nth j hi 0) (nth j cv 0)).
Proof.
  intros k ds cv lo hi s v He Hlo Hhi Hs Hord Hnz Hv.
  destruct (code_viol_ineq_correct k ds cv lo hi s He Hlo Hhi Hs Hord) as [v' [Hv' [Lv Hn]]].
  rewrite Hv in Hv'. inversion Hv'; subst v'. clear Hv'.
  assert (Fnz : forall j, (j < length cv)%nat -> ~ factor ds s j == 0).
  { intros j Hj. unfold factor. destruct ds; [apply Hnz; exact Hj | intro H; discriminate H]. }
  rewrite Forall_nth. split.
  - intros H j Hj. apply (scaled_viol_zero_iff (factor ds s j)); [apply Fnz; exact Hj |].
    rewrite <- Hn by exact Hj. apply H. lia.
  - intros H j d Hj. rewrite (nth_indep v d 0) by exact Hj.
    rewrite Hn by lia. apply scaled_viol_zero_iff; [apply Fnz; lia | apply H; lia].
Qed.

(* ------------------------------------------------------------------ the least-squares residual *)

Lemma concat_opt_Forall : forall (P : Q -> Prop) l v,
  concat_opt l = Some v ->
  (Forall P v <-> forall o w, In o l -> o = Some w -> Forall P w).
Proof.
  intros P l. induction l as [| o l IH]; intros v H; cbn in H.
  - inversion H; subst. split; [intros _ o w [] | intros _; constructor].
  - destruct o as [a |]; [| discriminate].
    destruct (concat_opt l) as [b |] eqn:E; [| discriminate].
    inversion H; subst. rewrite Forall_app. rewrite (IH b eq_refl). split.
    + intros [Ha Hb] o w [Ho | Ho] Hw.
      * subst o. inversion Hw; subst; exact Ha.
      * eapply Hb; eauto.
    + intros Hall. split.
      * apply (Hall (Some a) a); [left; reflexivity | reflexivity].
      * intros o w Ho Hw. apply (Hall o w); [right; exact Ho | exact Hw].
Qed.

(* Driver._compute_con_viol returns the zero vector exactly when the violation vector of every
   constraint (linear or not, in whatever order they were declared) is zero *)
Lemma con_viol_vector_zero_iff : forall cs ds x v,
  con_viol_vector cs ds x = Some v ->
  (Forall (fun r => r == 0) v <->
   forall s w, In s cs -> code_viol (con_of s) ds (con_value s x) = Some w -> Forall (fun r => r == 0) w).
Proof.
  intros cs ds x v H. unfold con_viol_vector in H.
  rewrite (concat_opt_Forall _ _ _ H). split.
  - intros Hall s w Hs Hw.
    apply (Hall (code_viol (con_of s) ds (con_value s x)) w); [| exact Hw].
    apply in_or_app. destruct (s_linear s) eqn:E.
    + left. apply in_map_iff. exists s. split; [reflexivity |]. apply filter_In. split; [exact Hs | exact E].
    + right. apply in_map_iff. exists s. split; [reflexivity |]. apply filter_In. split; [exact Hs |].
      rewrite E. reflexivity.
  - intros Hall o w Ho Hw. subst o.
    apply in_app_or in Ho. destruct Ho as [Ho | Ho]; apply in_map_iff in Ho;
      destruct Ho as [s [Hs Hin]]; apply filter_In in Hin; destruct Hin as [Hin _];
      apply (Hall s w Hin); exact Hs.
Qed.

(* every constraint contributes all of its elements: the residual has one entry per element *)
Lemma concat_opt_length : forall l v,
  concat_opt l = Some v ->
  length v = fold_right (fun o acc => (match o with Some a => length a | None => 0 end + acc)%nat) 0%nat l.
Proof.
  induction l as [| o l IH]; intros v H; cbn in H.
  - inversion H; reflexivity.
  - destruct o as [a |]; [| discriminate].
    destruct (concat_opt l) as [b |] eqn:E; [| discriminate].
    inversion H; subst. rewrite app_length. cbn. rewrite (IH b eq_refl). reflexivity.
Qed.

(* ------------------------------------------------------------------ the algorithm at the pinned commit *)

(* for scalar bounds and no driver scaling it computes the same vector as the repaired algorithm *)
Lemma combine_repeat_map : forall (A B : Type) (g : Q * A -> B) (q : A) (cv : list Q),
  map g (combine cv (repeat q (length cv))) = map (fun c => g (c, q)) cv.
Proof. induction cv as [| c cv IH]; cbn; [reflexivity | rewrite IH; reflexivity]. Qed.

Lemma combine_map_map : forall (A B C : Type) (f : A -> B) (h : A -> C) (l : list A),
  combine (map f l) (map h l) = map (fun c => (f c, h c)) l.
Proof. induction l as [| c l IH]; cbn; [reflexivity | rewrite IH; reflexivity]. Qed.

Lemma zip3_repeat_map : forall f lo hi cv,
  zip3 f (repeat lo (length cv)) (repeat hi (length cv)) cv = map (f lo hi) cv.
Proof. induction cv as [| c cv IH]; cbn; [reflexivity | rewrite IH; reflexivity]. Qed.

Lemma present_scalar_unscaled_correct : forall lo hi a s lin ds cv,
  present_viol (mkcon (BS lo) (BS hi) None a s lin) ds cv =
  code_viol (mkcon (BS lo) (BS hi) None a s lin) false cv.
Proof.
  intros lo hi a s lin ds cv.
  unfold present_viol, code_viol, cmp_mask, masked_sub. cbn [c_equals c_lower c_upper bcast].
  rewrite zip3_repeat_map.
  rewrite !combine_repeat_map. cbn [fst snd].
  f_equal. induction cv as [| c cv IH]; [reflexivity |].
  cbn [map combine fst snd]. rewrite IH. reflexivity.
Qed.

(* refutation 1: per-element (array) bounds make NumPy raise; witness: DESIGN section 6 *)
Definition wit_array : con :=
  mkcon (BA [0; 0; -(1)]) (BA [INF_BOUND; 1; 2]) None (BS 0) (BS 1) false.

Lemma present_array_bounds_refuted :
  exists k cv lo hi,
    bcast (length cv) (c_lower k) = Some lo /\ bcast (length cv) (c_upper k) = Some hi /\
    (forall j, (j < length cv)%nat -> nth j lo 0 <= nth j hi 0) /\
    present_viol k false cv = None /\
    code_viol k false cv = Some [-(2); 4; 0].
Proof.
  exists wit_array, [-(2); 5; 1 # 2], [0; 0; -(1)], [INF_BOUND; 1; 2].
  split; [reflexivity |]. split; [reflexivity |]. split.
  - intros j Hj. destruct j as [| [| [| j]]]; cbn in *; try lia; unfold Qle; cbn; lia.
  - split; vm_compute; reflexivity.
Qed.

(* refutation 2: with driver scaling requested the returned violation is not scaler * violation;
   witness lower=0, upper=1, ref0=1, ref=3 (adder -1, scaler 1/2), value -2 *)
Definition wit_scaled : con :=
  let ads := total_adder_scaler (ScRef (Some (BS 1)) (Some (BS 3))) in
  mkcon (BS 0) (BS 1) None (fst ads) (snd ads) false.

Lemma present_driver_scaling_refuted :
  exists k cv v,
    present_viol k true cv = Some v /\
    ~ nth 0 v 0 == (1 # 2) * viol 0 1 (nth 0 cv 0) /\
    code_viol k true cv = Some [(1 # 2) * viol 0 1 (nth 0 cv 0)].
Proof.
  exists wit_scaled, [-(2)], [-(2)]. split; [vm_compute; reflexivity |]. split.
  - vm_compute. discriminate.
  - vm_compute. reflexivity.
Qed.

(* ... and the vector that the late Autoscaler call rewrites is wrong as well: the adder is
   applied to a difference *)
Lemma present_late_scaling_adds_adder :
  exists k cv w,
    present_vec_after_scaling k cv = Some w /\
    ~ nth 0 w 0 == (1 # 2) * viol 0 1 (nth 0 cv 0).
Proof.
  exists wit_scaled, [-(2)], [-(3 # 2)]. split; [vm_compute; reflexivity |].
  vm_compute. discriminate.
Qed.

(* non-vacuity of the hypotheses of code_viol_ineq_correct / zero_iff_feasible *)
Example code_viol_example :
  code_viol wit_array true [-(2); 5; 1 # 2] = Some [-(2) * 1; 4 * 1; 0 * 1] /\
  code_viol wit_array true [1; 1; 1] = Some [0 * 1; 0 * 1; 0 * 1].
Proof. split; vm_compute; reflexivity. Qed.

(* ------------------------------------------------------------------ whole constraints, whole residual *)

Lemma code_viol_zero_iff_sat : forall k ds cv v,
  con_wf k (length cv) -> code_viol k ds cv = Some v ->
  (Forall (fun r => r == 0) v <-> con_sat k cv).
Proof.
  intros k ds cv v [lo [hi [s [Hlo [Hhi [Hs [Hord [Hnz Heq]]]]]]]] Hv.
  unfold con_sat. destruct (c_equals k) as [e |] eqn:Ee.
  - destruct Heq as [el Hel].
    destruct (code_viol_eq_correct k ds cv e el s Ee Hel Hs) as [v' [Hv' [Lv Hn]]].
    rewrite Hv in Hv'. inversion Hv'; subst v'. clear Hv'.
    assert (Fnz : forall j, (j < length cv)%nat -> ~ factor ds s j == 0).
    { intros j Hj. unfold factor. destruct ds; [apply Hnz; exact Hj | intro H; discriminate H]. }
    rewrite Forall_nth. split.
    + intros H el' Hel' j Hj. rewrite Hel in Hel'. inversion Hel'; subst el'.
      assert (Z : nth j v 0 == 0) by (apply H; lia).
      rewrite (Hn j Hj) in Z. unfold viol_eq in Z.
      destruct (Qmult_integral _ _ Z) as [Z1 | Z1]; [exfalso; apply (Fnz j Hj); exact Z1 | lra].
    + intros H j d Hj. rewrite (nth_indep v d 0) by exact Hj. rewrite Hn by lia.
      specialize (H el Hel j ltac:(lia)). unfold viol_eq. rewrite H. ring.
  - rewrite (code_viol_zero_iff_feasible k ds cv lo hi s v Ee Hlo Hhi Hs Hord Hnz Hv). split.
    + intros H lo' hi' Hlo' Hhi' j Hj. rewrite Hlo in Hlo'. rewrite Hhi in Hhi'.
      inversion Hlo'; inversion Hhi'; subst. apply H. exact Hj.
    + intros H j Hj. apply (H lo hi Hlo Hhi j Hj).
Qed.

Lemma code_viol_defined : forall k ds cv, con_wf k (length cv) -> exists v, code_viol k ds cv = Some v.
Proof.
  intros k ds cv [lo [hi [s [Hlo [Hhi [Hs [Hord [Hnz Heq]]]]]]]].
  destruct (c_equals k) as [e |] eqn:Ee.
  - destruct Heq as [el Hel].
    destruct (code_viol_eq_correct k ds cv e el s Ee Hel Hs) as [v [Hv _]]. exists v. exact Hv.
  - destruct (code_viol_ineq_correct k ds cv lo hi s Ee Hlo Hhi Hs Hord) as [v [Hv _]]. exists v. exact Hv.
Qed.

(* the residual that find_feasible minimises (Driver._compute_con_viol: linear constraints first, then
   the nonlinear ones) is the zero vector exactly when every element of every constraint satisfies its
   equality value or bounds — for any number of constraints of any sizes, any partition into linear
   and nonlinear, with or without driver scaling *)
Lemma residual_zero_iff_all_satisfied : forall cs ds x v,
  (forall s, In s cs -> con_wf (con_of s) (length (con_value s x))) ->
  con_viol_vector cs ds x = Some v ->
  (Forall (fun r => r == 0) v <-> forall s, In s cs -> con_sat (con_of s) (con_value s x)).
Proof.
  intros cs ds x v Hwf Hv. rewrite (con_viol_vector_zero_iff cs ds x v Hv). split.
  - intros H s Hs. destruct (code_viol_defined (con_of s) ds (con_value s x) (Hwf s Hs)) as [w Hw].
    apply (code_viol_zero_iff_sat _ ds _ w (Hwf s Hs) Hw). apply (H s w Hs Hw).
  - intros H s w Hs Hw. apply (code_viol_zero_iff_sat _ ds _ w (Hwf s Hs) Hw). apply H. exact Hs.
Qed.

(* ... and it is defined (no NumPy error) whenever the metadata are well formed *)
Lemma concat_opt_defined : forall l, (forall o, In o l -> exists w, o = Some w) -> exists v, concat_opt l = Some v.
Proof.
  induction l as [| o l IH]; intros H; [exists []; reflexivity |].
  destruct (H o (or_introl eq_refl)) as [w ->].
  destruct IH as [v Hv]; [intros o' Ho'; apply H; right; exact Ho' |].
  exists (w ++ v). cbn. rewrite Hv. reflexivity.
Qed.

Lemma residual_defined : forall cs ds x,
  (forall s, In s cs -> con_wf (con_of s) (length (con_value s x))) ->
  exists v, con_viol_vector cs ds x = Some v.
Proof.
  intros cs ds x Hwf. unfold con_viol_vector. apply concat_opt_defined.
  intros o Ho. apply in_app_or in Ho.
  destruct Ho as [Ho | Ho]; apply in_map_iff in Ho; destruct Ho as [s [<- Hin]];
    apply filter_In in Hin; destruct Hin as [Hin _]; apply code_viol_defined; apply Hwf; exact Hin.
Qed.

(* non-vacuity: a linear two-sided array constraint and a nonlinear equality, residual zero at a
   feasible point and non-zero at an infeasible one *)
Example residual_example :
  let cs := [mkcspec 0 2 1 None 1 (Some (BA [0; 0])) (Some (BA [1; 2])) None (ScRef (Some (BS 1)) (Some (BS 3))) true;
             mkcspec 2 1 2 None 1 None None (Some (BS 4)) ScNone false] in
  con_viol_vector cs true [1; 2; 2] = Some [0 * (/ (3 + - (1))); 0 * (/ (3 + - (1))); (2 * 2 * 1 - 4) * 1] /\
  con_viol_vector cs true [3; 2; 1] = Some [(3 * 1 - 1) * (/ (3 + - (1))); 0 * (/ (3 + - (1))); (2 * 1 * 1 - 4) * 1].
Proof. split; vm_compute; reflexivity. Qed.
