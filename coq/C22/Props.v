(* C22 — property theorems (statements only; proofs by [exact] of lemmas in Proofs*.v). *)
From Coq Require Import ZArith QArith Qabs List Bool.
From OMV Require Import Base.Val C22.Model C22.Proofs C22.ProofsVec.
Import ListNotations.
Open Scope Q_scope.

(* The violation is zero exactly on the feasible set (any lo, hi, c; equality: any e, c). *)
Theorem C22_viol_zero_iff_satisfied :
  forall lo hi c, viol lo hi c == 0 <-> satisfied lo hi c.
Proof. exact viol_zero_iff_satisfied. Qed.
Print Assumptions C22_viol_zero_iff_satisfied.

Theorem C22_viol_eq_zero_iff :
  forall e c, viol_eq e c == 0 <-> c == e.
Proof. exact viol_eq_zero_iff. Qed.
Print Assumptions C22_viol_eq_zero_iff.

(* It is the signed distance to the feasible interval: c - viol is feasible, no feasible point is
   nearer to c, negative exactly below the lower bound, positive exactly above the upper bound. *)
Theorem C22_viol_signed_distance :
  forall lo hi c, lo <= hi ->
    satisfied lo hi (c - viol lo hi c) /\
    (forall y, satisfied lo hi y -> Qabs (viol lo hi c) <= Qabs (c - y)) /\
    (viol lo hi c < 0 <-> c < lo) /\
    (0 < viol lo hi c <-> hi < c).
Proof. exact viol_signed_distance. Qed.
Print Assumptions C22_viol_signed_distance.

(* Driver scaling T(v) = (v + adder) * scaler: the violation measured in scaled space is
   scaler * violation (a negative scaler exchanges the scaled bounds) ... *)
Theorem C22_scaled_viol_pos :
  forall a s lo hi c, 0 < s ->
    viol (scale a s lo) (scale a s hi) (scale a s c) == s * viol lo hi c.
Proof. exact scaled_viol_pos. Qed.
Print Assumptions C22_scaled_viol_pos.

Theorem C22_scaled_viol_neg :
  forall a s lo hi c, s < 0 -> lo <= hi ->
    viol (scale a s hi) (scale a s lo) (scale a s c) == s * viol lo hi c.
Proof. exact scaled_viol_neg. Qed.
Print Assumptions C22_scaled_viol_neg.

(* ... and applying the whole affine map to a violation (a difference) is right only when
   adder * scaler = 0: the adder must not be applied. *)
Theorem C22_adder_must_not_be_applied :
  forall a s v, scale a s v == s * v <-> a * s == 0.
Proof. exact adder_on_violation_wrong. Qed.
Print Assumptions C22_adder_must_not_be_applied.

(* The (repaired) algorithm of get_constraint_values(viol=True) — broadcast scalar or array bounds,
   masks, sequential masked subtraction, zeroing, optional multiplication by total_scaler — returns,
   for vectors of any length, per element the spec's signed distance times the scaling factor. *)
Theorem C22_code_viol_ineq_correct :
  forall k ds cv lo hi s,
    c_equals k = None ->
    bcast (length cv) (c_lower k) = Some lo ->
    bcast (length cv) (c_upper k) = Some hi ->
    bcast (length cv) (c_scaler k) = Some s ->
    (forall j, (j < length cv)%nat -> nth j lo 0 <= nth j hi 0) ->
    exists v, code_viol k ds cv = Some v /\ length v = length cv /\
      forall j, (j < length cv)%nat ->
        nth j v 0 == factor ds s j * viol (nth j lo 0) (nth j hi 0) (nth j cv 0).
Proof. exact code_viol_ineq_correct. Qed.
Print Assumptions C22_code_viol_ineq_correct.

Theorem C22_code_viol_eq_correct :
  forall k ds cv e el s,
    c_equals k = Some e ->
    bcast (length cv) e = Some el ->
    bcast (length cv) (c_scaler k) = Some s ->
    exists v, code_viol k ds cv = Some v /\ length v = length cv /\
      forall j, (j < length cv)%nat ->
        nth j v 0 == factor ds s j * viol_eq (nth j el 0) (nth j cv 0).
Proof. exact code_viol_eq_correct. Qed.
Print Assumptions C22_code_viol_eq_correct.

(* The residual handed to least_squares by find_feasible (_compute_con_viol: linear constraints
   first) is the zero vector iff the violation vector of every constraint is zero, and a
   constraint's violation vector is zero iff every element satisfies its bounds. *)
Theorem C22_con_viol_vector_zero_iff :
  forall cs ds x v,
    con_viol_vector cs ds x = Some v ->
    (Forall (fun r => r == 0) v <->
     forall s w, In s cs -> code_viol (con_of s) ds (con_value s x) = Some w -> Forall (fun r => r == 0) w).
Proof. exact con_viol_vector_zero_iff. Qed.
Print Assumptions C22_con_viol_vector_zero_iff.

Theorem C22_code_viol_zero_iff_feasible :
  forall k ds cv lo hi s v,
    c_equals k = None ->
    bcast (length cv) (c_lower k) = Some lo ->
    bcast (length cv) (c_upper k) = Some hi ->
    bcast (length cv) (c_scaler k) = Some s ->
    (forall j, (j < length cv)%nat -> nth j lo 0 <= nth j hi 0) ->
    (forall j, (j < length cv)%nat -> ~ nth j s 0 == 0) ->
    code_viol k ds cv = Some v ->
    (Forall (fun r => r == 0) v <->
     forall j, (j < length cv)%nat -> satisfied (nth j lo 0) (nth j hi 0) (nth j cv 0)).
Proof. exact code_viol_zero_iff_feasible. Qed.
Print Assumptions C22_code_viol_zero_iff_feasible.

(* The algorithm at the pinned commit: equal to the repaired one for scalar bounds without driver
   scaling (any vector) ... *)
Theorem C22_present_scalar_unscaled_correct :
  forall lo hi a s lin ds cv,
    present_viol (mkcon (BS lo) (BS hi) None a s lin) ds cv =
    code_viol (mkcon (BS lo) (BS hi) None a s lin) false cv.
Proof. exact present_scalar_unscaled_correct. Qed.
Print Assumptions C22_present_scalar_unscaled_correct.

(* ... refuted for per-element bounds (NumPy raises; the repaired algorithm returns the distances) *)
Theorem C22_present_array_bounds_refuted :
  exists k cv lo hi,
    bcast (length cv) (c_lower k) = Some lo /\ bcast (length cv) (c_upper k) = Some hi /\
    (forall j, (j < length cv)%nat -> nth j lo 0 <= nth j hi 0) /\
    present_viol k false cv = None /\
    code_viol k false cv = Some [-(2); 4; 0].
Proof. exact present_array_bounds_refuted. Qed.
Print Assumptions C22_present_array_bounds_refuted.

(* ... and refuted for driver scaling (the returned value is not scaler * violation) *)
Theorem C22_present_driver_scaling_refuted :
  exists k cv v,
    present_viol k true cv = Some v /\
    ~ nth 0 v 0 == (1 # 2) * viol 0 1 (nth 0 cv 0) /\
    code_viol k true cv = Some [(1 # 2) * viol 0 1 (nth 0 cv 0)].
Proof. exact present_driver_scaling_refuted. Qed.
Print Assumptions C22_present_driver_scaling_refuted.

(* The residual vector that find_feasible minimises (Driver._compute_con_viol: the linear constraints
   first, then the nonlinear ones) is defined and is the zero vector exactly when every element of
   every constraint — equality or inequality, scalar or per-element bounds — is satisfied, for any
   number of constraints of any sizes, any linear/nonlinear partition, with or without driver scaling
   (well-formed metadata: lower <= upper per element, no zero scaler). *)
Theorem C22_residual_zero_iff_all_satisfied :
  forall cs ds x v,
    (forall s, In s cs -> con_wf (con_of s) (length (con_value s x))) ->
    con_viol_vector cs ds x = Some v ->
    (Forall (fun r => r == 0) v <-> forall s, In s cs -> con_sat (con_of s) (con_value s x)).
Proof. exact residual_zero_iff_all_satisfied. Qed.
Print Assumptions C22_residual_zero_iff_all_satisfied.

Theorem C22_residual_defined :
  forall cs ds x,
    (forall s, In s cs -> con_wf (con_of s) (length (con_value s x))) ->
    exists v, con_viol_vector cs ds x = Some v.
Proof. exact residual_defined. Qed.
Print Assumptions C22_residual_defined.
