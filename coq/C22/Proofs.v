(* C22 — proofs about the per-element violation and its scaling. *)
From Coq Require Import ZArith QArith Qabs List Bool Lia Lqa.
From OMV Require Import Base.Val C22.Model.
Import ListNotations.
Open Scope Q_scope.

(* ------------------------------------------------------------------ boolean comparisons *)

Lemma Qltb_true : forall a b, Qltb a b = true <-> a < b.
Proof.
  intros a b. unfold Qltb. rewrite negb_true_iff.
  destruct (Qle_bool b a) eqn:E.
  - apply Qle_bool_iff in E. split; [discriminate | intro; lra].
  - split; [intros _ | reflexivity].
    destruct (Qlt_le_dec a b) as [H | H]; [exact H |].
    apply Qle_bool_iff in H. congruence.
Qed.

Lemma Qltb_false : forall a b, Qltb a b = false <-> b <= a.
Proof.
  intros a b. unfold Qltb. rewrite negb_false_iff. apply Qle_bool_iff.
Qed.

Lemma Qle_bool_false : forall a b, Qle_bool a b = false <-> b < a.
Proof.
  intros a b. destruct (Qle_bool a b) eqn:E.
  - apply Qle_bool_iff in E. split; [discriminate | intro; lra].
  - split; [intros _ | reflexivity].
    destruct (Qlt_le_dec b a) as [H | H]; [exact H |].
    apply Qle_bool_iff in H. congruence.
Qed.

Ltac qcases :=
  repeat match goal with
  | H : Qltb _ _ = true |- _ => apply Qltb_true in H
  | H : Qltb _ _ = false |- _ => apply Qltb_false in H
  | H : Qle_bool _ _ = true |- _ => apply Qle_bool_iff in H
  | H : Qle_bool _ _ = false |- _ => apply Qle_bool_false in H
  end.

(* ------------------------------------------------------------------ the spec *)

Lemma viol_cases : forall lo hi c,
  (c < lo /\ viol lo hi c == c - lo) \/
  (lo <= c /\ hi < c /\ viol lo hi c == c - hi) \/
  (lo <= c /\ c <= hi /\ viol lo hi c == 0).
Proof.
  intros lo hi c. unfold viol, clamp.
  destruct (Qltb c lo) eqn:E1; [| destruct (Qltb hi c) eqn:E2]; qcases.
  - left. split; [exact E1 | reflexivity].
  - right; left. split; [assumption | split; [assumption | reflexivity]].
  - right; right. split; [assumption | split; [assumption | ring]].
Qed.

Lemma viol_zero_iff_satisfied : forall lo hi c,
  viol lo hi c == 0 <-> satisfied lo hi c.
Proof.
  intros lo hi c. unfold satisfied.
  destruct (viol_cases lo hi c) as [[H1 H2] | [[H1 [H2 H3]] | [H1 [H2 H3]]]]; rewrite ?H2, ?H3; split; intros; lra.
Qed.

Lemma viol_eq_zero_iff : forall e c, viol_eq e c == 0 <-> c == e.
Proof. intros e c. unfold viol_eq. split; intros; lra. Qed.

Lemma Qabs_le_neg : forall u w, u <= 0 -> w <= u -> Qabs u <= Qabs w.
Proof.
  intros u w Hu Hw. rewrite (Qabs_neg u Hu). assert (Hw0 : w <= 0) by lra.
  rewrite (Qabs_neg w Hw0). lra.
Qed.

Lemma Qabs_le_pos : forall u w, 0 <= u -> u <= w -> Qabs u <= Qabs w.
Proof.
  intros u w Hu Hw. rewrite (Qabs_pos u Hu). assert (Hw0 : 0 <= w) by lra.
  rewrite (Qabs_pos w Hw0). lra.
Qed.

(* the point c - viol is feasible, no feasible point is nearer, and the sign tells the side *)
Lemma viol_signed_distance : forall lo hi c,
  lo <= hi ->
  satisfied lo hi (c - viol lo hi c) /\
  (forall y, satisfied lo hi y -> Qabs (viol lo hi c) <= Qabs (c - y)) /\
  (viol lo hi c < 0 <-> c < lo) /\
  (0 < viol lo hi c <-> hi < c).
Proof.
  intros lo hi c Hlh. unfold satisfied.
  destruct (viol_cases lo hi c) as [[H1 H2] | [[H1 [H2 H3]] | [H1 [H2 H3]]]].
  - rewrite H2. split; [split; lra | split; [| split; split; intros; lra]].
    intros y [Ha Hb]. apply Qabs_le_neg; lra.
  - rewrite H3. split; [split; lra | split; [| split; split; intros; lra]].
    intros y [Ha Hb]. apply Qabs_le_pos; lra.
  - rewrite H3. split; [split; lra | split; [| split; split; intros; lra]].
    intros y _. rewrite H3. apply (Qabs_nonneg (c - y)).
Qed.

Lemma viol_eq_distance : forall e c, Qabs (viol_eq e c) == Qabs (c - e) /\ (viol_eq e c < 0 <-> c < e).
Proof. intros. unfold viol_eq. split; [reflexivity | split; intros; lra]. Qed.

(* ------------------------------------------------------------------ the code's element *)

Lemma code_viol1_eq_spec : forall lo hi c, lo <= hi -> code_viol1 lo hi c == viol lo hi c.
Proof.
  intros lo hi c Hlh. unfold code_viol1, viol, clamp.
  destruct (Qltb c lo) eqn:E1; destruct (Qltb hi c) eqn:E2;
    destruct (Qle_bool lo c) eqn:E3; destruct (Qle_bool c hi) eqn:E4; cbn [andb]; qcases; lra.
Qed.

(* without lo <= hi the sequential subtraction subtracts both bounds *)
Lemma code_viol1_inconsistent_bounds : exists lo hi c, ~ code_viol1 lo hi c == viol lo hi c.
Proof. exists 2, (-1), 1. vm_compute. discriminate. Qed.

(* ------------------------------------------------------------------ scaling *)

(* the image of a difference under the affine driver map is the scaler times the difference *)
Lemma scale_difference : forall a s u v, scale a s u - scale a s v == s * (u - v).
Proof. intros. unfold scale. ring. Qed.

(* measuring the violation of the scaled value against the scaled bounds gives scaler * violation *)
Lemma scaled_viol_pos : forall a s lo hi c,
  0 < s -> viol (scale a s lo) (scale a s hi) (scale a s c) == s * viol lo hi c.
Proof.
  intros a s lo hi c Hs.
  assert (M : forall u v, u < v <-> scale a s u < scale a s v).
  { intros u v. unfold scale. split; intro H; nra. }
  assert (M' : forall u v, u <= v <-> scale a s u <= scale a s v).
  { intros u v. unfold scale. split; intro H; nra. }
  destruct (viol_cases lo hi c) as [[H1 H2] | [[H1 [H2 H3]] | [H1 [H2 H3]]]];
  destruct (viol_cases (scale a s lo) (scale a s hi) (scale a s c)) as [[G1 G2] | [[G1 [G2 G3]] | [G1 [G2 G3]]]];
  rewrite ?H2, ?H3, ?G2, ?G3;
  try (apply M in G1); try (apply M' in G1); try (apply M in G2); try (apply M' in G2);
  try lra; unfold scale; ring.
Qed.

(* a negative scaler exchanges the roles of the scaled bounds *)
Lemma scaled_viol_neg : forall a s lo hi c,
  s < 0 -> lo <= hi -> viol (scale a s hi) (scale a s lo) (scale a s c) == s * viol lo hi c.
Proof.
  intros a s lo hi c Hs Hlh.
  assert (M : forall u v, u < v <-> scale a s v < scale a s u).
  { intros u v. unfold scale. split; intro H; nra. }
  assert (M' : forall u v, u <= v <-> scale a s v <= scale a s u).
  { intros u v. unfold scale. split; intro H; nra. }
  destruct (viol_cases lo hi c) as [[H1 H2] | [[H1 [H2 H3]] | [H1 [H2 H3]]]];
  destruct (viol_cases (scale a s hi) (scale a s lo) (scale a s c)) as [[G1 G2] | [[G1 [G2 G3]] | [G1 [G2 G3]]]];
  rewrite ?H2, ?H3, ?G2, ?G3;
  try (apply M in G1); try (apply M' in G1); try (apply M in G2); try (apply M' in G2);
  try lra; unfold scale; ring.
Qed.

(* applying the full affine map (with the adder) to a violation is right only if adder*scaler = 0 *)
Lemma adder_on_violation_wrong : forall a s v, scale a s v == s * v <-> a * s == 0.
Proof. intros. unfold scale. split; intro H; nra. Qed.

Lemma scaled_viol_zero_iff : forall s lo hi c, ~ s == 0 -> (s * viol lo hi c == 0 <-> satisfied lo hi c).
Proof.
  intros s lo hi c Hs. rewrite <- viol_zero_iff_satisfied. split; intro H.
  - destruct (Qmult_integral _ _ H); [contradiction | assumption].
  - rewrite H. ring.
Qed.
