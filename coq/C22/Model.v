(* C22 — constraint violation is measured correctly elementwise and in driver units.

   Definitions only (no proofs).  Three layers:

   1. reference semantics (spec): per element, the signed distance of a constraint value from the
      feasible set [lo, hi] (or from the equality value), and that distance times the scaler;
   2. the algorithm of openmdao/core/driver.py:Driver.get_constraint_values(viol=True) and
      Driver._compute_con_viol, REPAIRED (props/C22/fix_1.diff): boolean masks, sequential in-place
      masked subtraction of the (broadcast) bounds, zeroing of the non-violated entries, then
      multiplication by total_scaler when driver scaling is requested;
   3. the algorithm AS IT IS at the pinned commit ([present_*]): the masked subtraction uses the
      whole bound array as right-hand side (NumPy raises unless every element is selected) and the
      returned dictionary is copied before Autoscaler._apply_vec_scaling is applied, which moreover
      adds the adder.

   The evaluators [get_constraint_viol] and [compute_con_viol] used by the correspondence follow
   layer 2 and also model how the driver obtains the constraint value in driver units from the
   design vector. *)
From Coq Require Import ZArith QArith List Bool.
From OMV Require Import Base.Val.
Import ListNotations.
Open Scope Q_scope.

Definition Qltb (a b : Q) : bool := negb (Qle_bool b a).

(* openmdao.core.constants.INF_BOUND = 1.0e30 (the binary64 value of that literal) *)
Definition INF_BOUND : Q := 1000000000000000019884624838656 # 1.

(* ------------------------------------------------------------------ 1. reference semantics *)

Definition satisfied (lo hi c : Q) : Prop := lo <= c /\ c <= hi.

(* nearest point of [lo, hi] *)
Definition clamp (lo hi c : Q) : Q :=
  if Qltb c lo then lo else if Qltb hi c then hi else c.

(* signed distance outside the interval: negative below lo, positive above hi, 0 inside *)
Definition viol (lo hi c : Q) : Q := c - clamp lo hi c.

Definition viol_eq (e c : Q) : Q := c - e.

(* the affine map of driver scaling and its linear part *)
Definition scale (adder scaler v : Q) : Q := (v + adder) * scaler.

(* ------------------------------------------------------------------ NumPy helpers *)

(* a scalar (Python float) or an ndarray *)
Inductive bound := BS (q : Q) | BA (l : list Q).

(* np.broadcast_to(b, (n,)) : error unless scalar, length n or length 1 *)
Definition bcast (n : nat) (b : bound) : option (list Q) :=
  match b with
  | BS q => Some (repeat q n)
  | BA l => if Nat.eqb (length l) n then Some l
            else if Nat.eqb (length l) 1 then Some (repeat (hd 0 l) n) else None
  end.

Fixpoint zip3 (f : Q -> Q -> Q -> Q) (a b c : list Q) : list Q :=
  match a, b, c with
  | x :: a', y :: b', z :: c' => f x y z :: zip3 f a' b' c'
  | _, _, _ => []
  end.

Fixpoint zip2 (f : Q -> Q -> Q) (a b : list Q) : list Q :=
  match a, b with
  | x :: a', y :: b' => f x y :: zip2 f a' b'
  | _, _ => []
  end.

(* ------------------------------------------------------------------ 2. the (repaired) algorithm *)

(* one element of
     lower_viol_idxs = where(con_val < lower); upper_viol_idxs = where(con_val > upper)
     non_viol_idxs = where((con_val >= lower) & (con_val <= upper))
     con_val[lower_viol_idxs] -= lower[lower_viol_idxs]
     con_val[upper_viol_idxs] -= upper[upper_viol_idxs]
     con_val[non_viol_idxs] = 0.0
   all three masks are computed from the ORIGINAL value before anything is modified *)
Definition code_viol1 (lo hi c : Q) : Q :=
  let lmask := Qltb c lo in
  let umask := Qltb hi c in
  let nmask := Qle_bool lo c && Qle_bool c hi in
  let x1 := if lmask then c - lo else c in
  let x2 := if umask then x1 - hi else x1 in
  if nmask then 0 else x2.

Record con := mkcon {
  c_lower : bound;           (* meta['lower'] : -INF_BOUND when not given *)
  c_upper : bound;           (* meta['upper'] :  INF_BOUND when not given *)
  c_equals : option bound;   (* meta['equals'] *)
  c_adder : bound;           (* meta['total_adder'] *)
  c_scaler : bound;          (* meta['total_scaler'] *)
  c_linear : bool
}.

(* violation vector of one constraint whose driver-unit values are cv *)
Definition code_viol (k : con) (ds : bool) (cv : list Q) : option (list Q) :=
  let n := length cv in
  let unscaled :=
    match c_equals k with
    | Some e =>                                   (* con_val -= meta['equals'] *)
        match bcast n e with
        | Some el => Some (zip2 (fun c e => c - e) cv el)
        | None => None
        end
    | None =>
        match bcast n (c_lower k), bcast n (c_upper k) with
        | Some lo, Some hi => Some (zip3 code_viol1 lo hi cv)
        | _, _ => None
        end
    end in
  match unscaled with
  | None => None
  | Some v =>
      if ds then                                   (* con_val *= meta['total_scaler'] *)
        match bcast n (c_scaler k) with
        | Some s => Some (zip2 (fun x s => x * s) v s)
        | None => None
        end
      else Some v
  end.

(* ------------------------------------------------------------------ 3. the algorithm at the pinned commit *)

(* a[idxs] -= b   with idxs = positions where mask holds.
   b a Python float: subtracted from every selected entry;
   b an ndarray of length m: NumPy needs m = len(idxs) (or m = 1) and subtracts b[j] from the
   j-th SELECTED entry. *)
Fixpoint sub_selected (v : list Q) (mask : list bool) (b : list Q) : list Q :=
  match v, mask with
  | x :: v', true :: m' =>
      match b with
      | y :: b' => (x - y) :: sub_selected v' m' b'
      | [] => x :: sub_selected v' m' []
      end
  | x :: v', false :: m' => x :: sub_selected v' m' b
  | _, _ => v
  end.

Definition count_true (m : list bool) : nat := length (filter (fun b => b) m).

Definition masked_sub (v : list Q) (mask : list bool) (b : bound) : option (list Q) :=
  match b with
  | BS q => Some (map (fun xm : Q * bool => if snd xm then fst xm - q else fst xm) (combine v mask))
  | BA l =>
      if Nat.eqb (length l) (count_true mask) then Some (sub_selected v mask l)
      else if Nat.eqb (length l) 1
           then Some (map (fun xm : Q * bool => if snd xm then fst xm - hd 0 l else fst xm) (combine v mask))
           else None
  end.

Definition cmp_mask (f : Q -> Q -> bool) (cv : list Q) (n : nat) (b : bound) : option (list bool) :=
  match bcast n b with
  | Some l => Some (map (fun p : Q * Q => f (fst p) (snd p)) (combine cv l))
  | None => None
  end.

Definition present_viol (k : con) (ds : bool) (cv : list Q) : option (list Q) :=
  let n := length cv in
  match c_equals k with
  | Some e =>
      match bcast n e with
      | Some el => Some (zip2 (fun c e => c - e) cv el)
      | None => None
      end
  | None =>
      match cmp_mask Qltb cv n (c_lower k),
            cmp_mask (fun c h => Qltb h c) cv n (c_upper k),
            cmp_mask (fun c l => Qle_bool l c) cv n (c_lower k),
            cmp_mask (fun c h => Qle_bool c h) cv n (c_upper k) with
      | Some lm, Some um, Some ge, Some le =>
          match masked_sub cv lm (c_lower k) with
          | Some v1 =>
              match masked_sub v1 um (c_upper k) with
              | Some v2 =>
                  Some (map (fun p : Q * bool => if snd p then 0 else fst p)
                            (combine v2 (map (fun p : bool * bool => andb (fst p) (snd p)) (combine ge le))))
              | None => None
              end
          | None => None
          end
      | _, _, _, _ => None
      end
  end.
(* [ds] is not used: con_dict[name] = con_vec[name].copy() is taken BEFORE
   apply_constraint_scaling(con_vec) runs, so the returned values are never scaled. *)

(* what that late scaling writes into the constraint vector (not returned to the caller):
   Autoscaler._apply_vec_scaling: vec += adder; vec *= scaler *)
Definition present_vec_after_scaling (k : con) (cv : list Q) : option (list Q) :=
  match present_viol k false cv, bcast (length cv) (c_adder k), bcast (length cv) (c_scaler k) with
  | Some v, Some a, Some s => Some (zip3 (fun x a s => scale a s x) v a s)
  | _, _, _ => None
  end.

(* ------------------------------------------------------------------ driver-level evaluator *)

(* determine_adder_scaler(ref0, ref, adder, scaler) of openmdao/utils/general_utils.py *)
Inductive scaling :=
| ScNone
| ScAS (adder scaler : option bound)
| ScRef (ref0 ref : option bound).

Definition bmap2 (f : Q -> Q -> Q) (a b : bound) : bound :=
  match a, b with
  | BS x, BS y => BS (f x y)
  | BS x, BA l => BA (map (fun y => f x y) l)
  | BA l, BS y => BA (map (fun x => f x y) l)
  | BA l, BA m => BA (zip2 f l m)
  end.

Definition bmap (f : Q -> Q) (a : bound) : bound :=
  match a with BS x => BS (f x) | BA l => BA (map f l) end.

Definition odef (d : Q) (o : option bound) : bound := match o with Some b => b | None => BS d end.

Definition total_adder_scaler (s : scaling) : bound * bound :=
  match s with
  | ScNone => (BS 0, BS 1)
  | ScAS a sc => (odef 0 a, odef 1 sc)
  | ScRef r0 r =>
      let adder := bmap Qopp (odef 0 r0) in          (* adder = -ref0 *)
      (adder, bmap Qinv (bmap2 Qplus (odef 1 r) adder)) (* scaler = 1.0 / (ref + adder) *)
  end.

(* one constraint of a case: output y = coef * x[off .. off+n), optional indices into it,
   unit conversion factor source units -> constraint units *)
Record cspec := mkcspec {
  s_off : nat; s_n : nat; s_coef : Q;
  s_idx : option (list nat);
  s_factor : Q;
  s_lower : option bound; s_upper : option bound; s_equals : option bound;
  s_scaling : scaling;
  s_linear : bool
}.

Definition con_of (s : cspec) : con :=
  let ads := total_adder_scaler (s_scaling s) in
  mkcon (match s_lower s with Some b => b | None => BS (- INF_BOUND) end)
        (match s_upper s with Some b => b | None => BS INF_BOUND end)
        (s_equals s) (fst ads) (snd ads) (s_linear s).

(* value of the constraint in driver units, given the model-space design vector x *)
Definition con_value (s : cspec) (x : list Q) : list Q :=
  let y := map (fun v => s_coef s * v) (firstn (s_n s) (skipn (s_off s) x)) in
  let sel := match s_idx s with
             | Some ix => map (fun i => nth i y 0) ix
             | None => y
             end in
  map (fun v => v * s_factor s) sel.

Definition vres (o : option (list Q)) : val :=
  match o with Some l => vqs l | None => VE 1 end.

(* filter_by_meta of get_constraint_values: lintype in {all=0, linear=1, nonlinear=2},
   ctype in {all=0, eq=1, ineq=2} *)
Definition selected (lintype ctype : Z) (s : cspec) : bool :=
  (match lintype with 1%Z => s_linear s | 2%Z => negb (s_linear s) | _ => true end) &&
  (match ctype with
   | 1%Z => match s_equals s with Some _ => true | None => false end
   | 2%Z => match s_equals s with Some _ => false | None => true end
   | _ => true end).

(* Driver.get_constraint_values(ctype, lintype, driver_scaling, viol=True): the values of the
   returned dict in its order *)
Definition get_constraint_viol (cs : list cspec) (lintype ctype : Z) (ds : bool) (x : list Q) : val :=
  VL (map (fun s => vres (code_viol (con_of s) ds (con_value s x)))
          (filter (selected lintype ctype) cs)).

Fixpoint concat_opt (l : list (option (list Q))) : option (list Q) :=
  match l with
  | [] => Some []
  | None :: _ => None
  | Some a :: r => match concat_opt r with Some b => Some (a ++ b) | None => None end
  end.

(* Driver._compute_con_viol(x_new, desvar_names, driver_scaling): x_new is the design vector in
   driver-scaled space (design variable scaling: x_model = x_new / scaler - adder); the flat vector
   lists the linear constraints first *)
Definition con_viol_vector (cs : list cspec) (ds : bool) (x : list Q) : option (list Q) :=
  let f := fun s => code_viol (con_of s) ds (con_value s x) in
  concat_opt (map f (filter (fun s => s_linear s) cs) ++ map f (filter (fun s => negb (s_linear s)) cs)).

Definition dv_unscale (dv_adder dv_scaler : Q) (xnew : list Q) : list Q :=
  map (fun v => v / dv_scaler - dv_adder) xnew.

Definition compute_con_viol (cs : list cspec) (ds : bool) (dv_adder dv_scaler : Q) (xnew : list Q) : val :=
  vres (con_viol_vector cs ds (dv_unscale dv_adder dv_scaler xnew)).

(* ------------------------------------------------------------------ statements about whole constraints *)

(* the metadata of a constraint of n elements is well formed: bounds / equality / scaler broadcast to
   n, lower <= upper per element, no zero scaler *)
Definition con_wf (k : con) (n : nat) : Prop :=
  exists lo hi s,
    bcast n (c_lower k) = Some lo /\ bcast n (c_upper k) = Some hi /\ bcast n (c_scaler k) = Some s /\
    (forall j, (j < n)%nat -> nth j lo 0 <= nth j hi 0) /\
    (forall j, (j < n)%nat -> ~ nth j s 0 == 0) /\
    match c_equals k with Some e => exists el, bcast n e = Some el | None => True end.

(* every element of the constraint satisfies its equality value or its bounds *)
Definition con_sat (k : con) (cv : list Q) : Prop :=
  match c_equals k with
  | Some e => forall el, bcast (length cv) e = Some el ->
                forall j, (j < length cv)%nat -> nth j cv 0 == nth j el 0
  | None => forall lo hi, bcast (length cv) (c_lower k) = Some lo -> bcast (length cv) (c_upper k) = Some hi ->
                forall j, (j < length cv)%nat -> satisfied (nth j lo 0) (nth j hi 0) (nth j cv 0)
  end.
