(* Universal result type used by every correspondence check: the harness renders the
   implementation's canonicalised result as a [val] literal, the model's run function
   produces a [val], and [mismatches] lists the indices where they differ. *)
From Coq Require Import ZArith QArith Qabs List Bool String.
Import ListNotations.
Open Scope Z_scope.

Inductive val : Type :=
| VZ (z : Z)
| VQ (q : Q)
| VB (b : bool)
| VN
| VE (code : Z)
| VS (s : string)
| VL (l : list val).

Fixpoint val_eqb (a b : val) {struct a} : bool :=
  match a, b with
  | VZ x, VZ y => Z.eqb x y
  | VQ x, VQ y => Qeq_bool x y
  | VZ x, VQ y => Qeq_bool (inject_Z x) y
  | VQ x, VZ y => Qeq_bool x (inject_Z y)
  | VB x, VB y => Bool.eqb x y
  | VN, VN => true
  | VE x, VE y => Z.eqb x y
  | VS x, VS y => String.eqb x y
  | VL x, VL y =>
      (fix go (x y : list val) {struct x} : bool :=
         match x, y with
         | [], [] => true
         | a :: x', b :: y' => val_eqb a b && go x' y'
         | _, _ => false
         end) x y
  | _, _ => false
  end.

Fixpoint mismatches_from (i : nat) (got want : list val) : list nat :=
  match got, want with
  | g :: got', w :: want' =>
      if val_eqb g w then mismatches_from (S i) got' want'
      else i :: mismatches_from (S i) got' want'
  | [], [] => []
  | _, _ => [i]
  end.

Definition mismatches (got want : list val) : list nat := mismatches_from 0 got want.

Definition vzs (l : list Z) : val := VL (map VZ l).
Definition vqs (l : list Q) : val := VL (map VQ l).
Definition vopt {A} (f : A -> val) (o : option A) : val :=
  match o with Some a => f a | None => VN end.

(* Tolerance comparison (exactness class E4): rationals may differ by tol * max(1,|want|). *)
Definition q_close (tol a b : Q) : bool :=
  Qle_bool (Qabs (a - b)) (tol * (if Qle_bool 1 (Qabs b) then Qabs b else 1)).

Fixpoint val_close (tol : Q) (a b : val) {struct a} : bool :=
  match a, b with
  | VQ x, VQ y => q_close tol x y
  | VZ x, VQ y => q_close tol (inject_Z x) y
  | VQ x, VZ y => q_close tol x (inject_Z y)
  | VL x, VL y =>
      (fix go (x y : list val) {struct x} : bool :=
         match x, y with
         | [], [] => true
         | a :: x', b :: y' => val_close tol a b && go x' y'
         | _, _ => false
         end) x y
  | _, _ => val_eqb a b
  end.

Fixpoint mismatches_tol_from (tol : Q) (i : nat) (got want : list val) : list nat :=
  match got, want with
  | g :: got', w :: want' =>
      if val_close tol g w then mismatches_tol_from tol (S i) got' want'
      else i :: mismatches_tol_from tol (S i) got' want'
  | [], [] => []
  | _, _ => [i]
  end.

Definition mismatches_tol (tol : Q) (got want : list val) : list nat :=
  mismatches_tol_from tol 0 got want.
