(* Shared proof header: lets [lia] decide boolean comparisons, [/] and [mod]. *)
From Coq Require Export ZArith List Bool Lia ZifyBool.
Export ListNotations.
Ltac Zify.zify_post_hook ::= Z.to_euclidean_division_equations.

Ltac inv H := inversion H; subst; clear H.
Ltac break_if :=
  match goal with
  | |- context [if ?b then _ else _] => let E := fresh "E" in destruct b eqn:E
  | H : context [if ?b then _ else _] |- _ => let E := fresh "E" in destruct b eqn:E
  end.
Ltac break_match :=
  match goal with
  | |- context [match ?x with _ => _ end] => let E := fresh "E" in destruct x eqn:E
  | H : context [match ?x with _ => _ end] |- _ => let E := fresh "E" in destruct x eqn:E
  end.
