(* C21 — property theorems (statements only; proofs by [exact] of lemmas in Proofs.v). *)
From Coq Require Import ZArith QArith String List Bool.
From OMV Require Import Base.Val C21.Model C21.Proofs.
Import ListNotations.
Open Scope Q_scope.

(* encoding_exact (old style: SLSQP, COBYLA; repaired per-element encoding): for a constraint of any
   size with any per-element mix of lower-only / upper-only / two-sided / unbounded / equality
   bounds, SciPy's reading of ALL emitted dicts (fun >= 0, fun == 0 with fun = _confunc) holds iff
   EVERY element satisfies its bound.  Values are finite (inside the +-1e30 sentinels). *)
Theorem C21_encoding_exact_old :
  forall k cv,
    (forall j, (j < esize k)%nat -> - INF < nth j cv 0 /\ nth j cv 0 < INF) ->
    (Forall (sat k cv) (encode_old k) <-> forall j, (j < esize k)%nat -> elem_ok k j (nth j cv 0)).
Proof. exact encoding_exact_old. Qed.
Print Assumptions C21_encoding_exact_old.

(* the same for the new style (trust-constr): one NonlinearConstraint per element ... *)
Theorem C21_encoding_exact_new :
  forall k cv,
    e_linear k = false ->
    (forall j, (j < esize k)%nat -> - INF < nth j cv 0 /\ nth j cv 0 < INF) ->
    (Forall (sat k cv) (encode_new k) <-> forall j, (j < esize k)%nat -> elem_ok k j (nth j cv 0)).
Proof. exact encoding_exact_new. Qed.
Print Assumptions C21_encoding_exact_new.

(* ... or one LinearConstraint with per-row bounds *)
Theorem C21_encoding_exact_new_linear :
  forall k cv,
    e_linear k = true -> e_eq k = None ->
    length cv = esize k -> length (e_hi k) = esize k ->
    (forall j, (j < esize k)%nat -> - INF < nth j cv 0 /\ nth j cv 0 < INF) ->
    (Forall (sat k cv) (encode_new k) <-> forall j, (j < esize k)%nat -> elem_ok k j (nth j cv 0)).
Proof. exact encoding_exact_new_linear. Qed.
Print Assumptions C21_encoding_exact_new_linear.

(* the encodings at the pinned commit are refuted: all emitted constraints hold, an element is
   outside its bound *)
Theorem C21_encode_old_present_refuted :
  exists k cv,
    (forall j, (j < esize k)%nat -> - INF < nth j cv 0 /\ nth j cv 0 < INF) /\
    Forall (sat k cv) (encode_old_present k) /\ ~ elem_ok k 1 (nth 1 cv 0).
Proof. exact encode_old_present_refuted. Qed.
Print Assumptions C21_encode_old_present_refuted.

Theorem C21_encode_new_present_refuted :
  exists k cv,
    (forall j, (j < esize k)%nat -> - INF < nth j cv 0 /\ nth j cv 0 < INF) /\
    Forall (sat k cv) (encode_new_present k) /\ ~ elem_ok k 0 (nth 0 cv 0).
Proof. exact encode_new_present_refuted. Qed.
Print Assumptions C21_encode_new_present_refuted.

(* sign lemmas: what _confunc >= 0 means, and _congradfunc's sign is the slope of _confunc in the
   constraint value whenever both test the same lower bound *)
Theorem C21_confunc_sign :
  forall k dbl j c,
    eq_at k j = None ->
    (0 <= confunc k dbl j c <->
     if dbl || Qle_bool (lo_at k j) (- INF) then c <= hi_at k j else lo_at k j <= c).
Proof. exact confunc_sign. Qed.
Print Assumptions C21_confunc_sign.

Theorem C21_congrad_sign :
  forall k dbl j c t,
    (Qle_bool (mlo_at k j) (- INF) = Qle_bool (lo_at k j) (- INF)) ->
    confunc k dbl j (c + t) - confunc k dbl j c == congrad_sign k dbl j * t.
Proof. exact confunc_congrad_consistent. Qed.
Print Assumptions C21_congrad_sign.

(* feasibility in driver (scaled) space iff feasibility in model space, for every non-zero scaler of
   either sign, with the repaired bound scaling (bounds exchanged under a negative scaler) *)
Theorem C21_scaled_feasible_iff_model_feasible :
  forall a s lo hi c,
    ~ s == 0 ->
    (lo <= - INF \/ (- INF < (lo + a) * s /\ (lo + a) * s < INF)) ->
    (INF <= hi \/ (- INF < (hi + a) * s /\ (hi + a) * s < INF)) ->
    (ok (sc_lo a s lo hi) (sc_hi a s lo hi) ((c + a) * s) <-> ok lo hi c).
Proof. exact scaled_feasible_iff_model_feasible. Qed.
Print Assumptions C21_scaled_feasible_iff_model_feasible.

(* refuted for the bound scaling at the pinned commit under a negative scaler *)
Theorem C21_scaled_feasible_present_refuted :
  exists a s lo hi c,
    ok (scale_lower a s lo) (scale_upper a s hi) ((c + a) * s) /\ ~ ok lo hi c.
Proof. exact scaled_feasible_present_refuted. Qed.
Print Assumptions C21_scaled_feasible_present_refuted.

(* the minimiser is independent of the driver scaling (same feasible set, positive objective scaler) *)
Theorem C21_argmin_invariant :
  forall (X : Type) (f : X -> Q) (feas feas' : X -> Prop) (a s : Q) (x : X),
    0 < s -> (forall y, feas y <-> feas' y) ->
    ((feas x /\ forall y, feas y -> f x <= f y) <->
     (feas' x /\ forall y, feas' y -> (f x + a) * s <= (f y + a) * s)).
Proof. exact argmin_invariant. Qed.
Print Assumptions C21_argmin_invariant.
