(* C21 — property theorems (statements only; proofs by [exact] of lemmas in Proofs.v). *)
From Coq Require Import ZArith QArith String List Bool.
From OMV Require Import Base.Val C21.Model C21.Proofs.
Import ListNotations.
Open Scope Q_scope.

(* encoding_exact (old style: SLSQP, COBYLA; repaired per-element encoding): for a constraint of any
   size with any per-element mix of lower-only / upper-only / two-sided / unbounded / equality
   bounds, SciPy's reading of ALL emitted dicts (fun >= 0, fun == 0 with fun = _confunc) holds iff
   EVERY element satisfies its bound.  Values are finite (inside the +-1e30 sentinels). *)
Theorem C21_encoding_exact_old :
  forall k cv,
    (forall j, (j < esize k)%nat -> - INF < nth j cv 0 /\ nth j cv 0 < INF) ->
    (Forall (sat k cv) (encode_old k) <-> forall j, (j < esize k)%nat -> elem_ok k j (nth j cv 0)).
Proof. exact encoding_exact_old. Qed.
Print Assumptions C21_encoding_exact_old.

(* the same for the new style (trust-constr): one NonlinearConstraint per element ... *)
Theorem C21_encoding_exact_new :
  forall k cv,
    e_linear k = false ->
    (forall j, (j < esize k)%nat -> - INF < nth j cv 0 /\ nth j cv 0 < INF) ->
    (Forall (sat k cv) (encode_new k) <-> forall j, (j < esize k)%nat -> elem_ok k j (nth j cv 0)).
Proof. exact encoding_exact_new. Qed.
Print Assumptions C21_encoding_exact_new.

(* ... or one LinearConstraint with per-row bounds *)
Theorem C21_encoding_exact_new_linear :
  forall k cv,
    e_linear k = true -> e_eq k = None ->
    length cv = esize k -> length (e_hi k) = esize k ->
    (forall j, (j < esize k)%nat -> - INF < nth j cv 0 /\ nth j cv 0 < INF) ->
    (Forall (sat k cv) (encode_new k) <-> forall j, (j < esize k)%nat -> elem_ok k j (nth j cv 0)).
Proof. exact encoding_exact_new_linear. Qed.
Print Assumptions C21_encoding_exact_new_linear.

(* the encodings at the pinned commit are refuted: all emitted constraints hold, an element is
   outside its bound *)
Theorem C21_encode_old_present_refuted :
  exists k cv,
    (forall j, (j < esize k)%nat -> - INF < nth j cv 0 /\ nth j cv 0 < INF) /\
    Forall (sat k cv) (encode_old_present k) /\ ~ elem_ok k 1 (nth 1 cv 0).
Proof. exact encode_old_present_refuted. Qed.
Print Assumptions C21_encode_old_present_refuted.

Theorem C21_encode_new_present_refuted :
  exists k cv,
    (forall j, (j < esize k)%nat -> - INF < nth j cv 0 /\ nth j cv 0 < INF) /\
    Forall (sat k cv) (encode_new_present k) /\ ~ elem_ok k 0 (nth 0 cv 0).
Proof. exact encode_new_present_refuted. Qed.
Print Assumptions C21_encode_new_present_refuted.

(* sign lemmas: what _confunc >= 0 means, and _congradfunc's sign is the slope of _confunc in the
   constraint value whenever both test the same lower bound *)
Theorem C21_confunc_sign :
  forall k dbl j c,
    eq_at k j = None ->
    (0 <= confunc k dbl j c <->
     if dbl || Qle_bool (lo_at k j) (- INF) then c <= hi_at k j else lo_at k j <= c).
Proof. exact confunc_sign. Qed.
Print Assumptions C21_confunc_sign.

Theorem C21_congrad_sign :
  forall k dbl j c t,
    (Qle_bool (mlo_at k j) (- INF) = Qle_bool (lo_at k j) (- INF)) ->
    confunc k dbl j (c + t) - confunc k dbl j c == congrad_sign k dbl j * t.
Proof. exact confunc_congrad_consistent. Qed.
Print Assumptions C21_congrad_sign.

(* feasibility in driver (scaled) space iff feasibility in model space, for every non-zero scaler of
   either sign, with the repaired bound scaling (bounds exchanged under a negative scaler) *)
Theorem C21_scaled_feasible_iff_model_feasible :
  forall a s lo hi c,
    ~ s == 0 ->
    (lo <= - INF \/ (- INF < (lo + a) * s /\ (lo + a) * s < INF)) ->
    (INF <= hi \/ (- INF < (hi + a) * s /\ (hi + a) * s < INF)) ->
    (ok (sc_lo a s lo hi) (sc_hi a s lo hi) ((c + a) * s) <-> ok lo hi c).
Proof. exact scaled_feasible_iff_model_feasible. Qed.
Print Assumptions C21_scaled_feasible_iff_model_feasible.

(* refuted for the bound scaling at the pinned commit under a negative scaler *)
Theorem C21_scaled_feasible_present_refuted :
  exists a s lo hi c,
    ok (scale_lower a s lo) (scale_upper a s hi) ((c + a) * s) /\ ~ ok lo hi c.
Proof. exact scaled_feasible_present_refuted. Qed.
Print Assumptions C21_scaled_feasible_present_refuted.

(* the minimiser is independent of the driver scaling (same feasible set, positive objective scaler) *)
Theorem C21_argmin_invariant :
  forall (X : Type) (f : X -> Q) (feas feas' : X -> Prop) (a s : Q) (x : X),
    0 < s -> (forall y, feas y <-> feas' y) ->
    ((feas x /\ forall y, feas y -> f x <= f y) <->
     (feas' x /\ forall y, feas' y -> (f x + a) * s <= (f y + a) * s)).
Proof. exact argmin_invariant. Qed.
Print Assumptions C21_argmin_invariant.

(* ------------------------------------------------------------------ the optimum (ProofsKKT.v) *)
From OMV Require Import C21.ModelKKT C21.ProofsKKT.

(* KKT sufficiency for convex QPs  min 1/2 x'Hx - b'x  s.t. lo_i <= a_i.x <= hi_i (sides optional,
   equality = equal sides), any dimension n, any number of rows: a KKT point minimises f over the
   feasible set (H symmetric, positive semidefinite) *)
Theorem C21_kkt_sufficient :
  forall n h b x cl,
    symmetric n h -> psd n h -> kkt n h b x cl ->
    forall y, feasible n (map fst cl) y -> fq n h b x <= fq n h b y.
Proof. exact kkt_sufficient. Qed.
Print Assumptions C21_kkt_sufficient.

(* ... and with H positive definite (d'Hd > 0 for d <> 0) it is the unique minimiser *)
Theorem C21_kkt_unique :
  forall n h b x cl,
    symmetric n h -> pdef n h -> kkt n h b x cl ->
    forall y, feasible n (map fst cl) y -> fq n h b y <= fq n h b x ->
    forall i, (i < n)%nat -> y i == x i.
Proof. exact kkt_unique. Qed.
Print Assumptions C21_kkt_unique.

(* M M' + diag(D) with D > 0 is positive definite (the certificate of strict convexity) *)
Theorem C21_gram_pdef :
  forall n m mm dd, (forall i, (i < n)%nat -> 0 < dd i) -> pdef n (gram n m mm dd).
Proof. exact gram_pdef. Qed.
Print Assumptions C21_gram_pdef.

(* soundness of the boolean checkers run by the correspondence on the oracle's exact optimum and
   multipliers: acceptance certifies that x is feasible, minimal and the only minimiser *)
Theorem C21_certified_optimum :
  forall n m H M D b cl x,
    gram_check n m H M D = true -> kkt_check n H b cl x = true ->
    feasible n (map fst cl) (vec x) /\
    (forall y, feasible n (map fst cl) y -> fq n (mat H) (vec b) (vec x) <= fq n (mat H) (vec b) y) /\
    (forall y, feasible n (map fst cl) y -> fq n (mat H) (vec b) y <= fq n (mat H) (vec b) (vec x) ->
               forall i, (i < n)%nat -> y i == vec x i).
Proof. exact certified_optimum. Qed.
Print Assumptions C21_certified_optimum.

(* independence of the driver scaling: positive objective scaler/adder, any bijective change of the
   design coordinates (design-variable scaler of either sign and adder), any equivalent description
   of the feasible set in the scaled coordinates: the unique minimiser is the image of the same point *)
Theorem C21_optimum_independent_of_scaling :
  forall n h b x cl (af sf : Q) (T Tinv : (nat -> Q) -> (nat -> Q)) (feas' : (nat -> Q) -> Prop),
    symmetric n h -> pdef n h -> kkt n h b x cl ->
    0 < sf ->
    (forall z i, (i < n)%nat -> T (Tinv z) i == z i) ->
    (forall z, feas' z <-> feasible n (map fst cl) (Tinv z)) ->
    (forall u v, (forall i, (i < n)%nat -> u i == v i) -> forall i, (i < n)%nat -> T u i == T v i) ->
    (forall i, (i < n)%nat -> Tinv (T x) i == x i) ->
    feas' (T x) ->
    (forall z, feas' z ->
       (fq n h b (Tinv (T x)) + af) * sf <= (fq n h b (Tinv z) + af) * sf) /\
    (forall z, feas' z ->
       (fq n h b (Tinv z) + af) * sf <= (fq n h b (Tinv (T x)) + af) * sf ->
       forall i, (i < n)%nat -> z i == T x i).
Proof. exact optimum_independent_of_scaling. Qed.
Print Assumptions C21_optimum_independent_of_scaling.
