(* C21 — optimizer success implies a feasible reported design.

   Definitions only.  Model of openmdao/drivers/scipy_optimizer.py:ScipyOptimizeDriver.run (the
   loop that encodes the per-element bounds of every constraint as SciPy constraints, old style =
   list of dicts, new style = NonlinearConstraint / LinearConstraint objects), _confunc,
   _congradfunc, and of Autoscaler._scale_bound / _compute_scaled_bounds which produce the bounds in
   driver (scaled) space.

   [encode_old], [encode_new]         : REPAIRED encodings (props/C21/fix_1.diff, fix_2.diff)
   [encode_old_present], [encode_new_present] : the encodings at the pinned commit
   [elem_ok]                          : reference semantics — element j satisfies its bound. *)
From Coq Require Import ZArith QArith String List Bool.
From OMV Require Import Base.Val.
Import ListNotations.
Open Scope Q_scope.

Definition Qltb (a b : Q) : bool := negb (Qle_bool b a).
Definition Qmaxb (a b : Q) : Q := if Qle_bool a b then b else a.
Definition Qminb (a b : Q) : Q := if Qle_bool a b then a else b.

(* openmdao.core.constants.INF_BOUND = 1.0e30 (binary64 value) *)
Definition INF : Q := 1000000000000000019884624838656 # 1.

(* ------------------------------------------------------------------ one constraint in driver space *)

Record econ := mkecon {
  e_name : Z;
  e_lo : list Q;              (* lower_con[name] : scaled lower bounds, -INF = none *)
  e_hi : list Q;              (* upper_con[name] *)
  e_eq : option (list Q);     (* equals_con[name] when meta['equals'] is not None *)
  e_mlo : list Q;             (* meta['lower'] broadcast: model-space lower bounds (used by _congradfunc) *)
  e_linear : bool;
  e_rows : list (list Q);     (* rows of the driver-scaled total jacobian d(con)/d(desvars) *)
  e_off : list Q              (* value of the (affine) constraint at the zero design vector, driver space *)
}.

Definition esize (k : econ) : nat := length (e_lo k).
Definition lo_at (k : econ) (j : nat) : Q := nth j (e_lo k) (- INF).
Definition hi_at (k : econ) (j : nat) : Q := nth j (e_hi k) INF.
Definition mlo_at (k : econ) (j : nat) : Q := nth j (e_mlo k) (- INF).
Definition eq_at (k : econ) (j : nat) : option Q :=
  match e_eq k with Some l => Some (nth j l 0) | None => None end.

(* reference semantics: element j (value c) satisfies its lower / upper / equality bound *)
Definition elem_ok (k : econ) (j : nat) (c : Q) : Prop :=
  match eq_at k j with
  | Some e => c == e
  | None => (lo_at k j <= - INF \/ lo_at k j <= c) /\ (INF <= hi_at k j \/ c <= hi_at k j)
  end.

(* ------------------------------------------------------------------ emitted constraint descriptors *)

Inductive desc :=
| DOld (is_eq : bool) (name : Z) (dbl : bool) (idx : nat)      (* {'type','fun','jac','args':[name,dbl,idx]} *)
| DNl (name : Z) (idx : nat) (lb ub : option Q)                (* NonlinearConstraint(fun(args=[name,False,idx]), lb, ub); None = -inf / inf *)
| DLin (name : Z) (lb ub : list (option Q)) (rows : list (list Q)) (offset : list Q).
                                                               (* LinearConstraint(A rows, lb - offset, ub - offset) *)

Definition is_eqc (k : econ) : bool := match e_eq k with Some _ => true | None => false end.

(* dblcon = (upper < INF_BOUND) and (lower > -INF_BOUND) for element j *)
Definition dbl_at (k : econ) (j : nat) : bool := Qltb (hi_at k j) INF && Qltb (- INF) (lo_at k j).

Definition old_for (k : econ) (dbl : bool) (j : nat) : list desc :=
  DOld (is_eqc k) (e_name k) false j ::
  (if dbl then [DOld false (e_name k) true j] else []).

(* repaired: two-sidedness decided per element *)
Definition encode_old (k : econ) : list desc :=
  flat_map (fun j => old_for k (dbl_at k j) j) (seq 0 (esize k)).

(* pinned commit: `upper = upper[j]` / `lower = lower[j]` rebind the arrays to their element 0 in the
   first iteration, so every iteration tests element 0 *)
Definition encode_old_present (k : econ) : list desc :=
  flat_map (fun j => old_for k (dbl_at k 0) j) (seq 0 (esize k)).

(* lb_j = lb[j] if lb[j] > -INF_BOUND else -inf ; ub_j = ub[j] if ub[j] < INF_BOUND else inf *)
Definition fin_lo (v : Q) : option Q := if Qltb (- INF) v then Some v else None.
Definition fin_hi (v : Q) : option Q := if Qltb v INF then Some v else None.

Definition nl_for (k : econ) (j : nat) : desc :=
  match eq_at k j with
  | Some e => DNl (e_name k) j (fin_lo e) (fin_hi e)
  | None => DNl (e_name k) j (fin_lo (lo_at k j)) (fin_hi (hi_at k j))
  end.

(* the linear constraint is  rows . x + offset  in driver space *)
Definition lin_desc (k : econ) : desc :=
  match e_eq k with
  | Some e => DLin (e_name k) (map fin_lo e) (map fin_hi e) (e_rows k) (e_off k)
  | None => DLin (e_name k) (map fin_lo (e_lo k)) (map fin_hi (e_hi k)) (e_rows k) (e_off k)
  end.

(* repaired: one NonlinearConstraint per element *)
Definition encode_new (k : econ) : list desc :=
  if e_linear k then [lin_desc k] else map (nl_for k) (seq 0 (esize k)).

(* pinned commit: constraints.append(con) sits after the `for j` loop: only the last element's
   NonlinearConstraint reaches SciPy *)
Definition encode_new_present (k : econ) : list desc :=
  if e_linear k then [lin_desc k]
  else match esize k with O => [] | S m => [nl_for k m] end.

(* ------------------------------------------------------------------ _confunc / _congradfunc *)

(* value returned by _confunc(x, name, dbl, idx) when the cached constraint value is c *)
Definition confunc (k : econ) (dbl : bool) (j : nat) (c : Q) : Q :=
  match eq_at k j with
  | Some e => c - e
  | None => if dbl || Qle_bool (lo_at k j) (- INF) then hi_at k j - c else c - lo_at k j
  end.

(* sign applied by _congradfunc to the cached gradient row: it tests meta['lower'] (model space) *)
Definition congrad_sign (k : econ) (dbl : bool) (j : nat) : Q :=
  match eq_at k j with
  | Some _ => 1
  | None => if dbl || Qle_bool (mlo_at k j) (- INF) then - (1) else 1
  end.

Definition congrad (k : econ) (dbl : bool) (j : nat) (row : list Q) : list Q :=
  map (fun g => congrad_sign k dbl j * g) row.

(* new style (repaired): the jacobian of _con_val_func is the plain gradient row *)
Definition congrad_new (row : list Q) : list Q := row.

Definition ole (lb : option Q) (c : Q) : Prop := match lb with Some l => l <= c | None => True end.
Definition oge (ub : option Q) (c : Q) : Prop := match ub with Some u => c <= u | None => True end.

(* SciPy's reading of a descriptor, cv = the constraint's values (for a LinearConstraint the bounds
   are shifted by the offset and apply to rows . x = value - offset, which is the same condition) *)
Definition sat (k : econ) (cv : list Q) (d : desc) : Prop :=
  match d with
  | DOld true _ dbl j => confunc k dbl j (nth j cv 0) == 0
  | DOld false _ dbl j => 0 <= confunc k dbl j (nth j cv 0)
  | DNl _ j lb ub => ole lb (nth j cv 0) /\ oge ub (nth j cv 0)
  | DLin _ lb ub _ _ => forall j, (j < length cv)%nat ->
        ole (nth j lb None) (nth j cv 0) /\ oge (nth j ub None) (nth j cv 0)
  end.

(* ------------------------------------------------------------------ Autoscaler._scale_bound *)

(* val_arr[finite] += adder; val_arr[finite] *= scaler; sentinels restored *)
Definition scale_lower (a s v : Q) : Q := if Qle_bool v (- INF) then - INF else (v + a) * s.
Definition scale_upper (a s v : Q) : Q := if Qle_bool INF v then INF else (v + a) * s.

Fixpoint zip3q (f : Q -> Q -> Q -> Q) (a b c : list Q) : list Q :=
  match a, b, c with
  | x :: a', y :: b', z :: c' => f x y z :: zip3q f a' b' c'
  | _, _, _ => []
  end.

Fixpoint scaled_rows (scaler : list Q) (sx : Q) (A : list (list Q)) : list (list Q) :=
  match scaler, A with
  | s :: scaler', row :: A' => map (fun v => s * v / sx) row :: scaled_rows scaler' sx A'
  | _, _ => []
  end.

(* Autoscaler._compute_scaled_bounds, REPAIRED (props/C21/fix_4.diff): under a negative scaler the
   image of the upper bound is the lower bound in driver space and vice versa *)
Definition sc_lo (a s lo hi : Q) : Q :=
  if Qltb s 0 then (if Qle_bool INF hi then - INF else (hi + a) * s) else scale_lower a s lo.
Definition sc_hi (a s lo hi : Q) : Q :=
  if Qltb s 0 then (if Qle_bool lo (- INF) then INF else (lo + a) * s) else scale_upper a s hi.

Fixpoint zip4q (f : Q -> Q -> Q -> Q -> Q) (a b c d : list Q) : list Q :=
  match a, b, c, d with
  | x :: a', y :: b', z :: c', w :: d' => f x y z w :: zip4q f a' b' c' d'
  | _, _, _, _ => []
  end.

(* a constraint given in model space with per-element total_adder / total_scaler; A = its jacobian
   rows in model space, sx / ax = the (scalar) design-variable scaler / adder.
   e_mlo (what the repaired _congradfunc tests) is the driver-space lower bound. *)
Definition mk_econ (name : Z) (lo hi : list Q) (eq : option (list Q)) (adder scaler : list Q)
           (linear : bool) (A : list (list Q)) (sx ax : Q) : econ :=
  let slo := zip4q sc_lo adder scaler lo hi in
  mkecon name slo (zip4q sc_hi adder scaler lo hi)
         (match eq with Some e => Some (zip3q scale_upper adder scaler e) | None => None end)
         slo linear (scaled_rows scaler sx A)
         (zip3q (fun a s r => (r + a) * s) adder scaler
                (map (fun row => fold_right Qplus 0 (map (fun v => v * (- ax)) row)) A)).

(* the pinned commit: no exchange of the bounds, _congradfunc tests the model-space lower bound *)
Definition mk_econ_present (name : Z) (lo hi : list Q) (eq : option (list Q)) (adder scaler : list Q)
           (linear : bool) (A : list (list Q)) (sx ax : Q) : econ :=
  mkecon name (zip3q scale_lower adder scaler lo) (zip3q scale_upper adder scaler hi)
         (match eq with Some e => Some (zip3q scale_upper adder scaler e) | None => None end)
         lo linear (scaled_rows scaler sx A) [].

(* the constraint's values in driver space at the model-space design point x *)
Definition dotq (a b : list Q) : Q := fold_right Qplus 0 (map (fun p : Q * Q => fst p * snd p) (combine a b)).
Definition con_vals (adder scaler : list Q) (A : list (list Q)) (x : list Q) : list Q :=
  zip3q (fun a s c => (c + a) * s) adder scaler (map (fun row => dotq row x) A).

(* ------------------------------------------------------------------ evaluator for the correspondence *)

Definition vdesc (d : desc) : val :=
  match d with
  | DOld e n dbl j => VL [VS (if e then "eq" else "ineq")%string; VZ n; VB dbl; VZ (Z.of_nat j)]
  | DNl n j lb ub => VL [VS "nl"%string; VZ n; VZ (Z.of_nat j); vopt VQ lb; vopt VQ ub]
  | DLin n lb ub rows off =>
      VL [VS "lin"%string;
          VL (map (fun p : option Q * Q => vopt (fun l => VQ (l - snd p)) (fst p)) (combine lb off));
          VL (map (fun p : option Q * Q => vopt (fun u => VQ (u - snd p)) (fst p)) (combine ub off));
          VL (map vqs rows)]
  end.

(* the whole list handed to scipy.optimize.minimize; style: false = old (dicts), true = new *)
Definition encode_all (new_style : bool) (ks : list econ) : val :=
  VL (map vdesc (flat_map (if new_style then encode_new else encode_old) ks)).

Definition encode_all_present (new_style : bool) (ks : list econ) : val :=
  VL (map vdesc (flat_map (if new_style then encode_new_present else encode_old_present) ks)).

(* a value formed with a +-1e30 sentinel is not exact in binary64: not compared *)
Definition vbig (v : Q) : val :=
  if Qle_bool (INF / 10) v || Qle_bool v (- (INF / 10)) then VN else VQ v.

(* probes of _confunc / _congradfunc: all (dbl, idx) pairs of one constraint at values cv *)
Definition probe (grads new_style : bool) (k : econ) (cv : list Q) : val :=
  VL (map (fun j =>
        VL ([vbig (confunc k false j (nth j cv 0)); vbig (confunc k true j (nth j cv 0))] ++
            (if grads then
               if new_style then [vqs (congrad_new (nth j (e_rows k) [])); vqs (congrad_new (nth j (e_rows k) []))]
               else [vqs (congrad k false j (nth j (e_rows k) [])); vqs (congrad k true j (nth j (e_rows k) []))]
             else [])))
      (seq 0 (esize k))).
