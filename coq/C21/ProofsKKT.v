(* C21 — KKT sufficiency and uniqueness for (strictly) convex QPs over Q, soundness of the boolean
   certificate checker, positive definiteness of Gram-plus-diagonal matrices, independence of the
   minimiser from the driver scaling. *)
From Coq Require Import ZArith QArith List Bool Lia Lqa.
From OMV Require Import C21.ModelKKT.
Import ListNotations.
Open Scope Q_scope.

(* ------------------------------------------------------------------ finite sums *)

Lemma sumn_ext : forall n f g, (forall i, (i < n)%nat -> f i == g i) -> sumn n f == sumn n g.
Proof.
  induction n as [| n IH]; intros f g H; cbn [sumn]; [reflexivity |].
  rewrite (IH f g) by (intros; apply H; lia). rewrite (H n) by lia. reflexivity.
Qed.

Lemma sumn_plus : forall n f g, sumn n (fun i => f i + g i) == sumn n f + sumn n g.
Proof. induction n as [| n IH]; intros; cbn [sumn]; [ring | rewrite IH; ring]. Qed.

Lemma sumn_scale : forall n c f, sumn n (fun i => c * f i) == c * sumn n f.
Proof. induction n as [| n IH]; intros; cbn [sumn]; [ring | rewrite IH; ring]. Qed.

Lemma sumn_zero : forall n, sumn n (fun _ => 0) == 0.
Proof. induction n as [| n IH]; cbn [sumn]; [reflexivity | rewrite IH; ring]. Qed.

Lemma sumn_swap : forall n m (F : nat -> nat -> Q),
  sumn n (fun i => sumn m (fun j => F i j)) == sumn m (fun j => sumn n (fun i => F i j)).
Proof.
  induction n as [| n IH]; intros m F; cbn [sumn].
  - symmetry. apply sumn_zero.
  - rewrite IH. rewrite <- sumn_plus. reflexivity.
Qed.

Lemma sumn_nonneg : forall n f, (forall i, (i < n)%nat -> 0 <= f i) -> 0 <= sumn n f.
Proof.
  induction n as [| n IH]; intros f H; cbn [sumn]; [lra |].
  assert (0 <= sumn n f) by (apply IH; intros; apply H; lia).
  assert (0 <= f n) by (apply H; lia). lra.
Qed.

Lemma sumn_pos : forall n f, (forall i, (i < n)%nat -> 0 <= f i) ->
  (exists i, (i < n)%nat /\ 0 < f i) -> 0 < sumn n f.
Proof.
  induction n as [| n IH]; intros f H [i [Hi Hp]]; [lia |]. cbn [sumn].
  assert (H0 : 0 <= f n) by (apply H; lia).
  assert (H1 : 0 <= sumn n f) by (apply sumn_nonneg; intros; apply H; lia).
  destruct (Nat.eq_dec i n) as [-> | Hne]; [lra |].
  assert (0 < sumn n f).
  { apply IH; [intros; apply H; lia | exists i; split; [lia | exact Hp]]. }
  lra.
Qed.

Lemma sumn_delta : forall n i c (v : nat -> Q), (i < n)%nat ->
  sumn n (fun j => (if Nat.eqb i j then c else 0) * v j) == c * v i.
Proof.
  induction n as [| n IH]; intros i c v Hi; [lia |]. cbn [sumn].
  destruct (Nat.eq_dec i n) as [-> | Hne].
  - rewrite Nat.eqb_refl.
    rewrite (sumn_ext n _ (fun _ => 0)).
    + rewrite sumn_zero. ring.
    + intros j Hj. destruct (Nat.eqb n j) eqn:E; [apply Nat.eqb_eq in E; lia | ring].
  - rewrite IH by lia. destruct (Nat.eqb i n) eqn:E; [apply Nat.eqb_eq in E; lia | ring].
Qed.

(* ------------------------------------------------------------------ bilinear algebra *)

Lemma dotn_ext : forall n u u' v v',
  (forall i, (i < n)%nat -> u i == u' i) -> (forall i, (i < n)%nat -> v i == v' i) ->
  dotn n u v == dotn n u' v'.
Proof.
  intros. unfold dotn. apply sumn_ext. intros i Hi. rewrite (H i Hi), (H0 i Hi). reflexivity.
Qed.

Lemma mv_ext : forall n h v v' i,
  (forall j, (j < n)%nat -> v j == v' j) -> mv n h v i == mv n h v' i.
Proof. intros. unfold mv. apply sumn_ext. intros j Hj. rewrite (H j Hj). reflexivity. Qed.

Lemma quad_ext : forall n h u u' v v',
  (forall i, (i < n)%nat -> u i == u' i) -> (forall i, (i < n)%nat -> v i == v' i) ->
  quad n h u v == quad n h u' v'.
Proof.
  intros. unfold quad. apply dotn_ext; [assumption |]. intros i Hi. apply mv_ext. assumption.
Qed.

Lemma dotn_add_r : forall n u v w, dotn n u (fun i => v i + w i) == dotn n u v + dotn n u w.
Proof.
  intros. unfold dotn. rewrite <- sumn_plus. apply sumn_ext. intros. ring.
Qed.

Lemma dotn_add_l : forall n u v w, dotn n (fun i => u i + v i) w == dotn n u w + dotn n v w.
Proof.
  intros. unfold dotn. rewrite <- sumn_plus. apply sumn_ext. intros. ring.
Qed.

Lemma dotn_sub_r : forall n u v w, dotn n u (fun i => v i - w i) == dotn n u v - dotn n u w.
Proof.
  intros. unfold dotn.
  assert (E : sumn n (fun i => u i * v i) == sumn n (fun i => u i * (v i - w i)) + sumn n (fun i => u i * w i)).
  { rewrite <- sumn_plus. apply sumn_ext. intros. ring. }
  rewrite E. ring.
Qed.

Lemma mv_add : forall n h v w i, mv n h (fun j => v j + w j) i == mv n h v i + mv n h w i.
Proof.
  intros. unfold mv. rewrite <- sumn_plus. apply sumn_ext. intros. ring.
Qed.

Lemma quad_add_r : forall n h u v w, quad n h u (fun i => v i + w i) == quad n h u v + quad n h u w.
Proof.
  intros. unfold quad.
  rewrite (dotn_ext n u u (mv n h (fun i => v i + w i)) (fun i => mv n h v i + mv n h w i)).
  - apply dotn_add_r.
  - intros; reflexivity.
  - intros i _. apply mv_add.
Qed.

Lemma quad_add_l : forall n h u v w, quad n h (fun i => u i + v i) w == quad n h u w + quad n h v w.
Proof. intros. unfold quad. apply dotn_add_l. Qed.

Lemma quad_sym : forall n h u v, symmetric n h -> quad n h u v == quad n h v u.
Proof.
  intros n h u v Hs. unfold quad, dotn, mv.
  rewrite (sumn_ext n _ (fun i => sumn n (fun j => u i * h i j * v j))).
  2:{ intros i _. rewrite <- sumn_scale. apply sumn_ext. intros. ring. }
  rewrite sumn_swap. apply sumn_ext. intros j Hj.
  rewrite <- sumn_scale. apply sumn_ext. intros i Hi. rewrite (Hs i j Hi Hj). ring.
Qed.

(* f(y) - f(x) = (Hx - b).d + 1/2 d'Hd  with d = y - x *)
Lemma fq_expand : forall n h b x y,
  symmetric n h ->
  fq n h b y - fq n h b x ==
  dotn n (fun k => mv n h x k - b k) (fun i => y i - x i)
  + (1 # 2) * quad n h (fun i => y i - x i) (fun i => y i - x i).
Proof.
  intros n h b x y Hs. set (d := fun i => y i - x i).
  assert (Ey : forall i, (i < n)%nat -> y i == x i + d i) by (intros; unfold d; ring).
  assert (Q1 : quad n h y y == quad n h x x + quad n h d x + (quad n h x d + quad n h d d)).
  { rewrite (quad_ext n h y (fun i => x i + d i) y (fun i => x i + d i) Ey Ey).
    rewrite quad_add_r, !quad_add_l. reflexivity. }
  assert (D1 : dotn n b y == dotn n b x + dotn n b d).
  { rewrite (dotn_ext n b b y (fun i => x i + d i)); [apply dotn_add_r | intros; reflexivity | exact Ey]. }
  assert (Eg : dotn n (fun k => mv n h x k - b k) d == quad n h d x - dotn n b d).
  { unfold quad, dotn.
    assert (E : sumn n (fun i => d i * mv n h x i) ==
                sumn n (fun i => (mv n h x i - b i) * d i) + sumn n (fun i => b i * d i)).
    { rewrite <- sumn_plus. apply sumn_ext. intros. ring. }
    rewrite E. ring. }
  pose proof (quad_sym n h x d Hs) as Sy.
  unfold fq. lra.
Qed.

(* ------------------------------------------------------------------ the multiplier term *)

Lemma sumn_lsum : forall n (cl : list (crow * Q)) (d : nat -> Q),
  sumn n (fun k => lsum cl (fun p => snd p * vec (r_a (fst p)) k) * d k) ==
  lsum cl (fun p => snd p * dotn n (vec (r_a (fst p))) d).
Proof.
  intros n cl d. induction cl as [| p cl IH]; cbn [lsum].
  - rewrite (sumn_ext n _ (fun _ => 0)) by (intros; ring). apply sumn_zero.
  - rewrite <- IH. unfold dotn. rewrite <- sumn_scale, <- sumn_plus.
    apply sumn_ext. intros. ring.
Qed.

Lemma lsum_nonpos : forall (cl : list (crow * Q)) F,
  Forall (fun p => F p <= 0) cl -> lsum cl F <= 0.
Proof.
  intros cl F H. induction H as [| p cl Hp _ IH]; cbn [lsum]; lra.
Qed.

Lemma kkt_gradient_term : forall n h b x y cl,
  kkt n h b x cl -> feasible n (map fst cl) y ->
  0 <= dotn n (fun k => mv n h x k - b k) (fun i => y i - x i).
Proof.
  intros n h b x y cl [Hfx [Hst Hsg]] Hfy. set (d := fun i => y i - x i).
  assert (E : dotn n (fun k => mv n h x k - b k) d ==
              - lsum cl (fun p => snd p * dotn n (vec (r_a (fst p))) d)).
  { rewrite <- sumn_lsum. unfold dotn.
    assert (E2 : sumn n (fun i => (mv n h x i - b i) * d i) +
                 sumn n (fun k => lsum cl (fun p => snd p * vec (r_a (fst p)) k) * d k) == 0).
    { rewrite <- sumn_plus. rewrite (sumn_ext n _ (fun _ => 0)); [apply sumn_zero |].
      intros k Hk. specialize (Hst k Hk). nra. }
    lra. }
  rewrite E.
  assert (L : lsum cl (fun p => snd p * dotn n (vec (r_a (fst p))) d) <= 0).
  { apply lsum_nonpos. unfold feasible in Hfy. rewrite Forall_map in Hfy.
    rewrite Forall_forall in *. intros p Hp.
    specialize (Hfy p Hp). specialize (Hsg p Hp). destruct Hfy as [Hl Hu]. destruct Hsg as [Sp Sn].
    unfold d. rewrite dotn_sub_r.
    set (ay := dotn n (vec (r_a (fst p))) y) in *. set (ax := dotn n (vec (r_a (fst p))) x) in *.
    destruct (Qlt_le_dec 0 (snd p)) as [Hpos | Hle].
    - specialize (Sp Hpos). destruct (r_hi (fst p)) as [u |]; [| contradiction]. nra.
    - destruct (Qlt_le_dec (snd p) 0) as [Hneg | Hge].
      + specialize (Sn Hneg). destruct (r_lo (fst p)) as [l |]; [| contradiction]. nra.
      + assert (snd p == 0) by lra. nra. }
  lra.
Qed.

(* KKT sufficiency: a KKT point of a convex QP minimises f over the feasible set *)
Lemma kkt_sufficient : forall n h b x cl,
  symmetric n h -> psd n h -> kkt n h b x cl ->
  forall y, feasible n (map fst cl) y -> fq n h b x <= fq n h b y.
Proof.
  intros n h b x cl Hs Hp Hk y Hy.
  pose proof (fq_expand n h b x y Hs) as E.
  pose proof (kkt_gradient_term n h b x y cl Hk Hy) as G.
  pose proof (Hp (fun i => y i - x i)) as P. lra.
Qed.

(* uniqueness: with H positive definite every feasible point that is not worse coincides with it *)
Lemma kkt_unique : forall n h b x cl,
  symmetric n h -> pdef n h -> kkt n h b x cl ->
  forall y, feasible n (map fst cl) y -> fq n h b y <= fq n h b x ->
  forall i, (i < n)%nat -> y i == x i.
Proof.
  intros n h b x cl Hs Hp Hk y Hy Hle i Hi.
  destruct (Qeq_dec (y i) (x i)) as [E | NE]; [exact E | exfalso].
  pose proof (fq_expand n h b x y Hs) as E.
  pose proof (kkt_gradient_term n h b x y cl Hk Hy) as G.
  assert (P : 0 < quad n h (fun i => y i - x i) (fun i => y i - x i)).
  { apply Hp. exists i. split; [exact Hi |]. intro Z. apply NE. lra. }
  lra.
Qed.

Lemma pdef_psd : forall n h, pdef n h -> psd n h.
Proof.
  intros n h Hp d.
  assert (Dec : forall m, (m <= n)%nat -> (forall i, (i < m)%nat -> d i == 0) \/ (exists i, (i < n)%nat /\ ~ d i == 0)).
  { induction m as [| m IH]; intros Hm; [left; intros; lia |].
    destruct (IH ltac:(lia)) as [Hz | He]; [| right; exact He].
    destruct (Qeq_dec (d m) 0) as [E | NE].
    - left. intros i Hi. destruct (Nat.eq_dec i m) as [-> | ?]; [exact E | apply Hz; lia].
    - right. exists m. split; [lia | exact NE]. }
  destruct (Dec n (le_n n)) as [Hz | He].
  - assert (quad n h d d == 0).
    { unfold quad, dotn. rewrite (sumn_ext n _ (fun _ => 0)); [apply sumn_zero |].
      intros i Hi. rewrite (Hz i Hi). ring. }
    lra.
  - apply Qlt_le_weak. apply Hp. exact He.
Qed.

(* ------------------------------------------------------------------ the checker is sound *)

Lemma Qltb'_true : forall a b, Qltb' a b = true <-> a < b.
Proof.
  intros a b. unfold Qltb'. rewrite negb_true_iff.
  destruct (Qle_bool b a) eqn:E.
  - apply Qle_bool_iff in E. split; [discriminate | intro; lra].
  - split; [intros _ | reflexivity].
    destruct (Qlt_le_dec a b) as [H | H]; [exact H |].
    apply Qle_bool_iff in H. congruence.
Qed.

Lemma row_ok_b_sound : forall n y c, row_ok_b n y c = true -> row_ok n y c.
Proof.
  intros n y c H. unfold row_ok_b in H. apply andb_true_iff in H. destruct H as [H1 H2].
  unfold row_ok. split.
  - destruct (r_lo c); [apply Qle_bool_iff; exact H1 | exact I].
  - destruct (r_hi c); [apply Qle_bool_iff; exact H2 | exact I].
Qed.

Lemma sign_ok_b_sound : forall n x p, sign_ok_b n x p = true -> sign_ok n x p.
Proof.
  intros n x p H. unfold sign_ok_b in H. apply andb_true_iff in H. destruct H as [H1 H2].
  unfold sign_ok. split; intro Hs.
  - apply Qltb'_true in Hs. rewrite Hs in H1.
    destruct (r_hi (fst p)); [apply Qeq_bool_iff; exact H1 | discriminate].
  - apply Qltb'_true in Hs. rewrite Hs in H2.
    destruct (r_lo (fst p)); [apply Qeq_bool_iff; exact H2 | discriminate].
Qed.

Lemma kkt_check_sound : forall n H b cl x,
  kkt_check n H b cl x = true ->
  symmetric n (mat H) /\ kkt n (mat H) (vec b) (vec x) cl.
Proof.
  intros n H b cl x Hc. unfold kkt_check in Hc.
  apply andb_true_iff in Hc. destruct Hc as [Hc Hsg].
  apply andb_true_iff in Hc. destruct Hc as [Hc Hst].
  apply andb_true_iff in Hc. destruct Hc as [Hsy Hfe].
  split; [| split; [| split]].
  - intros i j Hi Hj. unfold symmetric_b in Hsy. rewrite forallb_forall in Hsy.
    specialize (Hsy i ltac:(apply in_seq; lia)). rewrite forallb_forall in Hsy.
    specialize (Hsy j ltac:(apply in_seq; lia)). apply Qeq_bool_iff. exact Hsy.
  - unfold feasible. rewrite Forall_forall. rewrite forallb_forall in Hfe.
    intros c Hcin. apply row_ok_b_sound. apply Hfe. exact Hcin.
  - intros k Hk. unfold stationary_b in Hst. rewrite forallb_forall in Hst.
    specialize (Hst k ltac:(apply in_seq; lia)). apply Qeq_bool_iff. exact Hst.
  - rewrite Forall_forall. rewrite forallb_forall in Hsg.
    intros p Hp. apply sign_ok_b_sound. apply Hsg. exact Hp.
Qed.

(* ------------------------------------------------------------------ Gram + positive diagonal is positive definite *)

Lemma quad_ext_h : forall n h h' u v,
  (forall i j, (i < n)%nat -> (j < n)%nat -> h i j == h' i j) -> quad n h u v == quad n h' u v.
Proof.
  intros n h h' u v H. unfold quad, dotn, mv. apply sumn_ext. intros i Hi.
  rewrite (sumn_ext n (fun j => h i j * v j) (fun j => h' i j * v j)); [reflexivity |].
  intros j Hj. rewrite (H i j Hi Hj). reflexivity.
Qed.

Lemma sumn_scale_r : forall n f c, sumn n (fun i => f i * c) == sumn n f * c.
Proof. induction n as [| n IH]; intros; cbn [sumn]; [ring | rewrite IH; ring]. Qed.

Lemma gram_mv : forall n m mm dd d i, (i < n)%nat ->
  mv n (gram n m mm dd) d i ==
  sumn m (fun k => mm i k * sumn n (fun j => d j * mm j k)) + dd i * d i.
Proof.
  intros n m mm dd d i Hi. unfold mv, gram.
  transitivity (sumn n (fun j => sumn m (fun k => mm i k * mm j k * d j))
                + sumn n (fun j => (if Nat.eqb i j then dd i else 0) * d j)).
  - rewrite <- sumn_plus. apply sumn_ext. intros j Hj.
    rewrite Qmult_plus_distr_l. rewrite sumn_scale_r. reflexivity.
  - rewrite sumn_delta by exact Hi. rewrite sumn_swap.
    assert (E : sumn m (fun k => sumn n (fun j => mm i k * mm j k * d j)) ==
                sumn m (fun k => mm i k * sumn n (fun j => d j * mm j k))).
    { apply sumn_ext. intros k Hk. rewrite <- sumn_scale. apply sumn_ext. intros. ring. }
    rewrite E. reflexivity.
Qed.

Lemma gram_quad : forall n m mm dd d,
  quad n (gram n m mm dd) d d ==
  sumn m (fun k => sumn n (fun i => d i * mm i k) * sumn n (fun i => d i * mm i k))
  + sumn n (fun i => dd i * (d i * d i)).
Proof.
  intros n m mm dd d. unfold quad, dotn.
  set (s := fun k => sumn n (fun j => d j * mm j k)).
  transitivity (sumn n (fun i => sumn m (fun k => d i * mm i k * s k))
                + sumn n (fun i => dd i * (d i * d i))).
  - rewrite <- sumn_plus. apply sumn_ext. intros i Hi.
    pose proof (gram_mv n m mm dd d i Hi) as G.
    assert (E : sumn m (fun k => d i * mm i k * s k) ==
                d i * sumn m (fun k => mm i k * sumn n (fun j => d j * mm j k))).
    { rewrite <- sumn_scale. apply sumn_ext. intros. unfold s. ring. }
    rewrite G, E. ring.
  - rewrite sumn_swap.
    assert (E : sumn m (fun k => sumn n (fun i => d i * mm i k * s k)) == sumn m (fun k => s k * s k)).
    { apply sumn_ext. intros k Hk. rewrite sumn_scale_r. reflexivity. }
    rewrite E. reflexivity.
Qed.

Lemma gram_pdef : forall n m mm dd,
  (forall i, (i < n)%nat -> 0 < dd i) -> pdef n (gram n m mm dd).
Proof.
  intros n m mm dd Hd d [i [Hi Hne]]. rewrite gram_quad.
  assert (A : 0 <= sumn m (fun k => sumn n (fun i => d i * mm i k) * sumn n (fun i => d i * mm i k))).
  { apply sumn_nonneg. intros k _. nra. }
  assert (B : 0 < sumn n (fun i => dd i * (d i * d i))).
  { apply sumn_pos.
    - intros j Hj. specialize (Hd j Hj). nra.
    - exists i. split; [exact Hi |]. specialize (Hd i Hi).
      assert (0 < d i * d i) by (destruct (Qlt_le_dec 0 (d i)); [nra | assert (d i < 0) by lra; nra]).
      nra. }
  lra.
Qed.

Lemma gram_check_sound : forall n m H M D,
  gram_check n m H M D = true -> pdef n (mat H).
Proof.
  intros n m H M D Hc d Hd. unfold gram_check in Hc. rewrite forallb_forall in Hc.
  rewrite (quad_ext_h n (mat H) (gram n m (mat M) (vec D)) d d).
  - apply gram_pdef; [| exact Hd]. intros i Hi.
    specialize (Hc i ltac:(apply in_seq; lia)). apply andb_true_iff in Hc. destruct Hc as [Hc _].
    apply Qltb'_true. exact Hc.
  - intros i j Hi Hj. specialize (Hc i ltac:(apply in_seq; lia)).
    apply andb_true_iff in Hc. destruct Hc as [_ Hc]. rewrite forallb_forall in Hc.
    specialize (Hc j ltac:(apply in_seq; lia)). apply Qeq_bool_iff. exact Hc.
Qed.

(* ------------------------------------------------------------------ certified optimum *)

(* what a successful run of the two checkers certifies: x is the unique minimiser *)
Lemma certified_optimum : forall n m H M D b cl x,
  gram_check n m H M D = true -> kkt_check n H b cl x = true ->
  feasible n (map fst cl) (vec x) /\
  (forall y, feasible n (map fst cl) y -> fq n (mat H) (vec b) (vec x) <= fq n (mat H) (vec b) y) /\
  (forall y, feasible n (map fst cl) y -> fq n (mat H) (vec b) y <= fq n (mat H) (vec b) (vec x) ->
             forall i, (i < n)%nat -> y i == vec x i).
Proof.
  intros n m H M D b cl x Hg Hk.
  pose proof (gram_check_sound _ _ _ _ _ Hg) as Hpd.
  destruct (kkt_check_sound _ _ _ _ _ Hk) as [Hs Hkkt].
  split; [exact (proj1 Hkkt) | split].
  - apply kkt_sufficient; [exact Hs | apply pdef_psd; exact Hpd | exact Hkkt].
  - apply kkt_unique; [exact Hs | exact Hpd | exact Hkkt].
Qed.

(* independence of the driver scaling: the scaled problem — objective (f + a_f) * s_f with s_f > 0,
   design vector z = T(x) for any bijection T (the affine map (x + a_x) * s_x with s_x <> 0 of either
   sign), any description feas' of the same feasible set in the scaled coordinates (scaled constraint
   values against scaled, possibly exchanged, bounds: C21_scaled_feasible_iff_model_feasible) — has
   the image of the same point as its unique minimiser *)
Lemma optimum_independent_of_scaling :
  forall n h b x cl (af sf : Q) (T Tinv : (nat -> Q) -> (nat -> Q)) (feas' : (nat -> Q) -> Prop),
  symmetric n h -> pdef n h -> kkt n h b x cl ->
  0 < sf ->
  (forall z i, (i < n)%nat -> T (Tinv z) i == z i) ->
  (forall z, feas' z <-> feasible n (map fst cl) (Tinv z)) ->
  (forall u v, (forall i, (i < n)%nat -> u i == v i) -> forall i, (i < n)%nat -> T u i == T v i) ->
  (forall i, (i < n)%nat -> Tinv (T x) i == x i) ->
  feas' (T x) ->
  (forall z, feas' z ->
     (fq n h b (Tinv (T x)) + af) * sf <= (fq n h b (Tinv z) + af) * sf) /\
  (forall z, feas' z ->
     (fq n h b (Tinv z) + af) * sf <= (fq n h b (Tinv (T x)) + af) * sf ->
     forall i, (i < n)%nat -> z i == T x i).
Proof.
  intros n h b x cl af sf T Tinv feas' Hs Hp Hk Hsf HT Hfe HText Hinv Hfx.
  assert (Efx : fq n h b (Tinv (T x)) == fq n h b x).
  { assert (Q1 : quad n h (Tinv (T x)) (Tinv (T x)) == quad n h x x) by (apply quad_ext; assumption).
    assert (D1 : dotn n b (Tinv (T x)) == dotn n b x) by (apply dotn_ext; [intros; reflexivity | assumption]).
    unfold fq. lra. }
  split.
  - intros z Hz. apply Hfe in Hz.
    pose proof (kkt_sufficient n h b x cl Hs (pdef_psd n h Hp) Hk (Tinv z) Hz). rewrite Efx. nra.
  - intros z Hz Hle i Hi. apply Hfe in Hz.
    assert (Hle' : fq n h b (Tinv z) <= fq n h b x) by (rewrite Efx in Hle; nra).
    pose proof (kkt_unique n h b x cl Hs Hp Hk (Tinv z) Hz Hle') as Hu.
    rewrite <- (HT z i Hi). apply HText; [exact Hu | exact Hi].
Qed.

(* non-vacuity: min 1/2 (2 x0^2 + 2 x1^2) - (4 x0 - 4 x1)  s.t.  x0 <= 1, -1/2 <= x1:
   optimum (1, -1/2), multipliers 2 (upper active) and -3 (lower active) *)
Example kkt_example :
  kkt_check 2 [[2; 0]; [0; 2]] [4; -(4)]
            [(mkrow [1; 0] None (Some 1), 2); (mkrow [0; 1] (Some (-(1 # 2))) None, -(3))]
            [1; -(1 # 2)] = true /\
  gram_check 2 0 [[2; 0]; [0; 2]] [] [2; 2] = true.
Proof. split; vm_compute; reflexivity. Qed.
