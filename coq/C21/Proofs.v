(* C21 — proofs: the emitted SciPy constraints are satisfied exactly when every element satisfies
   its bound; sign consistency of _confunc/_congradfunc; feasibility is invariant under driver
   scaling; refutations of the encodings at the pinned commit. *)
From Coq Require Import ZArith QArith String List Bool Lia Lqa.
From OMV Require Import Base.Val C21.Model.
Import ListNotations.
Open Scope Q_scope.

(* ------------------------------------------------------------------ boolean comparisons *)

Lemma Qltb_true : forall a b, Qltb a b = true <-> a < b.
Proof.
  intros a b. unfold Qltb. rewrite negb_true_iff.
  destruct (Qle_bool b a) eqn:E.
  - apply Qle_bool_iff in E. split; [discriminate | intro; lra].
  - split; [intros _ | reflexivity].
    destruct (Qlt_le_dec a b) as [H | H]; [exact H |].
    apply Qle_bool_iff in H. congruence.
Qed.

Lemma Qltb_false : forall a b, Qltb a b = false <-> b <= a.
Proof. intros a b. unfold Qltb. rewrite negb_false_iff. apply Qle_bool_iff. Qed.

Lemma Qle_bool_false : forall a b, Qle_bool a b = false <-> b < a.
Proof.
  intros a b. destruct (Qle_bool a b) eqn:E.
  - apply Qle_bool_iff in E. split; [discriminate | intro; lra].
  - split; [intros _ | reflexivity].
    destruct (Qlt_le_dec b a) as [H | H]; [exact H |].
    apply Qle_bool_iff in H. congruence.
Qed.

Ltac qcases :=
  repeat match goal with
  | H : Qltb _ _ = true |- _ => apply Qltb_true in H
  | H : Qltb _ _ = false |- _ => apply Qltb_false in H
  | H : Qle_bool _ _ = true |- _ => apply Qle_bool_iff in H
  | H : Qle_bool _ _ = false |- _ => apply Qle_bool_false in H
  | H : _ && _ = true |- _ => apply andb_true_iff in H; destruct H
  | H : _ && _ = false |- _ => apply andb_false_iff in H; destruct H
  end.

(* ------------------------------------------------------------------ old style, one element *)

Lemma old_for_sat : forall k cv j,
  - INF < nth j cv 0 -> nth j cv 0 < INF ->
  (Forall (sat k cv) (old_for k (dbl_at k j) j) <-> elem_ok k j (nth j cv 0)).
Proof.
  intros k cv j Hlo Hhi. unfold old_for, elem_ok, is_eqc, eq_at.
  set (c := nth j cv 0) in *.
  destruct (e_eq k) as [el |] eqn:Eeq.
  - (* equality constraint *)
    destruct (dbl_at k j).
    + split.
      * intro HF. inversion HF as [| ? ? H1 H2]; subst. cbn in H1. unfold confunc, eq_at in H1.
        rewrite Eeq in H1. fold c in H1. lra.
      * intro HF. constructor; [| constructor; [| constructor]]; cbn; unfold confunc, eq_at;
          rewrite Eeq; fold c; lra.
    + split.
      * intro HF. inversion HF as [| ? ? H1 H2]; subst. cbn in H1. unfold confunc, eq_at in H1.
        rewrite Eeq in H1. fold c in H1. lra.
      * intro HF. constructor; [| constructor]. cbn. unfold confunc, eq_at. rewrite Eeq. fold c. lra.
  - (* inequality *)
    destruct (dbl_at k j) eqn:Ed; unfold dbl_at in Ed.
    + qcases. split.
      * intro HF. inversion HF as [| ? ? H1 H2]; subst. inversion H2 as [| ? ? H3 H4]; subst.
        cbn in H1, H3. unfold confunc, eq_at in H1, H3. rewrite Eeq in H1, H3. fold c in H1, H3.
        cbn [orb] in H3.
        destruct (Qle_bool (lo_at k j) (- INF)) eqn:El; qcases; [lra |].
        cbn [orb] in H1. split; [right; lra | right; lra].
      * intros [[Ha | Ha] [Hb | Hb]]; try lra.
        constructor; [| constructor; [| constructor]]; cbn; unfold confunc, eq_at; rewrite Eeq; fold c.
        -- destruct (Qle_bool (lo_at k j) (- INF)) eqn:El; qcases; cbn [orb]; lra.
        -- cbn [orb]. lra.
    + split.
      * intro HF. inversion HF as [| ? ? H1 H2]; subst. cbn in H1. unfold confunc, eq_at in H1.
        rewrite Eeq in H1. fold c in H1. cbn [orb] in H1.
        destruct (Qle_bool (lo_at k j) (- INF)) eqn:El; qcases;
          (split; [first [left; lra | right; lra] | first [left; lra | right; lra]]).
      * intros [Ha Hb]. constructor; [| constructor]. cbn. unfold confunc, eq_at. rewrite Eeq. fold c.
        cbn [orb]. destruct (Qle_bool (lo_at k j) (- INF)) eqn:El; qcases; lra.
Qed.

Lemma Forall_flat_map_seq : forall (P : desc -> Prop) (f : nat -> list desc) n,
  Forall P (flat_map f (seq 0 n)) <-> (forall j, (j < n)%nat -> Forall P (f j)).
Proof.
  intros P f n. rewrite Forall_flat_map. rewrite Forall_forall. split.
  - intros H j Hj. apply H. apply in_seq. lia.
  - intros H j Hj. apply in_seq in Hj. apply H. lia.
Qed.

(* encoding_exact, old style (list of dicts), repaired encoding: for every constraint of any size
   and every per-element pattern of lower / upper / equality bounds *)
Lemma encoding_exact_old : forall k cv,
  (forall j, (j < esize k)%nat -> - INF < nth j cv 0 /\ nth j cv 0 < INF) ->
  (Forall (sat k cv) (encode_old k) <-> forall j, (j < esize k)%nat -> elem_ok k j (nth j cv 0)).
Proof.
  intros k cv Hfin. unfold encode_old. rewrite Forall_flat_map_seq. split.
  - intros H j Hj. destruct (Hfin j Hj). apply old_for_sat; auto.
  - intros H j Hj. destruct (Hfin j Hj). apply old_for_sat; auto.
Qed.

(* the encoding at the pinned commit: element 0 one-sided, element 1 two-sided: the emitted dicts are
   all satisfied by a value that violates the upper bound of element 1 (DESIGN section 6 witness) *)
Definition wit : econ :=
  mkecon 0 [0; 0; -(1)] [INF; 1; 2] None [0; 0; -(1)] false [] [].

Lemma encode_old_present_refuted :
  exists k cv,
    (forall j, (j < esize k)%nat -> - INF < nth j cv 0 /\ nth j cv 0 < INF) /\
    Forall (sat k cv) (encode_old_present k) /\ ~ elem_ok k 1 (nth 1 cv 0).
Proof.
  exists wit, [0; 5; 1 # 2]. split; [| split].
  - intros j Hj. destruct j as [| [| [| j]]]; cbn in Hj; try lia; cbn; split; reflexivity.
  - repeat constructor; cbn; unfold Qle; cbn; lia.
  - unfold elem_ok. cbn. intros [_ [H | H]]; revert H; unfold Qle; cbn; lia.
Qed.

(* ------------------------------------------------------------------ new style *)

Lemma fin_lo_ole : forall v c, - INF < c -> (ole (fin_lo v) c <-> (v <= - INF \/ v <= c)).
Proof.
  intros v c Hc. unfold fin_lo. destruct (Qltb (- INF) v) eqn:E; qcases; cbn; split; intros; try lra; auto; try (destruct H; lra).
Qed.

Lemma fin_hi_oge : forall v c, c < INF -> (oge (fin_hi v) c <-> (INF <= v \/ c <= v)).
Proof.
  intros v c Hc. unfold fin_hi. destruct (Qltb v INF) eqn:E; qcases; cbn; split; intros; try lra; auto; try (destruct H; lra).
Qed.

Lemma nl_for_sat : forall k cv j,
  - INF < nth j cv 0 -> nth j cv 0 < INF ->
  (sat k cv (nl_for k j) <-> elem_ok k j (nth j cv 0)).
Proof.
  intros k cv j Hlo Hhi. unfold nl_for, elem_ok. destruct (eq_at k j) as [e |]; cbn [sat].
  - rewrite fin_lo_ole by assumption. rewrite fin_hi_oge by assumption. split.
    + intros [[Ha | Ha] [Hb | Hb]]; lra.
    + intro H. split; right; lra.
  - rewrite fin_lo_ole by assumption. rewrite fin_hi_oge by assumption. reflexivity.
Qed.

(* encoding_exact, new style, nonlinear constraints: one NonlinearConstraint per element *)
Lemma encoding_exact_new : forall k cv,
  e_linear k = false ->
  (forall j, (j < esize k)%nat -> - INF < nth j cv 0 /\ nth j cv 0 < INF) ->
  (Forall (sat k cv) (encode_new k) <-> forall j, (j < esize k)%nat -> elem_ok k j (nth j cv 0)).
Proof.
  intros k cv Hl Hfin. unfold encode_new. rewrite Hl. rewrite Forall_map, Forall_forall. split.
  - intros H j Hj. destruct (Hfin j Hj). apply nl_for_sat; auto. apply H. apply in_seq. lia.
  - intros H j Hj. apply in_seq in Hj. destruct (Hfin j) as [? ?]; [lia |]. apply nl_for_sat; auto.
    apply H. lia.
Qed.

(* new style, linear constraints: one LinearConstraint with per-row bounds *)
Lemma encoding_exact_new_linear : forall k cv,
  e_linear k = true -> e_eq k = None ->
  length cv = esize k -> length (e_hi k) = esize k ->
  (forall j, (j < esize k)%nat -> - INF < nth j cv 0 /\ nth j cv 0 < INF) ->
  (Forall (sat k cv) (encode_new k) <-> forall j, (j < esize k)%nat -> elem_ok k j (nth j cv 0)).
Proof.
  intros k cv Hl He Lc Lh Hfin. unfold encode_new, lin_desc. rewrite Hl, He.
  split.
  - intros H j Hj. inversion H as [| ? ? H1 _]; subst. cbn [sat] in H1.
    destruct (Hfin j Hj) as [Ha Hb]. specialize (H1 j). rewrite Lc in H1. specialize (H1 Hj).
    unfold elem_ok, eq_at. rewrite He. unfold lo_at, hi_at.
    rewrite (nth_indep (map fin_lo (e_lo k)) None (fin_lo (- INF))) in H1 by (rewrite map_length; exact Hj).
    rewrite (nth_indep (map fin_hi (e_hi k)) None (fin_hi INF)) in H1 by (rewrite map_length; lia).
    rewrite !map_nth in H1. destruct H1 as [H1 H2].
    apply fin_lo_ole in H1; [| exact Ha]. apply fin_hi_oge in H2; [| exact Hb]. split; assumption.
  - intros H. constructor; [| constructor]. cbn [sat]. intros j Hj. rewrite Lc in Hj.
    destruct (Hfin j Hj) as [Ha Hb]. specialize (H j Hj). unfold elem_ok, eq_at in H. rewrite He in H.
    unfold lo_at, hi_at in H.
    rewrite (nth_indep (map fin_lo (e_lo k)) None (fin_lo (- INF))) by (rewrite map_length; exact Hj).
    rewrite (nth_indep (map fin_hi (e_hi k)) None (fin_hi INF)) by (rewrite map_length; lia).
    rewrite !map_nth. destruct H as [H1 H2]. split.
    + apply fin_lo_ole; assumption.
    + apply fin_hi_oge; assumption.
Qed.

(* the pinned commit hands over only the last element's NonlinearConstraint *)
Definition wit_new : econ := mkecon 0 [0; 0; 0] [1; 1; 1] None [0; 0; 0] false [] [].

Lemma encode_new_present_refuted :
  exists k cv,
    (forall j, (j < esize k)%nat -> - INF < nth j cv 0 /\ nth j cv 0 < INF) /\
    Forall (sat k cv) (encode_new_present k) /\ ~ elem_ok k 0 (nth 0 cv 0).
Proof.
  exists wit_new, [-(2); 5; 1 # 2]. split; [| split].
  - intros j Hj. destruct j as [| [| [| j]]]; cbn in Hj; try lia; cbn; split; reflexivity.
  - repeat constructor; cbn; unfold Qle; cbn; lia.
  - unfold elem_ok. cbn. intros [[H | H] _]; revert H; unfold Qle; cbn; lia.
Qed.

(* ------------------------------------------------------------------ sign lemmas *)

(* _confunc is affine in the constraint value with slope congrad_sign, provided the two functions
   look at the same lower bound (the repaired _congradfunc tests the driver-space bound, like
   _confunc): so sign * (gradient row) is the jacobian of what _confunc returns *)
Lemma confunc_congrad_consistent : forall k dbl j c t,
  (Qle_bool (mlo_at k j) (- INF) = Qle_bool (lo_at k j) (- INF)) ->
  confunc k dbl j (c + t) - confunc k dbl j c == congrad_sign k dbl j * t.
Proof.
  intros k dbl j c t H. unfold confunc, congrad_sign. rewrite H.
  destruct (eq_at k j); [ring |].
  destruct (dbl || Qle_bool (lo_at k j) (- INF)); ring.
Qed.

Lemma confunc_sign : forall k dbl j c,
  eq_at k j = None ->
  (0 <= confunc k dbl j c <->
   if dbl || Qle_bool (lo_at k j) (- INF) then c <= hi_at k j else lo_at k j <= c).
Proof.
  intros k dbl j c He. unfold confunc. rewrite He.
  destruct (dbl || Qle_bool (lo_at k j) (- INF)); split; intros; lra.
Qed.

(* when they look at different bounds the jacobian has the wrong sign (pinned commit + a negative
   scaler, after the bounds are exchanged; also the reason the test must be on the same bound) *)
Lemma congrad_sign_inconsistent_refuted :
  exists k j c t, ~ confunc k false j (c + t) - confunc k false j c == congrad_sign k false j * t.
Proof.
  exists (mkecon 0 [- (2)] [INF] None [- INF] false [] []), 0%nat, 0, 1.
  vm_compute. discriminate.
Qed.

(* ------------------------------------------------------------------ feasibility under driver scaling *)

Definition ok (lo hi c : Q) : Prop := (lo <= - INF \/ lo <= c) /\ (INF <= hi \/ c <= hi).

(* scaled-feasible iff model-feasible, any sign of the scaler (repaired bound scaling): finite bounds
   must stay inside the sentinels after scaling *)
Lemma scaled_feasible_iff_model_feasible : forall a s lo hi c,
  ~ s == 0 ->
  (lo <= - INF \/ (- INF < (lo + a) * s /\ (lo + a) * s < INF)) ->
  (INF <= hi \/ (- INF < (hi + a) * s /\ (hi + a) * s < INF)) ->
  (ok (sc_lo a s lo hi) (sc_hi a s lo hi) ((c + a) * s) <-> ok lo hi c).
Proof.
  intros a s lo hi c Hs Hlo Hhi. unfold ok, sc_lo, sc_hi, scale_lower, scale_upper.
  assert (INFpos : 0 < INF) by reflexivity.
  destruct (Qltb s 0) eqn:Es; qcases.
  - destruct (Qle_bool INF hi) eqn:E1; destruct (Qle_bool lo (- INF)) eqn:E2; qcases.
    + split; intros _; split; left; lra.
    + destruct Hlo as [Hlo | [Hl1 Hl2]]; [lra |]. split.
      * intros [_ [H | H]]; [lra |]. split; [right; nra | left; lra].
      * intros [[H | H] _]; [lra |]. split; [left; lra | right; nra].
    + destruct Hhi as [Hhi | [Hh1 Hh2]]; [lra |]. split.
      * intros [[H | H] _]; [lra |]. split; [left; lra | right; nra].
      * intros [_ [H | H]]; [lra |]. split; [right; nra | left; lra].
    + destruct Hlo as [Hlo | [Hl1 Hl2]]; [lra |]. destruct Hhi as [Hhi | [Hh1 Hh2]]; [lra |]. split.
      * intros [[H | H] [G | G]]; try lra. split; right; nra.
      * intros [[H | H] [G | G]]; try lra. split; right; nra.
  - assert (Hs' : 0 < s) by (destruct (Qlt_le_dec 0 s); [assumption | exfalso; apply Hs; lra]).
    destruct (Qle_bool lo (- INF)) eqn:E2; destruct (Qle_bool INF hi) eqn:E1; qcases.
    + split; intros _; split; left; lra.
    + destruct Hhi as [Hhi | [Hh1 Hh2]]; [lra |]. split.
      * intros [_ [G | G]]; [lra |]. split; [left; lra | right; nra].
      * intros [_ [G | G]]; [lra |]. split; [left; lra | right; nra].
    + destruct Hlo as [Hlo | [Hl1 Hl2]]; [lra |]. split.
      * intros [[H | H] _]; [lra |]. split; [right; nra | left; lra].
      * intros [[H | H] _]; [lra |]. split; [right; nra | left; lra].
    + destruct Hlo as [Hlo | [Hl1 Hl2]]; [lra |]. destruct Hhi as [Hhi | [Hh1 Hh2]]; [lra |]. split.
      * intros [[H | H] [G | G]]; try lra. split; right; nra.
      * intros [[H | H] [G | G]]; try lra. split; right; nra.
Qed.

(* pinned commit (no exchange): upper = 1, scaler -2: the value 5 is feasible in driver space *)
Lemma scaled_feasible_present_refuted :
  exists a s lo hi c,
    ok (scale_lower a s lo) (scale_upper a s hi) ((c + a) * s) /\ ~ ok lo hi c.
Proof.
  exists 0, (-(2)), (- INF), 1, 5. split.
  - split; [left | right]; vm_compute; discriminate.
  - intros [_ [H | H]]; revert H; vm_compute; intro H; apply H; reflexivity.
Qed.

(* the minimiser does not depend on the driver scaling: same feasible set, strictly increasing
   transformation of the objective (positive objective scaler) *)
Lemma argmin_invariant : forall (X : Type) (f : X -> Q) (feas feas' : X -> Prop) (a s : Q) (x : X),
  0 < s -> (forall y, feas y <-> feas' y) ->
  ((feas x /\ forall y, feas y -> f x <= f y) <->
   (feas' x /\ forall y, feas' y -> (f x + a) * s <= (f y + a) * s)).
Proof.
  intros X f feas feas' a s x Hs Hf. split.
  - intros [H1 H2]. split; [apply Hf; exact H1 |]. intros y Hy. apply Hf in Hy. specialize (H2 y Hy). nra.
  - intros [H1 H2]. split; [apply Hf; exact H1 |]. intros y Hy. apply Hf in Hy. specialize (H2 y Hy). nra.
Qed.

Example encoding_example :
  encode_old wit = [DOld false 0 false 0; DOld false 0 false 1; DOld false 0 true 1;
                    DOld false 0 false 2; DOld false 0 true 2] /\
  encode_old_present wit = [DOld false 0 false 0; DOld false 0 false 1; DOld false 0 false 2].
Proof. split; vm_compute; reflexivity. Qed.
