(* C21 — strictly convex QPs: definitions only.

     minimise  f(x) = 1/2 x'Hx - b'x   subject to   lo_i <= a_i . x <= hi_i   (either side optional,
                                                     equality = both sides equal)

   Vectors are functions nat -> Q read on indices < n (lists are read through [vec]); this keeps
   the algebra free of length side conditions.  [kkt_check] is the boolean certificate checker that
   the correspondence runs (vm_compute) on the exact rational optimum and multipliers computed by the
   oracle's active-set enumeration. *)
From Coq Require Import ZArith QArith List Bool.
Import ListNotations.
Open Scope Q_scope.

Fixpoint sumn (n : nat) (f : nat -> Q) : Q :=
  match n with O => 0 | S m => sumn m f + f m end.

Definition vec (l : list Q) : nat -> Q := fun i => nth i l 0.
Definition mat (H : list (list Q)) : nat -> nat -> Q := fun i j => nth j (nth i H []) 0.

Definition dotn (n : nat) (u v : nat -> Q) : Q := sumn n (fun i => u i * v i).
Definition mv (n : nat) (h : nat -> nat -> Q) (v : nat -> Q) : nat -> Q :=
  fun i => sumn n (fun j => h i j * v j).
Definition quad (n : nat) (h : nat -> nat -> Q) (u v : nat -> Q) : Q := dotn n u (mv n h v).

(* the objective *)
Definition fq (n : nat) (h : nat -> nat -> Q) (b x : nat -> Q) : Q :=
  (1 # 2) * quad n h x x - dotn n b x.

(* one constraint row *)
Record crow := mkrow { r_a : list Q; r_lo : option Q; r_hi : option Q }.

Definition row_ok (n : nat) (y : nat -> Q) (c : crow) : Prop :=
  (match r_lo c with Some l => l <= dotn n (vec (r_a c)) y | None => True end) /\
  (match r_hi c with Some u => dotn n (vec (r_a c)) y <= u | None => True end).

Definition feasible (n : nat) (cs : list crow) (y : nat -> Q) : Prop := Forall (row_ok n y) cs.

(* sum over a list of (row, multiplier) pairs *)
Fixpoint lsum (l : list (crow * Q)) (F : crow * Q -> Q) : Q :=
  match l with [] => 0 | p :: r => F p + lsum r F end.

(* KKT conditions, multipliers lam_i attached to the rows:
     stationarity   H x - b + sum_i lam_i a_i = 0
     lam_i > 0 only at an active upper bound, lam_i < 0 only at an active lower bound *)
Definition stationary (n : nat) (h : nat -> nat -> Q) (b x : nat -> Q) (cl : list (crow * Q)) : Prop :=
  forall k, (k < n)%nat ->
    mv n h x k - b k + lsum cl (fun p => snd p * vec (r_a (fst p)) k) == 0.

Definition sign_ok (n : nat) (x : nat -> Q) (p : crow * Q) : Prop :=
  (0 < snd p -> match r_hi (fst p) with Some u => dotn n (vec (r_a (fst p))) x == u | None => False end) /\
  (snd p < 0 -> match r_lo (fst p) with Some l => dotn n (vec (r_a (fst p))) x == l | None => False end).

Definition kkt (n : nat) (h : nat -> nat -> Q) (b x : nat -> Q) (cl : list (crow * Q)) : Prop :=
  feasible n (map fst cl) x /\ stationary n h b x cl /\ Forall (sign_ok n x) cl.

Definition symmetric (n : nat) (h : nat -> nat -> Q) : Prop :=
  forall i j, (i < n)%nat -> (j < n)%nat -> h i j == h j i.

Definition psd (n : nat) (h : nat -> nat -> Q) : Prop := forall d, 0 <= quad n h d d.
Definition pdef (n : nat) (h : nat -> nat -> Q) : Prop :=
  forall d, (exists i, (i < n)%nat /\ ~ d i == 0) -> 0 < quad n h d d.

(* ------------------------------------------------------------------ the boolean checker *)

Definition Qltb' (a b : Q) : bool := negb (Qle_bool b a).

Definition row_ok_b (n : nat) (y : nat -> Q) (c : crow) : bool :=
  (match r_lo c with Some l => Qle_bool l (dotn n (vec (r_a c)) y) | None => true end) &&
  (match r_hi c with Some u => Qle_bool (dotn n (vec (r_a c)) y) u | None => true end).

Definition sign_ok_b (n : nat) (x : nat -> Q) (p : crow * Q) : bool :=
  (if Qltb' 0 (snd p)
   then match r_hi (fst p) with Some u => Qeq_bool (dotn n (vec (r_a (fst p))) x) u | None => false end
   else true) &&
  (if Qltb' (snd p) 0
   then match r_lo (fst p) with Some l => Qeq_bool (dotn n (vec (r_a (fst p))) x) l | None => false end
   else true).

Definition symmetric_b (n : nat) (h : nat -> nat -> Q) : bool :=
  forallb (fun i => forallb (fun j => Qeq_bool (h i j) (h j i)) (seq 0 n)) (seq 0 n).

Definition stationary_b (n : nat) (h : nat -> nat -> Q) (b x : nat -> Q) (cl : list (crow * Q)) : bool :=
  forallb (fun k => Qeq_bool (mv n h x k - b k + lsum cl (fun p => snd p * vec (r_a (fst p)) k)) 0)
          (seq 0 n).

Definition kkt_check (n : nat) (H : list (list Q)) (b : list Q) (cl : list (crow * Q)) (x : list Q) : bool :=
  symmetric_b n (mat H) &&
  forallb (row_ok_b n (vec x)) (map fst cl) &&
  stationary_b n (mat H) (vec b) (vec x) cl &&
  forallb (sign_ok_b n (vec x)) cl.

(* H = M M' + diag(D) with D > 0: a certificate of positive definiteness *)
Definition gram (n m : nat) (mm : nat -> nat -> Q) (dd : nat -> Q) : nat -> nat -> Q :=
  fun i j => sumn m (fun k => mm i k * mm j k) + (if Nat.eqb i j then dd i else 0).

Definition gram_check (n m : nat) (H M : list (list Q)) (D : list Q) : bool :=
  forallb (fun i => Qltb' 0 (vec D i) &&
                    forallb (fun j => Qeq_bool (mat H i j) (gram n m (mat M) (vec D) i j)) (seq 0 n))
          (seq 0 n).
