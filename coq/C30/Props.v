(* C30 — property theorems (statements only; proofs by [exact] of lemmas in Proofs.v). *)
From Coq Require Import Reals QArith Qreals List.
From Coquelicot Require Import Coquelicot.
From OMV Require Import Expr.Expr C30.Model C30.Proofs.
Import ListNotations.
Open Scope R_scope.

(* abs: real inputs give |a| with zero imaginary part; a perturbed input a + i h v gives
   imaginary part h * (sign a * v), sign a being the derivative of |.| at a <> 0 *)
Theorem C30_cs_abs_real : forall a,
  cs_abs_arr (a, 0) = (Rabs a, 0) /\ cs_abs_scalar (a, 0) = (Rabs a, 0).
Proof. intro a. split; [exact (cs_abs_arr_real a) | exact (cs_abs_scalar_real a)]. Qed.
Print Assumptions C30_cs_abs_real.

Theorem C30_cs_abs_imag : forall a h v, a <> 0 ->
  snd (cs_abs_arr (a, h * v)) = h * (sign a * v) /\
  snd (cs_abs_scalar (a, h * v)) = h * (sign a * v) /\
  is_derive Rabs a (sign a).
Proof.
  intros a h v H. split; [exact (cs_abs_arr_imag a h v H)|].
  split; [exact (cs_abs_scalar_imag a h v H) | exact (Rabs_derive a H)].
Qed.
Print Assumptions C30_cs_abs_imag.

(* at the kink: one-sided (array path: |0 + h| - |0|; scalar path: h times the right derivative) *)
Theorem C30_cs_abs_kink : forall h,
  cs_abs_arr (0, h) = (0, Rabs (0 + h) - Rabs 0) /\ cs_abs_scalar (0, h) = (0, h * 1).
Proof. intro h. split; [exact (cs_abs_arr_kink h) | exact (cs_abs_scalar_kink h)]. Qed.
Print Assumptions C30_cs_abs_kink.

Theorem C30_cs_abs_rational_twin : forall a b,
  cs_abs_arr (Q2R a, Q2R b) = (Q2R (fst (cs_abs_arrQ a b)), Q2R (snd (cs_abs_arrQ a b))) /\
  cs_abs_scalar (Q2R a, Q2R b) = (Q2R (fst (cs_abs_scalarQ a b)), Q2R (snd (cs_abs_scalarQ a b))).
Proof. intros a b. split; [exact (cs_abs_arrQ_correct a b) | exact (cs_abs_scalarQ_correct a b)]. Qed.
Print Assumptions C30_cs_abs_rational_twin.

(* norm *)
Theorem C30_cs_norm_real : forall l,
  cs_norm (map (fun a => (a, 0)) l) = (sqrt (sumR (map (fun a => a * a) l)), 0).
Proof. exact cs_norm_real. Qed.
Print Assumptions C30_cs_norm_real.

Theorem C30_cs_norm_is_sqrt : forall x,
  fst (cs_norm x) * fst (cs_norm x) - snd (cs_norm x) * snd (cs_norm x) = fst (csq_sum x) /\
  2 * (fst (cs_norm x) * snd (cs_norm x)) = snd (csq_sum x).
Proof. exact cs_norm_sqr. Qed.
Print Assumptions C30_cs_norm_is_sqrt.

Theorem C30_cs_norm_imag : forall h av,
  fst (cs_norm (cstep h av)) <> 0 ->
  snd (cs_norm (cstep h av)) = h * (dotAV av / fst (cs_norm (cstep h av))).
Proof. exact cs_norm_imag. Qed.
Print Assumptions C30_cs_norm_imag.

(* the complex step recovers the analytic directional derivative (a . v) / |a| of the norm *)
Theorem C30_cs_norm_imag_derive : forall av,
  0 < dotAA av ->
  is_derive (fun h => snd (cs_norm (cstep h av))) 0 (dotAV av / sqrt (dotAA av)) /\
  is_derive (fun t => sqrt (sumR (map (fun z => (fst z + t * snd z) * (fst z + t * snd z)) av)))
            0 (dotAV av / sqrt (dotAA av)).
Proof.
  intros av H. split; [exact (cs_norm_imag_derive av H) | exact (norm_directional_derivative av H)].
Qed.
Print Assumptions C30_cs_norm_imag_derive.

(* arctan2 *)
Theorem C30_cs_arctan2_imag : forall a b c d h,
  a * a + c * c <> 0 ->
  snd (cs_arctan2 (a, h * b) (c, h * d)) = h * ((c * b - a * d) / (a * a + c * c)).
Proof. exact cs_arctan2_imag. Qed.
Print Assumptions C30_cs_arctan2_imag.

Theorem C30_cs_arctan2_is_derivative : forall a b c d,
  (0 < c \/ a <> 0) ->
  is_derive (fun t => atan2 (a + t * b) (c + t * d)) 0 (snd (cs_arctan2 (a, b) (c, d))).
Proof. exact cs_arctan2_is_derivative. Qed.
Print Assumptions C30_cs_arctan2_is_derivative.

Theorem C30_cs_arctan2_rational_twin : forall a b c d,
  ~ (a * a + c * c == 0)%Q ->
  snd (cs_arctan2 (Q2R a, Q2R b) (Q2R c, Q2R d)) = Q2R (cs_arctan2_imQ a b c d).
Proof. exact cs_arctan2_imQ_correct. Qed.
Print Assumptions C30_cs_arctan2_rational_twin.

(* jax smooth helpers: the symbolic derivative of the modelled formula is its derivative *)
Theorem C30_smooth_max_derivative : forall rho x y mu v,
  smooth rho x -> smooth rho y -> smooth rho mu -> evalR rho mu <> 0 ->
  is_derive (fun t => evalR (upd rho v t) (e_smooth_max x y mu)) (rho v)
            (evalR rho (D v (e_smooth_max x y mu))).
Proof. exact smooth_max_derivative. Qed.
Print Assumptions C30_smooth_max_derivative.

Theorem C30_smooth_min_derivative : forall rho x y mu v,
  smooth rho x -> smooth rho y -> smooth rho mu -> evalR rho mu <> 0 ->
  is_derive (fun t => evalR (upd rho v t) (e_smooth_min x y mu)) (rho v)
            (evalR rho (D v (e_smooth_min x y mu))).
Proof. exact smooth_min_derivative. Qed.
Print Assumptions C30_smooth_min_derivative.

Theorem C30_smooth_abs_derivative : forall rho x mu v,
  smooth rho x -> smooth rho mu -> evalR rho mu <> 0 ->
  is_derive (fun t => evalR (upd rho v t) (e_smooth_abs x mu)) (rho v)
            (evalR rho (D v (e_smooth_abs x mu))).
Proof. exact smooth_abs_derivative. Qed.
Print Assumptions C30_smooth_abs_derivative.

Theorem C30_act_tanh_derivative : forall rho x mu z a b v,
  smooth rho x -> smooth rho mu -> smooth rho z -> smooth rho a -> smooth rho b ->
  evalR rho mu <> 0 ->
  is_derive (fun t => evalR (upd rho v t) (e_act_tanh x mu z a b)) (rho v)
            (evalR rho (D v (e_act_tanh x mu z a b))).
Proof. exact act_tanh_derivative. Qed.
Print Assumptions C30_act_tanh_derivative.

Theorem C30_smooth_round_derivative : forall rho x k mu v,
  smooth rho x -> smooth rho k -> smooth rho mu -> evalR rho mu <> 0 ->
  is_derive (fun t => evalR (upd rho v t) (e_smooth_round x k mu)) (rho v)
            (evalR rho (D v (e_smooth_round x k mu))).
Proof. exact smooth_round_derivative. Qed.
Print Assumptions C30_smooth_round_derivative.
