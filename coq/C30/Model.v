(* C30 — complex-step-safe helpers.  Model of openmdao/utils/cs_safe.py (abs, norm, arctan2) on
   complex numbers represented as pairs of reals, with executable rational twins where the
   formula is rational, and of the jax smooth helpers (openmdao/jax_funcs/smooth.py) as
   expressions of the shared language.  Definitions only. *)
From Coq Require Import Reals QArith Qreals ZArith List Bool.
From Coquelicot Require Import Rcomplements.
From OMV Require Import Expr.Expr.
Import ListNotations.
Open Scope R_scope.

Definition C : Type := (R * R)%type.

Fixpoint sumR (l : list R) : R := match l with [] => 0 | x :: l' => x + sumR l' end.

(* ---------------------------------------------------------------- abs *)

(* ndarray path (both NumPy branches): x * signs, signs = sign(real) + 0j where real <> 0,
   sign(imag) + 0j where real == 0 *)
Definition cs_abs_arr (z : C) : C :=
  let s := if Req_EM_T (fst z) 0 then sign (snd z) else sign (fst z) in
  (fst z * s, snd z * s).

(* scalar path: -x if x.real < 0 else x *)
Definition cs_abs_scalar (z : C) : C :=
  if Rlt_dec (fst z) 0 then (- fst z, - snd z) else z.

(* rational twins *)
Definition sgnQ (q : Q) : Q := inject_Z (Z.sgn (Qnum q)).
Definition cs_abs_arrQ (a b : Q) : Q * Q :=
  let s := if Z.eqb (Qnum a) 0 then sgnQ b else sgnQ a in ((a * s)%Q, (b * s)%Q).
Definition cs_abs_scalarQ (a b : Q) : Q * Q :=
  if (Qnum a <? 0)%Z then ((- a)%Q, (- b)%Q) else (a, b).

(* ---------------------------------------------------------------- norm *)

(* np.sum(x**2): (a + ib)^2 = (a^2 - b^2) + i (2ab) *)
Definition csq_sum (x : list C) : C :=
  (sumR (map (fun z => fst z * fst z - snd z * snd z) x),
   sumR (map (fun z => 2 * (fst z * snd z)) x)).

(* principal complex square root *)
Definition csqrt (w : C) : C :=
  let p := fst w in let q := snd w in
  let r := sqrt (p * p + q * q) in
  (sqrt ((r + p) / 2), (if Rlt_dec q 0 then -1 else 1) * sqrt ((r - p) / 2)).

Definition cs_norm (x : list C) : C := csqrt (csq_sum x).

(* ---------------------------------------------------------------- arctan2 *)

Definition atan2 (y x : R) : R :=
  if Rlt_dec 0 x then atan (y / x)
  else if Rlt_dec 0 y then PI / 2 - atan (x / y)
  else if Rlt_dec y 0 then - PI / 2 - atan (x / y)
  else if Rlt_dec x 0 then PI else 0.

(* complex branch of cs_safe.arctan2: arctan2(a, c) + 1j * (c*b - a*d) / (a**2 + c**2) *)
Definition cs_arctan2 (y x : C) : C :=
  let a := fst y in let b := snd y in let c := fst x in let d := snd x in
  (atan2 a c, (c * b - a * d) / (a * a + c * c)).

Definition cs_arctan2_imQ (a b c d : Q) : Q := ((c * b - a * d) / (a * a + c * c))%Q.

(* ---------------------------------------------------------------- jax smooth helpers *)

(* act_tanh(x, mu, z, a, b) = 0.5 * (b - a) * (1 + tanh((x - z) / mu)) + a *)
Definition e_act_tanh (x mu z a b : expr) : expr :=
  EAdd (EMul (EMul (ECst (1 # 2)) (ESub b a)) (EAdd (ECst 1) (ETanh (EDiv (ESub x z) mu)))) a.

Definition e_smooth_max (x y mu : expr) : expr :=
  let xg := e_act_tanh x mu y (ECst 0) (ECst 1) in
  EAdd (EMul xg x) (EMul (ESub (ECst 1) xg) y).

Definition e_smooth_min (x y mu : expr) : expr :=
  let xg := e_act_tanh x mu y (ECst 0) (ECst 1) in
  EAdd (EMul xg y) (EMul (ESub (ECst 1) xg) x).

Definition e_smooth_abs (x mu : expr) : expr :=
  EMul x (e_act_tanh x mu (ECst 0) (ECst (-1)) (ECst 1)).

(* smooth_round with k = floor x (locally constant away from the integers) *)
Definition e_smooth_round (x k mu : expr) : expr :=
  EAdd k (EMul (ECst (1 # 2))
               (EAdd (ECst 1) (ETanh (EDiv (ESub (ESub x k) (ECst (1 # 2))) mu)))).
