(* C30 — proofs about the complex-step-safe helpers (Model.v). *)
From Coq Require Import Reals QArith Qreals ZArith List Bool Lia Lra.
From Coquelicot Require Import Coquelicot.
From OMV Require Import Expr.Expr Expr.ExprProofs C30.Model.
Import ListNotations.
Open Scope R_scope.

(* ---------------------------------------------------------------- abs *)

Lemma mult_sign_abs a : a * sign a = Rabs a.
Proof.
  destruct (total_order_T 0 a) as [[H|H]|H].
  - rewrite sign_eq_1 by assumption. rewrite Rabs_pos_eq; lra.
  - subst. rewrite sign_0, Rabs_R0. ring.
  - rewrite sign_eq_m1 by assumption. rewrite Rabs_left by assumption. ring.
Qed.

Theorem cs_abs_arr_real a : cs_abs_arr (a, 0) = (Rabs a, 0).
Proof.
  unfold cs_abs_arr. cbn [fst snd]. destruct (Req_EM_T a 0) as [E|E].
  - subst. rewrite sign_0, Rabs_R0. f_equal; ring.
  - rewrite mult_sign_abs. f_equal. ring.
Qed.

Theorem cs_abs_arr_re a b : a <> 0 -> fst (cs_abs_arr (a, b)) = Rabs a.
Proof.
  intros H. unfold cs_abs_arr. cbn [fst snd]. destruct (Req_EM_T a 0); [tauto|].
  apply mult_sign_abs.
Qed.

(* imaginary part = step * (analytic derivative applied to the direction) *)
Theorem cs_abs_arr_imag a h v : a <> 0 -> snd (cs_abs_arr (a, h * v)) = h * (sign a * v).
Proof.
  intros H. unfold cs_abs_arr. cbn [fst snd]. destruct (Req_EM_T a 0); [tauto|]. ring.
Qed.

Theorem Rabs_derive a : a <> 0 -> is_derive Rabs a (sign a).
Proof.
  intros H. evar_last. apply (is_derive_Rabs (fun x => x) a 1). apply @is_derive_id.
  exact H. ring.
Qed.

(* at the kink the array path returns the one-sided difference |0 + h| - |0| *)
Theorem cs_abs_arr_kink h : cs_abs_arr (0, h) = (0, Rabs (0 + h) - Rabs 0).
Proof.
  unfold cs_abs_arr. cbn [fst snd]. destruct (Req_EM_T 0 0); [|tauto].
  rewrite mult_sign_abs, Rabs_R0, Rplus_0_l. f_equal; ring.
Qed.

Theorem cs_abs_scalar_real a : cs_abs_scalar (a, 0) = (Rabs a, 0).
Proof.
  unfold cs_abs_scalar. cbn [fst snd]. destruct (Rlt_dec a 0).
  - rewrite Rabs_left by assumption. f_equal. ring.
  - rewrite Rabs_pos_eq by lra. reflexivity.
Qed.

Theorem cs_abs_scalar_imag a h v :
  a <> 0 -> snd (cs_abs_scalar (a, h * v)) = h * (sign a * v).
Proof.
  intros H. unfold cs_abs_scalar. cbn [fst snd]. destruct (Rlt_dec a 0); cbn [snd].
  - rewrite sign_eq_m1 by assumption. ring.
  - rewrite sign_eq_1 by lra. ring.
Qed.

(* the scalar path keeps the perturbation at 0: step * right derivative *)
Theorem cs_abs_scalar_kink h : cs_abs_scalar (0, h) = (0, h * 1).
Proof.
  unfold cs_abs_scalar. cbn [fst snd]. destruct (Rlt_dec 0 0); [lra|]. f_equal. ring.
Qed.

(* rational twins *)
Lemma Q2R_pos q : (0 < Qnum q)%Z -> 0 < Q2R q.
Proof.
  intros H. unfold Q2R. apply Rmult_lt_0_compat. now apply IZR_lt.
  apply Rinv_0_lt_compat. apply IZR_lt. reflexivity.
Qed.

Lemma Q2R_neg q : (Qnum q < 0)%Z -> Q2R q < 0.
Proof.
  intros H. unfold Q2R.
  assert (IZR (Qnum q) < 0) by now apply IZR_lt.
  assert (0 < / IZR (Z.pos (Qden q))) by (apply Rinv_0_lt_compat; apply IZR_lt; reflexivity).
  nra.
Qed.

Lemma Q2R_zero q : Qnum q = 0%Z -> Q2R q = 0.
Proof. intros H. unfold Q2R. rewrite H. ring. Qed.

Lemma Q2R_sgnQ q : Q2R (sgnQ q) = sign (Q2R q).
Proof.
  unfold sgnQ. destruct (Z.lt_trichotomy (Qnum q) 0) as [H|[H|H]].
  - rewrite Z.sgn_neg by assumption. rewrite sign_eq_m1 by now apply Q2R_neg.
    unfold Q2R; simpl; field.
  - rewrite H. simpl. rewrite (Q2R_zero q H), sign_0. unfold Q2R; simpl; field.
  - rewrite Z.sgn_pos by assumption. rewrite sign_eq_1 by now apply Q2R_pos.
    unfold Q2R; simpl; field.
Qed.

Theorem cs_abs_arrQ_correct a b :
  cs_abs_arr (Q2R a, Q2R b) = (Q2R (fst (cs_abs_arrQ a b)), Q2R (snd (cs_abs_arrQ a b))).
Proof.
  unfold cs_abs_arr, cs_abs_arrQ. cbn [fst snd].
  destruct (Z.eqb (Qnum a) 0) eqn:E.
  - apply Z.eqb_eq in E. destruct (Req_EM_T (Q2R a) 0) as [_|N].
    + cbn [fst snd]. now rewrite !Q2R_mult, Q2R_sgnQ.
    + exfalso. apply N. now apply Q2R_zero.
  - apply Z.eqb_neq in E. destruct (Req_EM_T (Q2R a) 0) as [Z0|_].
    + exfalso. destruct (Z.lt_trichotomy (Qnum a) 0) as [H|[H|H]]; [|tauto|].
      generalize (Q2R_neg a H); lra. generalize (Q2R_pos a H); lra.
    + cbn [fst snd]. now rewrite !Q2R_mult, Q2R_sgnQ.
Qed.

Theorem cs_abs_scalarQ_correct a b :
  cs_abs_scalar (Q2R a, Q2R b) =
  (Q2R (fst (cs_abs_scalarQ a b)), Q2R (snd (cs_abs_scalarQ a b))).
Proof.
  unfold cs_abs_scalar, cs_abs_scalarQ. cbn [fst snd].
  destruct (Z.ltb (Qnum a) 0) eqn:E.
  - apply Z.ltb_lt in E. destruct (Rlt_dec (Q2R a) 0) as [_|N].
    + cbn [fst snd]. now rewrite !Q2R_opp.
    + exfalso. apply N. now apply Q2R_neg.
  - apply Z.ltb_ge in E. destruct (Rlt_dec (Q2R a) 0) as [L|_]; [|reflexivity].
    exfalso. destruct (Z.eq_dec (Qnum a) 0) as [Z0|NZ].
    rewrite (Q2R_zero a Z0) in L; lra.
    assert (0 < Qnum a)%Z by lia. generalize (Q2R_pos a H); lra.
Qed.

(* ---------------------------------------------------------------- arctan2, imaginary part *)

Theorem cs_arctan2_imag a b c d h :
  a * a + c * c <> 0 ->
  snd (cs_arctan2 (a, h * b) (c, h * d)) = h * ((c * b - a * d) / (a * a + c * c)).
Proof. intros H. unfold cs_arctan2. cbn [fst snd]. field. exact H. Qed.

Theorem cs_arctan2_re y x : fst (cs_arctan2 y x) = atan2 (fst y) (fst x).
Proof. reflexivity. Qed.

Theorem cs_arctan2_imQ_correct a b c d :
  ~ (a * a + c * c == 0)%Q ->
  snd (cs_arctan2 (Q2R a, Q2R b) (Q2R c, Q2R d)) = Q2R (cs_arctan2_imQ a b c d).
Proof.
  intros H. unfold cs_arctan2, cs_arctan2_imQ. cbn [fst snd].
  rewrite Q2R_div by assumption.
  now rewrite Q2R_minus, Q2R_plus, !Q2R_mult.
Qed.

(* ---------------------------------------------------------------- norm *)

(* the returned pair is a square root of the complex sum of squares *)
Theorem csqrt_sqr p q :
  let z := csqrt (p, q) in
  fst z * fst z - snd z * snd z = p /\ 2 * (fst z * snd z) = q.
Proof.
  unfold csqrt. cbn [fst snd]. cbv zeta.
  set (r := sqrt (p * p + q * q)).
  assert (Hpq : 0 <= p * p + q * q) by nra.
  assert (Hr0 : 0 <= r) by apply sqrt_pos.
  assert (Hr2 : r * r = p * p + q * q) by (unfold r; now apply sqrt_sqrt).
  assert (Hrp : Rabs p <= r).
  { rewrite <- (sqrt_Rsqr_abs p). unfold r. apply sqrt_le_1_alt. unfold Rsqr. nra. }
  assert (H1 : 0 <= (r + p) / 2) by (generalize (Rabs_maj2 p) (Rle_abs (- p)); rewrite Rabs_Ropp; lra).
  assert (H2 : 0 <= (r - p) / 2) by (generalize (Rle_abs p); lra).
  set (u := sqrt ((r + p) / 2)). set (w := sqrt ((r - p) / 2)).
  assert (Hu : u * u = (r + p) / 2) by (unfold u; now apply sqrt_sqrt).
  assert (Hw : w * w = (r - p) / 2) by (unfold w; now apply sqrt_sqrt).
  assert (Huw : u * w = Rabs q / 2).
  { unfold u, w. rewrite <- sqrt_mult by assumption.
    replace ((r + p) / 2 * ((r - p) / 2)) with ((q / 2) * (q / 2)) by (field_simplify; nra).
    replace (q / 2 * (q / 2)) with (Rsqr (q / 2)) by reflexivity.
    rewrite sqrt_Rsqr_abs. unfold Rdiv. rewrite Rabs_mult. rewrite (Rabs_pos_eq (/ 2)); lra. }
  destruct (Rlt_dec q 0) as [Hq|Hq].
  - split. nra. rewrite Rabs_left in Huw by assumption. nra.
  - split. nra. rewrite Rabs_pos_eq in Huw by lra. nra.
Qed.

Corollary cs_norm_sqr x :
  fst (cs_norm x) * fst (cs_norm x) - snd (cs_norm x) * snd (cs_norm x) = fst (csq_sum x) /\
  2 * (fst (cs_norm x) * snd (cs_norm x)) = snd (csq_sum x).
Proof. unfold cs_norm. destruct (csq_sum x) as [p q]. apply csqrt_sqr. Qed.

Lemma csq_sum_real l :
  csq_sum (map (fun a => (a, 0)) l) = (sumR (map (fun a => a * a) l), 0).
Proof.
  unfold csq_sum. rewrite !map_map. cbn [fst snd]. f_equal.
  - f_equal. apply map_ext. intros; ring.
  - induction l; simpl. reflexivity. rewrite IHl. ring.
Qed.

Lemma sumR_sq_nonneg l : 0 <= sumR (map (fun a => a * a) l).
Proof. induction l; simpl. lra. nra. Qed.

(* real inputs: the Euclidean norm, zero imaginary part *)
Theorem cs_norm_real l :
  cs_norm (map (fun a => (a, 0)) l) = (sqrt (sumR (map (fun a => a * a) l)), 0).
Proof.
  unfold cs_norm. rewrite csq_sum_real. unfold csqrt. cbn [fst snd]. cbv zeta.
  set (p := sumR (map (fun a => a * a) l)).
  assert (Hp : 0 <= p) by apply sumR_sq_nonneg.
  replace (p * p + 0 * 0) with (p * p) by ring. rewrite sqrt_square by assumption.
  destruct (Rlt_dec 0 0); [lra|].
  replace ((p + p) / 2) with p by field. replace ((p - p) / 2) with 0 by field.
  rewrite sqrt_0. f_equal. ring.
Qed.

(* complex step: x_k = a_k + i h v_k *)
Definition cstep (h : R) (av : list (R * R)) : list C :=
  map (fun z => (fst z, h * snd z)) av.
Definition dotAA (av : list (R * R)) : R := sumR (map (fun z => fst z * fst z) av).
Definition dotAV (av : list (R * R)) : R := sumR (map (fun z => fst z * snd z) av).
Definition dotVV (av : list (R * R)) : R := sumR (map (fun z => snd z * snd z) av).

Lemma csq_sum_cstep h av :
  csq_sum (cstep h av) = (dotAA av - h * h * dotVV av, 2 * (h * dotAV av)).
Proof.
  unfold csq_sum, cstep, dotAA, dotVV, dotAV. rewrite !map_map. cbn [fst snd].
  induction av as [|z l IH]; cbn [map sumR].
  - f_equal; ring.
  - injection IH as I1 I2. rewrite I1, I2. f_equal; ring.
Qed.

(* Im = h * (a . v) / Re  exactly, whenever the real part does not vanish *)
Theorem cs_norm_imag h av :
  fst (cs_norm (cstep h av)) <> 0 ->
  snd (cs_norm (cstep h av)) = h * (dotAV av / fst (cs_norm (cstep h av))).
Proof.
  intros H. destruct (cs_norm_sqr (cstep h av)) as [_ E].
  rewrite csq_sum_cstep in E. cbn [snd] in E.
  apply (Rmult_eq_reg_l (fst (cs_norm (cstep h av)))); auto.
  field_simplify; auto. lra.
Qed.

(* the real part is the Euclidean norm up to O(h^2):  Re^2 = |a|^2 - h^2 |v|^2 + Im^2 *)
Theorem cs_norm_re_sqr h av :
  fst (cs_norm (cstep h av)) * fst (cs_norm (cstep h av)) =
  dotAA av - h * h * dotVV av + snd (cs_norm (cstep h av)) * snd (cs_norm (cstep h av)).
Proof.
  destruct (cs_norm_sqr (cstep h av)) as [E _].
  rewrite csq_sum_cstep in E. cbn [fst] in E. lra.
Qed.

(* the analytic directional derivative of the Euclidean norm *)
Lemma sum_sq_line t av :
  sumR (map (fun z => (fst z + t * snd z) * (fst z + t * snd z)) av) =
  dotAA av + 2 * t * dotAV av + t * t * dotVV av.
Proof.
  unfold dotAA, dotAV, dotVV. induction av as [|z l IH]; cbn [map sumR]. ring.
  rewrite IH. ring.
Qed.

Theorem norm_directional_derivative av :
  0 < dotAA av ->
  is_derive (fun t => sqrt (sumR (map (fun z => (fst z + t * snd z) * (fst z + t * snd z)) av)))
            0 (dotAV av / sqrt (dotAA av)).
Proof.
  intros HA.
  apply is_derive_ext with
    (f := fun t => sqrt (dotAA av + 2 * t * dotAV av + t * t * dotVV av)).
  { intros t. now rewrite sum_sq_line. }
  generalize (sqrt_lt_R0 _ HA). intros Hs.
  auto_derive.
  - replace (dotAA av + 2 * 0 * dotAV av + 0 * 0 * dotVV av) with (dotAA av) by ring. exact HA.
  - replace (dotAA av + 2 * 0 * dotAV av + 0 * 0 * dotVV av) with (dotAA av) by ring.
    field. lra.
Qed.

(* derivative of the imaginary part with respect to the step at h = 0: the complex step
   recovers exactly the analytic directional derivative *)
Lemma dotVV_nonneg av : 0 <= dotVV av.
Proof. unfold dotVV. induction av; simpl. lra. nra. Qed.

Lemma cs_norm_re_formula h av :
  fst (cs_norm (cstep h av)) =
  sqrt ((sqrt ((dotAA av - h * h * dotVV av) * (dotAA av - h * h * dotVV av)
               + (2 * (h * dotAV av)) * (2 * (h * dotAV av)))
         + (dotAA av - h * h * dotVV av)) / 2).
Proof. unfold cs_norm. rewrite csq_sum_cstep. reflexivity. Qed.

Theorem cs_norm_imag_derive av :
  0 < dotAA av ->
  is_derive (fun h => snd (cs_norm (cstep h av))) 0 (dotAV av / sqrt (dotAA av)).
Proof.
  intros HA.
  set (A := dotAA av) in *. set (B := dotVV av). set (Cc := dotAV av).
  assert (HB : 0 <= B) by apply dotVV_nonneg.
  pose (G := fun h : R => sqrt ((sqrt ((A - h * h * B) * (A - h * h * B)
                                  + (2 * (h * Cc)) * (2 * (h * Cc))) + (A - h * h * B)) / 2)).
  assert (HG0 : G 0 = sqrt A).
  { unfold G. replace (A - 0 * 0 * B) with A by ring. replace (2 * (0 * Cc)) with 0 by ring.
    replace (A * A + 0 * 0) with (A * A) by ring. rewrite sqrt_square by lra.
    f_equal. field. }
  assert (HsA : 0 < sqrt A) by now apply sqrt_lt_R0.
  (* locally the imaginary part is h * (C / G h) *)
  assert (Heps : 0 < sqrt (A / (B + 1))).
  { apply sqrt_lt_R0. apply Rdiv_lt_0_compat; lra. }
  apply is_derive_ext_loc with (f := fun h => h * (Cc / G h)).
  { exists (mkposreal _ Heps). intros h Hh. symmetry.
    unfold ball in Hh; simpl in Hh. unfold AbsRing_ball, abs, minus, plus, opp in Hh; simpl in Hh.
    rewrite Ropp_0, Rplus_0_r in Hh.
    assert (Hh2 : h * h < A / (B + 1)).
    { replace (h * h) with (Rsqr (Rabs h)) by (unfold Rsqr; rewrite <- Rabs_mult;
        rewrite Rabs_pos_eq; [ring | nra]).
      rewrite <- (sqrt_sqrt (A / (B + 1))) by (apply Rlt_le, Rdiv_lt_0_compat; lra).
      unfold Rsqr. generalize (Rabs_pos h). intros. nra. }
    assert (Hp : 0 < A - h * h * B).
    { assert (h * h * (B + 1) < A).
      { destruct (Rlt_div_r (h * h) A (B + 1)) as [_ K]; [lra | now apply K]. }
      nra. }
    assert (HGh : fst (cs_norm (cstep h av)) = G h) by apply cs_norm_re_formula.
    assert (0 < G h).
    { unfold G. apply sqrt_lt_R0.
      assert (0 <= sqrt ((A - h * h * B) * (A - h * h * B) + 2 * (h * Cc) * (2 * (h * Cc))))
        by apply sqrt_pos.
      lra. }
    rewrite cs_norm_imag by (rewrite HGh; lra). now rewrite HGh. }
  assert (Hex : ex_derive (fun h => Cc / G h) 0).
  { unfold G. auto_derive.
    assert (Hin : sqrt ((A + - (0 * 0 * B)) * (A + - (0 * 0 * B)) + 2 * (0 * Cc) * (2 * (0 * Cc)))
                  = A).
    { replace (A + - (0 * 0 * B)) with A by ring. replace (2 * (0 * Cc)) with 0 by ring.
      replace (A * A + 0 * 0) with (A * A) by ring. now rewrite sqrt_square by lra. }
    repeat split.
    - replace (A + - (0 * 0 * B)) with A by ring. replace (2 * (0 * Cc)) with 0 by ring. nra.
    - rewrite Hin. lra.
    - rewrite Hin. replace ((A + (A + - (0 * 0 * B))) * / 2) with A by field. lra. }
  destruct Hex as [dK HdK].
  evar_last.
  apply (Derive.is_derive_mult (fun h : R => h) (fun h => Cc / G h) 0 1 dK).
  apply @is_derive_id. exact HdK.
  cbv beta. rewrite HG0. ring.
Qed.

(* ---------------------------------------------------------------- atan2: analytic derivative *)

Lemma atan2_right y x : 0 < x -> atan2 y x = atan (y / x).
Proof. intros H. unfold atan2. destruct (Rlt_dec 0 x); [reflexivity | lra]. Qed.

Lemma atan2_upper y x : 0 < y -> atan2 y x = PI / 2 - atan (x / y).
Proof.
  intros H. unfold atan2. destruct (Rlt_dec 0 x) as [Hx|Hx].
  - replace (y / x) with (/ (x / y)) by (field; lra).
    apply atan_inv. apply Rdiv_lt_0_compat; lra.
  - destruct (Rlt_dec 0 y); [reflexivity | lra].
Qed.

Lemma atan2_lower y x : y < 0 -> atan2 y x = - PI / 2 - atan (x / y).
Proof.
  intros H. unfold atan2. destruct (Rlt_dec 0 x) as [Hx|Hx].
  - replace (y / x) with (- / (x / - y)) by (field; lra).
    rewrite atan_opp. rewrite atan_inv by (apply Rdiv_lt_0_compat; lra).
    replace (x / y) with (- (x / - y)) by (field; lra). rewrite atan_opp. lra.
  - destruct (Rlt_dec 0 y); [lra|]. destruct (Rlt_dec y 0); [reflexivity | lra].
Qed.

Lemma pos_locally (u du : R) :
  0 < u -> locally 0 (fun t : R => 0 < u + t * du).
Proof.
  intros Hu.
  assert (He : 0 < u / (Rabs du + 1)).
  { apply Rdiv_lt_0_compat. lra. generalize (Rabs_pos du). lra. }
  exists (mkposreal _ He). intros t Ht.
  unfold ball in Ht; simpl in Ht. unfold AbsRing_ball, abs, minus, plus, opp in Ht; simpl in Ht.
  rewrite Ropp_0, Rplus_0_r in Ht.
  assert (Rabs t * (Rabs du + 1) < u).
  { destruct (Rlt_div_r (Rabs t) u (Rabs du + 1)) as [_ K].
    generalize (Rabs_pos du); lra. now apply K. }
  assert (Rabs (t * du) <= Rabs t * Rabs du) by (rewrite Rabs_mult; lra).
  generalize (Rabs_pos t) (Rabs_pos du) (Rle_abs (- (t * du))). rewrite Rabs_Ropp. intros. nra.
Qed.

(* directional derivative of atan2 at (a, c) along (b, d): right half-plane *)
Theorem atan2_derive_right a b c d :
  0 < c ->
  is_derive (fun t => atan2 (a + t * b) (c + t * d)) 0 ((c * b - a * d) / (a * a + c * c)).
Proof.
  intros Hc.
  apply is_derive_ext_loc with (f := fun t => atan ((a + t * b) / (c + t * d))).
  { generalize (pos_locally c d Hc). apply filter_imp. intros t Ht. symmetry.
    now apply atan2_right. }
  auto_derive.
  - rewrite Rmult_0_l, Rplus_0_r. lra.
  - rewrite !Rmult_0_l, !Rplus_0_r. unfold Rsqr. field. split; nra.
Qed.

Theorem atan2_derive_upper a b c d :
  0 < a ->
  is_derive (fun t => atan2 (a + t * b) (c + t * d)) 0 ((c * b - a * d) / (a * a + c * c)).
Proof.
  intros Ha.
  apply is_derive_ext_loc with (f := fun t => PI / 2 - atan ((c + t * d) / (a + t * b))).
  { generalize (pos_locally a b Ha). apply filter_imp. intros t Ht. symmetry.
    now apply atan2_upper. }
  auto_derive.
  - rewrite Rmult_0_l, Rplus_0_r. lra.
  - rewrite !Rmult_0_l, !Rplus_0_r. unfold Rsqr. field. split; nra.
Qed.

Theorem atan2_derive_lower a b c d :
  a < 0 ->
  is_derive (fun t => atan2 (a + t * b) (c + t * d)) 0 ((c * b - a * d) / (a * a + c * c)).
Proof.
  intros Ha.
  apply is_derive_ext_loc with (f := fun t => - PI / 2 - atan ((c + t * d) / (a + t * b))).
  { assert (Hn : 0 < - a) by lra.
    generalize (pos_locally (- a) (- b) Hn). apply filter_imp. intros t Ht. symmetry.
    apply atan2_lower. lra. }
  auto_derive.
  - rewrite Rmult_0_l, Rplus_0_r. lra.
  - rewrite !Rmult_0_l, !Rplus_0_r. unfold Rsqr. field. split; nra.
Qed.

(* everywhere off the branch cut {x <= 0, y = 0}: imaginary part of cs_arctan2 under the
   perturbation (h b, h d) = h * directional derivative of atan2 *)
Theorem cs_arctan2_is_derivative a b c d :
  (0 < c \/ a <> 0) ->
  is_derive (fun t => atan2 (a + t * b) (c + t * d)) 0
            (snd (cs_arctan2 (a, b) (c, d))).
Proof.
  intros H. unfold cs_arctan2. cbn [fst snd].
  destruct H as [H|H]. now apply atan2_derive_right.
  destruct (Rlt_dec 0 a). now apply atan2_derive_upper.
  apply atan2_derive_lower. lra.
Qed.

(* ---------------------------------------------------------------- jax smooth helpers *)

Lemma act_tanh_smooth rho x mu z a b :
  smooth rho x -> smooth rho mu -> smooth rho z -> smooth rho a -> smooth rho b ->
  evalR rho mu <> 0 -> smooth rho (e_act_tanh x mu z a b).
Proof. intros. cbn [e_act_tanh smooth]. tauto. Qed.

Theorem act_tanh_value rho x mu z a b :
  evalR rho (e_act_tanh x mu z a b) =
  0.5 * (evalR rho b - evalR rho a) * (1 + tanh ((evalR rho x - evalR rho z) / evalR rho mu))
  + evalR rho a.
Proof. cbn [e_act_tanh evalR]. unfold Q2R; simpl. lra. Qed.

Theorem smooth_helpers_smooth rho x y mu :
  smooth rho x -> smooth rho y -> smooth rho mu -> evalR rho mu <> 0 ->
  smooth rho (e_smooth_max x y mu) /\ smooth rho (e_smooth_min x y mu) /\
  smooth rho (e_smooth_abs x mu) /\ smooth rho (e_act_tanh x mu y (ECst 0) (ECst 1)).
Proof.
  intros. unfold e_smooth_max, e_smooth_min, e_smooth_abs. cbn [e_act_tanh smooth]. tauto.
Qed.

(* hence, by D_correct, the symbolic derivative is the derivative in every variable *)
Theorem smooth_max_derivative rho x y mu v :
  smooth rho x -> smooth rho y -> smooth rho mu -> evalR rho mu <> 0 ->
  is_derive (fun t => evalR (upd rho v t) (e_smooth_max x y mu)) (rho v)
            (evalR rho (D v (e_smooth_max x y mu))).
Proof. intros. apply D_correct. now apply smooth_helpers_smooth. Qed.

Theorem smooth_min_derivative rho x y mu v :
  smooth rho x -> smooth rho y -> smooth rho mu -> evalR rho mu <> 0 ->
  is_derive (fun t => evalR (upd rho v t) (e_smooth_min x y mu)) (rho v)
            (evalR rho (D v (e_smooth_min x y mu))).
Proof. intros. apply D_correct. now apply (smooth_helpers_smooth rho x y mu). Qed.

Theorem smooth_abs_derivative rho x mu v :
  smooth rho x -> smooth rho mu -> evalR rho mu <> 0 ->
  is_derive (fun t => evalR (upd rho v t) (e_smooth_abs x mu)) (rho v)
            (evalR rho (D v (e_smooth_abs x mu))).
Proof. intros. apply D_correct. now apply (smooth_helpers_smooth rho x x mu). Qed.

Theorem act_tanh_derivative rho x mu z a b v :
  smooth rho x -> smooth rho mu -> smooth rho z -> smooth rho a -> smooth rho b ->
  evalR rho mu <> 0 ->
  is_derive (fun t => evalR (upd rho v t) (e_act_tanh x mu z a b)) (rho v)
            (evalR rho (D v (e_act_tanh x mu z a b))).
Proof. intros. apply D_correct. now apply act_tanh_smooth. Qed.

Theorem smooth_round_derivative rho x k mu v :
  smooth rho x -> smooth rho k -> smooth rho mu -> evalR rho mu <> 0 ->
  is_derive (fun t => evalR (upd rho v t) (e_smooth_round x k mu)) (rho v)
            (evalR rho (D v (e_smooth_round x k mu))).
Proof. intros. apply D_correct. cbn [e_smooth_round smooth]. tauto. Qed.

(* non-vacuity *)
Example c30_premises_satisfiable :
  exists av : list (R * R), 0 < dotAA av.
Proof. exists [(3, 1); (4, 2)]. unfold dotAA. simpl. lra. Qed.
