(* C30 — lemmas and tactics for the generated correspondence goals. *)
From Coq Require Import Reals QArith Qreals ZArith List Bool Lia Lra.
From Coquelicot Require Import Coquelicot.
From Interval Require Import Tactic.
From OMV Require Import Expr.Expr Expr.ExprProofs C30.Model C30.Proofs.
Import ListNotations.
Open Scope R_scope.

Lemma cs_norm_imag_over_h h av :
  h <> 0 -> fst (cs_norm (cstep h av)) <> 0 ->
  snd (cs_norm (cstep h av)) / h = dotAV av / fst (cs_norm (cstep h av)).
Proof. intros Hh Hre. rewrite cs_norm_imag by assumption. field. split; assumption. Qed.

Ltac c30_expose :=
  unfold dotAA, dotVV, dotAV;
  cbn [map sumR fst snd];
  unfold Q2R; cbn [Qnum Qden].

Ltac c30_interval := c30_expose; first [ interval | interval with (i_prec 100) ].

Ltac c30_pos := unfold Q2R; cbn [Qnum Qden]; lra.

Ltac c30_smooth :=
  unfold e_smooth_max, e_smooth_min, e_smooth_abs, e_smooth_round, e_act_tanh;
  expr_reduce; first [ interval | interval with (i_prec 100) ].
