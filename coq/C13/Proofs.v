(* C13 -- proofs about the sparsity audit state machine and the error report *)
From Coq Require Import ZArith QArith Qabs List Bool Arith Lia.
From OMV Require Import Base.Val C13.Model.
Import ListNotations.
Open Scope nat_scope.

(* ------------------------------------------------------------------ the audit, repaired bookkeeping *)

Definition flagged (pat : entries) (nrows : nat) (thr : Q) (cols : list (nat * (nat -> Q)))
  : list (nat * nat) :=
  flat_map (fun ic => uncovered_of pat nrows thr (fst ic) (snd ic)) cols.

(* the invariant of info: the key exists only with a non-empty list and with the threshold key *)
Definition wf (st : state) : Prop :=
  match unc st with None => True | Some l => l <> [] /\ thr_key st = true end.

Lemma set_col_fixed_spec : forall k pat nrows thr st icol column,
  k <> KDense -> wf st ->
  let st' := set_col true k pat nrows thr st icol column in
  wf st' /\ olist (unc st') = olist (unc st) ++ uncovered_of pat nrows thr icol column.
Proof.
  intros k pat nrows thr st icol column Hk Hwf. unfold set_col. simpl.
  destruct (uncovered_of pat nrows thr icol column) as [|p new] eqn:E.
  - simpl. rewrite app_nil_r. split; auto.
  - unfold audit_fixed. destruct k; try congruence; simpl; (split; [split; [|reflexivity] | reflexivity]);
      destruct (unc st); simpl; intro H; try discriminate;
      apply app_eq_nil in H; destruct H; discriminate.
Qed.

Lemma run_cols_fixed_spec : forall k pat nrows thr cols st,
  k <> KDense -> wf st ->
  let st' := run_cols true k pat nrows thr cols st in
  wf st' /\ olist (unc st') = olist (unc st) ++ flagged pat nrows thr cols.
Proof.
  intros k pat nrows thr cols. induction cols as [|ic cols IH]; intros st Hk Hwf.
  - simpl. rewrite app_nil_r. auto.
  - destruct (set_col_fixed_spec k pat nrows thr st (fst ic) (snd ic) Hk Hwf) as [W E].
    destruct (IH _ Hk W) as [W' E'].
    change (run_cols true k pat nrows thr (ic :: cols) st) with
      (run_cols true k pat nrows thr cols (set_col true k pat nrows thr st (fst ic) (snd ic))).
    cbv zeta. split; auto. rewrite E'. rewrite E. rewrite <- app_assoc. reflexivity.
Qed.

Lemma flagged_matrix_cols : forall pat nrows ncols thr M,
  flagged pat nrows thr (matrix_cols M ncols) = spec_uncovered pat nrows ncols thr M.
Proof.
  intros. unfold flagged, matrix_cols, spec_uncovered. rewrite flat_map_concat_map, map_map.
  rewrite <- flat_map_concat_map. reflexivity.
Qed.

(* after the approximation of all columns the report lists exactly the out-of-pattern nonzeros *)
Theorem uncovered_complete_sound : forall k pat nrows ncols thr M,
  k <> KDense ->
  report_of (run_cols true k pat nrows thr (matrix_cols M ncols) (init_state pat)) =
  match spec_uncovered pat nrows ncols thr M with
  | [] => RAbsent
  | l => RList l
  end.
Proof.
  intros k pat nrows ncols thr M Hk.
  assert (W0 : wf (init_state pat)) by exact I.
  destruct (run_cols_fixed_spec k pat nrows thr (matrix_cols M ncols) (init_state pat) Hk W0) as [W E].
  simpl in E. rewrite flagged_matrix_cols in E.
  unfold report_of. unfold wf in W.
  destruct (unc (run_cols true k pat nrows thr (matrix_cols M ncols) (init_state pat))) as [l|].
  - destruct W as [Hne Ht]. rewrite Ht. simpl in E. rewrite <- E.
    destruct l; congruence.
  - simpl in E. rewrite <- E. reflexivity.
Qed.

Lemma gtb_true : forall a b, gtb a b = true <-> (b < a)%Q.
Proof.
  unfold gtb. intros. rewrite negb_true_iff. split; intros.
  - apply Qnot_le_lt. intro Hc. apply Qle_bool_iff in Hc. congruence.
  - destruct (Qle_bool a b) eqn:E; auto. apply Qle_bool_iff in E.
    exfalso. apply (Qlt_not_le _ _ H). auto.
Qed.

(* what the specification list contains *)
Theorem spec_uncovered_In : forall pat nrows ncols thr M r c,
  In (r, c) (spec_uncovered pat nrows ncols thr M) <->
  r < nrows /\ c < ncols /\ in_pat pat r c = false /\ (thr < Qabs (M r c))%Q.
Proof.
  intros. unfold spec_uncovered. rewrite in_flat_map. split.
  - intros [c' [Hc' Hin]]. unfold uncovered_of in Hin. apply in_map_iff in Hin.
    destruct Hin as [r' [Heq Hr']]. inversion Heq; subst.
    unfold uncovered_rows in Hr'. apply filter_In in Hr'. destruct Hr' as [Hs Hb].
    apply in_seq in Hs. apply in_seq in Hc'. apply andb_true_iff in Hb. destruct Hb as [H1 H2].
    apply negb_true_iff in H1. apply gtb_true in H2. repeat split; auto; lia.
  - intros (Hr & Hc & Hp & Ht). exists c. split. apply in_seq; lia.
    unfold uncovered_of. apply in_map_iff. exists r. split; auto.
    unfold uncovered_rows. apply filter_In. split. apply in_seq; lia.
    apply andb_true_iff. split. rewrite Hp; reflexivity. apply gtb_true; auto.
Qed.

(* ------------------------------------------------------------------ the pinned bookkeeping is refuted *)

Definition wit_pat : entries := [(0, 0); (1, 1)].
Definition wit_M (r c : nat) : Q := 1%Q.

Theorem uncovered_present_refuted : forall k, k <> KDense ->
  report_of (run_cols false k wit_pat 2 0%Q (matrix_cols wit_M 2) (init_state wit_pat)) <>
  RList (spec_uncovered wit_pat 2 2 0%Q wit_M).
Proof.
  intros k Hk. destruct k; try congruence; vm_compute; discriminate.
Qed.

Example wit_spec : spec_uncovered wit_pat 2 2 0%Q wit_M = [(1, 0); (0, 1)].
Proof. vm_compute. reflexivity. Qed.

Example wit_fixed : forall k, k <> KDense ->
  report_of (run_cols true k wit_pat 2 0%Q (matrix_cols wit_M 2) (init_state wit_pat)) =
  RList [(1, 0); (0, 1)].
Proof. intros k Hk. destruct k; try congruence; vm_compute; reflexivity. Qed.

(* ------------------------------------------------------------------ step lists: the union *)

Lemma eqb2_true : forall a b, eqb2 a b = true <-> a = b.
Proof.
  intros [a1 a2] [b1 b2]. unfold eqb2. simpl. rewrite andb_true_iff, !Nat.eqb_eq. split.
  - intros [? ?]; subst; auto.
  - intro H; inversion H; auto.
Qed.

Lemma add_new_In : forall l acc p, In p (add_new acc l) <-> In p acc \/ In p l.
Proof.
  induction l as [|q l IH]; intros acc p; simpl.
  - tauto.
  - rewrite IH. destruct (existsb (eqb2 q) acc) eqn:E.
    + apply existsb_exists in E. destruct E as [q' [Hin Heq]]. apply eqb2_true in Heq. subst q'.
      split; [tauto|]. intros [H|[H|H]]; auto. subst; auto.
    + rewrite in_app_iff. simpl. tauto.
Qed.

(* an entry is in the merged report of a step list exactly when some step flagged it *)
Theorem merged_steps_In : forall (lists : list (list (nat * nat))) acc p,
  In p (fold_left add_new lists acc) <-> In p acc \/ exists l, In l lists /\ In p l.
Proof.
  induction lists as [|l lists IH]; intros acc p; simpl.
  - split; [tauto|]. intros [H|[l [[] _]]]; auto.
  - rewrite IH. rewrite add_new_In. split.
    + intros [[H|H]|[l' [H1 H2]]]; eauto.
    + intros [H|[l' [[H1|H1] H2]]]; subst; eauto.
Qed.

(* ------------------------------------------------------------------ stored values *)

Definition vals_after (pat : entries) (cols : list (nat * (nat -> Q))) (vs : list Q) : list Q :=
  fold_left (fun vs ic => store_col pat vs (fst ic) (snd ic)) cols vs.

Lemma audit_vals : forall (b : bool) k st new,
  vals (if b then audit_fixed k st new else audit_present k st new) = vals st.
Proof.
  intros. destruct b; unfold audit_fixed, audit_present; destruct new; auto;
    destruct k; auto; destruct (unc st); auto.
Qed.

Lemma run_cols_vals : forall b k pat nrows thr cols st,
  vals (run_cols b k pat nrows thr cols st) = vals_after pat cols (vals st).
Proof.
  intros b k pat nrows thr cols. induction cols as [|ic cols IH]; intros; auto.
  change (run_cols b k pat nrows thr (ic :: cols) st) with
    (run_cols b k pat nrows thr cols (set_col b k pat nrows thr st (fst ic) (snd ic))).
  rewrite IH. unfold vals_after. cbn [fold_left]. f_equal.
  unfold set_col. rewrite audit_vals. reflexivity.
Qed.

Lemma store_col_length : forall pat vs icol col, length (store_col pat vs icol col) = length vs.
Proof. induction pat; destruct vs; simpl; auto. Qed.

Lemma store_col_nth : forall pat vs icol col i d,
  length vs = length pat -> i < length pat ->
  nth i (store_col pat vs icol col) d =
  if Nat.eqb (snd (nth i pat (0, 0))) icol then col (fst (nth i pat (0, 0))) else nth i vs d.
Proof.
  induction pat as [|e pat IH]; intros vs icol col i d Hl Hi; simpl in *; try lia.
  destruct vs as [|v vs]; simpl in *; try lia.
  destruct i; auto. apply IH; lia.
Qed.

Theorem stored_values_are_fd_values : forall b k pat nrows ncols thr (M : nat -> nat -> Q) i,
  i < length pat -> snd (nth i pat (0, 0)) < ncols ->
  nth i (vals (run_cols b k pat nrows thr (matrix_cols M ncols) (init_state pat))) 0%Q =
  M (fst (nth i pat (0, 0))) (snd (nth i pat (0, 0))).
Proof.
  intros b k pat nrows ncols thr M i Hi Hc. rewrite run_cols_vals. simpl.
  unfold matrix_cols.
  assert (G : forall cs vs done,
             length vs = length pat ->
             (In (snd (nth i pat (0, 0))) done ->
              nth i vs 0%Q = M (fst (nth i pat (0, 0))) (snd (nth i pat (0, 0)))) ->
             (In (snd (nth i pat (0, 0))) (cs ++ done)) ->
             nth i (vals_after pat (map (fun c => (c, fun r => M r c)) cs) vs) 0%Q =
             M (fst (nth i pat (0, 0))) (snd (nth i pat (0, 0)))).
  { induction cs as [|c cs IH]; intros vs done Hl Hd Hin; simpl in *; auto.
    apply (IH _ (c :: done)).
    - rewrite store_col_length. auto.
    - intros Hin'. rewrite store_col_nth by auto.
      destruct (Nat.eqb_spec (snd (nth i pat (0, 0))) c).
      + subst. reflexivity.
      + destruct Hin' as [E|Hin']; [congruence | auto].
    - destruct Hin as [E|Hin].
      + apply in_or_app. right. left. auto.
      + apply in_app_or in Hin. apply in_or_app. destruct Hin; [left | right; right]; auto. }
  apply (G (seq 0 ncols) _ []).
  - rewrite map_length. reflexivity.
  - intros [].
  - rewrite app_nil_r. apply in_seq. lia.
Qed.

(* ------------------------------------------------------------------ duplicate pattern entries *)

Lemma store_col_fixed_length : forall pat seen vs icol col,
  length (store_col_fixed seen pat vs icol col) = length vs.
Proof. induction pat; destruct vs; simpl; intros; auto. Qed.

Lemma eqb2_false_ne : forall a b, eqb2 a b = false <-> a <> b.
Proof.
  intros. split; intro H.
  - intro E. apply eqb2_true in E. congruence.
  - destruct (eqb2 a b) eqn:E; auto. apply eqb2_true in E. congruence.
Qed.

(* the column being stored: the dense (summed) value is the column value exactly once *)
Lemma dense_sum_stored : forall pat seen vs icol col r,
  length vs = length pat ->
  (dense_sum pat (store_col_fixed seen pat vs icol col) r icol ==
   if existsb (eqb2 (r, icol)) seen then 0
   else if in_pat pat r icol then col r else 0)%Q.
Proof.
  induction pat as [|e pat IH]; intros seen vs icol col r Hl.
  - destruct vs; simpl; destruct (existsb (eqb2 (r, icol)) seen); reflexivity.
  - destruct vs as [|v vs]; simpl in Hl; try lia.
    cbn [store_col_fixed dense_sum]. rewrite IH by lia.
    unfold in_pat. cbn [existsb].
    destruct (eqb2 e (r, icol)) eqn:E.
    + apply eqb2_true in E. subst e. cbn [fst snd]. rewrite Nat.eqb_refl.
      assert (E2 : eqb2 (r, icol) (r, icol) = true) by (apply eqb2_true; reflexivity).
      rewrite E2. cbn [orb].
      destruct (existsb (eqb2 (r, icol)) seen); ring.
    + assert (E2 : eqb2 (r, icol) e = false).
      { apply eqb2_false_ne. apply eqb2_false_ne in E. congruence. }
      rewrite E2. cbn [orb].
      destruct (existsb (eqb2 (r, icol)) seen); try ring.
Qed.

(* every other column of the dense view is untouched *)
Lemma dense_sum_other : forall pat seen vs icol col r c,
  c <> icol ->
  (dense_sum pat (store_col_fixed seen pat vs icol col) r c == dense_sum pat vs r c)%Q.
Proof.
  induction pat as [|e pat IH]; intros seen vs icol col r c Hc.
  - destruct vs; reflexivity.
  - destruct vs as [|v vs]; [reflexivity|].
    cbn [store_col_fixed dense_sum]. rewrite IH by auto.
    destruct (eqb2 e (r, c)) eqn:E; [|reflexivity].
    apply eqb2_true in E. subst e. cbn [snd].
    destruct (Nat.eqb_spec c icol); try congruence; reflexivity.
Qed.

(* for EVERY pattern -- duplicates or not -- after the repaired store of all columns the dense view
   of the stored values is the approximated matrix on the pattern and zero elsewhere *)
Theorem dedup_store_dense_sum : forall pat ncols (M : nat -> nat -> Q) r c,
  c < ncols ->
  (dense_sum pat (store_all true pat (matrix_cols M ncols) (map (fun _ => 0%Q) pat)) r c ==
   if in_pat pat r c then M r c else 0)%Q.
Proof.
  intros pat ncols M r c Hc. unfold matrix_cols.
  assert (G : forall cs vs done,
             length vs = length pat ->
             (In c done -> (dense_sum pat vs r c == if in_pat pat r c then M r c else 0)%Q) ->
             In c (cs ++ done) ->
             (dense_sum pat (store_all true pat (map (fun c0 => (c0, fun r0 => M r0 c0)) cs) vs) r c ==
              if in_pat pat r c then M r c else 0)%Q).
  { induction cs as [|c' cs IH]; intros vs done Hl Hd Hin.
    - simpl in *. auto.
    - cbn [map store_all fold_left fst snd].
      apply (IH _ (c' :: done)).
      + rewrite store_col_fixed_length. auto.
      + intros Hin'. destruct (Nat.eq_dec c c').
        * subst c'. rewrite dense_sum_stored by auto. reflexivity.
        * rewrite dense_sum_other by auto. destruct Hin' as [E|Hin']; [congruence|auto].
      + simpl in Hin. destruct Hin as [E|Hin].
        * apply in_or_app. right. left. auto.
        * apply in_app_or in Hin. apply in_or_app. destruct Hin; [left|right; right]; auto. }
  apply (G (seq 0 ncols) _ []).
  - rewrite map_length. reflexivity.
  - intros [].
  - rewrite app_nil_r. apply in_seq. lia.
Qed.

(* the store of the pinned source doubles a duplicated entry *)
Theorem dup_store_present_refuted :
  exists pat ncols (M : nat -> nat -> Q) r c,
    c < ncols /\ in_pat pat r c = true /\
    ~ (dense_sum pat (store_all false pat (matrix_cols M ncols) (map (fun _ => 0%Q) pat)) r c == M r c)%Q.
Proof.
  exists [(0, 0); (0, 0)], 1, (fun _ _ => 3%Q), 0, 0.
  split. lia. split. reflexivity. vm_compute. discriminate.
Qed.

(* ------------------------------------------------------------------ get_tol_violation *)

Lemma gtb_false : forall a b, gtb a b = false -> (a <= b)%Q.
Proof.
  unfold gtb. intros. apply negb_false_iff in H. apply Qle_bool_iff. auto.
Qed.

Lemma argmaxQ_from_spec : forall t bi b i,
  let res := argmaxQ_from bi b i t in
  ((fst res = bi /\ snd res = b) \/
   (exists j, j < length t /\ fst res = i + j /\ snd res = nth j t 0%Q)) /\
  (b <= snd res)%Q /\
  (forall j, j < length t -> (nth j t 0%Q <= snd res)%Q).
Proof.
  induction t as [|x t IH]; intros bi b i; simpl.
  - split. left; auto. split. apply Qle_refl. intros; lia.
  - destruct (gtb x b) eqn:E.
    + destruct (IH i x (S i)) as (A & B & C). split; [|split].
      * right. destruct A as [[A1 A2]|[j [Hj [A1 A2]]]].
        -- exists 0. split. lia. rewrite A1, A2. split; auto.
        -- exists (S j). split. lia. rewrite A1, A2. split; auto. lia.
      * apply gtb_true in E. eapply Qle_trans. apply Qlt_le_weak; eauto. auto.
      * intros j Hj. destruct j; auto. apply C. lia.
    + destruct (IH bi b (S i)) as (A & B & C). split; [|split].
      * destruct A as [[A1 A2]|[j [Hj [A1 A2]]]].
        -- left; auto.
        -- right. exists (S j). split. lia. rewrite A1, A2. split; auto. lia.
      * auto.
      * intros j Hj. destruct j.
        -- apply gtb_false in E. eapply Qle_trans; eauto.
        -- apply C. lia.
Qed.

Lemma argmaxQ_spec : forall l, l <> [] ->
  fst (argmaxQ l) < length l /\ snd (argmaxQ l) = nth (fst (argmaxQ l)) l 0%Q /\
  (forall j, j < length l -> (nth j l 0%Q <= snd (argmaxQ l))%Q).
Proof.
  intros l Hl. destruct l as [|x t]; try congruence. simpl.
  destruct (argmaxQ_from_spec t 0 x 1) as (A & B & C).
  assert (T : forall j, j < length (x :: t) ->
              (nth j (x :: t) 0%Q <= snd (argmaxQ_from 0 x 1 t))%Q).
  { intros j Hj. destruct j; [exact B | apply C; simpl in Hj; lia]. }
  destruct A as [[A1 A2]|[j [Hj [A1 A2]]]].
  - split; [rewrite A1; simpl; lia|]. split; [rewrite A1; simpl; exact A2 | exact T].
  - split; [rewrite A1; simpl; lia|]. split; [rewrite A1; simpl; exact A2 | exact T].
Qed.

Lemma map2Q_length : forall f a b, length a = length b -> length (map2Q f a b) = length a.
Proof. induction a; destruct b; simpl; intros; try lia. f_equal. apply IHa. lia. Qed.

Lemma map2Q_nth : forall f a b i, length a = length b -> i < length a ->
  nth i (map2Q f a b) 0%Q = f (nth i a 0%Q) (nth i b 0%Q).
Proof.
  induction a; destruct b; simpl; intros; try lia. destruct i; auto. apply IHa; lia.
Qed.

(* the reported abs error is the difference of the two reported values *)
Theorem tv_abs_is_difference : forall x ref atol rtol,
  let t := get_tol_violation x ref atol rtol in
  tv_abs t = Qabs (tv_x t - tv_ref t).
Proof. intros. unfold t, get_tol_violation. destruct x; reflexivity. Qed.

(* the reported values sit at one and the same position of the two compared arrays, the reported
   violation is the violation there, and no position has a larger one *)
Theorem tv_max_is_max : forall x ref atol rtol,
  x <> [] -> length x = length ref ->
  let t := get_tol_violation x ref atol rtol in
  (exists i, i < length x /\ tv_x t = nth i x 0%Q /\ tv_ref t = nth i ref 0%Q) /\
  tv_max t = viol atol rtol (tv_x t) (tv_ref t) /\
  (forall j, j < length x -> (viol atol rtol (nth j x 0%Q) (nth j ref 0%Q) <= tv_max t)%Q).
Proof.
  intros x ref atol rtol Hx Hl t. unfold t, get_tol_violation.
  destruct x as [|x0 xs] eqn:Ex; try congruence. rewrite <- Ex in *. clear Hx.
  assert (Hx : x <> []) by (rewrite Ex; discriminate).
  replace (match x with [] => mk_tv 0 0 0 false 0 (Some 0%Q) | _ :: _ => _ end) with
    (let diff := map2Q (viol atol rtol) x ref in
     let am := argmaxQ diff in
     let i := fst am in
     let xi := nth i x 0%Q in
     let ri := nth i ref 0%Q in
     let a := Qabs (xi - ri) in
     mk_tv (snd am) xi ri (existsb (fun d => gtb d 0) diff) a
           (if Qeq_bool ri 0 then None else Some (a / Qabs ri)%Q)) by (rewrite Ex; reflexivity).
  simpl.
  set (diff := map2Q (viol atol rtol) x ref).
  assert (Hd : diff <> []).
  { unfold diff. rewrite Ex. destruct ref; simpl in *; try discriminate. rewrite Ex in Hl. discriminate. }
  assert (Hdl : length diff = length x) by (apply map2Q_length; auto).
  destruct (argmaxQ_spec diff Hd) as (A & B & C).
  split; [|split].
  - exists (fst (argmaxQ diff)). split. lia. auto.
  - pose proof (map2Q_nth (viol atol rtol) x ref (fst (argmaxQ diff)) Hl) as N. fold diff in N.
    rewrite B. apply N. lia.
  - intros j Hj. rewrite <- (map2Q_nth (viol atol rtol) x ref j Hl Hj). apply C. fold diff. lia.
Qed.

(* "above tolerance" is reported exactly when the reported maximal violation is positive *)
Theorem tv_above_iff : forall x ref atol rtol,
  x <> [] -> length x = length ref ->
  let t := get_tol_violation x ref atol rtol in
  tv_above t = true <-> (0 < tv_max t)%Q.
Proof.
  intros x ref atol rtol Hx Hl t.
  destruct (tv_max_is_max x ref atol rtol Hx Hl) as (_ & _ & Hmax). fold t in Hmax.
  unfold t, get_tol_violation in *. destruct x as [|x0 xs] eqn:Ex; try congruence.
  rewrite <- Ex in *. simpl in *.
  set (diff := map2Q (viol atol rtol) x ref) in *.
  assert (Hdl : length diff = length x) by (apply map2Q_length; auto).
  assert (Hd : diff <> []).
  { intro E. rewrite E in Hdl. rewrite Ex in Hdl. discriminate. }
  destruct (argmaxQ_spec diff Hd) as (A & B & C).
  split.
  - intro H. apply existsb_exists in H. destruct H as [d [Hin Hg]]. apply gtb_true in Hg.
    destruct (In_nth _ _ 0%Q Hin) as [j [Hj Ej]].
    eapply Qlt_le_trans. apply Hg. rewrite <- Ej. apply C. auto.
  - intro H. apply existsb_exists. exists (snd (argmaxQ diff)). split.
    + rewrite B. apply nth_In. auto.
    + apply gtb_true. auto.
Qed.

(* with zero tolerances the reported abs error is the largest entrywise difference *)
Theorem tv_abs_is_max_difference : forall x ref,
  x <> [] -> length x = length ref ->
  let t := get_tol_violation x ref 0 0 in
  forall j, j < length x -> (Qabs (nth j x 0%Q - nth j ref 0%Q) <= tv_abs t)%Q.
Proof.
  intros x ref Hx Hl t j Hj.
  destruct (tv_max_is_max x ref 0 0 Hx Hl) as (_ & Hm & Hmax). fold t in Hm, Hmax.
  specialize (Hmax j Hj). rewrite Hm in Hmax.
  pose proof (tv_abs_is_difference x ref 0 0) as D. cbv zeta in D. fold t in D. rewrite D.
  unfold viol in Hmax.
  assert (E : forall a b : Q, (Qabs (a - b) - (0 + 0 * Qabs b) == Qabs (a - b))%Q) by (intros; ring).
  rewrite !E in Hmax. auto.
Qed.
