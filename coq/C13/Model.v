(* C13 -- executable model of the sparsity audit and of the error report of check_partials /
   check_totals:
     openmdao/jacobians/subjac.py   {Dense,COO,OMCOO,CSR,CSC,Diagonal}Subjac.set_col, _set_coo_col
     openmdao/jacobians/dictionary_jacobian.py  _CheckingJacobian.set_col (one sub-jacobian)
     openmdao/core/component.py     check_partials: copying 'uncovered_nz' / 'uncovered_threshold'
     openmdao/utils/array_utils.py  get_tol_violation (used by system._compute_deriv_errors)
   Definitions only. *)
From Coq Require Import ZArith QArith Qabs List Bool Arith String.
From OMV Require Import Base.Val.
Import ListNotations.
Open Scope nat_scope.

(* ------------------------------------------------------------------ sub-jacobian kinds *)

Inductive kind := KDense | KCOO | KCSR | KCSC | KDiag.      (* OMCOO (rows/cols) shares KCOO *)

(* Declared sparsity pattern: the (row, col) entries in storage order.  For KDiag it is
   [(0,0); (1,1); ...], for KDense every position. *)
Definition entries := list (nat * nat).

Record state := mk_state {
  vals : list Q;                         (* stored values, aligned with the pattern entries *)
  unc : option (list (nat * nat));       (* info['uncovered_nz'] (None: key absent) *)
  thr_key : bool                         (* 'uncovered_threshold' in info *)
}.

Definition init_state (pat : entries) : state :=
  mk_state (map (fun _ => 0%Q) pat) None false.

Definition eqb2 (a b : nat * nat) : bool := Nat.eqb (fst a) (fst b) && Nat.eqb (snd a) (snd b).
Definition in_pat (pat : entries) (r c : nat) : bool := existsb (eqb2 (r, c)) pat.

(* data[col == icol] = column[row[col == icol]] (COO);  csc.data[indptr[icol]:indptr[icol+1]] =
   column[rowinds] (CSC, CSR);  val[icol] = column[icol] (diagonal);  val[:, icol] = column (dense) *)
Fixpoint store_col (pat : entries) (vs : list Q) (icol : nat) (column : nat -> Q) : list Q :=
  match pat, vs with
  | e :: pat', v :: vs' =>
      (if Nat.eqb (snd e) icol then column (fst e) else v) :: store_col pat' vs' icol column
  | _, _ => vs
  end.

Definition gtb (a b : Q) : bool := negb (Qle_bool a b).          (* a > b *)

(* arr = column.copy(); arr[covered rows] = 0; nzs = where(abs(arr) > threshold) *)
Definition uncovered_rows (pat : entries) (nrows : nat) (thr : Q) (icol : nat) (column : nat -> Q)
  : list nat :=
  filter (fun r => negb (in_pat pat r icol) && gtb (Qabs (column r)) thr) (seq 0 nrows).

Definition uncovered_of (pat : entries) (nrows : nat) (thr : Q) (icol : nat) (column : nat -> Q)
  : list (nat * nat) :=
  map (fun r => (r, icol)) (uncovered_rows pat nrows thr icol column).

Definition olist (o : option (list (nat * nat))) : list (nat * nat) :=
  match o with Some l => l | None => [] end.

(* the bookkeeping of the source as pinned at 65ad24d (before fix_1.diff) *)
Definition audit_present (k : kind) (st : state) (new : list (nat * nat)) : state :=
  match new with
  | [] => st
  | _ =>
    match k with
    | KDense => st
    | KCOO | KCSC =>        (* the extend sits inside "if 'uncovered_nz' not in info" *)
        match unc st with
        | None => mk_state (vals st) (Some new) true
        | Some _ => st
        end
    | KCSR =>               (* never extended *)
        match unc st with
        | None => mk_state (vals st) (Some []) true
        | Some _ => st
        end
    | KDiag =>              (* extended, but the threshold key is never written *)
        mk_state (vals st) (Some (olist (unc st) ++ new)) (thr_key st)
    end
  end.

(* repaired bookkeeping: every sparse kind records every column and writes the threshold key *)
Definition audit_fixed (k : kind) (st : state) (new : list (nat * nat)) : state :=
  match new with
  | [] => st
  | _ =>
    match k with
    | KDense => st
    | _ => mk_state (vals st) (Some (olist (unc st) ++ new)) true
    end
  end.

Definition set_col (fixed : bool) (k : kind) (pat : entries) (nrows : nat) (thr : Q)
           (st : state) (icol : nat) (column : nat -> Q) : state :=
  let st1 := mk_state (store_col pat (vals st) icol column) (unc st) (thr_key st) in
  let new := uncovered_of pat nrows thr icol column in
  if fixed then audit_fixed k st1 new else audit_present k st1 new.

(* the approximation fills the columns one after the other *)
Definition run_cols (fixed : bool) (k : kind) (pat : entries) (nrows : nat) (thr : Q)
           (cols : list (nat * (nat -> Q))) (st : state) : state :=
  fold_left (fun st ic => set_col fixed k pat nrows thr st (fst ic) (snd ic)) cols st.

Definition matrix_cols (M : nat -> nat -> Q) (ncols : nat) : list (nat * (nat -> Q)) :=
  map (fun c => (c, fun r => M r c)) (seq 0 ncols).

(* what check_partials puts in its return dict *)
Inductive report := RAbsent | RList (l : list (nat * nat)) | RKeyError.

Definition report_of (st : state) : report :=
  match unc st with
  | None => RAbsent
  | Some l => if thr_key st then RList l else RKeyError     (* subjacs_info['uncovered_threshold'] *)
  end.

(* the specification: every approximated entry outside the declared pattern whose magnitude
   exceeds the threshold, in column order *)
Definition spec_uncovered (pat : entries) (nrows ncols : nat) (thr : Q) (M : nat -> nat -> Q)
  : list (nat * nat) :=
  flat_map (fun c => uncovered_of pat nrows thr c (fun r => M r c)) (seq 0 ncols).

(* ------------------------------------------------------------------ duplicate pattern entries *)

(* A scipy COO value may list a (row, col) position several times; its dense view SUMS the
   duplicates.  [store_col] above (the code as pinned) writes the full column value into every
   duplicate; the repaired store writes it into the first occurrence only. *)
Fixpoint store_col_fixed (seen pat : entries) (vs : list Q) (icol : nat) (column : nat -> Q)
  : list Q :=
  match pat, vs with
  | e :: pat', v :: vs' =>
      (if Nat.eqb (snd e) icol
       then (if existsb (eqb2 e) seen then 0%Q else column (fst e))
       else v) :: store_col_fixed (e :: seen) pat' vs' icol column
  | _, _ => vs
  end.

(* todense of a COO matrix: duplicates are summed *)
Fixpoint dense_sum (pat : entries) (vs : list Q) (r c : nat) : Q :=
  match pat, vs with
  | e :: pat', v :: vs' => ((if eqb2 e (r, c) then v else 0) + dense_sum pat' vs' r c)%Q
  | _, _ => 0%Q
  end.

Definition store_all (fixed : bool) (pat : entries) (cols : list (nat * (nat -> Q))) (vs : list Q)
  : list Q :=
  fold_left (fun vs ic => if fixed then store_col_fixed [] pat vs (fst ic) (snd ic)
                          else store_col pat vs (fst ic) (snd ic)) cols vs.

(* ------------------------------------------------------------------ get_tol_violation *)

(* numpy argmax over Q: index and value of the first maximum *)
Fixpoint argmaxQ_from (best_i : nat) (best : Q) (i : nat) (l : list Q) : nat * Q :=
  match l with
  | [] => (best_i, best)
  | x :: t => if gtb x best then argmaxQ_from i x (S i) t else argmaxQ_from best_i best (S i) t
  end.

Definition argmaxQ (l : list Q) : nat * Q :=
  match l with [] => (O, 0%Q) | x :: t => argmaxQ_from O x 1 t end.

Fixpoint map2Q (f : Q -> Q -> Q) (a b : list Q) : list Q :=
  match a, b with
  | x :: a', y :: b' => f x y :: map2Q f a' b'
  | _, _ => []
  end.

Record tolviol := mk_tv {
  tv_max : Q;            (* max of abs(x-ref) - (atol + rtol*abs(ref)) *)
  tv_x : Q; tv_ref : Q;  (* the two values at that position *)
  tv_above : bool;       (* any(diff > 0) *)
  tv_abs : Q;            (* abs error at that position *)
  tv_rel : option Q      (* rel error at that position; None = inf (ref == 0) *)
}.

Definition viol (atol rtol x r : Q) : Q := Qabs (x - r) - (atol + rtol * Qabs r).

Definition get_tol_violation (x ref : list Q) (atol rtol : Q) : tolviol :=
  match x with
  | [] => mk_tv 0 0 0 false 0 (Some 0%Q)
  | _ =>
    let diff := map2Q (viol atol rtol) x ref in
    let am := argmaxQ diff in
    let i := fst am in
    let xi := nth i x 0%Q in
    let ri := nth i ref 0%Q in
    let a := Qabs (xi - ri) in
    mk_tv (snd am) xi ri (existsb (fun d => gtb d 0) diff) a
          (if Qeq_bool ri 0 then None else Some (a / Qabs ri)%Q)
  end.

(* ------------------------------------------------------------------ values for the harness *)

Definition kind_of_code (z : Z) : kind :=
  match z with
  | 0%Z => KDense | 1%Z => KCOO | 2%Z => KCSR | 3%Z => KCSC | _ => KDiag
  end.

Definition matQ (m : list (list Q)) (r c : nat) : Q := nth c (nth r m []) 0%Q.

Definition vpairs (l : list (nat * nat)) : val :=
  VL (map (fun p => VL [VZ (Z.of_nat (fst p)); VZ (Z.of_nat (snd p))]) l).

Definition vreport (r : report) : val :=
  match r with RAbsent => VN | RList l => vpairs l | RKeyError => VE 1 end.

(* dense view of the stored values (duplicates do not occur in the generated patterns) *)
Definition dense_of (pat : entries) (vs : list Q) (nrows ncols : nat) : list (list Q) :=
  map (fun r => map (fun c =>
         match find (fun ev => eqb2 (fst ev) (r, c)) (combine pat vs) with
         | Some ev => snd ev | None => 0%Q end) (seq 0 ncols)) (seq 0 nrows).

Definition vmatQ (m : list (list Q)) : val := VL (map (fun row => VL (map VQ row)) m).

Definition vtv (t : tolviol) : val :=
  VL [VQ (tv_max t); VQ (tv_x t); VQ (tv_ref t); VB (tv_above t); VQ (tv_abs t);
      match tv_rel t with Some q => VQ q | None => VS "inf"%string end].

(* a whole approximation pass over the matrix fd (the values the FD/CS pass computed), then the
   error computation against the analytic matrix an (already restricted to the declared pattern):
   [uncovered report; J_fd as reported; get_tol_violation(J_fwd, J_fd)] *)
Definition run_partials (fixed : bool) (kc : Z) (pat : entries) (nrows ncols : nat) (thr : Q)
           (fd an : list (list Q)) (atol rtol : Q) : val :=
  let k := kind_of_code kc in
  let st := run_cols fixed k pat nrows thr (matrix_cols (matQ fd) ncols) (init_state pat) in
  let jfd := dense_of pat (vals st) nrows ncols in
  VL [vreport (report_of st); vmatQ jfd;
      vtv (get_tol_violation (List.concat an) (List.concat jfd) atol rtol)].

(* check_partials(step=[s1, s2, ...]): one fresh checking jacobian per step; the report keeps what
   every step found (entries already listed are not repeated) *)
Fixpoint add_new (acc l : list (nat * nat)) : list (nat * nat) :=
  match l with
  | [] => acc
  | p :: t => add_new (if existsb (eqb2 p) acc then acc else acc ++ [p]) t
  end.

Definition merge_report (acc r : report) : report :=
  match acc, r with
  | RKeyError, _ => RKeyError
  | _, RKeyError => RKeyError
  | a, RAbsent => a
  | RAbsent, RList l => RList (add_new [] l)
  | RList a, RList l => RList (add_new a l)
  end.

Definition run_partials_steps (fixed : bool) (kc : Z) (pat : entries) (nrows ncols : nat) (thr : Q)
           (fds : list (list (list Q))) (an : list (list Q)) (atol rtol : Q) : val :=
  let k := kind_of_code kc in
  let sts := map (fun fd => run_cols fixed k pat nrows thr (matrix_cols (matQ fd) ncols)
                                     (init_state pat)) fds in
  let jfds := map (fun st => dense_of pat (vals st) nrows ncols) sts in
  VL [vreport (fold_left merge_report (map report_of sts) RAbsent);
      VL (map vmatQ jfds);
      VL (map (fun jfd => vtv (get_tol_violation (List.concat an) (List.concat jfd) atol rtol)) jfds)].

Definition run_errors (x ref : list (list Q)) (atol rtol : Q) : val :=
  vtv (get_tol_violation (List.concat x) (List.concat ref) atol rtol).

(* J_fd reported for a COO partial whose pattern may contain duplicate entries *)
Definition run_dup (fixed : bool) (pat : entries) (nrows ncols : nat) (fd : list (list Q)) : val :=
  let vs := store_all fixed pat (matrix_cols (matQ fd) ncols) (map (fun _ => 0%Q) pat) in
  vmatQ (map (fun r => map (fun c => dense_sum pat vs r c) (seq 0 ncols)) (seq 0 nrows)).
