From Coq Require Import ZArith List.
From OMV Require Import Base.Val C13.Model.
Theorem C13_placeholder : True. Proof. exact I. Qed.
Print Assumptions C13_placeholder.
