(* C13 -- property theorems (statements only; proofs by [exact] of lemmas in Proofs.v). *)
From Coq Require Import ZArith QArith Qabs List.
From OMV Require Import Base.Val C13.Model C13.Proofs.
Import ListNotations.
Open Scope nat_scope.

(* For every sparse sub-jacobian kind (COO / rows-cols, CSR, CSC, diagonal), every declared pattern,
   every size, threshold and approximated matrix: after set_col has been called for all columns the
   report holds exactly the approximated entries outside the declared pattern whose magnitude
   exceeds the threshold (in column order; key absent when there is none) -- repaired bookkeeping. *)
Theorem C13_uncovered_complete_sound : forall k pat nrows ncols thr M,
  k <> KDense ->
  report_of (run_cols true k pat nrows thr (matrix_cols M ncols) (init_state pat)) =
  match spec_uncovered pat nrows ncols thr M with
  | [] => RAbsent
  | l => RList l
  end.
Proof. exact uncovered_complete_sound. Qed.
Print Assumptions C13_uncovered_complete_sound.

Theorem C13_spec_uncovered_In : forall pat nrows ncols thr M r c,
  In (r, c) (spec_uncovered pat nrows ncols thr M) <->
  r < nrows /\ c < ncols /\ in_pat pat r c = false /\ (thr < Qabs (M r c))%Q.
Proof. exact spec_uncovered_In. Qed.
Print Assumptions C13_spec_uncovered_In.

(* The bookkeeping of the source before fix_1.diff (extend inside the "key not yet present" branch;
   CSR never extends; diagonal never writes the threshold key) does not have that property, for any
   sparse kind. *)
Theorem C13_uncovered_present_refuted : forall k, k <> KDense ->
  report_of (run_cols false k wit_pat 2 0%Q (matrix_cols wit_M 2) (init_state wit_pat)) <>
  RList (spec_uncovered wit_pat 2 2 0%Q wit_M).
Proof. exact uncovered_present_refuted. Qed.
Print Assumptions C13_uncovered_present_refuted.

(* On the declared pattern the stored (reported) J_fd values are the approximated values, whatever
   the bookkeeping variant and kind. *)
Theorem C13_stored_values_are_fd_values : forall b k pat nrows ncols thr (M : nat -> nat -> Q) i,
  i < length pat -> snd (nth i pat (0, 0)) < ncols ->
  nth i (vals (run_cols b k pat nrows thr (matrix_cols M ncols) (init_state pat))) 0%Q =
  M (fst (nth i pat (0, 0))) (snd (nth i pat (0, 0))).
Proof. exact stored_values_are_fd_values. Qed.
Print Assumptions C13_stored_values_are_fd_values.

(* Error report: the abs error is the difference of the two reported values ... *)
Theorem C13_abs_error_is_difference : forall x ref atol rtol,
  let t := get_tol_violation x ref atol rtol in
  tv_abs t = Qabs (tv_x t - tv_ref t).
Proof. exact tv_abs_is_difference. Qed.
Print Assumptions C13_abs_error_is_difference.

(* ... which are the entries of the two compared arrays at one and the same position, where the
   tolerance violation is maximal ... *)
Theorem C13_max_violation_is_max : forall x ref atol rtol,
  x <> [] -> length x = length ref ->
  let t := get_tol_violation x ref atol rtol in
  (exists i, i < length x /\ tv_x t = nth i x 0%Q /\ tv_ref t = nth i ref 0%Q) /\
  tv_max t = viol atol rtol (tv_x t) (tv_ref t) /\
  (forall j, j < length x -> (viol atol rtol (nth j x 0%Q) (nth j ref 0%Q) <= tv_max t)%Q).
Proof. exact tv_max_is_max. Qed.
Print Assumptions C13_max_violation_is_max.

(* ... the "above tolerance" verdict is exactly positivity of that violation ... *)
Theorem C13_above_iff : forall x ref atol rtol,
  x <> [] -> length x = length ref ->
  let t := get_tol_violation x ref atol rtol in
  tv_above t = true <-> (0 < tv_max t)%Q.
Proof. exact tv_above_iff. Qed.
Print Assumptions C13_above_iff.

(* ... and with zero tolerances the abs error is the largest entrywise difference. *)
Theorem C13_abs_error_is_max_difference : forall x ref,
  x <> [] -> length x = length ref ->
  let t := get_tol_violation x ref 0 0 in
  forall j, j < length x -> (Qabs (nth j x 0%Q - nth j ref 0%Q) <= tv_abs t)%Q.
Proof. exact tv_abs_is_max_difference. Qed.
Print Assumptions C13_abs_error_is_max_difference.

(* With a list of steps the merged report holds exactly the entries some step flagged. *)
Theorem C13_step_list_union : forall (lists : list (list (nat * nat))) acc p,
  In p (fold_left add_new lists acc) <-> In p acc \/ exists l, In l lists /\ In p l.
Proof. exact merged_steps_In. Qed.
Print Assumptions C13_step_list_union.

(* Patterns with duplicate entries (a scipy COO value may repeat a position; its dense view sums the
   duplicates): with the repaired store the dense view of the stored values is the approximated
   matrix on the pattern and zero elsewhere, for EVERY pattern, size and matrix ... *)
Theorem C13_dedup_store_dense_sum : forall pat ncols (M : nat -> nat -> Q) r c,
  c < ncols ->
  (dense_sum pat (store_all true pat (matrix_cols M ncols) (map (fun _ => 0%Q) pat)) r c ==
   if in_pat pat r c then M r c else 0)%Q.
Proof. exact dedup_store_dense_sum. Qed.
Print Assumptions C13_dedup_store_dense_sum.

(* ... whereas the store of the source before fix_4.diff multiplies a duplicated entry. *)
Theorem C13_dup_store_present_refuted :
  exists pat ncols (M : nat -> nat -> Q) r c,
    c < ncols /\ in_pat pat r c = true /\
    ~ (dense_sum pat (store_all false pat (matrix_cols M ncols) (map (fun _ => 0%Q) pat)) r c == M r c)%Q.
Proof. exact dup_store_present_refuted. Qed.
Print Assumptions C13_dup_store_present_refuted.
