(* C34 — the jacobian of the model is the matrix of partial derivatives of the outputs. *)
From Coq Require Import Reals QArith List Lia.
From Coquelicot Require Import Coquelicot.
From OMV Require Import Expr.Expr Expr.ExprProofs C34.Model.
Import ListNotations.
Open Scope R_scope.

Lemma nth_grad : forall n e j d, (j < n)%nat -> nth j (grad n e) d = D j e.
Proof.
  intros n e j d H. unfold grad.
  rewrite (nth_indep _ d (D 0 e)) by (rewrite map_length, seq_length; exact H).
  change (D 0 e) with ((fun x => D x e) 0%nat). rewrite map_nth, seq_nth by exact H. reflexivity.
Qed.

(* every entry (i, j) of the model jacobian of a component with n inputs is the partial derivative of
   output i with respect to input j, at every point where the output formula is smooth *)
Theorem jac_entries_are_partials : forall (outs : list expr) (n i j : nat) (rho : env),
  (i < length outs)%nat -> (j < n)%nat -> smooth rho (nth i outs (ECst 0)) ->
  is_derive (fun t => evalR (upd rho j t) (nth i outs (ECst 0))) (rho j)
            (nth j (nth i (comp_jac_at outs n rho) []) 0).
Proof.
  intros outs n i j rho Hi Hj Hs. unfold comp_jac_at, comp_jac.
  rewrite (nth_indep _ [] (map (evalR rho) (grad n (ECst 0)))) by (rewrite !map_length; exact Hi).
  rewrite map_map.
  change (map (evalR rho) (grad n (ECst 0))) with ((fun e => map (evalR rho) (grad n e)) (ECst 0)).
  rewrite map_nth.
  rewrite (nth_indep _ 0 (evalR rho (ECst 0))) by (rewrite map_length; unfold grad; rewrite map_length, seq_length; exact Hj).
  rewrite map_nth, (nth_grad n _ j (ECst 0) Hj).
  apply D_correct, Hs.
Qed.
