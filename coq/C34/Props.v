(* C34 — property theorems (statements only). *)
From Coq Require Import Reals QArith List.
From Coquelicot Require Import Coquelicot.
From OMV Require Import Expr.Expr Expr.ExprProofs C34.Model C34.Proofs.
Import ListNotations.

(* For every function built from the primitive set (the expression language), every number of inputs and
   outputs and every point where the function is smooth: entry (i, j) of the model jacobian - the value the
   components' partials are compared with on every run - is the partial derivative of output i w.r.t. input j. *)
Theorem C34_jac_entries_are_partials :
  forall (outs : list expr) (n i j : nat) (rho : env),
    (i < length outs)%nat -> (j < n)%nat -> smooth rho (nth i outs (ECst 0%Q)) ->
    is_derive (fun t => evalR (upd rho j t) (nth i outs (ECst 0%Q))) (rho j)
              (nth j (nth i (comp_jac_at outs n rho) []) 0%R).
Proof. exact jac_entries_are_partials. Qed.
Print Assumptions C34_jac_entries_are_partials.
