(* C34 — model of function-based components: a component is a list of output (residual) element formulas
   over the flat environment of its inputs (and states); its jacobian is the matrix of symbolic partial
   derivatives.  The expression language and D are the shared ones (Expr/Expr.v).  Definitions only. *)
From Coq Require Import Reals QArith List.
From OMV Require Import Expr.Expr.
Import ListNotations.

(* outputs / residuals of the component at the point rho *)
Definition comp_outputs (outs : list expr) (rho : env) : list R := map (evalR rho) outs.

(* row i, column j of the jacobian: d out_i / d x_j *)
Definition comp_jac (outs : list expr) (n : nat) : list (list expr) := map (fun e => grad n e) outs.
Definition comp_jac_at (outs : list expr) (n : nat) (rho : env) : list (list R) :=
  map (map (evalR rho)) (comp_jac outs n).
