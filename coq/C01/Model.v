(* C01 — executable model of total-derivative computation for affine model specs.

   The whole model (all outputs of all components, connections substituted through
   src_indices and unit factors) is one block linear system  M du = dr  over Q, in OpenMDAO's
   sign convention (explicit component rows: df/dx dx - dy; IndepVarComp rows: -dy; implicit
   component rows: dR/dy dy + dR/dx dx).  Seeds are -1 (total_jac.py: _create_in_idx_map),
   forward mode solves M x = seed and reads the response entries of x, reverse mode solves
   M^T y = seed and reads the design-variable entries of y (single_input_setter /
   simple_single_jac_scatter).  Linear solves are Gaussian elimination that returns a solution
   ONLY together with a passed residual check (certificate).  Definitions only. *)
From Coq Require Import ZArith QArith List Bool.
Import ListNotations.
From OMV Require Import Base.Val.
Open Scope Q_scope.

Definition vec := list Q.
Definition mat := list vec.

(* ------------------------------------------------------------------ vectors and matrices *)

Fixpoint dot (a b : vec) : Q :=
  match a, b with
  | x :: a', y :: b' => x * y + dot a' b'
  | _, _ => 0
  end.

Definition mat_vec (M : mat) (x : vec) : vec := map (fun r => dot r x) M.

Definition col (j : nat) (M : mat) : vec := map (fun r => nth j r 0) M.
Definition transpose (n : nat) (M : mat) : mat := map (fun j => col j M) (seq 0 n).

Definition zeros (n : nat) : vec := repeat 0 n.

Fixpoint add_at (i : nat) (q : Q) (v : vec) : vec :=
  match v, i with
  | [], _ => []
  | x :: v', O => Qred (x + q) :: v'
  | x :: v', S i' => x :: add_at i' q v'
  end.

Definition unit_at (n i : nat) (s : Q) : vec := add_at i s (zeros n).

Fixpoint vadd (a b : vec) : vec :=
  match a, b with
  | x :: a', y :: b' => (x + y) :: vadd a' b'
  | _, _ => []
  end.
Definition vscale (h : Q) (a : vec) : vec := map (fun x => h * x) a.

Fixpoint vec_eqb (a b : vec) : bool :=
  match a, b with
  | [], [] => true
  | x :: a', y :: b' => Qeq_bool x y && vec_eqb a' b'
  | _, _ => false
  end.

Definition vec_eq (a b : vec) : Prop := Forall2 Qeq a b.
Definition mat_eq (A B : mat) : Prop := Forall2 vec_eq A B.

Definition wf_mat (n : nat) (M : mat) : Prop := Forall (fun r => length r = n) M.
Definition wf_matb (n : nat) (M : mat) : bool :=
  forallb (fun r => Nat.eqb (length r) n) M && Nat.eqb (length M) n.

(* ------------------------------------------------------------------ certified linear solve *)

Fixpoint find_pivot (c : nat) (rows : list vec) : option (vec * list vec) :=
  match rows with
  | [] => None
  | r :: rest =>
      if Qeq_bool (nth c r 0) 0 then
        match find_pivot c rest with
        | Some (p, others) => Some (p, r :: others)
        | None => None
        end
      else Some (r, rest)
  end.

Fixpoint sub_scaled (f : Q) (r p : vec) : vec :=
  match r, p with
  | a :: r', b :: p' => Qred (a - f * b) :: sub_scaled f r' p'
  | _, _ => []
  end.

Definition elim (c : nat) (p r : vec) : vec :=
  let f := nth c r 0 in if Qeq_bool f 0 then r else sub_scaled f r p.

Fixpoint gauss_jordan (fuel c : nat) (done todo : list vec) : option (list vec) :=
  match fuel with
  | O => Some done
  | S k =>
      match find_pivot c todo with
      | None => None
      | Some (p, rest) =>
          let pc := nth c p 0 in
          let p' := map (fun v => Qred (v / pc)) p in
          gauss_jordan k (S c) (map (elim c p') done ++ [p']) (map (elim c p') rest)
      end
  end.

Definition identity (n : nat) : mat := map (fun i => add_at i 1 (zeros n)) (seq 0 n).

(* candidate inverse by Gauss-Jordan on [M | I]; NOT trusted: every use is certified by a residual check *)
Definition inverse (M : mat) : option mat :=
  let n := length M in
  match gauss_jordan n 0 [] (map (fun ri => fst ri ++ snd ri) (combine M (identity n))) with
  | Some rows => Some (map (skipn n) rows)
  | None => None
  end.

(* a solution is returned only with its residual certificate, whatever the candidate inverse N is *)
Definition solve_with (N M : mat) (b : vec) : option vec :=
  let x := map Qred (mat_vec N b) in
  if vec_eqb (mat_vec M x) b && Nat.eqb (length x) (length M) then Some x else None.

Definition solve_cert (M : mat) (b : vec) : option vec :=
  match inverse M with
  | Some N => solve_with N M b
  | None => None
  end.

Fixpoint map_opt {A B} (f : A -> option B) (l : list A) : option (list B) :=
  match l with
  | [] => Some []
  | a :: l' =>
      match f a, map_opt f l' with
      | Some b, Some bs => Some (b :: bs)
      | _, _ => None
      end
  end.

(* ------------------------------------------------------------------ model specs *)

(* an input: global id of its source variable, the source positions it reads (src_indices,
   already resolved; identity when none), and the unit conversion factor source -> input *)
Record inp := mkinp { in_src : nat; in_idx : list nat; in_fac : Q }.
(* explicit output  y = sum_k A_k x_k + b *)
Record eout := mkeout { eo_size : nat; eo_A : list mat; eo_b : vec }.
(* implicit output  R = sum_k Ay_k y_k + sum_k Bx_k x_k - c *)
Record iout := mkiout { io_size : nat; io_Ay : list mat; io_Bx : list mat; io_c : vec }.

Inductive comp :=
| CIvc (vals : list vec)
| CExp (ins : list inp) (outs : list eout)
| CImp (ins : list inp) (outs : list iout).

Definition spec := list comp.

Definition comp_sizes (c : comp) : list nat :=
  match c with
  | CIvc vals => map (@length Q) vals
  | CExp _ outs => map eo_size outs
  | CImp _ outs => map io_size outs
  end.

Definition var_sizes (s : spec) : list nat := flat_map comp_sizes s.

Fixpoint offsets_from (o : nat) (szs : list nat) : list nat :=
  match szs with
  | [] => []
  | z :: r => o :: offsets_from (o + z)%nat r
  end.

Definition offsets (s : spec) : list nat := offsets_from 0 (var_sizes s).
Definition total_size (s : spec) : nat := fold_right Nat.add 0%nat (var_sizes s).

Definition add_inp_terms (offs : list nat) (i : inp) (arow : vec) (row : vec) : vec :=
  fold_left (fun acc p => add_at (nth (in_src i) offs 0%nat + snd p) (fst p * in_fac i) acc)
            (combine arow (in_idx i)) row.

Definition add_inputs (offs : list nat) (ins : list inp) (blocks : list mat) (r : nat) (row : vec) : vec :=
  fold_left (fun acc ib => add_inp_terms offs (fst ib) (nth r (snd ib) []) acc) (combine ins blocks) row.

Fixpoint add_dense (o : nat) (arow : vec) (row : vec) : vec :=
  match arow with
  | [] => row
  | a :: arow' => add_dense (S o) arow' (add_at o a row)
  end.

(* rows (with right-hand sides of the affine model M u = rhs) contributed by one component whose first
   output has global variable id [first] *)
Definition comp_rows (offs : list nat) (N first : nat) (c : comp) : list (vec * Q) :=
  match c with
  | CIvc vals =>
      concat (map (fun kv =>
        let o := nth (first + fst kv) offs 0%nat in
        map (fun r => (add_at (o + r) (-1) (zeros N), - nth r (snd kv) 0)) (seq 0 (length (snd kv))))
        (combine (seq 0 (length vals)) vals))
  | CExp ins outs =>
      concat (map (fun ko =>
        let o := nth (first + fst ko) offs 0%nat in
        let eo := snd ko in
        map (fun r => (add_inputs offs ins (eo_A eo) r (add_at (o + r) (-1) (zeros N)), - nth r (eo_b eo) 0))
            (seq 0 (eo_size eo)))
        (combine (seq 0 (length outs)) outs))
  | CImp ins outs =>
      concat (map (fun ko =>
        let io := snd ko in
        map (fun r =>
               (add_inputs offs ins (io_Bx io) r
                  (fold_left (fun acc kA => add_dense (nth (first + fst kA) offs 0%nat) (nth r (snd kA) []) acc)
                             (combine (seq 0 (length outs)) (io_Ay io)) (zeros N)),
                nth r (io_c io) 0))
            (seq 0 (io_size io)))
        (combine (seq 0 (length outs)) outs))
  end.

Fixpoint build_from (offs : list nat) (N first : nat) (s : spec) : list (vec * Q) :=
  match s with
  | [] => []
  | c :: s' => comp_rows offs N first c ++ build_from offs N (first + length (comp_sizes c)) s'
  end.

Definition sys_rows (s : spec) : list (vec * Q) := build_from (offsets s) (total_size s) 0 s.
Definition sys_mat (s : spec) : mat := map fst (sys_rows s).
Definition sys_rhs (s : spec) : vec := map snd (sys_rows s).

(* converged state of the affine model *)
Definition state (s : spec) : option vec := solve_cert (sys_mat s) (sys_rhs s).

(* ------------------------------------------------------------------ variables of interest *)

Record voi := mkvoi { v_var : nat; v_idx : list nat; v_scaler : option vec; v_ref : option vec;
                      v_ref0 : option vec; v_unit : Q }.

Definition voi_pos (offs : list nat) (v : voi) : list nat :=
  map (fun i => (nth (v_var v) offs 0%nat + i)%nat) (v_idx v).

Definition all_pos (offs : list nat) (vs : list voi) : list nat := flat_map (voi_pos offs) vs.

(* determine_adder_scaler: ref/ref0 take precedence, scaler = 1 / (ref - ref0) *)
Definition voi_tscaler (v : voi) : vec :=
  let n := length (v_idx v) in
  match v_ref v, v_ref0 v with
  | None, None => match v_scaler v with Some s => s | None => repeat 1 n end
  | r, r0 =>
      let ref := match r with Some x => x | None => repeat 1 n end in
      let ref0 := match r0 with Some x => x | None => repeat 0 n end in
      map (fun ab => 1 / (fst ab - snd ab)) (combine ref ref0)
  end.

(* per-entry factor applied to a jacobian row (response) / divided out of a column (desvar) *)
Definition voi_factors (driver_scaling : bool) (v : voi) : vec :=
  map (fun s => v_unit v * (if driver_scaling then s else 1)) (voi_tscaler v).
Definition all_factors (ds : bool) (vs : list voi) : vec := flat_map (voi_factors ds) vs.

(* ------------------------------------------------------------------ total derivatives *)

Definition sols_fwd (N M : mat) (n : nat) (dpos : list nat) : option (list vec) :=
  map_opt (fun p => solve_with N M (unit_at n p (-1))) dpos.
Definition sols_rev (N M : mat) (n : nat) (rpos : list nat) : option (list vec) :=
  map_opt (fun q => solve_with (transpose n N) (transpose n M) (unit_at n q (-1))) rpos.

Definition jac_fwd (N M : mat) (n : nat) (dpos rpos : list nat) : option mat :=
  match sols_fwd N M n dpos with
  | Some xs => Some (map (fun q => map (fun x => nth q x 0) xs) rpos)
  | None => None
  end.
Definition jac_rev (N M : mat) (n : nat) (dpos rpos : list nat) : option mat :=
  match sols_rev N M n rpos with
  | Some ys => Some (map (fun y => map (fun p => nth p y 0) dpos) ys)
  | None => None
  end.

Definition scale_row (cf : vec) (rf : Q) (row : vec) : vec :=
  map (fun jc => Qred (fst jc * rf / snd jc)) (combine row cf).
Definition scale_J (rf cf : vec) (J : mat) : mat :=
  map (fun rr => scale_row cf (snd rr) (fst rr)) (combine J rf).

(* the assembled system must be square of the model's size (checked, not assumed) *)
Definition totals (rev ds : bool) (s : spec) (dvs rs : list voi) : option mat :=
  let offs := offsets s in
  let n := total_size s in
  let M := sys_mat s in
  let dpos := all_pos offs dvs in
  let rpos := all_pos offs rs in
  if wf_matb n M then
    match inverse M with
    | Some N =>
        match (if rev then jac_rev N M n dpos rpos else jac_fwd N M n dpos rpos) with
        | Some J => Some (scale_J (all_factors ds rs) (all_factors ds dvs) J)
        | None => None
        end
    | None => None
    end
  else None.

(* return formats: 'dict' / 'flat_dict' are views J[jac_slice(of), jac_slice(wrt)] of the array *)
Fixpoint slices_from (o : nat) (szs : list nat) : list (nat * nat) :=
  match szs with
  | [] => []
  | z :: r => (o, z) :: slices_from (o + z) r
  end.
Definition sub_block (J : mat) (rs cs : nat * nat) : mat :=
  map (fun row => firstn (snd cs) (skipn (fst cs) row)) (firstn (snd rs) (skipn (fst rs) J)).
Definition dict_J (J : mat) (rsz csz : list nat) : list (list mat) :=
  map (fun rs => map (fun cs => sub_block J rs cs) (slices_from 0 csz)) (slices_from 0 rsz).

(* ------------------------------------------------------------------ rendering *)

Definition v_mat (m : mat) : val := VL (map vqs m).
Definition v_omat (o : option mat) : val := match o with Some m => v_mat m | None => VN end.
Definition v_ovec (o : option vec) : val := match o with Some v => vqs v | None => VN end.

(* what the correspondence compares: totals in both modes, without and with driver scaling
   (the solves are shared between the two scalings; [run_totals_spec] states what is computed) *)
Definition run_totals (s : spec) (dvs rs : list voi) : val :=
  let offs := offsets s in
  let n := total_size s in
  let M := sys_mat s in
  let dpos := all_pos offs dvs in
  let rpos := all_pos offs rs in
  if wf_matb n M then
    match inverse M with
    | Some N =>
        let jf := jac_fwd N M n dpos rpos in
        let jr := jac_rev N M n dpos rpos in
        let sc (ds : bool) (j : option mat) :=
          match j with Some J => Some (scale_J (all_factors ds rs) (all_factors ds dvs) J) | None => None end in
        VL [v_omat (sc false jf); v_omat (sc false jr); v_omat (sc true jf); v_omat (sc true jr);
            v_ovec (solve_with N M (sys_rhs s))]
    | None => VN
    end
  else VN.

(* [run_totals] is [totals] in the four (mode, scaling) combinations plus the converged state *)
Definition run_totals_spec (s : spec) (dvs rs : list voi) : val :=
  match (if wf_matb (total_size s) (sys_mat s) then inverse (sys_mat s) else None) with
  | Some N =>
      VL [v_omat (totals false false s dvs rs); v_omat (totals true false s dvs rs);
          v_omat (totals false true s dvs rs); v_omat (totals true true s dvs rs);
          v_ovec (solve_with N (sys_mat s) (sys_rhs s))]
  | None => VN
  end.

Definition run_state (s : spec) : val := v_ovec (state s).
