(* C01 — property theorems (statements only; proofs by [exact] of lemmas in Proofs.v). *)
From Coq Require Import ZArith QArith List.
From OMV Require Import Base.Val C01.Model C01.Proofs.
Import ListNotations.
Open Scope Q_scope.

(* Adjoint identity, for every matrix of every size: if x solves M x = b and y solves M^T y = c then
   c.x = y.b.  This is what makes forward and reverse mode compute the same numbers. *)
Theorem C01_adjoint_identity :
  forall (M : mat) (n : nat) (x b y c : vec),
    wf_mat n M -> length x = n ->
    vec_eq (mat_vec M x) b -> vec_eq (mat_vec (transpose n M) y) c ->
    dot c x == dot y b.
Proof. exact adjoint_identity. Qed.
Print Assumptions C01_adjoint_identity.

(* Forward-mode and reverse-mode total jacobians (seed -1 per design / response entry, certified solves with
   arbitrary candidate inverses, scatter through the position maps) are the same matrix, for every system
   matrix and all position lists. *)
Theorem C01_jac_fwd_eq_jac_rev :
  forall (N N' M : mat) (n : nat) (dpos rpos : list nat) (Jf Jr : mat),
    wf_mat n M -> length M = n ->
    jac_fwd N M n dpos rpos = Some Jf ->
    jac_rev N' M n dpos rpos = Some Jr ->
    mat_eq Jf Jr.
Proof. exact jac_fwd_eq_jac_rev. Qed.
Print Assumptions C01_jac_fwd_eq_jac_rev.

(* The same for every model spec (any hierarchy flattening, src_indices, unit factors, implicit blocks) and
   all design variables / responses with indices, units and driver scaling. *)
Theorem C01_totals_fwd_eq_rev :
  forall (s : spec) (dvs rs : list voi) (ds : bool) (Jf Jr : mat),
    totals false ds s dvs rs = Some Jf -> totals true ds s dvs rs = Some Jr -> mat_eq Jf Jr.
Proof. exact totals_fwd_eq_rev. Qed.
Print Assumptions C01_totals_fwd_eq_rev.

(* J is the derivative of the converged model: for an affine model with a certified left inverse of its
   system matrix, the exact difference quotient (any step h <> 0 in design entry p) of every entry of the
   converged state equals the forward solution for the seed of p. *)
Theorem C01_J_is_difference_quotient :
  forall (L M : mat) (n p : nat) (u u' x r : vec) (h : Q),
    wf_mat n M -> length M = n -> left_inverse_cert L M n ->
    length u = n -> length u' = n -> length x = n -> length r = n ->
    vec_eq (mat_vec M u) r ->
    vec_eq (mat_vec M u') (vadd r (vscale h (unit_at n p (-1)))) ->
    vec_eq (mat_vec M x) (unit_at n p (-1)) ->
    ~ h == 0 ->
    forall q, (nth q u' 0 - nth q u 0) / h == nth q x 0.
Proof. exact J_is_difference_quotient. Qed.
Print Assumptions C01_J_is_difference_quotient.

(* Unit / driver scaling of J: entry (i,j) is multiplied by rf_i / cf_j ... *)
Theorem C01_scale_J_entry :
  forall rf cf J i j,
    (i < length J)%nat -> (i < length rf)%nat -> (j < length (nth i J []))%nat -> (j < length cf)%nat ->
    nth j (nth i (scale_J rf cf J) []) 0 == nth j (nth i J []) 0 * nth i rf 0 / nth j cf 0.
Proof. exact scale_J_entry. Qed.
Print Assumptions C01_scale_J_entry.

(* ... which is exactly the difference quotient in the scaled coordinates (f + ar) * sr, (d + ad) * sd. *)
Theorem C01_scaled_quotient :
  forall f0 f1 d0 d1 sr ar sd ad : Q,
    ~ sd == 0 -> ~ d1 - d0 == 0 ->
    ((f1 + ar) * sr - (f0 + ar) * sr) / ((d1 + ad) * sd - (d0 + ad) * sd)
    == ((f1 - f0) / (d1 - d0)) * sr / sd.
Proof. exact scaled_quotient. Qed.
Print Assumptions C01_scaled_quotient.

(* Return formats: a 'dict' / 'flat_dict' block holds exactly the array entries of its row and column range. *)
Theorem C01_return_format_block :
  forall (J : mat) (rs cs : nat * nat) i j,
    (i < snd rs)%nat -> (j < snd cs)%nat ->
    nth j (nth i (sub_block J rs cs) []) 0 = nth (fst cs + j) (nth (fst rs + i) J []) 0.
Proof. exact sub_block_entry. Qed.
Print Assumptions C01_return_format_block.

(* The function evaluated by the correspondence is the specified one. *)
Theorem C01_run_totals_is_totals :
  forall s dvs rs, run_totals s dvs rs = run_totals_spec s dvs rs.
Proof. exact run_totals_unfold. Qed.
Print Assumptions C01_run_totals_is_totals.
