(* C01 — proofs about the linear-algebra layer of the model (all sizes, all matrices). *)
From Coq Require Import ZArith QArith List Bool Lia Setoid Morphisms.
From OMV Require Import Base.Val C01.Model.
Import ListNotations.
Open Scope Q_scope.

(* ------------------------------------------------------------------ basic facts *)

Lemma dot_nil_r : forall a, dot a [] = 0.
Proof. destruct a; reflexivity. Qed.

Lemma vec_eq_refl : forall a, vec_eq a a.
Proof. induction a; constructor; auto. reflexivity. Qed.

Lemma vec_eq_sym : forall a b, vec_eq a b -> vec_eq b a.
Proof. induction 1; constructor; auto. symmetry; auto. Qed.

Lemma vec_eq_trans : forall a b c, vec_eq a b -> vec_eq b c -> vec_eq a c.
Proof.
  intros a b c H; revert c; induction H; intros c Hc; inversion Hc; subst; constructor.
  - etransitivity; eauto.
  - apply IHForall2; assumption.
Qed.

Lemma vec_eq_length : forall a b, vec_eq a b -> length a = length b.
Proof. induction 1; simpl; auto. Qed.

Lemma dot_compat : forall a a' b b', vec_eq a a' -> vec_eq b b' -> dot a b == dot a' b'.
Proof.
  intros a a' b b' H; revert b b'; induction H; intros b b' Hb.
  - reflexivity.
  - inversion Hb; subst; simpl. reflexivity.
    rewrite H, H1, (IHForall2 _ _ H2). reflexivity.
Qed.

Lemma dot_comm : forall a b, dot a b == dot b a.
Proof.
  induction a; destruct b; simpl; try reflexivity.
  rewrite IHa. ring.
Qed.

Lemma dot_zero_l : forall a x, Forall (fun e => e == 0) a -> dot a x == 0.
Proof.
  induction a; intros x H; destruct x; simpl; try reflexivity.
  inversion H; subst. rewrite H2, (IHa _ H3). ring.
Qed.

Lemma zeros_all_zero : forall n, Forall (fun e => e == 0) (zeros n).
Proof. induction n; simpl; constructor; auto. reflexivity. Qed.

Lemma zeros_length : forall n, length (zeros n) = n.
Proof. intros; apply repeat_length. Qed.

Lemma add_at_length : forall v i q, length (add_at i q v) = length v.
Proof. induction v; intros; destruct i; simpl; auto. Qed.

Lemma unit_at_length : forall n i s, length (unit_at n i s) = n.
Proof. intros; unfold unit_at; rewrite add_at_length; apply zeros_length. Qed.

Lemma dot_unit_at : forall n p s x, length x = n -> dot (unit_at n p s) x == s * nth p x 0.
Proof.
  unfold unit_at.
  induction n; intros p s x Hx.
  - destruct x; try discriminate. destruct p; simpl; ring.
  - destruct x as [|x0 x']; try discriminate. simpl in Hx.
    change (zeros (S n)) with (0 :: zeros n).
    destruct p; cbn [add_at dot nth].
    + rewrite Qred_correct. rewrite (dot_zero_l _ _ (zeros_all_zero n)). ring.
    + rewrite IHn by lia. ring.
Qed.

Lemma nth_zero_beyond : forall (x : vec) p, (length x <= p)%nat -> nth p x 0 = 0.
Proof. intros; apply nth_overflow; auto. Qed.

(* ------------------------------------------------------------------ the adjoint identity *)

Lemma dot_map_zero : forall (l : list nat) x, dot (map (fun _ => 0) l) x == 0.
Proof. induction l; intros; destruct x; simpl; try reflexivity. rewrite IHl. ring. Qed.

Lemma dot_map_lin : forall (l : list nat) (g f : nat -> Q) (a : Q) (x : vec),
  dot (map (fun j => g j * a + f j) l) x == a * dot (map g l) x + dot (map f l) x.
Proof.
  induction l; intros; destruct x; simpl; try ring.
  rewrite IHl. ring.
Qed.

Lemma map_nth_seq : forall (r : vec), map (fun j => nth j r 0) (seq 0 (length r)) = r.
Proof.
  induction r; simpl; auto.
  f_equal. rewrite <- seq_shift, map_map. exact IHr.
Qed.

Lemma adjoint_core : forall (M : mat) (n : nat) (y x : vec),
  wf_mat n M -> length x = n ->
  dot (mat_vec (transpose n M) y) x == dot y (mat_vec M x).
Proof.
  unfold mat_vec, transpose. intros M n y x HM Hx. rewrite map_map. revert y.
  induction M as [|r M IH]; intros y.
  - simpl. rewrite dot_nil_r. apply dot_map_zero.
  - pose proof (Forall_inv HM) as Hr. pose proof (Forall_inv_tail HM) as HM'. simpl in Hr.
    destruct y as [|y0 y'].
    + simpl.
      apply dot_map_zero.
    + simpl.
      rewrite (dot_map_lin (seq 0 n) (fun j => nth j r 0) (fun j => dot (col j M) y') y0 x). rewrite (IH HM' y').
      rewrite <- Hr at 1. rewrite map_nth_seq. reflexivity.
Qed.

Theorem adjoint_identity : forall (M : mat) (n : nat) (x b y c : vec),
  wf_mat n M -> length x = n ->
  vec_eq (mat_vec M x) b -> vec_eq (mat_vec (transpose n M) y) c ->
  dot c x == dot y b.
Proof.
  intros M n x b y c HM Hx Hb Hc.
  rewrite <- (dot_compat _ _ _ _ Hc (vec_eq_refl x)).
  rewrite (adjoint_core M n y x HM Hx).
  apply dot_compat; auto. apply vec_eq_refl.
Qed.

(* ------------------------------------------------------------------ certified solves *)

Lemma vec_eqb_sound : forall a b, vec_eqb a b = true -> vec_eq a b.
Proof.
  induction a; destruct b; simpl; intros H; try discriminate; constructor.
  - apply andb_prop in H; destruct H as [H _]. apply Qeq_bool_iff; auto.
  - apply IHa. apply andb_prop in H; tauto.
Qed.

Lemma solve_with_sound : forall N M b x,
  solve_with N M b = Some x -> vec_eq (mat_vec M x) b /\ length x = length M.
Proof.
  unfold solve_with; intros N M b x H.
  destruct (vec_eqb _ _ && _)%bool eqn:E; try discriminate.
  inversion H; subst; clear H.
  apply andb_prop in E; destruct E as [E1 E2].
  split. apply vec_eqb_sound; auto. apply Nat.eqb_eq; auto.
Qed.

Lemma solve_cert_sound : forall M b x,
  solve_cert M b = Some x -> vec_eq (mat_vec M x) b /\ length x = length M.
Proof.
  unfold solve_cert; intros M b x H. destruct (inverse M); try discriminate.
  eapply solve_with_sound; eauto.
Qed.

Lemma transpose_length : forall n M, length (transpose n M) = n.
Proof. intros; unfold transpose; rewrite map_length, seq_length; auto. Qed.

(* one entry: the forward solve for design position p read at response position q equals the reverse
   solve for q read at p — whatever candidate inverses the two solves used *)
Theorem fwd_entry_eq_rev_entry : forall (N N' M : mat) (n p q : nat) (x y : vec),
  wf_mat n M -> length M = n ->
  solve_with N M (unit_at n p (-1)) = Some x ->
  solve_with N' (transpose n M) (unit_at n q (-1)) = Some y ->
  nth q x 0 == nth p y 0.
Proof.
  intros N N' M n p q x y HM Hn Hx Hy.
  apply solve_with_sound in Hx; destruct Hx as [Hx Lx].
  apply solve_with_sound in Hy; destruct Hy as [Hy Ly].
  rewrite transpose_length in Ly.
  assert (Lx' : length x = n) by lia.
  pose proof (adjoint_identity M n x _ y _ HM Lx' Hx Hy) as A.
  rewrite (dot_unit_at n q (-1) x Lx') in A.
  rewrite dot_comm in A. rewrite (dot_unit_at n p (-1) y Ly) in A.
  assert (E : nth q x 0 == -(-1 * nth q x 0)) by ring.
  rewrite E, A. ring.
Qed.

Lemma map_opt_Forall2 : forall {A B} (f : A -> option B) l ys,
  map_opt f l = Some ys -> Forall2 (fun a y => f a = Some y) l ys.
Proof.
  induction l; simpl; intros ys H.
  - inversion H; constructor.
  - destruct (f a) eqn:E; try discriminate.
    destruct (map_opt f l) eqn:E2; try discriminate.
    inversion H; subst. constructor; auto.
Qed.

(* the whole matrices *)
Theorem jac_fwd_eq_jac_rev : forall (N N' M : mat) (n : nat) (dpos rpos : list nat) (Jf Jr : mat),
  wf_mat n M -> length M = n ->
  jac_fwd N M n dpos rpos = Some Jf ->
  jac_rev N' M n dpos rpos = Some Jr ->
  mat_eq Jf Jr.
Proof.
  unfold jac_fwd, jac_rev, sols_fwd, sols_rev. intros N N' M n dpos rpos Jf Jr HM Hn Hf Hr.
  destruct (map_opt _ dpos) as [xs|] eqn:Ex; try discriminate.
  destruct (map_opt _ rpos) as [ys|] eqn:Ey; try discriminate.
  inversion Hf; inversion Hr; subst; clear Hf Hr.
  apply map_opt_Forall2 in Ex. apply map_opt_Forall2 in Ey.
  unfold mat_eq. induction Ey as [|q y rpos' ys' Hq Hrest IH]; simpl; constructor; auto.
  clear IH Hrest. unfold vec_eq.
  induction Ex as [|p x dpos' xs' Hp Hrest IH]; simpl; constructor; auto.
  eapply fwd_entry_eq_rev_entry; eauto.
Qed.

(* ------------------------------------------------------------------ linearity *)

Lemma dot_vadd_r : forall r a b, length a = length b -> dot r (vadd a b) == dot r a + dot r b.
Proof.
  induction r as [|r0 r IHr]; intros a b H; destruct a, b; simpl in *; try discriminate; try ring.
  rewrite IHr by lia. ring.
Qed.

Lemma dot_vscale_r : forall r h a, dot r (vscale h a) == h * dot r a.
Proof.
  induction r as [|r0 r IHr]; intros h a; destruct a; simpl; try ring.
  rewrite IHr. ring.
Qed.

Lemma vadd_length : forall a b, length a = length b -> length (vadd a b) = length a.
Proof. induction a; destruct b; simpl; intros; try discriminate; auto. Qed.

Lemma vscale_length : forall h a, length (vscale h a) = length a.
Proof. intros; apply map_length. Qed.

Lemma mat_vec_length : forall M x, length (mat_vec M x) = length M.
Proof. intros; apply map_length. Qed.

Lemma nth_vadd : forall a b q, length a = length b -> nth q (vadd a b) 0 == nth q a 0 + nth q b 0.
Proof.
  induction a as [|a0 a IHa]; intros b; destruct b as [|b0 b]; simpl; intros k H; try discriminate.
  - destruct k; ring.
  - destruct k. ring. apply IHa; lia.
Qed.

Lemma nth_vscale : forall h a q, nth q (vscale h a) 0 == h * nth q a 0.
Proof.
  induction a as [|a0 a IHa]; simpl; intros k. destruct k; ring.
  destruct k. ring. apply IHa.
Qed.

Lemma nth_mat_vec : forall M x i, nth i (mat_vec M x) 0 == dot (nth i M []) x.
Proof.
  induction M; simpl; intros x i. destruct i; reflexivity.
  destruct i. reflexivity. apply IHM.
Qed.

Lemma vec_eq_nth : forall a b i, vec_eq a b -> nth i a 0 == nth i b 0.
Proof.
  intros a b i H; revert i; induction H; intros i; destruct i; simpl; auto; reflexivity.
Qed.

(* ------------------------------------------------------------------ left-inverse certificate *)

(* L is certified as a left inverse of M by n reverse-mode residual checks: row i of L solves
   M^T l = e_i *)
Definition left_inverse_cert (L M : mat) (n : nat) : Prop :=
  length L = n /\
  forall i, (i < n)%nat -> vec_eq (mat_vec (transpose n M) (nth i L [])) (unit_at n i 1).

Definition left_inverse_certb (L M : mat) (n : nat) : bool :=
  Nat.eqb (length L) n &&
  forallb (fun i => vec_eqb (mat_vec (transpose n M) (nth i L [])) (unit_at n i 1)) (seq 0 n).

Lemma left_inverse_certb_sound : forall L M n, left_inverse_certb L M n = true -> left_inverse_cert L M n.
Proof.
  unfold left_inverse_certb, left_inverse_cert; intros L M n H.
  apply andb_prop in H; destruct H as [H1 H2]. split. apply Nat.eqb_eq; auto.
  intros i Hi. rewrite forallb_forall in H2. apply vec_eqb_sound. apply H2. apply in_seq. lia.
Qed.

Lemma left_inverse_entry : forall L M n v i,
  wf_mat n M -> left_inverse_cert L M n -> length v = n -> (i < n)%nat ->
  nth i (mat_vec L (mat_vec M v)) 0 == nth i v 0.
Proof.
  intros L M n v i HM [HL HC] Hv Hi.
  rewrite nth_mat_vec.
  rewrite <- (adjoint_core M n (nth i L []) v HM Hv).
  rewrite (dot_compat _ _ _ _ (HC i Hi) (vec_eq_refl v)).
  rewrite (dot_unit_at n i 1 v Hv). ring.
Qed.

Lemma mat_vec_zero : forall L z i, Forall (fun e => e == 0) z -> nth i (mat_vec L z) 0 == 0.
Proof.
  intros. rewrite nth_mat_vec. rewrite dot_comm. apply dot_zero_l; auto.
Qed.

Lemma mat_vec_compat_nth : forall L a b i, vec_eq a b -> nth i (mat_vec L a) 0 == nth i (mat_vec L b) 0.
Proof.
  intros. rewrite !nth_mat_vec. apply dot_compat; auto. apply vec_eq_refl.
Qed.

(* uniqueness: with a certified left inverse, M w == 0 forces w == 0 *)
Lemma kernel_trivial : forall L M n w,
  wf_mat n M -> left_inverse_cert L M n -> length w = n ->
  Forall (fun e => e == 0) (mat_vec M w) -> forall i, nth i w 0 == 0.
Proof.
  intros L M n w HM HC Hw Hz i.
  destruct (Nat.lt_ge_cases i n) as [Hi|Hi].
  - rewrite <- (left_inverse_entry L M n w i HM HC Hw Hi).
    apply mat_vec_zero; auto.
  - rewrite nth_overflow by lia. reflexivity.
Qed.

Lemma Forall_zero_of_nth : forall (a : vec), (forall i, nth i a 0 == 0) -> Forall (fun e => e == 0) a.
Proof.
  induction a; intros H; constructor.
  - apply (H 0%nat).
  - apply IHa. intros i. apply (H (S i)).
Qed.

(* J is THE derivative of the converged state of an affine model: for every step h <> 0 in design entry p
   (right-hand side changes by h * seed_p, the IndepVarComp row being -u_p = -d_p), the exact difference
   quotient of every entry of the converged state equals the forward solution x of M x = seed_p. *)
Theorem J_is_difference_quotient : forall (L M : mat) (n p : nat) (u u' x r : vec) (h : Q),
  wf_mat n M -> length M = n -> left_inverse_cert L M n ->
  length u = n -> length u' = n -> length x = n -> length r = n ->
  vec_eq (mat_vec M u) r ->
  vec_eq (mat_vec M u') (vadd r (vscale h (unit_at n p (-1)))) ->
  vec_eq (mat_vec M x) (unit_at n p (-1)) ->
  ~ h == 0 ->
  forall q, (nth q u' 0 - nth q u 0) / h == nth q x 0.
Proof.
  intros L M n p u u' x r h HM Hn HC Lu Lu' Lx Lr Hu Hu' Hx Hh q.
  set (w := vadd u' (vscale (-1) (vadd u (vscale h x)))).
  assert (Lw1 : length (vadd u (vscale h x)) = n) by (rewrite vadd_length; rewrite ?vscale_length; lia).
  assert (Lw : length w = n) by (unfold w; rewrite vadd_length; rewrite ?vscale_length; lia).
  assert (Z : forall i, nth i (mat_vec M w) 0 == 0).
  { intros i. rewrite nth_mat_vec. unfold w.
    rewrite dot_vadd_r by (rewrite vscale_length; lia).
    rewrite dot_vscale_r. rewrite dot_vadd_r by (rewrite vscale_length; lia).
    rewrite dot_vscale_r. rewrite <- !nth_mat_vec.
    rewrite (vec_eq_nth _ _ i Hu), (vec_eq_nth _ _ i Hu'), (vec_eq_nth _ _ i Hx).
    rewrite nth_vadd by (rewrite vscale_length, unit_at_length; lia).
    rewrite nth_vscale. ring. }
  pose proof (kernel_trivial L M n w HM HC Lw (Forall_zero_of_nth _ Z) q) as W.
  unfold w in W.
  rewrite nth_vadd in W by (rewrite vscale_length; lia).
  rewrite nth_vscale in W. rewrite nth_vadd in W by (rewrite vscale_length; lia).
  rewrite nth_vscale in W.
  assert (E : nth q u' 0 - nth q u 0
              == (nth q u' 0 + -1 * (nth q u 0 + h * nth q x 0)) + h * nth q x 0) by ring.
  rewrite W in E. rewrite E. field. auto.
Qed.

(* ------------------------------------------------------------------ driver / unit scaling of J *)

(* scale_J multiplies entry (i,j) by rf_i / cf_j; this is the difference quotient in scaled coordinates
   T_r(f) = (f + ar) * sr, T_d(d) = (d + ad) * sd of any function whose unscaled quotient is J *)
Theorem scaled_quotient : forall f0 f1 d0 d1 sr ar sd ad : Q,
  ~ sd == 0 -> ~ d1 - d0 == 0 ->
  ((f1 + ar) * sr - (f0 + ar) * sr) / ((d1 + ad) * sd - (d0 + ad) * sd)
  == ((f1 - f0) / (d1 - d0)) * sr / sd.
Proof.
  intros f0 f1 d0 d1 sr ar sd ad Hs Hd. field. repeat split; auto.
  intros E. apply Hd.
  assert (E2 : (d1 - d0) * sd == 0) by (rewrite <- E; ring).
  apply Qmult_integral in E2. destruct E2; auto. contradiction.
Qed.

Lemma scale_row_nth : forall cf rf row j,
  (j < length row)%nat -> (j < length cf)%nat ->
  nth j (scale_row cf rf row) 0 == nth j row 0 * rf / nth j cf 0.
Proof.
  unfold scale_row. intros cf rf row; revert cf.
  induction row as [|a row IH]; intros cf j H1 H2; cbn [length] in *. lia.
  destruct cf as [|c cf]; cbn [length] in *. lia.
  destruct j; cbn [combine map nth fst snd]. apply Qred_correct.
  apply IH; lia.
Qed.

Theorem scale_J_entry : forall rf cf J i j,
  (i < length J)%nat -> (i < length rf)%nat -> (j < length (nth i J []))%nat -> (j < length cf)%nat ->
  nth j (nth i (scale_J rf cf J) []) 0 == nth j (nth i J []) 0 * nth i rf 0 / nth j cf 0.
Proof.
  unfold scale_J. intros rf cf J; revert rf.
  induction J as [|r J IH]; intros rf i j H1 H2 H3 H4; cbn [length] in *. lia.
  destruct rf as [|f rf]; cbn [length] in *. lia.
  destruct i; cbn [combine map nth fst snd] in *. apply scale_row_nth; auto.
  apply IH; lia.
Qed.

(* ------------------------------------------------------------------ return formats *)

(* 'dict' and 'flat_dict' are views: block (a,b) of dict_J holds exactly the entries of the array J in the
   row range of response a and the column range of design variable b *)
Lemma nth_firstn_skipn : forall {A} (l : list A) (d : A) o z k,
  (k < z)%nat -> nth k (firstn z (skipn o l)) d = nth (o + k) l d.
Proof.
  intros A l d o; revert l. induction o; intros l z k H; simpl.
  - revert z k H. induction l; intros z k H; destruct z; try lia; simpl.
    + destruct k; reflexivity.
    + destruct k; auto. apply IHl; lia.
  - destruct l; simpl.
    + rewrite firstn_nil. destruct k; reflexivity.
    + apply IHo; auto.
Qed.

Lemma nth_map_default : forall {A B} (f : A -> B) (l : list A) i d d',
  (i < length l)%nat -> nth i (map f l) d' = f (nth i l d).
Proof.
  intros A B f l; induction l; intros i d d' H; simpl in *. lia.
  destruct i; auto. apply IHl; lia.
Qed.

Theorem sub_block_entry : forall (J : mat) (rs cs : nat * nat) i j,
  (i < snd rs)%nat -> (j < snd cs)%nat ->
  nth j (nth i (sub_block J rs cs) []) 0 = nth (fst cs + j) (nth (fst rs + i) J []) 0.
Proof.
  intros J rs cs i j Hi Hj. unfold sub_block. unfold mat, vec in *.
  destruct (Nat.lt_ge_cases (fst rs + i) (length J)) as [Hl|Hl].
  - assert (Hlen : (i < length (firstn (snd rs) (skipn (fst rs) J)))%nat).
    { rewrite firstn_length, skipn_length. lia. }
    rewrite (nth_map_default (fun row : list Q => firstn (snd cs) (skipn (fst cs) row))
               (firstn (snd rs) (skipn (fst rs) J)) i [] [] Hlen).
    rewrite nth_firstn_skipn by auto.
    rewrite nth_firstn_skipn by auto. reflexivity.
  - rewrite (nth_overflow J) by lia.
    assert (E : nth i (map (fun row : list Q => firstn (snd cs) (skipn (fst cs) row))
                         (firstn (snd rs) (skipn (fst rs) J))) [] = []).
    { apply nth_overflow. rewrite map_length, firstn_length, skipn_length. lia. }
    rewrite E. simpl. destruct (fst cs + j)%nat; destruct j; reflexivity.
Qed.

(* ------------------------------------------------------------------ spec level *)

Lemma wf_matb_sound : forall n M, wf_matb n M = true -> wf_mat n M /\ length M = n.
Proof.
  unfold wf_matb, wf_mat; intros n M H. apply andb_prop in H; destruct H as [H1 H2].
  split. apply Forall_forall. intros r Hr. rewrite forallb_forall in H1. apply Nat.eqb_eq. auto.
  apply Nat.eqb_eq; auto.
Qed.

Lemma scale_row_compat : forall cf rf a b, vec_eq a b -> vec_eq (scale_row cf rf a) (scale_row cf rf b).
Proof.
  unfold scale_row, vec_eq. intros cf rf a b H; revert cf.
  induction H; intros cf; destruct cf; cbn [combine map]; constructor; auto.
  cbn [fst snd]. rewrite !Qred_correct. rewrite H. reflexivity.
Qed.

Lemma scale_J_compat : forall rf cf A B, mat_eq A B -> mat_eq (scale_J rf cf A) (scale_J rf cf B).
Proof.
  unfold scale_J, mat_eq. intros rf cf A B H; revert rf.
  induction H; intros rf; destruct rf; cbn [combine map]; constructor; auto.
  cbn [fst snd]. apply scale_row_compat; auto.
Qed.

(* forward and reverse totals of a model spec are the same matrix, with or without driver scaling *)
Theorem totals_fwd_eq_rev : forall (s : spec) (dvs rs : list voi) (ds : bool) (Jf Jr : mat),
  totals false ds s dvs rs = Some Jf -> totals true ds s dvs rs = Some Jr -> mat_eq Jf Jr.
Proof.
  unfold totals. intros s dvs rs ds Jf Jr Hf Hr.
  destruct (wf_matb _ _) eqn:W; try discriminate.
  apply wf_matb_sound in W; destruct W as [W1 W2].
  destruct (inverse _) as [N|]; try discriminate.
  destruct (jac_fwd _ _ _ _ _) as [Jf0|] eqn:Ef; try discriminate.
  destruct (jac_rev _ _ _ _ _) as [Jr0|] eqn:Er; try discriminate.
  inversion Hf; inversion Hr; subst.
  apply scale_J_compat. eapply jac_fwd_eq_jac_rev; eauto.
Qed.

Lemma run_totals_unfold : forall s dvs rs, run_totals s dvs rs = run_totals_spec s dvs rs.
Proof.
  intros. unfold run_totals, run_totals_spec, totals.
  destruct (wf_matb _ _); auto. destruct (inverse _); auto.
Qed.

(* ------------------------------------------------------------------ non-vacuity *)

(* d (IndepVarComp) -> y = 2 d:  M = [[-1;0];[2;-1]] *)
Definition ex_spec : spec := [CIvc [[3]]; CExp [mkinp 0 [0%nat] 1] [mkeout 1 [[[2]]] [5]]].
Definition ex_dv : voi := mkvoi 0 [0%nat] None None None 1.
Definition ex_r : voi := mkvoi 1 [0%nat] (Some [4]) None None 1.

Example ex_totals_fwd : totals false false ex_spec [ex_dv] [ex_r] = Some [[2]].
Proof. vm_compute. reflexivity. Qed.
Example ex_totals_rev : totals true true ex_spec [ex_dv] [ex_r] = Some [[8]].
Proof. vm_compute. reflexivity. Qed.
Example ex_state : state ex_spec = Some [3; 11].
Proof. vm_compute. reflexivity. Qed.
Example ex_left_inverse :
  left_inverse_cert [[-1; 0]; [-2; -1]] (sys_mat ex_spec) 2.
Proof. apply left_inverse_certb_sound. vm_compute. reflexivity. Qed.
(* the premises of J_is_difference_quotient are satisfiable: step h = 1/2 in the design variable *)
Example ex_difference_quotient :
  let M := sys_mat ex_spec in
  vec_eq (mat_vec M [3; 11]) [-3; -5] /\
  vec_eq (mat_vec M [7 # 2; 12]) (vadd [-3; -5] (vscale (1 # 2) (unit_at 2 0 (-1)))) /\
  vec_eq (mat_vec M [1; 2]) (unit_at 2 0 (-1)).
Proof. repeat split; apply vec_eqb_sound; vm_compute; reflexivity. Qed.
