(* C11 — model of the assembled jacobian matrices
     openmdao/matrices/{coo,csc,csr,dense}_matrix.py, openmdao/jacobians/subjac.py (as_coo_info,
     get_as_coo_data, _apply_fwd / _apply_rev), openmdao/jacobians/jacobian.py (SplitJacobian._update_matrix).

   A sub-jacobian contributes COO triples (row, col, value): its pattern gives rows/cols (offset by the
   row/col slice, columns remapped through src_indices), its values are multiplied by the unit factor.
   The assembled matrix is built from the concatenation of the triples of all sub-jacobians in order.

   Definitions only; proofs are in Proofs.v. *)
From Coq Require Import ZArith QArith List Bool.
From OMV Require Import Base.Val.
Import ListNotations.
Open Scope Q_scope.

Definition key := (nat * nat)%type.
Definition keyb (a b : key) : bool := Nat.eqb (fst a) (fst b) && Nat.eqb (snd a) (snd b).

(* ------------------------------------------------------------------ reference semantics: sum of triples *)

Definition triple := (key * Q)%type.     (* ((row, col), value) *)

Fixpoint tsum (T : list triple) (k : key) : Q :=
  match T with
  | [] => 0
  | (k', v) :: T' => (if keyb k' k then v else 0) + tsum T' k
  end.

Definition qsum (l : list Q) : Q := fold_right Qplus 0 l.
Definition qnth (v : list Q) (i : nat) : Q := nth i v 0.

(* (J v)_r  and  (J^T w)_c  of the matrix "sum of triples" *)
Definition ref_fwd (T : list triple) (nc : nat) (v : list Q) (r : nat) : Q :=
  qsum (map (fun c => tsum T (r, c) * qnth v c) (seq 0 nc)).
Definition ref_rev (T : list triple) (nr : nat) (w : list Q) (c : nat) : Q :=
  qsum (map (fun r => tsum T (r, c) * qnth w r) (seq 0 nr)).

Definition todense (T : list triple) (nr nc : nat) : list (list Q) :=
  map (fun r => map (fun c => tsum T (r, c)) (seq 0 nc)) (seq 0 nr).

(* ------------------------------------------------------------------ products as the sparse formats compute them *)

Fixpoint add_at (data : list Q) (i : nat) (x : Q) : list Q :=
  match data, i with
  | [], _ => []
  | h :: t, O => (h + x) :: t
  | h :: t, S i' => h :: add_at t i' x
  end.

(* out[row] += value * in[col] over the stored entries (COO / CSR / CSC all do this, in their storage order) *)
Fixpoint sp_fwd (T : list triple) (v : list Q) (acc : list Q) : list Q :=
  match T with
  | [] => acc
  | ((r, c), x) :: T' => sp_fwd T' v (add_at acc r (x * qnth v c))
  end.
Fixpoint sp_rev (T : list triple) (w : list Q) (acc : list Q) : list Q :=
  match T with
  | [] => acc
  | ((r, c), x) :: T' => sp_rev T' w (add_at acc c (x * qnth w r))
  end.
Definition zeros (n : nat) : list Q := repeat 0 n.
Definition prod_fwd (T : list triple) (nr : nat) (v : list Q) := sp_fwd T v (zeros nr).
Definition prod_rev (T : list triple) (nc : nat) (w : list Q) := sp_rev T w (zeros nc).

(* Matrix._get_masked_arr: a copy with the masked positions set to zero *)
Fixpoint set0 (v : list Q) (i : nat) : list Q :=
  match v, i with
  | [], _ => []
  | _ :: t, O => 0 :: t
  | h :: t, S i' => h :: set0 t i'
  end.
Definition masked (v : list Q) (mask : list nat) : list Q := fold_left set0 mask v.

(* ------------------------------------------------------------------ sub-jacobians *)

Inductive pattern :=
| PDense (nr nc : nat)                    (* dense array, values row-major *)
| PRC (rows cols : list nat)              (* declare_partials(rows=, cols=) and scipy coo/csr/csc (in COO order) *)
| PDiag (n : nat).                        (* diagonal=True *)

Record subjac := mkSJ {
  sj_pat : pattern;
  sj_roff : nat;                          (* row_slice.start *)
  sj_coff : nat;                          (* col_slice.start *)
  sj_src : option (list nat);             (* src_indices of the connection (dr/do sub-jacobians) *)
  sj_factor : option Q                    (* unit conversion factor *)
}.

Definition remap (src : option (list nat)) (c : nat) : nat :=
  match src with Some s => nth c s O | None => c end.

(* Subjac.as_coo_info(full=True): rows and cols in the order of the data *)
Definition pat_rc (p : pattern) : list key :=
  match p with
  | PDense nr nc => flat_map (fun r => map (fun c => (r, c)) (seq 0 nc)) (seq 0 nr)
  | PRC rows cols => combine rows cols
  | PDiag n => map (fun i => (i, i)) (seq 0 n)
  end.
Definition sj_keys (s : subjac) : list key :=
  map (fun k => ((sj_roff s + fst k)%nat, (sj_coff s + remap (sj_src s) (snd k))%nat)) (pat_rc (sj_pat s)).

(* get_as_coo_data, then  *= factor *)
Definition sj_data (s : subjac) (vals : list Q) : list Q :=
  match sj_factor s with Some f => map (fun x => x * f) vals | None => vals end.

Definition sj_triples (s : subjac) (vals : list Q) : list triple := combine (sj_keys s) (sj_data s vals).

(* all sub-jacobians of one matrix with their present values *)
Definition all_keys (sjs : list subjac) : list key := flat_map sj_keys sjs.
Fixpoint all_triples (sjs : list subjac) (vals : list (list Q)) : list triple :=
  match sjs, vals with
  | s :: sjs', v :: vals' => sj_triples s v ++ all_triples sjs' vals'
  | _, _ => []
  end.

(* ------------------------------------------------------------------ CSC / CSR: the COO -> compressed index map *)

(* np.lexsort((minor, major)) is a stable sort by (major, minor); with the original position as the last
   component it is the sort by (major, minor, position).  CSC: major = col, minor = row; CSR: major = row. *)
Definition skey := (nat * nat * nat)%type.
Definition skey_of (csc : bool) (k : key) (i : nat) : skey :=
  if csc then (snd k, fst k, i) else (fst k, snd k, i).
Definition sk_leb (a b : skey) : bool :=
  let a1 := fst (fst a) in let a2 := snd (fst a) in
  let b1 := fst (fst b) in let b2 := snd (fst b) in
  if Nat.ltb a1 b1 then true else if Nat.ltb b1 a1 then false
  else if Nat.ltb a2 b2 then true else if Nat.ltb b2 a2 then false
  else Nat.leb (snd a) (snd b).

Fixpoint insert (x : skey) (l : list skey) : list skey :=
  match l with
  | [] => [x]
  | h :: t => if sk_leb x h then x :: l else h :: insert x t
  end.
Fixpoint isort (l : list skey) : list skey :=
  match l with [] => [] | h :: t => insert h (isort t) end.

Fixpoint index_from (i : nat) (ks : list key) (csc : bool) : list skey :=
  match ks with [] => [] | k :: t => skey_of csc k i :: index_from (S i) t csc end.

Definition same_mm (a b : skey) : bool := Nat.eqb (fst (fst a)) (fst (fst b)) && Nat.eqb (snd (fst a)) (snd (fst b)).

(* is_new / cumsum - 1 along the sorted order: (compressed index of each sorted entry, list of the new entries) *)
Fixpoint compress (prev : skey) (cur : nat) (l : list skey) : list nat * list skey :=
  match l with
  | [] => ([], [])
  | h :: t =>
      if same_mm prev h
      then let r := compress h cur t in (cur :: fst r, snd r)
      else let r := compress h (S cur) t in (S cur :: fst r, h :: snd r)
  end.
Definition compress0 (l : list skey) : list nat * list skey :=
  match l with
  | [] => ([], [])
  | h :: t => let r := compress h O t in (O :: fst r, h :: snd r)
  end.

Fixpoint set_nat (l : list nat) (i x : nat) : list nat :=
  match l, i with
  | [], _ => []
  | _ :: t, O => x :: t
  | h :: t, S i' => h :: set_nat t i' x
  end.
(* map[sort_order] = idx *)
Fixpoint scatter_nat (m : list nat) (order idx : list nat) : list nat :=
  match order, idx with
  | o :: order', x :: idx' => scatter_nat (set_nat m o x) order' idx'
  | _, _ => m
  end.

Definition unkey (csc : bool) (s : skey) : key :=
  if csc then (snd (fst s), fst (fst s)) else (fst (fst s), snd (fst s)).

Record cmat := mkCM { cm_map : list nat; cm_ukeys : list key }.

(* CSCMatrix._build / CSRMatrix._build *)
Definition build_map (csc : bool) (ks : list key) : cmat :=
  let sorted := isort (index_from 0 ks csc) in
  let c := compress0 sorted in
  mkCM (scatter_nat (repeat O (length ks)) (map snd sorted) (fst c)) (map (unkey csc) (snd c)).

(* np.add.at(data, idx, vals)  (unbuffered)  and  data[idx] += vals  (buffered: gather, add, scatter) *)
Fixpoint add_at_list (data : list Q) (idx : list nat) (vals : list Q) : list Q :=
  match idx, vals with
  | i :: idx', x :: vals' => add_at_list (add_at data i x) idx' vals'
  | _, _ => data
  end.
Fixpoint set_q (l : list Q) (i : nat) (x : Q) : list Q :=
  match l, i with
  | [], _ => []
  | _ :: t, O => x :: t
  | h :: t, S i' => h :: set_q t i' x
  end.
Fixpoint scatter_q (l : list Q) (idx : list nat) (vals : list Q) : list Q :=
  match idx, vals with
  | i :: idx', x :: vals' => scatter_q (set_q l i x) idx' vals'
  | _, _ => l
  end.
Fixpoint map2q (f : Q -> Q -> Q) (a b : list Q) : list Q :=
  match a, b with x :: a', y :: b' => f x y :: map2q f a' b' | _, _ => [] end.
Definition buffered_add (data : list Q) (idx : list nat) (vals : list Q) : list Q :=
  scatter_q data idx (map2q Qplus (map (qnth data) idx) vals).

Fixpoint has_dup (l : list nat) : bool :=
  match l with [] => false | h :: t => existsb (Nat.eqb h) t || has_dup t end.

Definition slice {A} (off len : nat) (l : list A) : list A := firstn len (skipn off l).

(* _update_from_submat over all sub-jacobians in order, starting from the zeroed data of _pre_update *)
Fixpoint cm_update_from (m : list nat) (off : nat) (sjs : list subjac) (vals : list (list Q)) (data : list Q) : list Q :=
  match sjs, vals with
  | s :: sjs', v :: vals' =>
      let n := length (sj_keys s) in
      let idx := slice off n m in
      let d := sj_data s v in
      let data' := if has_dup idx then add_at_list data idx d else buffered_add data idx d in
      cm_update_from m (off + n) sjs' vals' data'
  | _, _ => data
  end.
Definition cm_update (cm : cmat) (sjs : list subjac) (vals : list (list Q)) (old : list Q) : list Q :=
  cm_update_from (cm_map cm) 0 sjs vals (map (fun _ => 0) old).     (* _pre_update: data[:] = 0 *)

(* the compressed matrix as stored entries *)
Definition cm_triples (cm : cmat) (data : list Q) : list triple := combine (cm_ukeys cm) data.

(* ------------------------------------------------------------------ DenseMatrix *)

Fixpoint has_dup_key (l : list key) : bool :=
  match l with [] => false | h :: t => existsb (keyb h) t || has_dup_key t end.

Definition dmat := list (list Q).
Definition dget (M : dmat) (k : key) : Q := qnth (nth (fst k) M []) (snd k).
Fixpoint set_row (M : dmat) (r : nat) (f : list Q -> list Q) : dmat :=
  match M, r with
  | [], _ => []
  | h :: t, O => f h :: t
  | h :: t, S r' => h :: set_row t r' f
  end.
Definition dset (M : dmat) (k : key) (x : Q) : dmat := set_row M (fst k) (fun row => set_q row (snd k) x).
Definition dzeros (nr nc : nat) : dmat := repeat (zeros nc) nr.

(* self._matrix[rows, cols] = data  (no repeated indices) *)
Fixpoint dassign (M : dmat) (T : list triple) : dmat :=
  match T with [] => M | (k, x) :: T' => dassign (dset M k x) T' end.

(* repaired _update_from_submat of the dense (no repeated index) representation: every sub-jacobian writes
   value * factor at exactly its own positions *)
Fixpoint dense_update (sjs : list subjac) (vals : list (list Q)) (M : dmat) : dmat :=
  match sjs, vals with
  | s :: sjs', v :: vals' => dense_update sjs' vals' (dassign M (sj_triples s v))
  | _, _ => M
  end.

(* the code as it stands: for a DENSE sub-jacobian the values are written unscaled and then the WHOLE
   (row_slice, col_slice) view is multiplied by the factor:  view[:, src_indices] = val;  view *= factor *)
Definition scale_view (M : dmat) (r0 nr c0 ncp : nat) (f : Q) : dmat :=
  fold_left (fun M r => set_row M r (fun row =>
      firstn c0 row ++ map (fun x => x * f) (slice c0 ncp row) ++ skipn (c0 + ncp) row)) (seq r0 nr) M.
Definition present_update1 (s : subjac) (pcols : nat) (v : list Q) (M : dmat) : dmat :=
  match sj_pat s, sj_factor s with
  | PDense nr nc, Some f => scale_view (dassign M (combine (sj_keys s) v)) (sj_roff s) nr (sj_coff s) pcols f
  | _, _ => dassign M (sj_triples s v)
  end.
Fixpoint present_update (sjs : list (subjac * nat)) (vals : list (list Q)) (M : dmat) : dmat :=
  match sjs, vals with
  | (s, pc) :: sjs', v :: vals' => present_update sjs' vals' (present_update1 s pc v M)
  | _, _ => M
  end.

(* DenseMatrix after _post_update: COO-backed (toarray sums repeated entries) when indices repeat,
   otherwise the array assigned in place; [M] is the array left by the previous update *)
Definition dense_matrix (sjs : list subjac) (vals : list (list Q)) (nr nc : nat) (M : dmat) : dmat :=
  if has_dup_key (all_keys sjs) then todense (all_triples sjs vals) nr nc
  else dense_update sjs vals M.

(* ------------------------------------------------------------------ matrix-free application (DictionaryJacobian) *)

(* apply_fwd of one sub-jacobian on the vector it is declared against (the input itself, i.e. WITHOUT
   src_indices / factor): res[row_slice] += val @ in[col_slice]  (dense),  bincount (rows/cols),  elementwise (diag) *)
Definition raw_triples (s : subjac) (vals : list Q) : list triple :=
  combine (map (fun k => ((sj_roff s + fst k)%nat, (sj_coff s + snd k)%nat)) (pat_rc (sj_pat s))) vals.
Fixpoint dict_fwd (sjs : list subjac) (vals : list (list Q)) (v acc : list Q) : list Q :=
  match sjs, vals with
  | s :: sjs', x :: vals' => dict_fwd sjs' vals' v (sp_fwd (raw_triples s x) v acc)
  | _, _ => acc
  end.
Fixpoint dict_rev (sjs : list subjac) (vals : list (list Q)) (w acc : list Q) : list Q :=
  match sjs, vals with
  | s :: sjs', x :: vals' => dict_rev sjs' vals' w (sp_rev (raw_triples s x) w acc)
  | _, _ => acc
  end.

(* ------------------------------------------------------------------ observations for the correspondence *)

Definition vmat (M : list (list Q)) : val := VL (map vqs M).
Definition vnats (l : list nat) : val := VL (map (fun n => VZ (Z.of_nat n)) l).

Definition nl (l : list Z) : list nat := map Z.to_nat l.
Definition kl (l : list (Z * Z)) : list key := map (fun p => (Z.to_nat (fst p), Z.to_nat (snd p))) l.
Definition qd (d : positive) (l : list Z) : list Q := map (fun z => z # d) l.
Definition vqd (d : positive) (l : list Z) : val := VL (map (fun z => VQ (z # d)) l).
Definition zSJ (p : pattern) (ro co : Z) (src : option (list Z)) (f : option Q) : subjac :=
  mkSJ p (Z.to_nat ro) (Z.to_nat co) (match src with Some s => Some (nl s) | None => None end) f.

(* everything observed of one compressed (CSC or CSR) matrix after an update with [vals] *)
Definition obs_compressed (csc : bool) (sjs : list subjac) (vals : list (list Q)) (nr nc : nat)
           (old : list Q) (v w : list Q) (mask : list nat) : val :=
  let cm := build_map csc (all_keys sjs) in
  let data := cm_update cm sjs vals old in
  let T := cm_triples cm data in
  VL [vnats (cm_map cm); vmat (todense T nr nc); vqs (prod_fwd T nr v); vqs (prod_rev T nc w);
      vqs (prod_fwd T nr (masked v mask))].

Definition obs_dense (sjs : list subjac) (vals : list (list Q)) (nr nc : nat) (M : dmat) : val :=
  VL [VB (has_dup_key (all_keys sjs)); vmat (dense_matrix sjs vals nr nc M)].

(* one matrix followed through a sequence of updates (real and imaginary parts of the values are assembled
   separately: assembly is additive and the unit factor is real).  [full]: the dr/do matrix, observed in all
   three formats; otherwise dr/di, which SplitJacobian always stores as CSR. *)
Fixpoint obs_updates (full : bool) (sjs : list subjac) (cs : list bool) (ure uim : list (list (list Q)))
         (nr nc : nat) (v w : list Q) (mask : list nat) (Mre Mim : dmat) : list val :=
  match cs, ure, uim with
  | c :: cs', vre :: ure', vim :: uim' =>
      let comp (csc : bool) :=
        let cm := build_map csc (all_keys sjs) in
        let old := repeat 0 (length (cm_ukeys cm)) in
        let T := cm_triples cm (cm_update cm sjs vre old) in
        VL [vnats (cm_map cm); vmat (todense T nr nc);
            if c then vmat (todense (cm_triples cm (cm_update cm sjs vim old)) nr nc) else VL [];
            if c then VN else VL [vqs (prod_fwd T nr v); vqs (prod_rev T nc w); vqs (prod_fwd T nr (masked v mask))]] in
      let Mre' := dense_matrix sjs vre nr nc Mre in
      let Mim' := dense_matrix sjs vim nr nc Mim in
      VL ((if full then [comp true] else []) ++ [comp false] ++
          (if full then [VL [VB (has_dup_key (all_keys sjs)); vmat Mre'; if c then vmat Mim' else VL []]] else []))
      :: obs_updates full sjs cs' ure' uim' nr nc v w mask Mre' Mim'
  | _, _, _ => []
  end.
Definition obs_matrix (full : bool) (sjs : list subjac) (cs : list bool) (ure uim : list (list (list Q)))
           (nr nc : nat) (v w : list Q) (mask : list nat) : val :=
  VL (obs_updates full sjs cs ure uim nr nc v w mask (dzeros nr nc) (dzeros nr nc)).

(* SplitJacobian._apply through run_apply_linear: fwd  r += dr/do v_out + dr/di v_in ;
   rev  d_out += dr/do^T w,  d_in += dr/di^T w *)
Definition obs_apply (sdo sdi : list subjac) (vdo vdi : list (list Q)) (nout nin : nat)
           (v_out v_in w r0 dout0 din0 : list Q) : val :=
  let Tdo := all_triples sdo vdo in
  let Tdi := all_triples sdi vdi in
  VL [vqs (sp_fwd Tdi v_in (sp_fwd Tdo v_out r0));
      vqs (sp_rev Tdo w dout0);
      vqs (sp_rev Tdi w din0)].
