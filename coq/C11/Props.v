(* C11 — property theorems (statements only; proofs by [exact] of lemmas in Proofs.v). *)
From Coq Require Import ZArith QArith List Bool.
From OMV Require Import Base.Val C11.Model C11.Proofs.
Import ListNotations.
Open Scope Q_scope.

(* The COO -> CSC / CSR index map built by lexsort / is_new / cumsum sends COO entry i to a slot of the
   compressed storage holding exactly the (row, col) of entry i: for every list of (row, col) pairs, with any
   pattern of duplicates. *)
Theorem C11_coo_to_compressed_map_correct :
  forall (csc : bool) (ks : list key) (i : nat),
    (i < length ks)%nat ->
    (nth i (cm_map (build_map csc ks)) O < length (cm_ukeys (build_map csc ks)))%nat
    /\ nth (nth i (cm_map (build_map csc ks)) O) (cm_ukeys (build_map csc ks)) k0 = nth i ks k0.
Proof. exact build_map_correct. Qed.
Print Assumptions C11_coo_to_compressed_map_correct.

(* CSC (csc = true) and CSR (csc = false): after an update the stored matrix is the sum of the triples of all
   sub-jacobians (dense, rows/cols, diagonal, scipy formats; offsets, src_indices remap, unit factor; duplicates
   within and across sub-jacobians; np.add.at and buffered += branches), at every position (row, col). *)
Theorem C11_compressed_eq_sum_of_triples :
  forall (csc : bool) (sjs : list subjac) (vals : list (list Q)) (old : list Q) (k : key),
    length old = length (cm_ukeys (build_map csc (all_keys sjs))) ->
    tsum (cm_triples (build_map csc (all_keys sjs)) (cm_update (build_map csc (all_keys sjs)) sjs vals old)) k
    == tsum (all_triples sjs vals) k.
Proof. exact compressed_eq_sum. Qed.
Print Assumptions C11_compressed_eq_sum_of_triples.

(* DenseMatrix (COO-backed when indices repeat, assigned in place otherwise — repaired in-place update): the
   array after an update is the sum of the triples, provided the array it started from is zero outside the
   pattern; that premise is preserved by every update (second conjunct), hence holds along any update sequence
   starting from the zero array of _build. *)
Theorem C11_dense_eq_sum_of_triples :
  forall (sjs : list subjac) (vals : list (list Q)) (nr nc : nat) (M : dmat) (k : key),
    Forall2 (fun s v => length v = length (sj_keys s)) sjs vals ->
    in_shape (all_triples sjs vals) nr nc -> shape_ok M nr nc ->
    (forall k', ~ In k' (all_keys sjs) -> dget M k' == 0) ->
    (fst k < nr)%nat -> (snd k < nc)%nat ->
    dget (dense_matrix sjs vals nr nc M) k == tsum (all_triples sjs vals) k
    /\ (~ In k (all_keys sjs) -> dget (dense_matrix sjs vals nr nc M) k == 0).
Proof.
  intros; split; [apply dense_matrix_eq_sum; auto | intro; apply dense_matrix_zero_outside; auto].
Qed.
Print Assumptions C11_dense_eq_sum_of_triples.

(* The in-place update of the code as it stands (view *= factor on the whole shared view) does NOT satisfy
   this: a concrete pair of dense sub-jacobians sharing a source block. *)
Theorem C11_present_dense_update_refuted :
  has_dup_key (all_keys (map fst refute_sjs)) = false /\
  dget (present_update refute_sjs refute_vals (dzeros 2 4)) (O, O) == 100 /\
  tsum (all_triples (map fst refute_sjs) refute_vals) (O, O) == 1 /\
  dget (dense_update (map fst refute_sjs) refute_vals (dzeros 2 4)) (O, O) == 1.
Proof. exact present_dense_update_refuted. Qed.
Print Assumptions C11_present_dense_update_refuted.

(* The product computed from ANY list of stored entries is the product with the matrix "sum of the entries"
   in forward mode and with its TRANSPOSE in reverse mode ... *)
Theorem C11_prod_is_matrix_product :
  forall (T : list triple) (nr nc : nat) (v w : list Q) (r c : nat),
    in_shape T nr nc ->
    qnth (prod_fwd T nr v) r == ref_fwd T nc v r /\ qnth (prod_rev T nc w) c == ref_rev T nr w c.
Proof. intros; split; [apply prod_fwd_ref; auto | apply prod_rev_ref; auto]. Qed.
Print Assumptions C11_prod_is_matrix_product.

(* ... hence two stored forms of the same matrix (COO with duplicates, CSC, CSR, dense) give the same product
   in forward mode and the same transpose product in reverse mode. *)
Theorem C11_formats_same_prod :
  forall (T1 T2 : list triple) (nr nc : nat) (v w : list Q) (r c : nat),
    in_shape T1 nr nc -> in_shape T2 nr nc -> (forall k, tsum T1 k == tsum T2 k) ->
    qnth (prod_fwd T1 nr v) r == qnth (prod_fwd T2 nr v) r
    /\ qnth (prod_rev T1 nc w) c == qnth (prod_rev T2 nc w) c.
Proof.
  intros; split; [eapply formats_same_prod_fwd; eauto | eapply formats_same_prod_rev; eauto].
Qed.
Print Assumptions C11_formats_same_prod.

(* Repeated updates: what the compressed storage held before an update is irrelevant (data is zeroed in
   _pre_update), so after any sequence of updates the matrix is that of the last values. *)
Theorem C11_update_history_free :
  forall (cm : cmat) (sjs : list subjac) (vals : list (list Q)) (old1 old2 : list Q),
    length old1 = length old2 -> cm_update cm sjs vals old1 = cm_update cm sjs vals old2.
Proof. exact compressed_update_history_free. Qed.
Print Assumptions C11_update_history_free.

(* Matrix-free dictionary application: applying the sub-jacobians one by one is the product with the COO
   matrix of all their entries, forward and reverse. *)
Theorem C11_dict_apply_eq_coo :
  forall (sjs : list subjac) (vals : list (list Q)) (v w acc : list Q),
    dict_fwd sjs vals v acc = sp_fwd (all_raw sjs vals) v acc
    /\ dict_rev sjs vals w acc = sp_rev (all_raw sjs vals) w acc.
Proof. intros; split; [apply dict_fwd_eq_coo | apply dict_rev_eq_coo]. Qed.
Print Assumptions C11_dict_apply_eq_coo.

(* The column remap through src_indices and the unit factor of a dr/do sub-jacobian give the same row sums as
   the raw sub-jacobian applied to the transferred vector  in[c] = factor * out[col_off + src_indices[c]]. *)
Theorem C11_remap_is_transfer :
  forall (s : subjac) (vals vout : list Q) (ncols r : nat),
    (forall k, In k (pat_rc (sj_pat s)) -> (snd k < ncols)%nat) ->
    rowpart (sj_triples s vals) vout r == rowpart (local_triples s vals) (xfer s vout ncols) r.
Proof. exact remap_is_transfer. Qed.
Print Assumptions C11_remap_is_transfer.
