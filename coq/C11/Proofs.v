(* C11 — proofs about the assembled-matrix model. *)
From Coq Require Import ZArith QArith List Bool Lia Arith Permutation Qring.
From OMV Require Import Base.Val C11.Model.
Import ListNotations.
Open Scope Q_scope.

(* ------------------------------------------------------------------ basics *)

Lemma keyb_eq : forall a b, keyb a b = true <-> a = b.
Proof.
  intros [a1 a2] [b1 b2]. unfold keyb. simpl. rewrite andb_true_iff, !Nat.eqb_eq.
  split; [intros [? ?]; subst; auto | intro H; inversion H; auto].
Qed.

Lemma keyb_refl : forall a, keyb a a = true.
Proof. intro; apply keyb_eq; auto. Qed.

Lemma tsum_app : forall a b k, tsum (a ++ b) k == tsum a k + tsum b k.
Proof.
  induction a as [|[k' v] a IH]; intros; simpl; [ring|]. rewrite IH. ring.
Qed.

Lemma length_add_at : forall d i x, length (add_at d i x) = length d.
Proof. induction d; destruct i; simpl; auto. Qed.

Lemma qnth_add_at_eq : forall d i x, (i < length d)%nat -> qnth (add_at d i x) i == qnth d i + x.
Proof.
  unfold qnth. induction d; destruct i; simpl; intros; try lia; [ring|]. apply IHd; lia.
Qed.

Lemma qnth_add_at_neq : forall d i j x, i <> j -> qnth (add_at d i x) j = qnth d j.
Proof.
  unfold qnth. induction d; destruct i; destruct j; simpl; intros; auto; try lia.
Qed.

(* ------------------------------------------------------------------ accumulation into compressed storage *)

Definition k0 : key := (O, O).

(* adding x at slot p adds x to the entry of the key stored at p *)
Lemma tsum_combine_add_at : forall uk data p x k,
    length uk = length data -> (p < length data)%nat ->
    tsum (combine uk (add_at data p x)) k
    == tsum (combine uk data) k + (if keyb (nth p uk k0) k then x else 0).
Proof.
  induction uk as [|u uk IH]; intros data p x k L P; destruct data as [|d data]; simpl in *; try lia.
  destruct p; simpl.
  - destruct (keyb u k); ring.
  - rewrite IH by lia. ring.
Qed.

(* slot i of the index list holds key_i : the relation established by the COO -> CSC/CSR map *)
Definition slots_ok (uk : list key) (idx : list nat) (keys : list key) : Prop :=
  Forall2 (fun i key => (i < length uk)%nat /\ nth i uk k0 = key) idx keys.

Lemma add_at_list_length : forall idx vals data, length (add_at_list data idx vals) = length data.
Proof.
  induction idx; intros; simpl; auto. destruct vals; auto. rewrite IHidx. apply length_add_at.
Qed.

(* np.add.at over an index list: the dense view gains exactly the triples (key_i, val_i) *)
Lemma add_at_list_sum : forall idx keys vals uk data k,
    length uk = length data -> slots_ok uk idx keys ->
    tsum (combine uk (add_at_list data idx vals)) k
    == tsum (combine uk data) k + tsum (combine keys vals) k.
Proof.
  induction idx as [|i idx IH]; intros keys vals uk data k L S.
  - inversion S; subst. simpl. ring.
  - inversion S as [|i' key idx' keys' HK HS]; subst. simpl.
    destruct vals as [|v vals]; simpl; [ring|].
    destruct HK as [B E].
    rewrite (IH keys' vals uk (add_at data i v) k) by (rewrite ?length_add_at; auto).
    rewrite tsum_combine_add_at by (auto; lia). rewrite E. ring.
Qed.

(* the buffered form  data[idx] += vals  coincides with np.add.at when the indices do not repeat *)
Lemma set_q_add_at : forall d i x, set_q d i (qnth d i + x) = add_at d i x.
Proof. unfold qnth. induction d; destruct i; simpl; intros; auto. f_equal. apply IHd. Qed.

Lemma has_dup_cons_false : forall h t, has_dup (h :: t) = false -> ~ In h t /\ has_dup t = false.
Proof.
  intros h t H. simpl in H. apply orb_false_iff in H. destruct H as [H1 H2]. split; auto.
  intro I. assert (existsb (Nat.eqb h) t = true) by (apply existsb_exists; exists h; split; auto; apply Nat.eqb_refl).
  congruence.
Qed.

Lemma length_set_q : forall d i x, length (set_q d i x) = length d.
Proof. induction d; destruct i; simpl; auto. Qed.

Lemma scatter_gather_shift : forall idx vals d i x,
    ~ In i idx ->
    scatter_q (add_at d i x) idx (map2q Qplus (map (qnth d) idx) vals)
    = scatter_q (add_at d i x) idx (map2q Qplus (map (qnth (add_at d i x)) idx) vals).
Proof.
  intros. f_equal. f_equal. apply map_ext_in. intros a Ia.
  symmetry. apply qnth_add_at_neq. intro; subst; auto.
Qed.

Lemma buffered_eq_add_at : forall idx vals data,
    has_dup idx = false -> buffered_add data idx vals = add_at_list data idx vals.
Proof.
  induction idx as [|i idx IH]; intros vals data H; unfold buffered_add in *; simpl; auto.
  destruct vals as [|v vals]; simpl; auto.
  apply has_dup_cons_false in H. destruct H as [NI ND].
  rewrite set_q_add_at. rewrite scatter_gather_shift by auto. apply IH; auto.
Qed.

(* ------------------------------------------------------------------ the COO -> CSC/CSR index map *)

Definition mm (s : skey) : nat * nat := fst s.

Lemma same_mm_eq : forall a b, same_mm a b = true <-> mm a = mm b.
Proof.
  intros [[a1 a2] a3] [[b1 b2] b3]. unfold same_mm, mm. simpl.
  rewrite andb_true_iff, !Nat.eqb_eq. split; [intros [? ?]; subst; auto | intro H; inversion H; auto].
Qed.

Definition sk0 : skey := (O, O, O).

Lemma nth_last_C : forall {A} (l : list A) d, nth (length l - 1) l d = last l d.
Proof.
  induction l as [|a l IH]; intros; simpl; auto. destruct l; auto.
  simpl in *. rewrite <- IH. rewrite Nat.sub_0_r. reflexivity.
Qed.

(* is_new / cumsum: the compressed index of every sorted entry points at a "new" entry with the same
   (major, minor); [pre] = new entries emitted so far (the last one matches [prev]) *)
Lemma compress_spec : forall l prev cur pre,
    length pre = S cur -> mm (last pre sk0) = mm prev ->
    forall j, (j < length l)%nat ->
      (nth j (fst (compress prev cur l)) O < length (pre ++ snd (compress prev cur l)))%nat
      /\ mm (nth (nth j (fst (compress prev cur l)) O) (pre ++ snd (compress prev cur l)) sk0) = mm (nth j l sk0).
Proof.
  induction l as [|h t IH]; intros prev cur pre LP LM j J; simpl in J; try lia.
  simpl. destruct (same_mm prev h) eqn:E.
  - apply same_mm_eq in E. simpl.
    destruct j.
    + split; [rewrite app_length; lia|].
      rewrite app_nth1 by lia.
      replace cur with (length pre - 1)%nat by lia. rewrite nth_last_C.
      congruence.
    + apply IH; auto; try lia. congruence.
  - simpl. destruct j.
    + split; [rewrite app_length; simpl; lia|].
      rewrite app_nth2 by lia. replace (S cur - length pre)%nat with O by lia. reflexivity.
    + specialize (IH h (S cur) (pre ++ [h])).
      rewrite <- app_assoc in IH. simpl in IH. apply IH; try lia.
      * rewrite app_length. simpl. lia.
      * rewrite last_last. reflexivity.
Qed.

Lemma compress0_spec : forall l j, (j < length l)%nat ->
    (nth j (fst (compress0 l)) O < length (snd (compress0 l)))%nat
    /\ mm (nth (nth j (fst (compress0 l)) O) (snd (compress0 l)) sk0) = mm (nth j l sk0).
Proof.
  intros [|h t] j J; simpl in *; try lia.
  destruct j; [split; simpl; [lia|reflexivity]|].
  pose proof (compress_spec t h O [h] eq_refl eq_refl j ltac:(lia)) as [A B]. simpl in A, B.
  split; [exact A | exact B].
Qed.

Lemma compress_length : forall l prev cur, length (fst (compress prev cur l)) = length l.
Proof. induction l; intros; simpl; auto. destruct (same_mm prev a); simpl; rewrite IHl; auto. Qed.

Lemma compress0_length : forall l, length (fst (compress0 l)) = length l.
Proof. destruct l; simpl; auto. rewrite compress_length. auto. Qed.

(* insertion sort is a permutation *)
Lemma insert_perm : forall x l, Permutation (insert x l) (x :: l).
Proof.
  induction l; simpl; auto. destruct (sk_leb x a); auto.
  eapply perm_trans; [apply perm_skip; apply IHl | apply perm_swap].
Qed.

Lemma isort_perm : forall l, Permutation (isort l) l.
Proof.
  induction l; simpl; auto. eapply perm_trans; [apply insert_perm | apply perm_skip; auto].
Qed.

Lemma index_from_snd : forall ks i csc, map snd (index_from i ks csc) = seq i (length ks).
Proof.
  induction ks; intros; simpl; auto. f_equal; [destruct csc; reflexivity | apply IHks].
Qed.

Lemma index_from_nth : forall ks i csc j, (j < length ks)%nat ->
    nth j (index_from i ks csc) sk0 = skey_of csc (nth j ks k0) (i + j).
Proof.
  induction ks; intros; simpl in *; try lia. destruct j.
  - rewrite Nat.add_0_r. reflexivity.
  - rewrite IHks by lia. f_equal. lia.
Qed.

Lemma index_from_length : forall ks i csc, length (index_from i ks csc) = length ks.
Proof. induction ks; intros; simpl; auto. Qed.

Lemma length_set_nat : forall l i x, length (set_nat l i x) = length l.
Proof. induction l; destruct i; simpl; auto. Qed.

Lemma nth_set_nat_eq : forall l i x, (i < length l)%nat -> nth i (set_nat l i x) O = x.
Proof. induction l; destruct i; simpl; intros; auto; try lia. apply IHl; lia. Qed.

Lemma nth_set_nat_neq : forall l i j x, i <> j -> nth j (set_nat l i x) O = nth j l O.
Proof. induction l; destruct i; destruct j; simpl; intros; auto; try lia. Qed.

Lemma scatter_nat_outside : forall order m idx j, ~ In j order -> nth j (scatter_nat m order idx) O = nth j m O.
Proof.
  induction order; intros; simpl; auto. destruct idx; auto.
  rewrite IHorder by (intro; apply H; right; auto). apply nth_set_nat_neq. intro; apply H; left; auto.
Qed.

Lemma scatter_nat_inside : forall order m idx j,
    NoDup order -> (forall i, In i order -> (i < length m)%nat) -> length idx = length order ->
    (j < length order)%nat ->
    nth (nth j order O) (scatter_nat m order idx) O = nth j idx O.
Proof.
  induction order; intros m idx j ND B L J; simpl in *; try lia.
  destruct idx as [|x idx]; simpl in *; try lia. inversion ND; subst.
  destruct j.
  - rewrite scatter_nat_outside by auto. apply nth_set_nat_eq. apply B; auto.
  - apply IHorder; auto; try lia. intros; rewrite length_set_nat; apply B; auto.
Qed.

Lemma unkey_skey_of : forall csc k i s, mm s = mm (skey_of csc k i) -> unkey csc s = k.
Proof.
  intros csc [r c] i [[a b] e] H. unfold mm, skey_of, unkey in *. destruct csc; simpl in *; inversion H; auto.
Qed.

(* THE MAP IS CORRECT: for every list of (row, col) pairs, with any pattern of duplicates, entry i of the
   COO data is sent to a slot of the compressed storage that holds exactly its (row, col) *)
Lemma build_map_correct : forall csc ks i,
    (i < length ks)%nat ->
    (nth i (cm_map (build_map csc ks)) O < length (cm_ukeys (build_map csc ks)))%nat
    /\ nth (nth i (cm_map (build_map csc ks)) O) (cm_ukeys (build_map csc ks)) k0 = nth i ks k0.
Proof.
  intros csc ks i I. unfold build_map. simpl.
  set (raw := index_from 0 ks csc).
  set (sorted := isort raw).
  assert (P : Permutation sorted raw) by apply isort_perm.
  assert (LS : length sorted = length ks).
  { rewrite (Permutation_length P). apply index_from_length. }
  assert (PS : Permutation (map snd sorted) (seq 0 (length ks))).
  { rewrite <- (index_from_snd ks 0 csc). apply Permutation_map. exact P. }
  assert (INi : In (skey_of csc (nth i ks k0) i) sorted).
  { apply (Permutation_in _ (Permutation_sym P)).
    replace (skey_of csc (nth i ks k0) i) with (nth i raw sk0).
    - apply nth_In. unfold raw. rewrite index_from_length. auto.
    - unfold raw. rewrite index_from_nth by auto. reflexivity. }
  destruct (In_nth _ _ sk0 INi) as [j [J EJ]].
  pose proof (compress0_spec sorted j J) as [CB CM].
  assert (NDo : NoDup (map snd sorted)).
  { apply (Permutation_NoDup (Permutation_sym PS)). apply seq_NoDup. }
  assert (Bo : forall x, In x (map snd sorted) -> (x < length (repeat O (length ks)))%nat).
  { intros x Hx. rewrite repeat_length. apply (Permutation_in _ PS) in Hx. apply in_seq in Hx. lia. }
  assert (Ei : nth j (map snd sorted) O = i).
  { rewrite nth_indep with (d' := snd sk0) by (rewrite map_length; auto).
    rewrite map_nth. transitivity (snd (skey_of csc (nth i ks k0) i)); [f_equal; exact EJ | destruct csc; reflexivity]. }
  pose proof (scatter_nat_inside (map snd sorted) (repeat O (length ks)) (fst (compress0 sorted)) j NDo Bo
                                 ltac:(rewrite compress0_length, map_length; auto)
                                 ltac:(rewrite map_length; auto)) as SC.
  rewrite Ei in SC. rewrite SC.
  split.
  - rewrite map_length. exact CB.
  - rewrite nth_indep with (d' := unkey csc sk0) by (rewrite map_length; exact CB).
    rewrite map_nth. apply unkey_skey_of with (i := i). rewrite CM. f_equal. exact EJ.
Qed.

Lemma build_map_length : forall csc ks, length (cm_map (build_map csc ks)) = length ks.
Proof.
  intros. unfold build_map. simpl.
  assert (forall order m idx, length (scatter_nat m order idx) = length m).
  { induction order; intros; simpl; auto. destruct idx; auto. rewrite IHorder. apply length_set_nat. }
  rewrite H. apply repeat_length.
Qed.

(* ------------------------------------------------------------------ CSC / CSR data after an update = sum of triples *)

Lemma slice_length_le : forall {A} off n (l : list A), (off + n <= length l)%nat -> length (slice off n l) = n.
Proof. intros. unfold slice. rewrite firstn_length, skipn_length. lia. Qed.

Lemma nth_skipn_C : forall {A} off (l : list A) i d, nth i (skipn off l) d = nth (off + i) l d.
Proof. induction off; intros; simpl; auto. destruct l; simpl; auto. destruct i; auto. Qed.

Lemma nth_firstn_C : forall {A} len (l : list A) i d, (i < len)%nat -> nth i (firstn len l) d = nth i l d.
Proof. induction len; intros; try lia. destruct l; simpl; auto. destruct i; auto. apply IHlen; lia. Qed.

Lemma nth_slice_C : forall {A} off n (l : list A) i d, (i < n)%nat -> nth i (slice off n l) d = nth (off + i) l d.
Proof. intros. unfold slice. rewrite nth_firstn_C by auto. apply nth_skipn_C. Qed.

Lemma Forall2_nth_intro : forall {A B} (R : A -> B -> Prop) la lb da db,
    length la = length lb -> (forall j, (j < length la)%nat -> R (nth j la da) (nth j lb db)) -> Forall2 R la lb.
Proof.
  induction la; destruct lb; simpl; intros; try lia; constructor.
  - apply (H0 O). lia.
  - apply IHla with (da := da) (db := db); [lia|]. intros j J. apply (H0 (S j)). lia.
Qed.

Definition map_ok (uk : list key) (m : list nat) (ks : list key) : Prop :=
  length m = length ks /\
  forall i, (i < length ks)%nat -> (nth i m O < length uk)%nat /\ nth (nth i m O) uk k0 = nth i ks k0.

Lemma sj_triples_nil_data : forall s, sj_triples s [] = [].
Proof. intros. unfold sj_triples, sj_data. destruct (sj_factor s); simpl; destruct (sj_keys s); reflexivity. Qed.

Lemma cm_update_from_sum : forall sjs vals m uk pre data k,
    length uk = length data ->
    map_ok uk m (pre ++ all_keys sjs) ->
    tsum (combine uk (cm_update_from m (length pre) sjs vals data)) k
    == tsum (combine uk data) k + tsum (all_triples sjs vals) k.
Proof.
  induction sjs as [|s sjs IH]; intros vals m uk pre data k L [ML MO]; simpl.
  - ring.
  - destruct vals as [|v vals]; simpl; [ring|].
    set (n := length (sj_keys s)).
    set (idx := slice (length pre) n m).
    assert (LEN : (length pre + n <= length m)%nat).
    { rewrite ML. unfold all_keys. simpl. rewrite !app_length. unfold n. lia. }
    assert (SO : slots_ok uk idx (sj_keys s)).
    { unfold slots_ok. apply Forall2_nth_intro with (da := O) (db := k0).
      - unfold idx. apply slice_length_le. exact LEN.
      - intros j J. unfold idx in J. rewrite slice_length_le in J by exact LEN.
        unfold idx. rewrite nth_slice_C by exact J.
        destruct (MO (length pre + j)%nat) as [A B].
        + unfold all_keys. simpl. rewrite !app_length. unfold n in J. lia.
        + split; [exact A|]. rewrite B.
          rewrite app_nth2 by lia. replace (length pre + j - length pre)%nat with j by lia.
          unfold all_keys. simpl. rewrite app_nth1 by (unfold n in J; lia). reflexivity. }
    assert (STEP : forall d', d' = (if has_dup idx then add_at_list data idx (sj_data s v)
                                   else buffered_add data idx (sj_data s v)) ->
                          d' = add_at_list data idx (sj_data s v)).
    { intros d' E. destruct (has_dup idx) eqn:HD; [exact E|]. rewrite E. apply buffered_eq_add_at. exact HD. }
    rewrite (STEP _ eq_refl).
    replace (length pre + n)%nat with (length (pre ++ sj_keys s)) by (rewrite app_length; reflexivity).
    rewrite IH.
    + rewrite (add_at_list_sum idx (sj_keys s) (sj_data s v) uk data k L SO). rewrite tsum_app. unfold sj_triples. ring.
    + rewrite add_at_list_length. exact L.
    + split.
      * rewrite ML. unfold all_keys. simpl. rewrite <- app_assoc. reflexivity.
      * intros i I. unfold all_keys in *. simpl in MO. rewrite <- app_assoc. apply MO.
        rewrite <- app_assoc in I. exact I.
Qed.

Lemma tsum_combine_zeros : forall uk (old : list Q) k, tsum (combine uk (map (fun _ => 0) old)) k == 0.
Proof.
  induction uk; intros; simpl; [reflexivity|]. destruct old; simpl; [reflexivity|].
  rewrite IHuk. destruct (keyb a k); ring.
Qed.

(* CSC and CSR: after any update, the stored matrix is the sum of the triples of all sub-jacobians — for every
   collection of sub-jacobians, every pattern of duplicates inside and across them, every src_indices remap,
   every unit factor, whatever the storage held before *)
Lemma compressed_eq_sum : forall csc sjs vals old k,
    length old = length (cm_ukeys (build_map csc (all_keys sjs))) ->
    tsum (cm_triples (build_map csc (all_keys sjs)) (cm_update (build_map csc (all_keys sjs)) sjs vals old)) k
    == tsum (all_triples sjs vals) k.
Proof.
  intros csc sjs vals old k L. unfold cm_triples, cm_update.
  assert (L2 : length (cm_ukeys (build_map csc (all_keys sjs))) = length (map (fun _ : Q => 0) old))
    by (rewrite map_length; auto).
  assert (MO : map_ok (cm_ukeys (build_map csc (all_keys sjs))) (cm_map (build_map csc (all_keys sjs)))
                      ([] ++ all_keys sjs)).
  { split; [apply build_map_length|]. intros i I. apply build_map_correct. exact I. }
  pose proof (cm_update_from_sum sjs vals _ _ [] _ k L2 MO) as H.
  cbn [length] in H. rewrite H. rewrite tsum_combine_zeros. ring.
Qed.

(* repeated updates: the result of an update does not depend on what the storage held before *)
Lemma compressed_update_history_free : forall cm sjs vals old1 old2,
    length old1 = length old2 -> cm_update cm sjs vals old1 = cm_update cm sjs vals old2.
Proof.
  intros. unfold cm_update. f_equal.
  revert old2 H. induction old1; destruct old2; simpl; intros; try discriminate; auto. f_equal. apply IHold1. lia.
Qed.

(* ------------------------------------------------------------------ products are determined by the sum of triples *)

Definition rowpart (T : list triple) (v : list Q) (r : nat) : Q :=
  qsum (map (fun t => if Nat.eqb (fst (fst t)) r then snd t * qnth v (snd (fst t)) else 0) T).

Lemma length_sp_fwd : forall T v acc, length (sp_fwd T v acc) = length acc.
Proof. induction T as [|[[r c] x] T IH]; intros; simpl; auto. rewrite IH. apply length_add_at. Qed.

Lemma sp_fwd_spec : forall T v acc r, (forall t, In t T -> (fst (fst t) < length acc)%nat) ->
    qnth (sp_fwd T v acc) r == qnth acc r + rowpart T v r.
Proof.
  induction T as [|[[r' c] x] T IH]; intros v acc r B; unfold rowpart in *; simpl; [ring|].
  rewrite IH.
  - destruct (Nat.eqb_spec r' r).
    + subst. rewrite qnth_add_at_eq by (apply (B (r, c, x)); left; auto). ring.
    + rewrite qnth_add_at_neq by auto. ring.
  - intros t I. rewrite length_add_at. apply B. right; auto.
Qed.

Lemma qsum_ext : forall {A} (f g : A -> Q) l, (forall a, In a l -> f a == g a) -> qsum (map f l) == qsum (map g l).
Proof.
  induction l; intros; simpl; [reflexivity|]. rewrite H by (left; auto). rewrite IHl; [reflexivity|].
  intros; apply H; right; auto.
Qed.

Lemma qsum_plus : forall {A} (f g : A -> Q) l, qsum (map (fun a => f a + g a) l) == qsum (map f l) + qsum (map g l).
Proof. induction l; simpl; [ring|]. rewrite IHl. ring. Qed.

Lemma qsum_indicator : forall c0 n (y : Q) (g : nat -> Q),
    qsum (map (fun c => (if Nat.eqb c0 c then y else 0) * g c) (seq 0 n))
    == if Nat.ltb c0 n then y * g c0 else 0.
Proof.
  intros c0 n y g. induction n.
  - simpl. reflexivity.
  - rewrite seq_S, map_app. simpl.
    assert (E : forall l x, qsum (l ++ [x]) == qsum l + x).
    { induction l; intros; simpl; [ring|]. rewrite IHl. ring. }
    rewrite E, IHn. simpl.
    destruct (Nat.eqb_spec c0 n).
    + subst. replace (n <? n)%nat with false by (symmetry; apply Nat.ltb_irrefl).
      replace (n <? S n)%nat with true by (symmetry; apply Nat.ltb_lt; lia). ring.
    + destruct (Nat.ltb_spec c0 n); destruct (Nat.ltb_spec c0 (S n)); try lia; ring.
Qed.

(* (J v)_r of the stored entries = sum over columns of (sum of triples at (r, c)) * v_c *)
Lemma rowpart_ref : forall T nc v r, (forall t, In t T -> (snd (fst t) < nc)%nat) ->
    rowpart T v r == ref_fwd T nc v r.
Proof.
  induction T as [|[[r' c'] x] T IH]; intros nc v r B; unfold rowpart, ref_fwd in *; simpl.
  - induction (seq 0 nc); simpl; [reflexivity|]. rewrite <- IHl. ring.
  - rewrite IH by (intros; apply B; right; auto).
    rewrite (qsum_ext (fun c => ((if keyb (r', c') (r, c) then x else 0) + tsum T (r, c)) * qnth v c)
                      (fun c => (if Nat.eqb c' c then (if Nat.eqb r' r then x else 0) else 0) * qnth v c
                                + tsum T (r, c) * qnth v c)).
    + rewrite qsum_plus. rewrite qsum_indicator.
      assert (Hc : (c' < nc)%nat) by (apply (B (r', c', x)); left; auto).
      apply Nat.ltb_lt in Hc. rewrite Hc. destruct (Nat.eqb r' r); ring.
    + intros c _. unfold keyb. simpl. destruct (Nat.eqb r' r); destruct (Nat.eqb c' c); simpl; ring.
Qed.

Lemma ref_fwd_ext : forall T1 T2 nc v r, (forall k, tsum T1 k == tsum T2 k) -> ref_fwd T1 nc v r == ref_fwd T2 nc v r.
Proof. intros. unfold ref_fwd. apply qsum_ext. intros. rewrite H. reflexivity. Qed.

Definition in_shape (T : list triple) (nr nc : nat) : Prop :=
  forall t, In t T -> (fst (fst t) < nr)%nat /\ (snd (fst t) < nc)%nat.

Lemma qnth_zeros : forall n r, qnth (zeros n) r == 0.
Proof.
  unfold qnth, zeros. induction n; destruct r; simpl; try reflexivity. apply IHn.
Qed.

(* forward product of any stored-entry list = product with the matrix "sum of triples" *)
Lemma prod_fwd_ref : forall T nr nc v r, in_shape T nr nc ->
    qnth (prod_fwd T nr v) r == ref_fwd T nc v r.
Proof.
  intros. unfold prod_fwd. rewrite sp_fwd_spec.
  - rewrite qnth_zeros. rewrite rowpart_ref by (intros; apply H; auto). ring.
  - intros t I. unfold zeros. rewrite repeat_length. apply H; auto.
Qed.

(* two stored forms of the same matrix (equal sums of triples) give the same forward product *)
Lemma formats_same_prod_fwd : forall T1 T2 nr nc v r,
    in_shape T1 nr nc -> in_shape T2 nr nc -> (forall k, tsum T1 k == tsum T2 k) ->
    qnth (prod_fwd T1 nr v) r == qnth (prod_fwd T2 nr v) r.
Proof.
  intros. rewrite (prod_fwd_ref T1 nr nc), (prod_fwd_ref T2 nr nc) by auto. apply ref_fwd_ext. auto.
Qed.

(* reverse mode is the forward product of the transposed entries *)
Definition transpose (T : list triple) : list triple := map (fun t => ((snd (fst t), fst (fst t)), snd t)) T.

Lemma sp_rev_transpose : forall T w acc, sp_rev T w acc = sp_fwd (transpose T) w acc.
Proof. induction T as [|[[r c] x] T IH]; intros; simpl; auto. Qed.

Lemma tsum_transpose : forall T r c, tsum (transpose T) (c, r) = tsum T (r, c).
Proof.
  induction T as [|[[r' c'] x] T IH]; intros; simpl; auto. rewrite IH.
  unfold keyb. simpl. rewrite (andb_comm (Nat.eqb c' c)). reflexivity.
Qed.

Lemma ref_rev_transpose : forall T nr w c, ref_rev T nr w c == ref_fwd (transpose T) nr w c.
Proof.
  intros. unfold ref_rev, ref_fwd. apply qsum_ext. intros. rewrite tsum_transpose. reflexivity.
Qed.

Lemma in_shape_transpose : forall T nr nc, in_shape T nr nc -> in_shape (transpose T) nc nr.
Proof.
  intros T nr nc H t I. unfold transpose in I. apply in_map_iff in I. destruct I as [[[r c] x] [E I]].
  subst. simpl. destruct (H _ I). simpl in *. auto.
Qed.

(* reverse product = product with the TRANSPOSE of the matrix "sum of triples" *)
Lemma prod_rev_ref : forall T nr nc w c, in_shape T nr nc ->
    qnth (prod_rev T nc w) c == ref_rev T nr w c.
Proof.
  intros. unfold prod_rev. rewrite sp_rev_transpose. rewrite ref_rev_transpose.
  apply (prod_fwd_ref (transpose T) nc nr). apply in_shape_transpose. auto.
Qed.

Lemma formats_same_prod_rev : forall T1 T2 nr nc w c,
    in_shape T1 nr nc -> in_shape T2 nr nc -> (forall k, tsum T1 k == tsum T2 k) ->
    qnth (prod_rev T1 nc w) c == qnth (prod_rev T2 nc w) c.
Proof.
  intros. rewrite (prod_rev_ref T1 nr nc), (prod_rev_ref T2 nr nc) by auto.
  unfold ref_rev. apply qsum_ext. intros. rewrite H1. reflexivity.
Qed.

(* ------------------------------------------------------------------ matrix-free application *)

Lemma sp_fwd_app : forall a b v acc, sp_fwd (a ++ b) v acc = sp_fwd b v (sp_fwd a v acc).
Proof. induction a as [|[[r c] x] a IH]; intros; simpl; auto. Qed.

Fixpoint all_raw (sjs : list subjac) (vals : list (list Q)) : list triple :=
  match sjs, vals with
  | s :: sjs', v :: vals' => raw_triples s v ++ all_raw sjs' vals'
  | _, _ => []
  end.

(* applying the sub-jacobians one after the other (DictionaryJacobian) is the product with the concatenation
   of their entries, i.e. with the COO matrix assembled from them *)
Lemma dict_fwd_eq_coo : forall sjs vals v acc, dict_fwd sjs vals v acc = sp_fwd (all_raw sjs vals) v acc.
Proof.
  induction sjs; intros; simpl; auto. destruct vals; simpl; auto. rewrite sp_fwd_app. apply IHsjs.
Qed.

Lemma dict_rev_eq_coo : forall sjs vals w acc, dict_rev sjs vals w acc = sp_rev (all_raw sjs vals) w acc.
Proof.
  induction sjs; intros; simpl; auto. destruct vals; simpl; auto.
  rewrite IHsjs. rewrite !sp_rev_transpose. unfold transpose. rewrite map_app. rewrite sp_fwd_app. reflexivity.
Qed.

(* column remap and unit factor of a dr/do sub-jacobian = applying the raw sub-jacobian to the transferred
   vector  in[c] = factor * out[col_off + src_indices[c]]  (what the matrix-free path computes by a transfer) *)
Definition xfer (s : subjac) (vout : list Q) (ncols : nat) : list Q :=
  map (fun c => (match sj_factor s with Some f => f | None => 1 end) * qnth vout (sj_coff s + remap (sj_src s) c))
      (seq 0 ncols).

Definition local_triples (s : subjac) (vals : list Q) : list triple :=
  combine (map (fun k => ((sj_roff s + fst k)%nat, snd k)) (pat_rc (sj_pat s))) vals.

Lemma nth_map_lt_C : forall {A B} (f : A -> B) l k da db,
    (k < length l)%nat -> nth k (map f l) db = f (nth k l da).
Proof. induction l; simpl; intros; try lia. destruct k; auto. apply IHl; lia. Qed.

Lemma qnth_xfer : forall s vout n c, (c < n)%nat ->
    qnth (xfer s vout n) c == (match sj_factor s with Some f => f | None => 1 end) * qnth vout (sj_coff s + remap (sj_src s) c).
Proof.
  intros. unfold xfer, qnth.
  rewrite (nth_map_lt_C _ (seq 0 n) c O 0) by (rewrite seq_length; auto).
  rewrite seq_nth by auto. reflexivity.
Qed.

Lemma remap_is_transfer : forall s vals vout ncols r,
    (forall k, In k (pat_rc (sj_pat s)) -> (snd k < ncols)%nat) ->
    rowpart (sj_triples s vals) vout r == rowpart (local_triples s vals) (xfer s vout ncols) r.
Proof.
  intros s vals vout ncols r B. unfold sj_triples, local_triples, sj_keys, sj_data, rowpart.
  revert vals B. generalize (pat_rc (sj_pat s)) as P.
  induction P as [|[pr pc] P IH]; intros vals B; simpl.
  - destruct (sj_factor s); simpl; reflexivity.
  - destruct vals as [|x vals].
    + destruct (sj_factor s); simpl; reflexivity.
    + assert (Hc : (pc < ncols)%nat) by (apply (B (pr, pc)); left; auto).
      specialize (IH vals (fun k I => B k (or_intror I))).
      destruct (sj_factor s) as [f|] eqn:EF; simpl in *; rewrite IH;
        destruct (Nat.eqb (sj_roff s + pr) r); try ring;
        rewrite (qnth_xfer s vout ncols pc Hc); rewrite EF; ring.
Qed.

(* ------------------------------------------------------------------ DenseMatrix, in-place representation *)

Lemma length_set_row : forall M r f, length (set_row M r f) = length M.
Proof. induction M; destruct r; simpl; auto. Qed.

Lemma dget_dset_eq : forall M k x, (fst k < length M)%nat -> (snd k < length (nth (fst k) M []))%nat ->
    dget (dset M k x) k = x.
Proof.
  intros M [r c] x. unfold dget, dset. simpl. revert r.
  induction M as [|row M IH]; destruct r; simpl; intros; try lia.
  - unfold qnth. clear IH H. revert c H0. induction row; destruct c; simpl; intros; try lia; auto.
    apply IHrow. lia.
  - apply IH; lia.
Qed.

Lemma dget_dset_neq : forall M k k' x, k <> k' -> dget (dset M k x) k' = dget M k'.
Proof.
  intros M [r c] [r' c'] x NE. unfold dget, dset. simpl. revert r r'  NE.
  induction M as [|row M IH]; intros r r' NE; destruct r; destruct r'; simpl; auto.
  - unfold qnth. assert (c <> c') by (intro; subst; auto). clear NE IH.
    revert c c' H. induction row; destruct c; destruct c'; simpl; intros; auto; try lia.
  - apply IH. intro E. inversion E; subst. auto.
Qed.

Definition shape_ok (M : dmat) (nr nc : nat) : Prop := length M = nr /\ forall r, (r < nr)%nat -> length (nth r M []) = nc.

Lemma shape_dset : forall M nr nc k x, shape_ok M nr nc -> shape_ok (dset M k x) nr nc.
Proof.
  intros M nr nc [r c] x [L R]. unfold dset. simpl. split; [rewrite length_set_row; auto|].
  intros r' Hr'. specialize (R r' Hr'). revert r r' R Hr'. clear L. revert nr.
  induction M as [|row M IH]; intros nr r r' R Hr'; destruct r; destruct r'; simpl in *; auto.
  - rewrite length_set_q. auto.
  - eapply IH; eauto.
Qed.

(* assignment of entries with pairwise different positions: each position holds its entry, the others keep
   what they held *)
Lemma dassign_get : forall T M nr nc k, shape_ok M nr nc -> NoDup (map fst T) -> in_shape T nr nc ->
    dget (dassign M T) k == (if existsb (keyb k) (map fst T) then tsum T k else dget M k).
Proof.
  induction T as [|[k' x] T IH]; intros M nr nc k S ND B; simpl; [reflexivity|].
  inversion ND; subst.
  rewrite (IH (dset M k' x) nr nc k (shape_dset _ _ _ _ _ S) H2 (fun t I => B t (or_intror I))).
  destruct (keyb k k') eqn:E.
  - apply keyb_eq in E. subst k'. rewrite keyb_refl. simpl.
    assert (NX : existsb (keyb k) (map fst T) = false).
    { destruct (existsb (keyb k) (map fst T)) eqn:X; auto. apply existsb_exists in X.
      destruct X as [y [Iy Ey]]. apply keyb_eq in Ey. subst. contradiction. }
    rewrite NX.
    assert (TZ : tsum T k == 0).
    { clear - H1. induction T as [|[k2 v2] T IHT]; simpl; [reflexivity|].
      simpl in H1. destruct (keyb k2 k) eqn:E2.
      - apply keyb_eq in E2. subst. exfalso. apply H1. left; auto.
      - rewrite IHT by (intro; apply H1; right; auto). ring. }
    rewrite TZ. destruct S as [L R].
    destruct (B (k, x) (or_introl eq_refl)) as [Br Bc]. simpl in *.
    rewrite dget_dset_eq by (rewrite ?L, ?R; auto; lia). ring.
  - simpl. assert (E' : keyb k' k = false).
    { destruct (keyb k' k) eqn:X; auto. apply keyb_eq in X. subst. rewrite keyb_refl in E. discriminate. }
    rewrite E'. destruct (existsb (keyb k) (map fst T)); [ring|].
    rewrite dget_dset_neq; [reflexivity|]. intro; subst. rewrite keyb_refl in E. discriminate.
Qed.

Lemma all_triples_keys : forall sjs vals,
    Forall2 (fun s v => length v = length (sj_keys s)) sjs vals ->
    map fst (all_triples sjs vals) = all_keys sjs.
Proof.
  induction 1; [reflexivity|]. cbn [all_triples]. rewrite map_app.
  change (all_keys (x :: l)) with (sj_keys x ++ all_keys l). f_equal; [|exact IHForall2].
  unfold sj_triples.
  assert (forall (a : list key) (b : list Q), length b = length a -> map fst (combine a b) = a).
  { induction a; destruct b; simpl; intros; try discriminate; auto. f_equal. apply IHa. lia. }
  apply H1. unfold sj_data. destruct (sj_factor x); rewrite ?map_length; auto.
Qed.

Lemma dense_update_dassign : forall sjs vals M, dense_update sjs vals M = dassign M (all_triples sjs vals).
Proof.
  induction sjs; intros; simpl; auto. destruct vals; simpl; auto.
  rewrite IHsjs. clear. revert M. generalize (sj_triples a l) as A. generalize (all_triples sjs vals) as Bt.
  induction A as [|[k x] A IH]; intros; simpl; auto.
Qed.

Lemma has_dup_key_false_NoDup : forall l, has_dup_key l = false -> NoDup l.
Proof.
  induction l; intros; constructor; simpl in H; apply orb_false_iff in H; destruct H as [H1 H2]; auto.
  intro I. assert (existsb (keyb a) l = true) by (apply existsb_exists; exists a; split; auto; apply keyb_refl).
  congruence.
Qed.

Lemma tsum_not_in : forall T k, ~ In k (map fst T) -> tsum T k == 0.
Proof.
  induction T as [|[k2 v2] T IH]; intros; simpl; [reflexivity|].
  destruct (keyb k2 k) eqn:E.
  - apply keyb_eq in E. subst. exfalso. apply H. left; auto.
  - rewrite IH by (intro; apply H; right; auto). ring.
Qed.

Lemma tsum_todense : forall T nr nc k, (fst k < nr)%nat -> (snd k < nc)%nat ->
    dget (todense T nr nc) k = tsum T k.
Proof.
  intros T nr nc [r c] Hr Hc. unfold dget, todense, qnth. simpl in *.
  rewrite (nth_map_lt_C _ (seq 0 nr) r O []) by (rewrite seq_length; auto).
  rewrite seq_nth by auto. simpl.
  rewrite (nth_map_lt_C _ (seq 0 nc) c O 0) by (rewrite seq_length; auto).
  rewrite seq_nth by auto. reflexivity.
Qed.

(* DenseMatrix (repaired in-place path + COO-backed path): whatever array the previous update left, as long as
   it is zero outside the pattern, the matrix after an update is the sum of the triples — so every update
   sequence ends in the matrix of the last values, and the dense format agrees with CSC / CSR / COO *)
Lemma dense_matrix_eq_sum : forall sjs vals nr nc M k,
    Forall2 (fun s v => length v = length (sj_keys s)) sjs vals ->
    in_shape (all_triples sjs vals) nr nc -> shape_ok M nr nc ->
    (forall k', ~ In k' (all_keys sjs) -> dget M k' == 0) ->
    (fst k < nr)%nat -> (snd k < nc)%nat ->
    dget (dense_matrix sjs vals nr nc M) k == tsum (all_triples sjs vals) k.
Proof.
  intros sjs vals nr nc M k F B S Z Hr Hc. unfold dense_matrix.
  destruct (has_dup_key (all_keys sjs)) eqn:HD.
  - rewrite tsum_todense by auto. reflexivity.
  - rewrite dense_update_dassign.
    rewrite (dassign_get _ M nr nc k S) by (rewrite ?all_triples_keys by auto; auto using has_dup_key_false_NoDup).
    rewrite all_triples_keys by auto.
    destruct (existsb (keyb k) (all_keys sjs)) eqn:X; [reflexivity|].
    assert (NI : ~ In k (all_keys sjs)).
    { intro I. assert (existsb (keyb k) (all_keys sjs) = true) by (apply existsb_exists; exists k; split; auto; apply keyb_refl).
      congruence. }
    rewrite (Z k NI). rewrite tsum_not_in by (rewrite all_triples_keys by auto; auto). reflexivity.
Qed.

(* the in-place array stays zero outside the pattern, so the premise above is an invariant of update sequences *)
Lemma dense_matrix_zero_outside : forall sjs vals nr nc M k,
    Forall2 (fun s v => length v = length (sj_keys s)) sjs vals ->
    in_shape (all_triples sjs vals) nr nc -> shape_ok M nr nc ->
    (forall k', ~ In k' (all_keys sjs) -> dget M k' == 0) ->
    (fst k < nr)%nat -> (snd k < nc)%nat ->
    ~ In k (all_keys sjs) -> dget (dense_matrix sjs vals nr nc M) k == 0.
Proof.
  intros. rewrite dense_matrix_eq_sum by auto. apply tsum_not_in. rewrite all_triples_keys by auto. auto.
Qed.

(* ------------------------------------------------------------------ the code as it stands: refuted *)

(* two dense sub-jacobians d(y)/d(x1), d(y)/d(x2) whose inputs are connected to the same 4-entry source with
   src_indices [0;1] and [2;3], the second with a unit factor 100: no repeated index, so DenseMatrix assigns in
   place and then scales the WHOLE shared view by 100 — the entries of the first sub-jacobian are scaled too *)
Definition refute_sjs : list (subjac * nat) :=
  [(mkSJ (PDense 2 2) 0 0 (Some [0; 1]%nat) None, 4%nat);
   (mkSJ (PDense 2 2) 0 0 (Some [2; 3]%nat) (Some 100), 4%nat)].
Definition refute_vals : list (list Q) := [[1; 2; 3; 4]; [5; 6; 7; 8]].

Lemma present_dense_update_refuted :
  has_dup_key (all_keys (map fst refute_sjs)) = false /\
  dget (present_update refute_sjs refute_vals (dzeros 2 4)) (O, O) == 100 /\
  tsum (all_triples (map fst refute_sjs) refute_vals) (O, O) == 1 /\
  dget (dense_update (map fst refute_sjs) refute_vals (dzeros 2 4)) (O, O) == 1.
Proof. repeat split; vm_compute; reflexivity. Qed.

(* ------------------------------------------------------------------ non-vacuity *)

Example in_shape_ok : in_shape (all_triples (map fst refute_sjs) refute_vals) 2 4.
Proof. intros t I. vm_compute in I. repeat (destruct I as [I|I]; [subst; simpl; lia|]). contradiction. Qed.

Example map_example :
  cm_map (build_map true [(0, 1); (2, 0); (0, 1); (1, 1)]%nat) = [1; 0; 1; 2]%nat
  /\ cm_ukeys (build_map true [(0, 1); (2, 0); (0, 1); (1, 1)]%nat) = [(2, 0); (0, 1); (1, 1)]%nat.
Proof. split; reflexivity. Qed.
