(* C33 — property theorems (statements only; proofs by [exact] of lemmas in Proofs.v). *)
From Coq Require Import ZArith QArith List Bool.
From OMV Require Import Base.Val C33.Model C33.Proofs.
Import ListNotations.

(* data[pos] <op>= val : every addressed position receives g(old, val_k) (NumPy semantics, index list
   without repetitions, scalar or array operand), for every array, index list, operand and operation g
   (g = lift cs cadd / csub / cmul for iadd / isub / imul, csnd for set_val). *)
Theorem C33_indexed_op_inside :
  forall (g : C -> C -> C) (d : list C) (pos : list nat) (val : list C) (k : nat),
    NoDup pos -> (forall i, In i pos -> (i < length d)%nat) ->
    length (bcast val (length pos)) = length pos -> (k < length pos)%nat ->
    nth (nth k pos O) (idx_op g d (Some pos) val) c0
    = g (nth (nth k pos O) d c0) (nth k (bcast val (length pos)) c0).
Proof. exact idx_op_inside. Qed.
Print Assumptions C33_indexed_op_inside.

(* ... and every position that is not addressed keeps its value, for ANY index list (duplicates included);
   the length never changes. *)
Theorem C33_indexed_op_outside :
  forall (g : C -> C -> C) (d : list C) (pos : list nat) (val : list C) (j : nat),
    ~ In j pos ->
    nth j (idx_op g d (Some pos) val) c0 = nth j d c0 /\ length (idx_op g d (Some pos) val) = length d.
Proof. intros; split; [apply idx_op_outside; auto | apply idx_op_length]. Qed.
Print Assumptions C33_indexed_op_outside.

(* whole-vector operations (+=, -=, *=, add_scal_vec, set_vec, full-slice iadd...) are the elementwise ones *)
Theorem C33_full_op_elementwise :
  forall (g : C -> C -> C) (d val : list C) (k : nat),
    length (bcast val (length d)) = length d -> (k < length d)%nat ->
    nth k (idx_op g d None val) c0 = g (nth k d c0) (nth k (bcast val (length d)) c0).
Proof. exact idx_op_full. Qed.
Print Assumptions C33_full_op_elementwise.

(* named views (ranges computed by _initialize_data) lie inside the array and never overlap *)
Theorem C33_named_views_disjoint :
  forall (lay : layout) (n1 n2 : nat) (r1 r2 : nat * nat),
    NoDup (names lay) -> n1 <> n2 -> range_of lay n1 = Some r1 -> range_of lay n2 = Some r2 ->
    (fst r1 <= snd r1 /\ snd r1 <= total lay)%nat /\ (snd r1 <= fst r2 \/ snd r2 <= fst r1)%nat.
Proof.
  intros; split; [eapply range_of_bounds; eauto | eapply ranges_disjoint; eauto].
Qed.
Print Assumptions C33_named_views_disjoint.

(* a variable's view through the vector of a sub-system at any depth (each level's variables being a
   contiguous run of its parent's) is the root vector's view of that variable, and the sub-vector lies
   inside the root array *)
Theorem C33_subvector_views_alias_root :
  forall (rest : list layout) (root : layout) (nm : nat) (r : nat * nat),
    nested root rest -> NoDup (names root) ->
    range_of (chain_last root rest) nm = Some r ->
    range_of root nm = Some ((chain_off root rest + fst r)%nat, (chain_off root rest + snd r)%nat)
    /\ (chain_off root rest + total (chain_last root rest) <= total root)%nat.
Proof.
  intros; split; [apply chain_range_shift; auto | apply chain_extent; auto].
Qed.
Print Assumptions C33_subvector_views_alias_root.

(* any sequence of operations through a sub-vector equals the same sequence on an independent flat copy of
   its slice written back; the rest of the root array and all other arrays are untouched *)
Theorem C33_ops_sequence_refines_flat :
  forall (ops : list op) (st st0 : state) (slot : nat) (h : handle) (cs : bool),
    (slot < length (st_data st))%nat ->
    wf_handle h (slot_data st slot) ->
    forallb is_local ops = true ->
    let st' := fst (run_steps st (map (mkS slot h cs) ops)) in
    vdata h (slot_data st' slot) = flat_run st0 slot h cs ops (vdata h (slot_data st slot))
    /\ (forall i, (i < h_off h \/ h_off h + h_len h <= i)%nat ->
                  nth i (slot_data st' slot) c0 = nth i (slot_data st slot) c0)
    /\ length (slot_data st' slot) = length (slot_data st slot)
    /\ (forall s', s' <> slot -> slot_data st' s' = slot_data st s').
Proof. exact ops_sequence_refines_flat. Qed.
Print Assumptions C33_ops_sequence_refines_flat.

(* scale_to_norm followed by scale_to_phys returns the data (fwd and rev, with or without solver-ref array,
   with or without adder, under complex step or not), for all data and all nonzero scalers *)
Theorem C33_scale_roundtrip_norm_phys :
  forall (cs rev sref : bool) (d : list C) (sc : list Q) (ad : option (list Q)) (nlv : list Q),
    length sc = length d -> length nlv = length d -> adder_len (length d) ad ->
    Forall nz sc -> Forall nz nlv ->
    Forall2 ceq (scale_to_phys cs rev sref (scale_to_norm cs rev sref d sc ad nlv) sc ad nlv) d.
Proof. exact scale_roundtrip_norm_phys. Qed.
Print Assumptions C33_scale_roundtrip_norm_phys.

Theorem C33_scale_roundtrip_phys_norm :
  forall (cs rev sref : bool) (d : list C) (sc : list Q) (ad : option (list Q)) (nlv : list Q),
    length sc = length d -> length nlv = length d -> adder_len (length d) ad ->
    Forall nz sc -> Forall nz nlv ->
    Forall2 ceq (scale_to_norm cs rev sref (scale_to_phys cs rev sref d sc ad nlv) sc ad nlv) d.
Proof. exact scale_roundtrip_phys_norm. Qed.
Print Assumptions C33_scale_roundtrip_phys_norm.

(* _set_scaling of a nonlinear root vector: on the range of every variable (at each of its entries j) the scaler
   holds the variable's scale1 and the adder its scale0 (broadcast when scalar); a variable without factors keeps
   1 and 0 — for every layout with distinct names, every factor table that fits the variable sizes. *)
Theorem C33_set_scaling_nonlinear :
  forall (isinput do_adder : bool) (lay : layout) (factors : list (nat * factor_t)) (nm s e j : nat),
    fits false isinput factors lay -> NoDup (names lay) ->
    range_of lay nm = Some (s, e) -> (j < e - s)%nat ->
    nth (s + j) (fst (set_scaling_nl isinput do_adder lay factors)) 0
    = match find (fun p => Nat.eqb (fst p) nm) factors with
      | Some f => nth j (bcast (snd (scale01 false isinput (snd f))) (e - s)) 0
      | None => 1
      end
    /\ (do_adder = true -> exists a', snd (set_scaling_nl isinput do_adder lay factors) = Some a' /\
         nth (s + j) a' 0
         = match find (fun p => Nat.eqb (fst p) nm) factors with
           | Some f => match fst (scale01 false isinput (snd f)) with
                       | Some s0 => nth j (bcast s0 (e - s)) 0
                       | None => 0
                       end
           | None => 0
           end).
Proof. exact set_scaling_nl_spec. Qed.
Print Assumptions C33_set_scaling_nonlinear.

(* ... of a linear root vector (no adder; the array starts as ones when a solver ref exists, otherwise it is the
   nonlinear scaler array itself). *)
Theorem C33_set_scaling_linear :
  forall (isinput solver_ref : bool) (lay : layout) (factors : list (nat * factor_t)) (nl_scaler : list Q)
         (nm s e j : nat),
    fits true isinput factors lay -> NoDup (names lay) -> length nl_scaler = total lay ->
    range_of lay nm = Some (s, e) -> (j < e - s)%nat ->
    nth (s + j) (fst (set_scaling_ln isinput solver_ref lay factors nl_scaler)) 0
    = match find (fun p => Nat.eqb (fst p) nm) factors with
      | Some f => nth j (bcast (snd (scale01 true isinput (snd f))) (e - s)) 0
      | None => if solver_ref then 1 else nth (s + j) nl_scaler 0
      end.
Proof. exact set_scaling_ln_spec. Qed.
Print Assumptions C33_set_scaling_linear.

(* scale0 / scale1 in terms of the factor tuple (a0, a1, factor, offset): nonlinear ((a0 + offset) * factor,
   a1 * factor) or (a0, a1); linear factor / a1, 1 / a1 (inputs) or a1 (outputs / residuals). *)
Theorem C33_scale01_cases :
  forall (a0 a1 : list Q) (factor offset : Q) (isinput : bool),
    scale01 false isinput (a0, a1, Some (factor, offset))
      = (Some (map (fun x => (x + offset) * factor) a0), map (fun x => x * factor) a1)
    /\ scale01 false isinput (a0, a1, None) = (Some a0, a1)
    /\ scale01 true isinput (a0, a1, Some (factor, offset)) = (None, map (fun x => factor / x) a1)
    /\ scale01 true true (a0, a1, None) = (None, map (fun x => 1 / x) a1)
    /\ scale01 true false (a0, a1, None) = (Some a0, a1).
Proof. exact scale01_cases. Qed.
Print Assumptions C33_scale01_cases.
