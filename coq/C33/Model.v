(* C33 — model of openmdao/vectors/default_vector.py and vector.py (DefaultVector / Vector).

   A root vector is one flat array ([list C], C = pairs (re, im) because a vector allocated
   with alloc_complex=True stores complex numbers and exposes only the real part unless it is
   "under complex step").  The vector of a sub-system is a NumPy *view* of a contiguous range
   of its parent's array (DefaultVector._initialize_data); every named variable is a view of
   a range of the vector's own array (_VecData.set_view).  A NumPy view is modelled by
   [slice] (read) and [splice] (write-through).

   Definitions only; proofs are in Proofs.v. *)
From Coq Require Import ZArith QArith List Bool.
From OMV Require Import Base.Val.
Import ListNotations.
Open Scope Q_scope.

(* ------------------------------------------------------------------ generic list helpers *)

Fixpoint set_nth {A} (l : list A) (i : nat) (x : A) : list A :=
  match l, i with
  | [], _ => []
  | _ :: t, O => x :: t
  | h :: t, S i' => h :: set_nth t i' x
  end.

Definition slice {A} (off len : nat) (l : list A) : list A := firstn len (skipn off l).

(* write-through of a view that starts at [off] *)
Definition splice {A} (off : nat) (new l : list A) : list A :=
  firstn off l ++ new ++ skipn (off + length new) l.

Definition gather {A} (d : A) (l : list A) (idx : list nat) : list A :=
  map (fun i => nth i l d) idx.

(* NumPy fancy assignment  l[idx] = vals : sequential, the last duplicate wins *)
Fixpoint scatter {A} (l : list A) (idx : list nat) (vals : list A) : list A :=
  match idx, vals with
  | i :: idx', v :: vals' => scatter (set_nth l i v) idx' vals'
  | _, _ => l
  end.

Fixpoint map2 {A B D} (f : A -> B -> D) (a : list A) (b : list B) : list D :=
  match a, b with
  | x :: a', y :: b' => f x y :: map2 f a' b'
  | _, _ => []
  end.

(* NumPy broadcasting of a scalar / size-1 value against n positions *)
Definition bcast {A} (val : list A) (n : nat) : list A :=
  match val with [x] => repeat x n | _ => val end.

Definition positions (n : nat) (idx : option (list nat)) : list nat :=
  match idx with None => seq 0 n | Some l => l end.

(* ------------------------------------------------------------------ complex numbers over Q *)

Definition C : Type := (Q * Q)%type.
Definition c0 : C := (0, 0).
Definition creal (x : Q) : C := (x, 0).
Definition cadd (a b : C) : C := (fst a + fst b, snd a + snd b).
Definition csub (a b : C) : C := (fst a - fst b, snd a - snd b).
Definition cmul (a b : C) : C := (fst a * fst b - snd a * snd b, fst a * snd b + snd a * fst b).
Definition cdivr (a b : C) : C := (fst a / fst b, snd a / fst b).   (* division by a real *)
Definition csnd (a b : C) : C := b.
Definition ceqb (a b : C) : bool := Qeq_bool (fst a) (fst b) && Qeq_bool (snd a) (snd b).

(* compact literals used by the generated case files *)
Definition crd (d : positive) (l : list Z) : list C := map (fun z => (z # d, 0)) l.
Definition ccd (d : positive) (l : list (Z * Z)) : list C := map (fun p => (fst p # d, snd p # d)) l.
Definition qd (d : positive) (l : list Z) : list Q := map (fun z => z # d) l.
Definition vqd (d : positive) (l : list Z) : val := VL (map (fun z => VQ (z # d)) l).
Definition nl (l : list Z) : list nat := map Z.to_nat l.
Definition lay (l : list (Z * Z)) : list (nat * nat) := map (fun p => (Z.to_nat (fst p), Z.to_nat (snd p))) l.

(* asarray(): the whole array under complex step, otherwise its real part (self._data.real).
   An in-place operation through that view therefore touches only the real part when the
   vector is not under complex step. *)
Definition lift (cs : bool) (f : C -> C -> C) (old v : C) : C :=
  if cs then f old v else (fst (f (fst old, 0) (fst v, 0)), snd old).

Definition asarray (cs : bool) (d : list C) : list C :=
  if cs then d else map (fun z => (fst z, 0)) d.

(* data[idxs] <op>= val   (NumPy: gather, compute, scatter) *)
Definition idx_op (g : C -> C -> C) (d : list C) (idx : option (list nat)) (val : list C) : list C :=
  let pos := positions (length d) idx in
  scatter d pos (map2 g (gather c0 d pos) (bcast val (length pos))).

Definition cdot (a b : list C) : C := fold_left cadd (map2 cmul a b) c0.
Definition norm2 (a : list C) : Q :=
  fold_left Qplus (map (fun z => fst z * fst z + snd z * snd z) a) 0.

(* np.linalg.norm returns the correctly rounded square root r of the exactly computed sum of
   squares n (integer data): r is accepted when n lies between the squares of r's neighbours. *)
Definition norm_ok (n r : Q) : bool :=
  let e := 1 # 4503599627370496 in   (* 2^-52 *)
  Qle_bool 0 r && Qle_bool ((r * (1 - e)) * (r * (1 - e))) n && Qle_bool n ((r * (1 + e)) * (r * (1 + e))).

(* ------------------------------------------------------------------ layouts and views *)

(* (variable id, size) in the order of system._name_shape_iter *)
Definition layout := list (nat * nat).

Definition total (lay : layout) : nat := fold_right (fun p acc => (snd p + acc)%nat) O lay.

(* DefaultVector._initialize_data: start = end = 0; for each name: end += size; range = (start,end); start = end *)
Fixpoint ranges_from (start : nat) (lay : layout) : list (nat * (nat * nat)) :=
  match lay with
  | [] => []
  | (nm, sz) :: t => (nm, (start, (start + sz)%nat)) :: ranges_from (start + sz)%nat t
  end.
Definition ranges (lay : layout) := ranges_from 0 lay.

Fixpoint lookup (nm : nat) (rs : list (nat * (nat * nat))) : option (nat * nat) :=
  match rs with
  | [] => None
  | (k, r) :: t => if Nat.eqb k nm then Some r else lookup nm t
  end.
Definition range_of (lay : layout) (nm : nat) : option (nat * nat) := lookup nm (ranges lay).

(* offset of a child vector inside its parent: the start of the child's FIRST name in the
   parent's views; the child covers [start, start + total child).  A child without variables
   gets a fresh empty array. *)
Definition child_off (parent child : layout) : nat :=
  match child with
  | [] => O
  | (nm, _) :: _ => match range_of parent nm with Some r => fst r | None => O end
  end.

(* chain of layouts from the root vector down to the vector operated on; the views nest *)
Fixpoint chain_off (parent : layout) (rest : list layout) : nat :=
  match rest with
  | [] => O
  | c :: rest' => (child_off parent c + chain_off c rest')%nat
  end.
Fixpoint chain_last (parent : layout) (rest : list layout) : layout :=
  match rest with [] => parent | c :: rest' => chain_last c rest' end.

Record handle := mkH { h_root : layout; h_rest : list layout }.
Definition h_off (h : handle) : nat := chain_off (h_root h) (h_rest h).
Definition h_lay (h : handle) : layout := chain_last (h_root h) (h_rest h).
Definition h_len (h : handle) : nat := total (h_lay h).

(* the vector's own array as a view of the root array *)
Definition vdata (h : handle) (root : list C) : list C := slice (h_off h) (h_len h) root.
Definition vwrite (h : handle) (new root : list C) : list C := splice (h_off h) new root.

(* ------------------------------------------------------------------ scaling *)

Definition sc_sub (cs : bool) (d : list C) (a : list Q) := map2 (lift cs csub) d (map creal a).
Definition sc_add (cs : bool) (d : list C) (a : list Q) := map2 (lift cs cadd) d (map creal a).
Definition sc_mul (cs : bool) (d : list C) (s : list Q) := map2 (lift cs cmul) d (map creal s).
Definition sc_div (cs : bool) (d : list C) (s : list Q) := map2 (lift cs cdivr) d (map creal s).

(* _scale_forward: data -= adder (if any); data /= scaler *)
Definition scale_forward (cs : bool) (d : list C) (scaler : list Q) (adder : option (list Q)) : list C :=
  sc_div cs (match adder with Some a => sc_sub cs d a | None => d end) scaler.
(* _scale_reverse: data *= scaler; data += adder (if any) *)
Definition scale_reverse (cs : bool) (d : list C) (scaler : list Q) (adder : option (list Q)) : list C :=
  let d1 := sc_mul cs d scaler in
  match adder with Some a => sc_add cs d1 a | None => d1 end.

(* scale_to_norm / scale_to_phys; [nl] = self._nlvec._scaling[0] *)
Definition scale_to_norm (cs rev solver_ref : bool) (d : list C) (sc : list Q) (ad : option (list Q))
           (nl : list Q) : list C :=
  if rev then scale_reverse cs d sc ad
  else if solver_ref then scale_forward cs d nl None else scale_forward cs d sc ad.
Definition scale_to_phys (cs rev solver_ref : bool) (d : list C) (sc : list Q) (ad : option (list Q))
           (nl : list Q) : list C :=
  if rev then scale_forward cs d sc ad
  else if solver_ref then scale_reverse cs d nl None else scale_reverse cs d sc ad.

(* _set_scaling for a root vector.  A factor entry of variable nm for this kind:
   (a0, a1, Some (factor, offset)) or (a0, a1, None); a0/a1 are scalars (one element) or arrays. *)
Definition factor_t : Type := (list Q * list Q * option (Q * Q))%type.

Definition fill (arr : list Q) (r : nat * nat) (v : list Q) : list Q :=
  splice (fst r) (bcast v (snd r - fst r)) arr.

Definition scale01 (islinear isinput : bool) (f : factor_t) : option (list Q) * list Q :=
  let a0 := fst (fst f) in let a1 := snd (fst f) in
  match snd f with
  | Some (factor, offset) =>
      if islinear then (None, map (fun x => factor / x) a1)
      else (Some (map (fun x => (x + offset) * factor)
                      (* (a0 + offset) * factor, a0 broadcast against a1 when one is an array *) a0),
            map (fun x => x * factor) a1)
  | None =>
      if islinear && isinput then (None, map (fun x => 1 / x) a1)
      else (Some a0, a1)
  end.

Fixpoint set_scaling_loop (islinear isinput : bool) (rs : list (nat * (nat * nat)))
         (factors : list (nat * factor_t)) (scaler : list Q) (adder : option (list Q))
  : list Q * option (list Q) :=
  match rs with
  | [] => (scaler, adder)
  | (nm, r) :: t =>
      let cur :=
        match find (fun p => Nat.eqb (fst p) nm) factors with
        | Some (_, f) =>
            let s01 := scale01 islinear isinput f in
            (fill scaler r (snd s01),
             match adder with
             | Some ad => Some (match fst s01 with Some s0 => fill ad r s0 | None => ad end)
             | None => None
             end)
        | None => (scaler, adder)
        end in
      set_scaling_loop islinear isinput t factors (fst cur) (snd cur)
  end.

(* nonlinear root: (ones, zeros if do_adder);  linear root: (ones, None) when has_solver_ref, else it
   SHARES the nonlinear scaler array (so the loop writes into that array) *)
Definition set_scaling_nl (isinput do_adder : bool) (lay : layout) (factors : list (nat * factor_t)) :=
  set_scaling_loop false isinput (ranges lay) factors (repeat 1 (total lay))
                   (if do_adder then Some (repeat 0 (total lay)) else None).
Definition set_scaling_ln (isinput solver_ref : bool) (lay : layout) (factors : list (nat * factor_t))
           (nl_scaler : list Q) :=
  set_scaling_loop true isinput (ranges lay) factors
                   (if solver_ref then repeat 1 (total lay) else nl_scaler) None.

(* ------------------------------------------------------------------ operations *)

Inductive binop := BAdd | BSub | BMul.
Definition binf (k : binop) : C -> C -> C :=
  match k with BAdd => cadd | BSub => csub | BMul => cmul end.

(* another vector used as an operand: its slot, handle and its own complex-step flag *)
Record vref := mkV { v_slot : nat; v_h : handle; v_cs : bool }.

Inductive op :=
| OSetVal (val : list C) (idx : option (list nat))              (* set_val: writes self._data (both parts) *)
| OIdx (k : binop) (val : list C) (idx : option (list nat))     (* iadd / isub / imul *)
| OInplVal (k : binop) (val : list C)                           (* vec += array/scalar, -=, *= *)
| OInplVec (k : binop) (o : vref)                               (* vec += Vector, -=, *= *)
| OAddScalVec (c : C) (o : vref)
| OSetVec (o : vref)
| ODot (o : vref)
| ONorm (r : Q)                                                 (* r = value returned by get_norm() *)
| OGet (nm : nat)                                               (* _abs_get_val / __getitem__ / get_val *)
| OAbsSet (nm : nat) (val : list C) (idx : option (list nat))   (* _abs_set_val: through asarray-like view *)
| OSetVar (nm : nat) (val : list C) (idx : option (list nat))   (* set_var / __setitem__: writes _data views *)
| OGetSlice (a b : nat)
| OAddToSlice (a b : nat) (val : list C)
| OSetVals (vals : list (list C))                               (* set_vals: vinfo.flat[:] = val *)
| OScale (to_norm rev solver_ref : bool).

Record step := mkS { s_slot : nat; s_h : handle; s_cs : bool; s_op : op }.

(* six root arrays: slot = 2*kind + (0 nonlinear | 1 linear), kind = 0 input, 1 output, 2 residual;
   per slot the root scaling arrays *)
Record state := mkSt { st_data : list (list C); st_scal : list (list Q * option (list Q)) }.

Definition slot_data (st : state) (s : nat) : list C := nth s (st_data st) [].
Definition slot_scal (st : state) (s : nat) := nth s (st_scal st) ([], None).
Definition put_slot (st : state) (s : nat) (d : list C) : state :=
  mkSt (set_nth (st_data st) s d) (st_scal st).

Definition other (st : state) (o : vref) : list C :=
  asarray (v_cs o) (vdata (v_h o) (slot_data st (v_slot o))).

Definition name_range (h : handle) (nm : nat) : nat * nat :=
  match range_of (h_lay h) nm with Some r => r | None => (O, O) end.

Definition range_idx (r : nat * nat) (n : nat) (idx : option (list nat)) : option (list nat) :=
  Some (map (fun i => (fst r + i)%nat) (positions n idx)).

Fixpoint set_vals_loop (rs : list (nat * (nat * nat))) (vals : list (list C)) (d : list C) : list C :=
  match rs, vals with
  | (_, r) :: rs', v :: vals' =>
      set_vals_loop rs' vals' (idx_op csnd d (range_idx r (snd r - fst r) None) v)
  | _, _ => d
  end.

(* new own-array of the vector (given its present own-array d) and the observed value *)
Definition op_on (st : state) (s : step) (d : list C) : list C * val :=
  let h := s_h s in
  let cs := s_cs s in
  let vc (l : list C) := VL [vqs (map fst l); vqs (map snd l)] in
  match s_op s with
  | OSetVal v idx => (idx_op csnd d idx v, VN)
  | OIdx k v idx => (idx_op (lift cs (binf k)) d idx v, VN)
  | OInplVal k v => (idx_op (lift cs (binf k)) d None v, VN)
  | OInplVec k o => (idx_op (lift cs (binf k)) d None (other st o), VN)
  | OAddScalVec c o => (idx_op (lift cs cadd) d None (map (cmul c) (other st o)), VN)
  | OSetVec o => (idx_op csnd d None (other st o), VN)
  | ODot o => (d, let z := cdot (asarray cs d) (other st o) in VL [VQ (fst z); VQ (snd z)])
  | ONorm r => (d, VB (norm_ok (norm2 (asarray cs d)) r))
  | OGet nm => (d, let r := name_range h nm in vc (asarray cs (slice (fst r) (snd r - fst r) d)))
  | OAbsSet nm v idx =>
      let r := name_range h nm in
      (idx_op (lift cs csnd) d (range_idx r (snd r - fst r) idx) v, VN)
  | OSetVar nm v idx =>
      let r := name_range h nm in
      (idx_op csnd d (range_idx r (snd r - fst r) idx) v, VN)
  | OGetSlice a b => (d, vc (slice a (b - a) (asarray cs d)))
  | OAddToSlice a b v => (idx_op (lift cs cadd) d (Some (seq a (b - a))) v, VN)
  | OSetVals vals => (set_vals_loop (ranges (h_lay h)) vals d, VN)
  | OScale to_norm rev sref =>
      let sa := slot_scal st (s_slot s) in
      let cut (l : list Q) := slice (h_off h) (h_len h) l in
      let sc := cut (fst sa) in
      let ad := match snd sa with Some a => Some (cut a) | None => None end in
      let nl := cut (fst (slot_scal st (s_slot s - 1))) in
      ((if to_norm then scale_to_norm else scale_to_phys) cs rev sref d sc ad nl, VN)
  end.

Definition do_op (st : state) (s : step) : list C * val :=
  op_on st s (vdata (s_h s) (slot_data st (s_slot s))).

(* operations that involve no other vector and no scaling array *)
Definition is_local (o : op) : bool :=
  match o with
  | OSetVal _ _ | OIdx _ _ _ | OInplVal _ _ | ONorm _ | OGet _ | OAbsSet _ _ _ | OSetVar _ _ _
  | OGetSlice _ _ | OAddToSlice _ _ _ | OSetVals _ => true
  | _ => false
  end.

Definition obs_data (d : list C) : val :=
  VL [vqs (map fst d); if forallb (fun z => Qeq_bool (snd z) 0) d then VL [] else vqs (map snd d)].

Definition run_step (st : state) (s : step) : state * val :=
  let r := do_op st s in
  let root' := vwrite (s_h s) (fst r) (slot_data st (s_slot s)) in
  let st' := put_slot st (s_slot s) root' in
  (st', VL [snd r; obs_data (vdata (s_h s) root')]).

Fixpoint run_steps (st : state) (ss : list step) : state * list val :=
  match ss with
  | [] => (st, [])
  | s :: ss' =>
      let r := run_step st s in
      let r' := run_steps (fst r) ss' in
      (fst r', snd r :: snd r')
  end.

(* the value compared with the implementation: observation after every step, all six arrays at the end *)
Definition run (st : state) (ss : list step) : val :=
  let r := run_steps st ss in
  VL [VL (snd r); VL (map obs_data (st_data (fst r)))].

(* observation of _set_scaling on the three kinds: nonlinear (scaler, adder) and linear scaler *)
Definition vqo (o : option (list Q)) : val := match o with Some l => vqs l | None => VN end.
Definition run_set_scaling (isinput do_adder solver_ref : bool) (lay : layout)
           (factors : list (nat * factor_t)) : val :=
  let nl := set_scaling_nl isinput do_adder lay factors in
  let ln := set_scaling_ln isinput solver_ref lay factors (fst nl) in
  VL [vqs (if solver_ref then fst nl else fst ln); vqo (snd nl); vqs (fst ln)].
