(* C33 — proofs about the vector model. *)
From Coq Require Import ZArith QArith List Bool Lia Arith Qfield.
From OMV Require Import Base.Val C33.Model.
Import ListNotations.

(* ------------------------------------------------------------------ lists *)

Section Lists.
Context {A : Type}.

Lemma length_set_nth : forall (l : list A) i x, length (set_nth l i x) = length l.
Proof. induction l; destruct i; simpl; auto. Qed.

Lemma nth_set_nth_eq : forall (l : list A) i x d, (i < length l)%nat -> nth i (set_nth l i x) d = x.
Proof. induction l; destruct i; simpl; intros; auto; try lia. apply IHl; lia. Qed.

Lemma nth_set_nth_neq : forall (l : list A) i j x d, i <> j -> nth j (set_nth l i x) d = nth j l d.
Proof.
  induction l; destruct i; destruct j; simpl; intros; auto; try lia.
Qed.

Lemma length_scatter : forall idx (l vals : list A), length (scatter l idx vals) = length l.
Proof.
  induction idx; intros; simpl; auto. destruct vals; auto. rewrite IHidx. apply length_set_nth.
Qed.

Lemma scatter_outside : forall idx (l vals : list A) j d,
    ~ In j idx -> nth j (scatter l idx vals) d = nth j l d.
Proof.
  induction idx; intros; simpl; auto. destruct vals; auto.
  rewrite IHidx by (intro; apply H; right; auto).
  apply nth_set_nth_neq. intro; apply H; left; auto.
Qed.

Lemma scatter_inside : forall idx (l vals : list A) k d dn,
    NoDup idx -> (forall i, In i idx -> (i < length l)%nat) -> length vals = length idx ->
    (k < length idx)%nat ->
    nth (nth k idx dn) (scatter l idx vals) d = nth k vals d.
Proof.
  induction idx; intros l vals k d dn ND B LEN K; simpl in *; try lia.
  destruct vals as [|v vals]; simpl in *; try lia.
  inversion ND; subst.
  destruct k.
  - rewrite scatter_outside by auto. apply nth_set_nth_eq. apply B; auto.
  - apply IHidx; auto; try lia.
    intros; rewrite length_set_nth; apply B; auto.
Qed.

Lemma skipn_skipn' : forall a b (l : list A), skipn a (skipn b l) = skipn (b + a) l.
Proof.
  intros a b; revert a. induction b; intros; simpl; auto. destruct l; simpl; auto. destruct a; auto.
Qed.

Lemma nth_skipn' : forall off (l : list A) i d, nth i (skipn off l) d = nth (off + i) l d.
Proof. induction off; intros; simpl; auto. destruct l; simpl; auto. destruct i; auto. Qed.

Lemma nth_firstn' : forall len (l : list A) i d, (i < len)%nat -> nth i (firstn len l) d = nth i l d.
Proof.
  induction len; intros; try lia. destruct l; simpl; auto. destruct i; auto. apply IHlen; lia.
Qed.

Lemma length_slice : forall off len (l : list A), (off + len <= length l)%nat -> length (slice off len l) = len.
Proof. intros. unfold slice. rewrite firstn_length, skipn_length. lia. Qed.

Lemma length_splice : forall off (new l : list A),
    (off + length new <= length l)%nat -> length (splice off new l) = length l.
Proof.
  intros. unfold splice. rewrite !app_length, firstn_length, skipn_length. lia.
Qed.

Lemma slice_splice : forall off (new l : list A),
    (off + length new <= length l)%nat -> slice off (length new) (splice off new l) = new.
Proof.
  intros. unfold slice, splice.
  rewrite skipn_app, skipn_firstn_comm, firstn_length.
  replace (off - off)%nat with O by lia. simpl.
  replace (off - Nat.min off (length l))%nat with O by lia. simpl.
  rewrite firstn_app, firstn_all, Nat.sub_diag. simpl. apply app_nil_r.
Qed.

Lemma splice_slice_id : forall off len (l : list A),
    (off + len <= length l)%nat -> splice off (slice off len l) l = l.
Proof.
  intros. unfold splice. rewrite length_slice by auto. unfold slice.
  rewrite <- (firstn_skipn off l) at 4. f_equal.
  rewrite <- (firstn_skipn len (skipn off l)) at 2. f_equal.
  rewrite skipn_skipn'. f_equal.
Qed.

Lemma nth_splice_outside : forall off (new l : list A) i d,
    (off + length new <= length l)%nat -> (i < off \/ off + length new <= i)%nat ->
    nth i (splice off new l) d = nth i l d.
Proof.
  intros off new l i d B H. unfold splice. destruct H.
  - rewrite app_nth1 by (rewrite firstn_length; lia).
    rewrite <- (firstn_skipn off l) at 2. rewrite app_nth1 by (rewrite firstn_length; lia). auto.
  - rewrite app_nth2 by (rewrite firstn_length; lia). rewrite firstn_length.
    rewrite app_nth2 by lia. rewrite nth_skipn'. f_equal. lia.
Qed.

Lemma nth_splice_inside : forall off (new l : list A) i d,
    (off + length new <= length l)%nat -> (i < length new)%nat ->
    nth (off + i) (splice off new l) d = nth i new d.
Proof.
  intros. unfold splice.
  rewrite app_nth2 by (rewrite firstn_length; lia). rewrite firstn_length.
  rewrite app_nth1 by lia. f_equal. lia.
Qed.

Lemma nth_slice : forall off len (l : list A) i d,
    (i < len)%nat -> nth i (slice off len l) d = nth (off + i) l d.
Proof.
  intros. unfold slice. rewrite nth_firstn' by auto. apply nth_skipn'.
Qed.

(* a view of a view is a view: slices compose by adding offsets *)
Lemma slice_slice : forall o1 l1 o2 l2 (l : list A),
    (o2 + l2 <= l1)%nat -> slice o2 l2 (slice o1 l1 l) = slice (o1 + o2) l2 l.
Proof.
  intros. unfold slice. rewrite skipn_firstn_comm, firstn_firstn, skipn_skipn'.
  f_equal. lia.
Qed.

End Lists.

Lemma length_map2 : forall {A B D} (f : A -> B -> D) a b, length (map2 f a b) = Nat.min (length a) (length b).
Proof. induction a; destruct b; simpl; auto. Qed.

Lemma nth_map2 : forall {A B D} (f : A -> B -> D) a b k da db dd,
    (k < length a)%nat -> (k < length b)%nat -> nth k (map2 f a b) dd = f (nth k a da) (nth k b db).
Proof.
  induction a; destruct b; simpl; intros; try lia. destruct k; auto. apply IHa; lia.
Qed.

(* ------------------------------------------------------------------ element operations *)

Lemma nth_map_lt : forall {A B} (f : A -> B) l k da db,
    (k < length l)%nat -> nth k (map f l) db = f (nth k l da).
Proof. induction l; simpl; intros; try lia. destruct k; auto. apply IHl; lia. Qed.

Lemma idx_op_length : forall g d idx val, length (idx_op g d idx val) = length d.
Proof. intros. unfold idx_op. apply length_scatter. Qed.

(* positions not addressed keep their value — whatever the index list (duplicates included) *)
Lemma idx_op_outside : forall g d pos val j,
    ~ In j pos -> nth j (idx_op g d (Some pos) val) c0 = nth j d c0.
Proof. intros. unfold idx_op. simpl. apply scatter_outside; auto. Qed.

(* NumPy semantics of  data[pos] <op>= val  for an index list without repetitions *)
Lemma idx_op_inside : forall g d pos val k,
    NoDup pos -> (forall i, In i pos -> (i < length d)%nat) ->
    length (bcast val (length pos)) = length pos -> (k < length pos)%nat ->
    nth (nth k pos O) (idx_op g d (Some pos) val) c0
    = g (nth (nth k pos O) d c0) (nth k (bcast val (length pos)) c0).
Proof.
  intros. unfold idx_op. simpl.
  rewrite scatter_inside with (dn := O); auto.
  - rewrite nth_map2 with (da := c0) (db := c0).
    + unfold gather. f_equal. apply (nth_map_lt (fun i => nth i d c0) pos k O c0). auto.
    + unfold gather. rewrite map_length. auto.
    + lia.
  - rewrite length_map2. unfold gather. rewrite map_length. lia.
Qed.

Lemma seq_nth_k : forall n k, (k < n)%nat -> nth k (seq 0 n) O = k.
Proof. intros. rewrite seq_nth; auto. Qed.

(* with the full slice the operation is the elementwise one on the whole array *)
Lemma idx_op_full : forall g d val k,
    length (bcast val (length d)) = length d -> (k < length d)%nat ->
    nth k (idx_op g d None val) c0 = g (nth k d c0) (nth k (bcast val (length d)) c0).
Proof.
  intros g d val k L K.
  pose proof (idx_op_inside g d (seq 0 (length d)) val k) as H.
  rewrite seq_length in H. rewrite seq_nth_k in H by auto.
  unfold idx_op in *. simpl in *. rewrite seq_length in *.
  apply H; auto. apply seq_NoDup. intros i Hi. apply in_seq in Hi. lia.
Qed.

(* ------------------------------------------------------------------ layouts: named views *)

Definition names (lay : layout) : list nat := map fst lay.

Lemma lookup_ranges_from : forall pre s nm sz post,
    ~ In nm (names pre) ->
    lookup nm (ranges_from s (pre ++ (nm, sz) :: post)) = Some ((s + total pre)%nat, (s + total pre + sz)%nat).
Proof.
  induction pre as [|[k z] pre IH]; intros s nm sz post NI; simpl.
  - rewrite Nat.eqb_refl. f_equal. f_equal; lia.
  - simpl in NI. destruct (Nat.eqb_spec k nm); [exfalso; apply NI; auto|].
    rewrite IH by (intro; apply NI; auto). f_equal. f_equal; lia.
Qed.

(* the view of a variable starts after all variables declared before it and has its size *)
Lemma range_of_split : forall pre nm sz post,
    ~ In nm (names pre) ->
    range_of (pre ++ (nm, sz) :: post) nm = Some (total pre, (total pre + sz)%nat).
Proof. intros. unfold range_of, ranges. rewrite lookup_ranges_from; auto. Qed.

Lemma total_app : forall a b, total (a ++ b) = (total a + total b)%nat.
Proof. induction a as [|[k z] a IH]; simpl; intros; auto. rewrite IH. lia. Qed.

Lemma names_app : forall a b, names (a ++ b) = names a ++ names b.
Proof. intros; unfold names; apply map_app. Qed.

Lemma NoDup_app_l : forall {A} (a b : list A), NoDup (a ++ b) -> NoDup a.
Proof.
  induction a; intros; [constructor|]. simpl in H. inversion H; subst. constructor.
  - intro; apply H2; apply in_or_app; auto.
  - eapply IHa; eauto.
Qed.

Lemma NoDup_app_r : forall {A} (a b : list A), NoDup (a ++ b) -> NoDup b.
Proof. induction a; intros; auto. simpl in H. inversion H; subst. auto. Qed.

Lemma range_of_in : forall lay nm r, range_of lay nm = Some r -> In nm (names lay).
Proof.
  intros lay nm r. unfold range_of, ranges. generalize O.
  induction lay as [|[k z] lay IH]; simpl; intros s H; [discriminate|].
  destruct (Nat.eqb_spec k nm); auto. right. eapply IH; eauto.
Qed.

(* named views are disjoint, consecutive and inside the array *)
Lemma range_of_bounds : forall lay nm r, NoDup (names lay) -> range_of lay nm = Some r ->
    (fst r <= snd r /\ snd r <= total lay)%nat.
Proof.
  intros lay nm r ND H.
  pose proof (range_of_in _ _ _ H) as IN.
  unfold names in IN. apply in_map_iff in IN. destruct IN as [[k sz] [E IN]]. simpl in E; subst k.
  apply in_split in IN. destruct IN as [pre [post E]]. subst lay.
  rewrite names_app in ND. simpl in ND. apply NoDup_remove_2 in ND.
  rewrite range_of_split in H by (intro; apply ND; apply in_or_app; auto).
  inversion H; subst; simpl. rewrite total_app. simpl. lia.
Qed.

Lemma ranges_disjoint : forall lay n1 n2 r1 r2,
    NoDup (names lay) -> n1 <> n2 -> range_of lay n1 = Some r1 -> range_of lay n2 = Some r2 ->
    (snd r1 <= fst r2 \/ snd r2 <= fst r1)%nat.
Proof.
  intros lay n1 n2 r1 r2 ND NE H1 H2.
  pose proof (range_of_in _ _ _ H1) as I1. pose proof (range_of_in _ _ _ H2) as I2.
  unfold names in I1. apply in_map_iff in I1. destruct I1 as [[k sz1] [E I1]]. simpl in E; subst k.
  apply in_split in I1. destruct I1 as [pre [post E]]. subst lay.
  rewrite names_app in ND. simpl in ND.
  pose proof (NoDup_remove_2 _ _ _ ND) as NI.
  rewrite range_of_split in H1 by (intro; apply NI; apply in_or_app; auto).
  inversion H1; subst r1; clear H1. simpl.
  rewrite names_app in I2. simpl in I2.
  apply in_app_or in I2. destruct I2 as [I2|[I2|I2]]; [|congruence|].
  - (* n2 before n1 *)
    unfold names in I2. apply in_map_iff in I2. destruct I2 as [[k sz2] [E I2]]. simpl in E; subst k.
    apply in_split in I2. destruct I2 as [p1 [p2 E]]. subst pre.
    rewrite <- app_assoc in H2. simpl in H2.
    rewrite range_of_split in H2.
    + inversion H2; subst r2. simpl. rewrite total_app. simpl. lia.
    + apply NoDup_remove_1 in ND. rewrite names_app in ND. simpl in ND.
      rewrite <- app_assoc in ND. simpl in ND. apply NoDup_remove_2 in ND.
      intro; apply ND; apply in_or_app; auto.
  - (* n2 after n1 *)
    unfold names in I2. apply in_map_iff in I2. destruct I2 as [[k sz2] [E I2]]. simpl in E; subst k.
    apply in_split in I2. destruct I2 as [p1 [p2 E]]. subst post.
    replace (pre ++ (n1, sz1) :: p1 ++ (n2, sz2) :: p2) with ((pre ++ (n1, sz1) :: p1) ++ (n2, sz2) :: p2) in H2
      by (rewrite <- app_assoc; reflexivity).
    rewrite range_of_split in H2.
    + inversion H2; subst r2. simpl. rewrite total_app. simpl. lia.
    + replace (names pre ++ n1 :: names (p1 ++ (n2, sz2) :: p2)) with
          ((names pre ++ n1 :: names p1) ++ n2 :: names p2) in ND
        by (rewrite names_app; simpl; rewrite <- app_assoc; reflexivity).
      apply NoDup_remove_2 in ND. rewrite names_app. simpl.
      intro X; apply ND. apply in_or_app. left. exact X.
Qed.

(* the vector of a sub-system whose variables are a contiguous run of its parent's variables
   starts where that run starts, and each of its named views is the parent's view shifted *)
Lemma child_off_split : forall pre child post,
    NoDup (names (pre ++ child ++ post)) -> child <> [] ->
    child_off (pre ++ child ++ post) child = total pre.
Proof.
  intros pre child post ND NE. destruct child as [|[nm sz] child]; [congruence|].
  unfold child_off. simpl app.
  rewrite range_of_split; auto.
  rewrite names_app in ND. simpl in ND. apply NoDup_remove_2 in ND.
  intro; apply ND; apply in_or_app; auto.
Qed.

Lemma child_range_shift : forall pre child post nm r,
    NoDup (names (pre ++ child ++ post)) ->
    range_of child nm = Some r ->
    range_of (pre ++ child ++ post) nm
    = Some ((child_off (pre ++ child ++ post) child + fst r)%nat,
            (child_off (pre ++ child ++ post) child + snd r)%nat).
Proof.
  intros pre child post nm r ND H.
  assert (NE : child <> []) by (intro; subst; discriminate).
  rewrite child_off_split by auto.
  pose proof (range_of_in _ _ _ H) as IN.
  unfold names in IN. apply in_map_iff in IN. destruct IN as [[k sz] [E IN]]. simpl in E; subst k.
  apply in_split in IN. destruct IN as [c1 [c2 E]]. subst child.
  assert (NDc : ~ In nm (names c1)).
  { rewrite !names_app in ND. apply NoDup_app_r in ND. apply NoDup_app_l in ND.
    simpl in ND. apply NoDup_remove_2 in ND. intro; apply ND; apply in_or_app; auto. }
  rewrite range_of_split in H by auto. inversion H; subst r; simpl.
  replace (pre ++ (c1 ++ (nm, sz) :: c2) ++ post) with ((pre ++ c1) ++ (nm, sz) :: (c2 ++ post))
    by (rewrite <- !app_assoc; reflexivity).
  rewrite range_of_split.
  - rewrite total_app. f_equal. f_equal; lia.
  - replace (pre ++ (c1 ++ (nm, sz) :: c2) ++ post) with ((pre ++ c1) ++ (nm, sz) :: (c2 ++ post)) in ND
      by (rewrite <- !app_assoc; reflexivity).
    rewrite names_app in ND. simpl in ND. apply NoDup_remove_2 in ND.
    intro; apply ND; apply in_or_app; auto.
Qed.

(* nested chain: every level is a contiguous run of the level above *)
Inductive nested : layout -> list layout -> Prop :=
| nested_nil : forall p, nested p []
| nested_cons : forall pre c post rest,
    NoDup (names (pre ++ c ++ post)) -> nested c rest -> nested (pre ++ c ++ post) (c :: rest).

Lemma NoDup_names_mid : forall pre c post, NoDup (names (pre ++ c ++ post)) -> NoDup (names c).
Proof.
  intros. rewrite !names_app in H. apply NoDup_app_r in H. apply NoDup_app_l in H. auto.
Qed.

(* the named view of a variable through a vector at any depth is the root's view of that variable *)
Lemma chain_range_shift : forall rest root nm r,
    nested root rest -> NoDup (names root) ->
    range_of (chain_last root rest) nm = Some r ->
    range_of root nm = Some ((chain_off root rest + fst r)%nat, (chain_off root rest + snd r)%nat).
Proof.
  induction rest as [|c rest IH]; intros root nm r N ND H; simpl in *.
  - rewrite H. destruct r; reflexivity.
  - inversion N as [|pre c' post rest' NDp Nc]; subst.
    pose proof (IH c nm r Nc (NoDup_names_mid _ _ _ NDp) H) as Hc.
    pose proof (child_range_shift pre c post nm _ NDp Hc) as Hp. simpl in Hp.
    rewrite Hp. f_equal. f_equal; lia.
Qed.

(* sub-vector extent stays inside the root array *)
Lemma chain_extent : forall rest root,
    nested root rest -> NoDup (names root) ->
    (chain_off root rest + total (chain_last root rest) <= total root)%nat.
Proof.
  induction rest as [|c rest IH]; intros root N ND; simpl; [lia|].
  inversion N as [|pre c' post rest' NDp Nc]; subst.
  pose proof (IH c Nc (NoDup_names_mid _ _ _ NDp)) as B.
  destruct c as [|x c'].
  - destruct rest; simpl in *; lia.
  - rewrite child_off_split by (auto; congruence).
    rewrite !total_app. lia.
Qed.

(* ------------------------------------------------------------------ sub-vector = slice of root *)

Definition wf_handle (h : handle) (root : list C) : Prop := (h_off h + h_len h <= length root)%nat.

Lemma vdata_vwrite : forall h new root,
    wf_handle h root -> length new = h_len h -> vdata h (vwrite h new root) = new.
Proof.
  intros. unfold vdata, vwrite. rewrite <- H0. apply slice_splice. unfold wf_handle in H. lia.
Qed.

Lemma vwrite_outside : forall h new root i,
    wf_handle h root -> length new = h_len h -> (i < h_off h \/ h_off h + h_len h <= i)%nat ->
    nth i (vwrite h new root) c0 = nth i root c0.
Proof.
  intros. unfold vwrite. apply nth_splice_outside; unfold wf_handle in *; lia.
Qed.

Lemma vwrite_length : forall h new root,
    wf_handle h root -> length new = h_len h -> length (vwrite h new root) = length root.
Proof. intros. unfold vwrite. apply length_splice. unfold wf_handle in *; lia. Qed.

Lemma vwrite_vdata_id : forall h root, wf_handle h root -> vwrite h (vdata h root) root = root.
Proof. intros. unfold vwrite, vdata. apply splice_slice_id. auto. Qed.

Lemma set_vals_loop_length : forall rs vals d, length (set_vals_loop rs vals d) = length d.
Proof.
  induction rs as [|[k r] rs IH]; intros; simpl; auto. destruct vals; auto.
  rewrite IH. apply idx_op_length.
Qed.

Lemma op_on_local_length : forall st s d,
    is_local (s_op s) = true -> length (fst (op_on st s d)) = length d.
Proof.
  intros st s d L. unfold op_on. destruct (s_op s); simpl in *; try discriminate;
    auto using idx_op_length, set_vals_loop_length.
Qed.

Lemma op_on_local_indep : forall st st' s d,
    is_local (s_op s) = true -> op_on st s d = op_on st' s d.
Proof. intros. unfold op_on. destruct (s_op s); simpl in *; try discriminate; reflexivity. Qed.

Lemma slot_data_put_same : forall st s d, (s < length (st_data st))%nat -> slot_data (put_slot st s d) s = d.
Proof. intros. unfold slot_data, put_slot. simpl. apply nth_set_nth_eq. auto. Qed.

Lemma slot_data_put_other : forall st s s' d, s <> s' -> slot_data (put_slot st s d) s' = slot_data st s'.
Proof. intros. unfold slot_data, put_slot. simpl. apply nth_set_nth_neq. auto. Qed.

(* one step through a sub-vector: the sub-vector's array becomes the flat operation's result, the rest of the
   root array and every other root array are untouched *)
Lemma run_step_refines : forall st s,
    (s_slot s < length (st_data st))%nat ->
    wf_handle (s_h s) (slot_data st (s_slot s)) ->
    length (fst (do_op st s)) = h_len (s_h s) ->
    let st' := fst (run_step st s) in
    vdata (s_h s) (slot_data st' (s_slot s)) = fst (do_op st s)
    /\ (forall i, (i < h_off (s_h s) \/ h_off (s_h s) + h_len (s_h s) <= i)%nat ->
                  nth i (slot_data st' (s_slot s)) c0 = nth i (slot_data st (s_slot s)) c0)
    /\ length (slot_data st' (s_slot s)) = length (slot_data st (s_slot s))
    /\ (forall s', s' <> s_slot s -> slot_data st' s' = slot_data st s')
    /\ length (st_data st') = length (st_data st).
Proof.
  intros st s SL WF LEN. simpl. unfold run_step. simpl.
  rewrite slot_data_put_same by auto.
  repeat split.
  - apply vdata_vwrite; auto.
  - intros. apply vwrite_outside; auto.
  - apply vwrite_length; auto.
  - intros. apply slot_data_put_other; auto.
  - apply length_set_nth.
Qed.

(* any sequence of local operations through one sub-vector = the same sequence on an independent flat copy of
   its slice, written back; nothing else moves *)
Definition flat_run (st0 : state) (slot : nat) (h : handle) (cs : bool) (ops : list op) (d : list C) : list C :=
  fold_left (fun d o => fst (op_on st0 (mkS slot h cs o) d)) ops d.

Lemma ops_sequence_refines_flat : forall ops st st0 slot h cs,
    (slot < length (st_data st))%nat ->
    wf_handle h (slot_data st slot) ->
    forallb is_local ops = true ->
    let st' := fst (run_steps st (map (mkS slot h cs) ops)) in
    vdata h (slot_data st' slot) = flat_run st0 slot h cs ops (vdata h (slot_data st slot))
    /\ (forall i, (i < h_off h \/ h_off h + h_len h <= i)%nat ->
                  nth i (slot_data st' slot) c0 = nth i (slot_data st slot) c0)
    /\ length (slot_data st' slot) = length (slot_data st slot)
    /\ (forall s', s' <> slot -> slot_data st' s' = slot_data st s').
Proof.
  induction ops as [|o ops IH]; intros st st0 slot h cs SL WF LOC; cbn zeta.
  - simpl. repeat split; auto.
  - simpl in LOC. apply andb_prop in LOC. destruct LOC as [Lo Lops].
    pose (s := mkS slot h cs o).
    assert (LEN : length (fst (do_op st s)) = h_len h).
    { unfold do_op. rewrite op_on_local_length by auto. simpl.
      unfold vdata. apply length_slice. exact WF. }
    pose proof (run_step_refines st s SL WF LEN) as R. cbn zeta in R. cbn [s s_slot s_h] in R.
    destruct R as [R1 [R2 [R3 [R4 R5]]]].
    cbn [map run_steps fst snd]. fold s.
    assert (SL' : (slot < length (st_data (fst (run_step st s))))%nat) by (rewrite R5; auto).
    assert (WF' : wf_handle h (slot_data (fst (run_step st s)) slot)).
    { unfold wf_handle. rewrite R3. exact WF. }
    destruct (IH (fst (run_step st s)) st0 slot h cs SL' WF' Lops) as [I1 [I2 [I3 I4]]].
    repeat split.
    + rewrite I1. rewrite R1. unfold do_op. cbn [flat_run fold_left s s_slot s_h].
      rewrite (op_on_local_indep st st0 (mkS slot h cs o)) by auto. reflexivity.
    + intros. rewrite I2 by auto. apply R2; auto.
    + rewrite I3. auto.
    + intros. rewrite I4 by auto. apply R4; auto.
Qed.

(* ------------------------------------------------------------------ scaling round trip *)

Definition ceq (a b : C) : Prop := fst a == fst b /\ snd a == snd b.
Definition nz (x : Q) : Prop := ~ x == 0.

Lemma rt_elem_fr : forall cs (x : C) (s a : Q), nz s ->
    ceq (lift cs cadd (lift cs cmul (lift cs cdivr (lift cs csub x (creal a)) (creal s)) (creal s)) (creal a)) x.
Proof.
  intros cs [xr xi] s a NZ. unfold nz in NZ. destruct cs; unfold ceq, lift, cadd, cmul, cdivr, csub, creal; simpl; split;
    try reflexivity; field; auto.
Qed.

Lemma rt_elem_rf : forall cs (x : C) (s a : Q), nz s ->
    ceq (lift cs cdivr (lift cs csub (lift cs cadd (lift cs cmul x (creal s)) (creal a)) (creal a)) (creal s)) x.
Proof.
  intros cs [xr xi] s a NZ. unfold nz in NZ. destruct cs; unfold ceq, lift, cadd, cmul, cdivr, csub, creal; simpl; split;
    try reflexivity; field; auto.
Qed.

Lemma rt_elem_fr0 : forall cs (x : C) (s : Q), nz s ->
    ceq (lift cs cmul (lift cs cdivr x (creal s)) (creal s)) x.
Proof.
  intros cs [xr xi] s NZ. unfold nz in NZ. destruct cs; unfold ceq, lift, cmul, cdivr, creal; simpl; split;
    try reflexivity; field; auto.
Qed.

Lemma rt_elem_rf0 : forall cs (x : C) (s : Q), nz s ->
    ceq (lift cs cdivr (lift cs cmul x (creal s)) (creal s)) x.
Proof.
  intros cs [xr xi] s NZ. unfold nz in NZ. destruct cs; unfold ceq, lift, cmul, cdivr, creal; simpl; split;
    try reflexivity; field; auto.
Qed.

Definition adder_len (n : nat) (ad : option (list Q)) : Prop :=
  match ad with Some a => length a = n | None => True end.

(* reverse after forward *)
Lemma scale_reverse_forward : forall cs d sc ad,
    length sc = length d -> adder_len (length d) ad -> Forall nz sc ->
    Forall2 ceq (scale_reverse cs (scale_forward cs d sc ad) sc ad) d.
Proof.
  intros cs d sc ad. unfold scale_reverse, scale_forward, sc_add, sc_mul, sc_div, sc_sub.
  destruct ad as [a|]; simpl.
  - revert sc a. induction d as [|x d IH]; intros sc a L1 L2 NZ; destruct sc; destruct a; simpl in *;
      try discriminate; constructor.
    + apply rt_elem_fr. inversion NZ; auto.
    + apply IH; auto. inversion NZ; auto.
  - revert sc. induction d as [|x d IH]; intros sc L1 _ NZ; destruct sc; simpl in *;
      try discriminate; constructor.
    + apply rt_elem_fr0. inversion NZ; auto.
    + apply IH; auto. inversion NZ; auto.
Qed.

(* forward after reverse *)
Lemma scale_forward_reverse : forall cs d sc ad,
    length sc = length d -> adder_len (length d) ad -> Forall nz sc ->
    Forall2 ceq (scale_forward cs (scale_reverse cs d sc ad) sc ad) d.
Proof.
  intros cs d sc ad. unfold scale_reverse, scale_forward, sc_add, sc_mul, sc_div, sc_sub.
  destruct ad as [a|]; simpl.
  - revert sc a. induction d as [|x d IH]; intros sc a L1 L2 NZ; destruct sc; destruct a; simpl in *;
      try discriminate; constructor.
    + apply rt_elem_rf. inversion NZ; auto.
    + apply IH; auto. inversion NZ; auto.
  - revert sc. induction d as [|x d IH]; intros sc L1 _ NZ; destruct sc; simpl in *;
      try discriminate; constructor.
    + apply rt_elem_rf0. inversion NZ; auto.
    + apply IH; auto. inversion NZ; auto.
Qed.

(* scaling to solver units and back returns the data, in both derivative directions, with or without a
   separate solver-ref scaling array, under complex step or not, for every data / scaler / adder *)
Lemma scale_roundtrip_norm_phys : forall cs rev sref d sc ad nlv,
    length sc = length d -> length nlv = length d -> adder_len (length d) ad ->
    Forall nz sc -> Forall nz nlv ->
    Forall2 ceq (scale_to_phys cs rev sref (scale_to_norm cs rev sref d sc ad nlv) sc ad nlv) d.
Proof.
  intros. unfold scale_to_phys, scale_to_norm. destruct rev; [|destruct sref].
  - apply scale_forward_reverse; auto.
  - apply scale_reverse_forward; simpl; auto.
  - apply scale_reverse_forward; auto.
Qed.

Lemma scale_roundtrip_phys_norm : forall cs rev sref d sc ad nlv,
    length sc = length d -> length nlv = length d -> adder_len (length d) ad ->
    Forall nz sc -> Forall nz nlv ->
    Forall2 ceq (scale_to_norm cs rev sref (scale_to_phys cs rev sref d sc ad nlv) sc ad nlv) d.
Proof.
  intros. unfold scale_to_phys, scale_to_norm. destruct rev; [|destruct sref].
  - apply scale_reverse_forward; auto.
  - apply scale_forward_reverse; simpl; auto.
  - apply scale_forward_reverse; auto.
Qed.

(* ------------------------------------------------------------------ non-vacuity *)

Example layouts_nested :
  nested (lay [(0, 3); (1, 2); (2, 4); (3, 1)]%Z) [lay [(1, 2); (2, 4)]%Z; lay [(2, 4)]%Z].
Proof.
  apply (nested_cons [(0, 3)]%nat (lay [(1, 2); (2, 4)]%Z) [(3, 1)]%nat).
  - vm_compute. repeat constructor; simpl; intuition lia.
  - apply (nested_cons [(1, 2)]%nat (lay [(2, 4)]%Z) []).
    + vm_compute. repeat constructor; simpl; intuition lia.
    + constructor.
Qed.

Example roundtrip_premises_ok :
  Forall nz [2; -(1#4)] /\ adder_len 2 (Some [1; 3#2]).
Proof. split; [repeat constructor; unfold nz; intro H; vm_compute in H; discriminate | reflexivity]. Qed.

(* ------------------------------------------------------------------ _set_scaling *)

(* every factor entry fits the variable it belongs to (a0 / a1 are scalars or arrays of the variable's size) *)
Definition fits (il ii : bool) (factors : list (nat * factor_t)) (lay : layout) : Prop :=
  forall nm sz f, In (nm, sz) lay -> find (fun p => Nat.eqb (fst p) nm) factors = Some f ->
    length (bcast (snd (scale01 il ii (snd f))) sz) = sz /\
    (forall s0, fst (scale01 il ii (snd f)) = Some s0 -> length (bcast s0 sz) = sz).

Lemma fill_length : forall arr s sz v, (s + sz <= length arr)%nat -> length (bcast v sz) = sz ->
    length (fill arr (s, (s + sz)%nat) v) = length arr.
Proof.
  intros. unfold fill. simpl. replace (s + sz - s)%nat with sz by lia. apply length_splice. lia.
Qed.

Lemma fill_outside : forall arr s sz v i, (s + sz <= length arr)%nat -> length (bcast v sz) = sz ->
    (i < s \/ s + sz <= i)%nat -> nth i (fill arr (s, (s + sz)%nat) v) 0 = nth i arr 0.
Proof.
  intros. unfold fill. simpl. replace (s + sz - s)%nat with sz by lia. apply nth_splice_outside; lia.
Qed.

Lemma fill_inside : forall arr s sz v j, (s + sz <= length arr)%nat -> length (bcast v sz) = sz -> (j < sz)%nat ->
    nth (s + j) (fill arr (s, (s + sz)%nat) v) 0 = nth j (bcast v sz) 0.
Proof.
  intros. unfold fill. simpl. replace (s + sz - s)%nat with sz by lia. apply nth_splice_inside; lia.
Qed.

(* one pass of the loop body on the scaler / adder arrays *)
Definition body_sc (il ii : bool) (factors : list (nat * factor_t)) (nm : nat) (r : nat * nat) (sc : list Q) : list Q :=
  match find (fun p => Nat.eqb (fst p) nm) factors with
  | Some f => fill sc r (snd (scale01 il ii (snd f)))
  | None => sc
  end.
Definition body_ad (il ii : bool) (factors : list (nat * factor_t)) (nm : nat) (r : nat * nat) (ad : list Q) : list Q :=
  match find (fun p => Nat.eqb (fst p) nm) factors with
  | Some f => match fst (scale01 il ii (snd f)) with Some s0 => fill ad r s0 | None => ad end
  | None => ad
  end.

Lemma loop_unfold : forall il ii nm r t factors sc ad,
    set_scaling_loop il ii ((nm, r) :: t) factors sc ad
    = set_scaling_loop il ii t factors (body_sc il ii factors nm r sc)
                       (match ad with Some a => Some (body_ad il ii factors nm r a) | None => None end).
Proof.
  intros. simpl. unfold body_sc, body_ad.
  destruct (find (fun p => Nat.eqb (fst p) nm) factors) as [[k f]|]; simpl; destruct ad; reflexivity.
Qed.

Section Body.
Variables (il ii : bool) (factors : list (nat * factor_t)) (lay0 : layout).
Hypothesis F : fits il ii factors lay0.

Lemma body_sc_length : forall k sz start sc, In (k, sz) lay0 -> (start + sz <= length sc)%nat ->
    length (body_sc il ii factors k (start, (start + sz)%nat) sc) = length sc.
Proof.
  intros. unfold body_sc. destruct (find _ factors) as [f|] eqn:E; auto.
  apply fill_length; auto. apply (proj1 (F k sz f H E)).
Qed.

Lemma body_sc_outside : forall k sz start sc i, In (k, sz) lay0 -> (start + sz <= length sc)%nat ->
    (i < start \/ start + sz <= i)%nat ->
    nth i (body_sc il ii factors k (start, (start + sz)%nat) sc) 0 = nth i sc 0.
Proof.
  intros. unfold body_sc. destruct (find _ factors) as [f|] eqn:E; auto.
  apply fill_outside; auto. apply (proj1 (F k sz f H E)).
Qed.

Lemma body_sc_inside : forall k sz start sc j, In (k, sz) lay0 -> (start + sz <= length sc)%nat -> (j < sz)%nat ->
    nth (start + j) (body_sc il ii factors k (start, (start + sz)%nat) sc) 0
    = match find (fun p => Nat.eqb (fst p) k) factors with
      | Some f => nth j (bcast (snd (scale01 il ii (snd f))) sz) 0
      | None => nth (start + j) sc 0
      end.
Proof.
  intros. unfold body_sc. destruct (find _ factors) as [f|] eqn:E; auto.
  apply fill_inside; auto. apply (proj1 (F k sz f H E)).
Qed.

Lemma body_ad_length : forall k sz start a, In (k, sz) lay0 -> (start + sz <= length a)%nat ->
    length (body_ad il ii factors k (start, (start + sz)%nat) a) = length a.
Proof.
  intros. unfold body_ad. destruct (find _ factors) as [f|] eqn:E; auto.
  destruct (fst (scale01 il ii (snd f))) as [s0|] eqn:E0; auto.
  apply fill_length; auto. apply (proj2 (F k sz f H E)). auto.
Qed.

Lemma body_ad_outside : forall k sz start a i, In (k, sz) lay0 -> (start + sz <= length a)%nat ->
    (i < start \/ start + sz <= i)%nat ->
    nth i (body_ad il ii factors k (start, (start + sz)%nat) a) 0 = nth i a 0.
Proof.
  intros. unfold body_ad. destruct (find _ factors) as [f|] eqn:E; auto.
  destruct (fst (scale01 il ii (snd f))) as [s0|] eqn:E0; auto.
  apply fill_outside; auto. apply (proj2 (F k sz f H E)). auto.
Qed.

Lemma body_ad_inside : forall k sz start a j, In (k, sz) lay0 -> (start + sz <= length a)%nat -> (j < sz)%nat ->
    nth (start + j) (body_ad il ii factors k (start, (start + sz)%nat) a) 0
    = match find (fun p => Nat.eqb (fst p) k) factors with
      | Some f => match fst (scale01 il ii (snd f)) with
                  | Some s0 => nth j (bcast s0 sz) 0
                  | None => nth (start + j) a 0
                  end
      | None => nth (start + j) a 0
      end.
Proof.
  intros. unfold body_ad. destruct (find _ factors) as [f|] eqn:E; auto.
  destruct (fst (scale01 il ii (snd f))) as [s0|] eqn:E0; auto.
  apply fill_inside; auto. apply (proj2 (F k sz f H E)). auto.
Qed.

(* the loop over the variables that start at [start] never touches what lies before [start] and keeps lengths *)
Lemma loop_before : forall lay start sc ad n,
    (forall x, In x lay -> In x lay0) ->
    length sc = n -> (forall a, ad = Some a -> length a = n) -> (start + total lay <= n)%nat ->
    let r := set_scaling_loop il ii (ranges_from start lay) factors sc ad in
    length (fst r) = n
    /\ (forall a, ad = Some a -> exists a', snd r = Some a' /\ length a' = n
                                         /\ forall i, (i < start)%nat -> nth i a' 0 = nth i a 0)
    /\ (ad = None -> snd r = None)
    /\ forall i, (i < start)%nat -> nth i (fst r) 0 = nth i sc 0.
Proof.
  induction lay as [|[k sz] t IH]; intros start sc ad n SUB L LA B; cbn zeta.
  - simpl. repeat split; auto. intros a E. exists a. auto.
  - cbn [ranges_from]. rewrite loop_unfold. simpl in B.
    assert (INk : In (k, sz) lay0) by (apply SUB; left; auto).
    assert (Lsc : length (body_sc il ii factors k (start, (start + sz)%nat) sc) = n)
      by (rewrite body_sc_length; auto; lia).
    specialize (IH (start + sz)%nat (body_sc il ii factors k (start, (start + sz)%nat) sc)
                   (match ad with Some a => Some (body_ad il ii factors k (start, (start + sz)%nat) a) | None => None end)
                   n (fun x I => SUB x (or_intror I)) Lsc).
    destruct IH as [I1 [I2 [I3 I4]]].
    + intros a E. destruct ad as [a0|]; inversion E; subst.
      rewrite body_ad_length; auto. rewrite (LA a0 eq_refl). lia.
    + lia.
    + repeat split; auto.
      * intros a E. subst ad. destruct (I2 _ eq_refl) as [a' [E1 [E2 E3]]]. exists a'. repeat split; auto.
        intros i Hi. rewrite E3 by lia. apply body_ad_outside; auto. rewrite (LA a eq_refl). lia.
      * intro E. subst ad. apply I3. reflexivity.
      * intros i Hi. rewrite I4 by lia. apply body_sc_outside; auto. lia.
Qed.

Lemma lookup_start_le : forall t st nm s e, lookup nm (ranges_from st t) = Some (s, e) -> (st <= s)%nat.
Proof.
  induction t as [|[k2 z2] t IHt]; intros st nm s e LK; simpl in LK; [discriminate|].
  destruct (Nat.eqb k2 nm); [inversion LK; lia|]. specialize (IHt _ _ _ _ LK). lia.
Qed.

(* _set_scaling: on the range of every variable the scaler holds that variable's scale1 (a1 * factor, factor / a1,
   1 / a1 or a1 according to the vector) and the adder its scale0 ((a0 + offset) * factor or a0); variables
   without factors keep what the arrays held (ones / zeros) *)
Lemma set_scaling_loop_spec : forall lay start sc ad n nm s e j,
    (forall x, In x lay -> In x lay0) -> NoDup (names lay) ->
    length sc = n -> (forall a, ad = Some a -> length a = n) -> (start + total lay <= n)%nat ->
    lookup nm (ranges_from start lay) = Some (s, e) -> (j < e - s)%nat ->
    let r := set_scaling_loop il ii (ranges_from start lay) factors sc ad in
    nth (s + j) (fst r) 0
    = match find (fun p => Nat.eqb (fst p) nm) factors with
      | Some f => nth j (bcast (snd (scale01 il ii (snd f))) (e - s)) 0
      | None => nth (s + j) sc 0
      end
    /\ forall a, ad = Some a -> exists a', snd r = Some a' /\
         nth (s + j) a' 0
         = match find (fun p => Nat.eqb (fst p) nm) factors with
           | Some f => match fst (scale01 il ii (snd f)) with
                       | Some s0 => nth j (bcast s0 (e - s)) 0
                       | None => nth (s + j) a 0
                       end
           | None => nth (s + j) a 0
           end.
Proof.
  induction lay as [|[k sz] t IH];
    intros start sc ad n nm s e j SUB ND L LA B LK J; cbn zeta; [simpl in LK; discriminate|].
  cbn [ranges_from] in *. rewrite loop_unfold. simpl in B. simpl in LK.
  assert (INk : In (k, sz) lay0) by (apply SUB; left; auto).
  simpl in ND. apply NoDup_cons_iff in ND. destruct ND as [NI ND'].
  assert (Lsc : length (body_sc il ii factors k (start, (start + sz)%nat) sc) = n)
    by (rewrite body_sc_length; auto; lia).
  set (sc1 := body_sc il ii factors k (start, (start + sz)%nat) sc) in *.
  set (ad1 := match ad with Some a => Some (body_ad il ii factors k (start, (start + sz)%nat) a) | None => None end).
  assert (LA1 : forall a, ad1 = Some a -> length a = n).
  { intros a E. unfold ad1 in E. destruct ad as [a0|]; inversion E; subst.
    rewrite body_ad_length; auto. rewrite (LA a0 eq_refl). lia. }
  destruct (Nat.eqb_spec k nm) as [EQ|NE].
  - inversion LK; subst s e nm. replace (start + sz - start)%nat with sz in * by lia.
    pose proof (loop_before t (start + sz)%nat sc1 ad1 n (fun x I => SUB x (or_intror I))
                            Lsc LA1 ltac:(lia)) as [B1 [B2 [B3 B4]]].
    split.
    + rewrite B4 by lia. unfold sc1. apply body_sc_inside; auto. lia.
    + intros a E. subst ad. destruct (B2 _ eq_refl) as [a' [E1 [E2 E3]]]. exists a'. split; auto.
      rewrite E3 by lia. apply body_ad_inside; auto. rewrite (LA a eq_refl). lia.
  - pose proof (lookup_start_le _ _ _ _ _ LK) as GE.
    destruct (IH (start + sz)%nat sc1 ad1 n nm s e j (fun x I => SUB x (or_intror I)) ND' Lsc LA1 ltac:(lia) LK J)
      as [H1 H2].
    split.
    + rewrite H1. destruct (find (fun p => Nat.eqb (fst p) nm) factors); auto.
      unfold sc1. apply body_sc_outside; auto; lia.
    + intros a E. subst ad. destruct (H2 _ eq_refl) as [a' [E1 E2]]. exists a'. split; auto.
      rewrite E2.
      assert (OUT : nth (s + j) (body_ad il ii factors k (start, (start + sz)%nat) a) 0 = nth (s + j) a 0).
      { apply body_ad_outside; auto. rewrite (LA a eq_refl). lia. lia. }
      destruct (find (fun p => Nat.eqb (fst p) nm) factors) as [f|]; auto.
      destruct (fst (scale01 il ii (snd f))); auto.
Qed.

End Body.

Lemma nth_repeat_lt : forall (x : Q) n i, (i < n)%nat -> nth i (repeat x n) 0 = x.
Proof. induction n; intros; try lia. destruct i; simpl; auto. apply IHn. lia. Qed.

(* nonlinear root vector: scaler starts as ones, adder as zeros *)
Lemma set_scaling_nl_spec : forall isinput do_adder lay factors nm s e j,
    fits false isinput factors lay -> NoDup (names lay) ->
    range_of lay nm = Some (s, e) -> (j < e - s)%nat ->
    nth (s + j) (fst (set_scaling_nl isinput do_adder lay factors)) 0
    = match find (fun p => Nat.eqb (fst p) nm) factors with
      | Some f => nth j (bcast (snd (scale01 false isinput (snd f))) (e - s)) 0
      | None => 1
      end
    /\ (do_adder = true -> exists a', snd (set_scaling_nl isinput do_adder lay factors) = Some a' /\
         nth (s + j) a' 0
         = match find (fun p => Nat.eqb (fst p) nm) factors with
           | Some f => match fst (scale01 false isinput (snd f)) with
                       | Some s0 => nth j (bcast s0 (e - s)) 0
                       | None => 0
                       end
           | None => 0
           end).
Proof.
  intros isinput do_adder lay factors nm s e j F ND R J. unfold set_scaling_nl, range_of, ranges in *.
  pose proof (range_of_bounds lay nm (s, e) ND R) as [B1 B2]. simpl in B1, B2.
  assert (LA : forall a, (if do_adder then Some (repeat 0 (total lay)) else None) = Some a -> length a = total lay).
  { intros a E. destruct do_adder; inversion E. apply repeat_length. }
  destruct (set_scaling_loop_spec false isinput factors lay F lay 0 (repeat 1 (total lay))
                                  (if do_adder then Some (repeat 0 (total lay)) else None) (total lay) nm s e j
                                  (fun x I => I) ND (repeat_length _ _) LA ltac:(lia) R J) as [H1 H2].
  split.
  - rewrite H1. destruct (find _ factors); auto. apply nth_repeat_lt. lia.
  - intro E. subst do_adder. destruct (H2 _ eq_refl) as [a' [E1 E2]]. exists a'. split; auto.
    rewrite E2. rewrite nth_repeat_lt by lia. reflexivity.
Qed.

(* linear root vector: no adder; the scaler starts as ones (solver ref present) or IS the nonlinear scaler array *)
Lemma set_scaling_ln_spec : forall isinput solver_ref lay factors nl_scaler nm s e j,
    fits true isinput factors lay -> NoDup (names lay) -> length nl_scaler = total lay ->
    range_of lay nm = Some (s, e) -> (j < e - s)%nat ->
    nth (s + j) (fst (set_scaling_ln isinput solver_ref lay factors nl_scaler)) 0
    = match find (fun p => Nat.eqb (fst p) nm) factors with
      | Some f => nth j (bcast (snd (scale01 true isinput (snd f))) (e - s)) 0
      | None => if solver_ref then 1 else nth (s + j) nl_scaler 0
      end.
Proof.
  intros isinput solver_ref lay factors nl_scaler nm s e j F ND LN R J. unfold set_scaling_ln, range_of, ranges in *.
  pose proof (range_of_bounds lay nm (s, e) ND R) as [B1 B2]. simpl in B1, B2.
  assert (L0 : length (if solver_ref then repeat 1 (total lay) else nl_scaler) = total lay)
    by (destruct solver_ref; auto; apply repeat_length).
  destruct (set_scaling_loop_spec true isinput factors lay F lay 0 _ None (total lay) nm s e j
                                  (fun x I => I) ND L0 ltac:(intros; discriminate) ltac:(lia) R J) as [H1 _].
  rewrite H1. destruct (find _ factors); auto. destruct solver_ref; auto. apply nth_repeat_lt. lia.
Qed.

(* what scale0 / scale1 are, in terms of the factor tuple (a0, a1, factor, offset) *)
Lemma scale01_cases : forall a0 a1 factor offset isinput,
    scale01 false isinput (a0, a1, Some (factor, offset))
      = (Some (map (fun x => (x + offset) * factor) a0), map (fun x => x * factor) a1)
    /\ scale01 false isinput (a0, a1, None) = (Some a0, a1)
    /\ scale01 true isinput (a0, a1, Some (factor, offset)) = (None, map (fun x => factor / x) a1)
    /\ scale01 true true (a0, a1, None) = (None, map (fun x => 1 / x) a1)
    /\ scale01 true false (a0, a1, None) = (Some a0, a1).
Proof. intros. repeat split; reflexivity. Qed.

Example fits_ok : fits false true [(1%nat, ([2], [4; -8], Some (1#2, 3)))] [(0%nat, 3%nat); (1%nat, 2%nat)].
Proof.
  intros nm sz f I E. simpl in I. destruct I as [I|[I|[]]]; inversion I; subst; simpl in E; inversion E; subst.
  split; [reflexivity|]. intros s0 H. inversion H; subst. reflexivity.
Qed.
