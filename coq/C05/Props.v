(* C05 — property theorems (statements only; proofs by [exact] of lemmas in Proofs*.v). *)
From Coq Require Import ZArith List.
From OMV Require Import Base.Val C05.Model C05.ProofsSlice C05.Proofs C05.ProofsA2S.
Import ListNotations.
Open Scope Z_scope.

(* Whenever OpenMDAO's algorithm accepts an index specification for a source shape (flat or
   not), the flat source positions and the result shape it derives are exactly those of the
   NumPy reference semantics, for every shape of any rank and every index of the grammar. *)
Theorem C05_om_index_eq_numpy :
  forall (shape : list Z) (flat : bool) (ix : idx) (r : list Z * list Z),
    extents_ok (if flat then [prodZ shape] else shape) ->
    om_index shape flat ix = Some r ->
    np_index_flat shape flat ix = Some r.
Proof. exact om_index_eq_numpy. Qed.
Print Assumptions C05_om_index_eq_numpy.

(* The 1-D slice pipeline (bounds check, shaped_instance, as_array through sys.maxsize) selects
   NumPy's positions for every extent, start, stop and non-zero step. *)
Theorem C05_slice_1d_eq_numpy :
  forall (n : Z) (sl : pslice),
    0 <= n < big -> step_of sl <> 0 -> om_slice_ok n sl = true ->
    om_slice_array n (om_slice_shaped n sl) = range3 (slice_indices sl n).
Proof. exact slice_1d_eq_numpy. Qed.
Print Assumptions C05_slice_1d_eq_numpy.

(* Conversion of an index array to a slice never changes the selected positions. *)
Theorem C05_array2slice_sound :
  forall (a : list Z) (s : pslice) (n : Z),
    array2slice a = Some s ->
    (forall y, In y a -> 0 <= y < n) ->
    range3 (slice_indices s n) = a.
Proof. exact array2slice_sound. Qed.
Print Assumptions C05_array2slice_sound.
