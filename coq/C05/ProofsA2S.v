(* C05 proofs, part 3: array2slice never changes the selected positions. *)
From OMV Require Import Base.Tactics Base.Val C05.Model.
Open Scope Z_scope.

(* a list with constant differences is an arithmetic progression *)
Fixpoint progression (x step : Z) (k : nat) : list Z :=
  match k with O => [] | S k' => x :: progression (x + step) step k' end.

Lemma const_diffs_progression step : forall a x,
  forallb (fun d => d =? step) (diffs (x :: a)) = true ->
  x :: a = progression x step (S (length a)).
Proof.
  induction a as [|y r IH]; intros x H; [reflexivity|].
  cbn [diffs forallb] in H. apply andb_prop in H. destruct H as [H1 H2].
  assert (y = x + step) by lia. subst y.
  cbn [progression length]. f_equal. apply IH. exact H2.
Qed.

Lemma progression_map x step : forall k x0,
  progression (x + Z.of_nat x0 * step) step k =
  map (fun j => x + Z.of_nat j * step) (seq x0 k).
Proof.
  induction k as [|k IH]; intros x0; [reflexivity|].
  cbn [progression seq map]. f_equal.
  replace (x + Z.of_nat x0 * step + step) with (x + Z.of_nat (S x0) * step) by lia.
  apply IH.
Qed.

Lemma progression_range x step k :
  progression x step k = map (fun j => x + Z.of_nat j * step) (seq 0 k).
Proof.
  replace x with (x + Z.of_nat 0 * step) at 1 by (simpl; lia). apply progression_map.
Qed.

Lemma last_progression step : forall k x d,
  last (progression x step (S k)) d = x + Z.of_nat k * step.
Proof.
  induction k as [|k IH]; intros x d; [simpl; lia|].
  change (progression x step (S (S k))) with (x :: progression (x + step) step (S k)).
  change (last (x :: progression (x + step) step (S k)) d)
    with (last (progression (x + step) step (S k)) d).
  rewrite IH. lia.
Qed.

Lemma In_progression step : forall k x y, In y (progression x step k) ->
  exists j, (j < k)%nat /\ y = x + Z.of_nat j * step.
Proof.
  induction k as [|k IH]; intros x y H; [destruct H|].
  destruct H as [<-|H].
  - exists 0%nat. split; [lia | simpl; lia].
  - destruct (IH _ _ H) as [j [Hj ->]]. exists (S j). split; lia.
Qed.

Theorem array2slice_sound a s n :
  array2slice a = Some s ->
  (forall y, In y a -> 0 <= y < n) ->
  range3 (slice_indices s n) = a.
Proof.
  destruct a as [|x [|y r]].
  - (* empty array -> slice(0, 0) *)
    intros H _. inversion H; subst s. unfold range3, slice_indices, step_of, adjust, range_list, range_len.
    cbn [s_start s_stop s_step fst snd].
    repeat match goal with |- context [if ?c then _ else _] =>
      match type of c with bool => destruct c eqn:? end end; try reflexivity; lia.
  - (* one entry -> slice(x, x+1) *)
    cbn [array2slice]. destruct (0 <=? x) eqn:E; [|discriminate].
    intros H Hin. inversion H; subst s. specialize (Hin x (or_introl eq_refl)).
    unfold range3, slice_indices, step_of, adjust. cbn [s_start s_stop s_step fst snd].
    replace (1 <? 0) with false by lia. replace (x <? 0) with false by lia.
    replace (x + 1 <? 0) with false by lia.
    replace (Z.min x n) with x by lia. replace (Z.min (x + 1) n) with (x + 1) by lia.
    unfold range_list, range_len. replace (0 <? 1) with true by lia.
    replace (x <? x + 1) with true by lia.
    replace ((x + 1 - x - 1) / 1 + 1) with 1 by (rewrite Z.div_1_r; lia).
    simpl. f_equal. lia.
  - cbn [array2slice]. set (a := x :: y :: r).
    destruct ((x <? 0) || (y <? 0)) eqn:Eneg; [discriminate|].
    remember (y - x) as step eqn:Hstep.
    destruct (step =? 0) eqn:Ez; [discriminate|].
    destruct (forallb (fun d => d =? step) (diffs a)) eqn:Ed; [|discriminate].
    pose proof (const_diffs_progression step (y :: r) x Ed) as Hprog. fold a in Hprog.
    remember (length (y :: r)) as k eqn:Hk0.
    assert (Hlast : last_or a x = x + Z.of_nat k * step).
    { unfold last_or. rewrite Hprog. apply last_progression. }
    rewrite Hlast. intros H Hin.
    assert (Hl : 0 <= x + Z.of_nat k * step < n).
    { apply Hin. rewrite Hprog. rewrite progression_range. apply in_map_iff.
      exists k. split; [reflexivity | apply in_seq; lia]. }
    assert (Hx : 0 <= x < n) by (apply Hin; left; reflexivity).
    assert (Hk : (0 < k)%nat) by (subst k; simpl; lia).
    rewrite Hprog. rewrite progression_range.
    destruct (0 <? step) eqn:Es.
    + inversion H; subst s. unfold range3, slice_indices, step_of, adjust, range_list.
      cbn [s_start s_stop s_step fst snd].
      replace (step <? 0) with false by lia. replace (x <? 0) with false by lia.
      replace (x + Z.of_nat k * step + 1 <? 0) with false by lia.
      replace (Z.min x n) with x by lia.
      replace (Z.min (x + Z.of_nat k * step + 1) n) with (x + Z.of_nat k * step + 1) by lia.
      f_equal. f_equal. unfold range_len. rewrite Es.
      replace (x <? x + Z.of_nat k * step + 1) with true by nia.
      replace (x + Z.of_nat k * step + 1 - x - 1) with (Z.of_nat k * step) by lia.
      rewrite Z.div_mul by lia. lia.
    + destruct (0 <? x + Z.of_nat k * step) eqn:El; [|discriminate].
      inversion H; subst s. unfold range3, slice_indices, step_of, adjust, range_list.
      cbn [s_start s_stop s_step fst snd].
      replace (step <? 0) with true by lia. replace (x <? 0) with false by lia.
      replace (x + Z.of_nat k * step - 1 <? 0) with false by lia.
      replace (Z.min x (n - 1)) with x by lia.
      replace (Z.min (x + Z.of_nat k * step - 1) (n - 1)) with (x + Z.of_nat k * step - 1) by lia.
      f_equal. f_equal. unfold range_len. rewrite Es. replace (step <? 0) with true by lia.
      replace (x + Z.of_nat k * step - 1 <? x) with true by nia.
      replace (x - (x + Z.of_nat k * step - 1) - 1) with (Z.of_nat k * (- step)) by lia.
      rewrite Z.div_mul by lia. lia.
Qed.

Example array2slice_example :
  array2slice [6; 4; 2] = Some (mkslice (Some 6) (Some 1) (Some (-2))).
Proof. reflexivity. Qed.
