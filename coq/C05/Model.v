(* C05 — model of openmdao/utils/indexer.py (definitions only; proofs are in Proofs.v).

   Two independent sets of definitions:
     np_*  : reference semantics (CPython slice.indices, NumPy wrap of negatives, row-major
             positions of basic indexing plus one integer-array axis);
     om_*  : OpenMDAO's algorithm (IndexMaker dispatch, _check_bounds, shaped_instance per class
             including the "backwards special case", as_array, array2slice).
   Both are executable and both are compared with the real code on every run. *)
From Coq Require Import ZArith List Bool.
From OMV Require Import Base.Val.
Import ListNotations.
Open Scope Z_scope.

(* ------------------------------------------------------------------ slices and ranges *)

Record pslice := mkslice { s_start : option Z; s_stop : option Z; s_step : option Z }.

Definition step_of (sl : pslice) : Z := match s_step sl with None => 1 | Some s => s end.

(* CPython slice.indices(n) (PySlice_AdjustIndices), step <> 0, n >= 0 *)
Definition adjust (n lower upper : Z) (o : option Z) (dflt : Z) : Z :=
  match o with
  | None => dflt
  | Some s => if s <? 0 then Z.max (s + n) lower else Z.min s upper
  end.

Definition slice_indices (sl : pslice) (n : Z) : Z * Z * Z :=
  let step := step_of sl in
  let lower := if step <? 0 then -1 else 0 in
  let upper := if step <? 0 then n - 1 else n in
  (adjust n lower upper (s_start sl) (if step <? 0 then upper else lower),
   adjust n lower upper (s_stop sl) (if step <? 0 then lower else upper),
   step).

(* len(range(a, b, s)) *)
Definition range_len (a b s : Z) : Z :=
  if 0 <? s then (if a <? b then (b - a - 1) / s + 1 else 0)
  else if s <? 0 then (if b <? a then (a - b - 1) / (- s) + 1 else 0)
  else 0.

Definition range_list (a b s : Z) : list Z :=
  map (fun k => a + Z.of_nat k * s) (seq 0 (Z.to_nat (range_len a b s))).

Definition range3 (t : Z * Z * Z) : list Z := range_list (fst (fst t)) (snd (fst t)) (snd t).

Definition slice_of3 (t : Z * Z * Z) : pslice :=
  mkslice (Some (fst (fst t))) (Some (snd (fst t))) (Some (snd t)).

(* ------------------------------------------------------------------ one-axis indices *)

Inductive idx1 :=
| IInt (i : Z)
| ISlice (s : pslice)
| IArr (a : list Z).

(* NumPy on one axis of extent n: selected indices along that axis (None = IndexError) *)
Definition wrap (n i : Z) : option Z :=
  if (0 <=? i) && (i <? n) then Some i
  else if (i <? 0) && (- n <=? i) then Some (i + n) else None.

Fixpoint wrap_all (n : Z) (a : list Z) : option (list Z) :=
  match a with
  | [] => Some []
  | i :: r => match wrap n i, wrap_all n r with
              | Some j, Some r' => Some (j :: r')
              | _, _ => None
              end
  end.

Definition np_axis (n : Z) (i : idx1) : option (list Z) :=
  match i with
  | IInt k => option_map (fun j => [j]) (wrap n k)
  | ISlice s => if step_of s =? 0 then None else Some (range3 (slice_indices s n))
  | IArr a => wrap_all n a
  end.

(* contribution of an axis item to the result shape *)
Definition axis_dims (sel : list Z) (i : idx1) : list Z :=
  match i with IInt _ => [] | _ => [Z.of_nat (length sel)] end.

Definition prodZ (l : list Z) : Z := fold_right Z.mul 1 l.

(* row-major positions of the cartesian product of per-axis selections *)
Fixpoint positions (shape : list Z) (sels : list (list Z)) : list Z :=
  match shape, sels with
  | n :: shape', sel :: sels' =>
      let stride := prodZ shape' in
      let rest := positions shape' sels' in
      flat_map (fun i => map (fun r => i * stride + r) rest) sel
  | _, _ => [0]
  end.

Definition full_slice : idx1 := ISlice (mkslice None None None).

(* index specifications *)
Inductive idx :=
| I1 (i : idx1)                       (* a[i] *)
| ITup (l : list idx1)                (* a[i0, i1, ...] *)
| IEll (pre post : list idx1).        (* a[pre..., Ellipsis, post...] *)

Fixpoint repeat_full (k : nat) : list idx1 :=
  match k with O => [] | S k' => full_slice :: repeat_full k' end.

(* expand to exactly one item per axis (None: too many indices) *)
Definition expand (rank : nat) (ix : idx) : option (list idx1) :=
  match ix with
  | I1 i => if Nat.leb 1 rank then Some (i :: repeat_full (rank - 1)) else None
  | ITup l => if Nat.leb (length l) rank then Some (l ++ repeat_full (rank - length l)) else None
  | IEll pre post =>
      if Nat.leb (length pre + length post) rank
      then Some (pre ++ repeat_full (rank - length pre - length post) ++ post) else None
  end.

Fixpoint axes_sel (shape : list Z) (items : list idx1) : option (list (list Z)) :=
  match shape, items with
  | [], [] => Some []
  | n :: shape', i :: items' =>
      match np_axis n i, axes_sel shape' items' with
      | Some s, Some r => Some (s :: r)
      | _, _ => None
      end
  | _, _ => None
  end.

Fixpoint dims_of (sels : list (list Z)) (items : list idx1) : list Z :=
  match sels, items with
  | s :: sels', i :: items' => axis_dims s i ++ dims_of sels' items'
  | _, _ => []
  end.

(* NumPy reference: (flat positions, result shape) of arange(prod shape).reshape(shape)[ix].
   Grammar restriction (checked by the harness generator, see props/C05/check.py): at most one
   integer-array item, and no int item separated from it by a slice (no transposition). *)
Definition np_index (shape : list Z) (ix : idx) : option (list Z * list Z) :=
  match expand (length shape) ix with
  | None => None
  | Some items =>
      match axes_sel shape items with
      | None => None
      | Some sels => Some (positions shape sels, dims_of sels items)
      end
  end.

(* ------------------------------------------------------------------ OpenMDAO's algorithm *)

(* ShapedSliceIndexer._check_bounds: sz is the *total* size of the (dist) shape *)
Definition om_slice_ok (sz : Z) (sl : pslice) : bool :=
  let bad_start := match s_start sl with Some s => (sz <=? s) || (s <? - sz) | None => false end in
  let bad_stop := match s_stop sl with Some s => (sz <? s) || (s <? - sz) | None => false end in
  let same := match s_start sl, s_stop sl with
              | Some a, Some b => a =? b | None, None => true | _, _ => false end in
  same || negb (bad_start || bad_stop).

(* SliceIndexer.shaped_instance followed by ShapedSliceIndexer.as_array on a 1-D source of
   extent n.  [big] stands for sys.maxsize. *)
Definition om_slice_shaped (n : Z) (sl : pslice) : pslice :=
  let step := step_of sl in
  let sl1 := mkslice (s_start sl) (s_stop sl) (Some step) in
  match s_stop sl with
  | None => if step <? 0 then sl1   (* special backwards indexing case *)
            else slice_of3 (slice_indices sl1 n)
  | Some b =>
      let start_neg := match s_start sl with Some a => a <? 0 | None => false end in
      let start_none_back := match s_start sl with None => step <? 0 | Some _ => false end in
      if start_neg || (b <? 0) || start_none_back
      then slice_of3 (slice_indices sl1 n)
      else sl1
  end.

Definition big : Z := 9223372036854775807.

Definition om_slice_array (n : Z) (sh : pslice) : list Z :=
  match s_stop sh with
  | None => if step_of sh <? 0 then range3 (slice_indices sh n)       (* arange(n)[slc] *)
            else range3 (slice_indices sh big)
  | Some _ => range3 (slice_indices sh big)                           (* np.arange of slc.indices(maxsize) *)
  end.

Definition om_slice_1d (n : Z) (sl : pslice) : option (list Z) :=
  if step_of sl =? 0 then None
  else if om_slice_ok n sl then Some (om_slice_array n (om_slice_shaped n sl)) else None.

(* IntIndexer._check_bounds + shaped_instance *)
Definition om_int_ok (n i : Z) : bool := negb ((n <=? i) || (i <? - n)).
Definition om_int_shaped (n i : Z) : Z := if i <? 0 then i + n else i.

(* ArrayIndexer._check_bounds (on max and min) and shaped_instance *)
Definition list_max (a : list Z) (d : Z) : Z := fold_right Z.max d a.
Definition list_min (a : list Z) (d : Z) : Z := fold_right Z.min d a.

Definition om_arr_ok (sz : Z) (a : list Z) : bool :=
  match a with
  | [] => true
  | x :: r =>
      let amax := list_max r x in
      let amin := list_min r x in
      negb ((sz <=? amax) || (- amax <? - sz)) && negb ((amin <? 0) && (sz <? - amin))
  end.

Definition om_arr_shaped (n : Z) (a : list Z) : list Z :=
  map (fun i => if i <? 0 then i + n else i) a.

(* _check_bounds of one item against a size; shaped_instance of one item for an axis of extent n *)
Definition om_item_ok (sz : Z) (i : idx1) : bool :=
  match i with
  | IInt k => om_int_ok sz k
  | ISlice s => negb (step_of s =? 0) && om_slice_ok sz s
  | IArr a => om_arr_ok sz a
  end.

Definition om_item_shaped (n : Z) (i : idx1) : idx1 :=
  match i with
  | IInt k => IInt (om_int_shaped n k)
  | ISlice s => ISlice (om_slice_shaped n s)
  | IArr a => IArr (om_arr_shaped n a)
  end.

Fixpoint om_items_ok (shape : list Z) (items : list idx1) : bool :=
  match shape, items with
  | n :: shape', i :: items' => om_item_ok n i && om_items_ok shape' items'
  | _, _ => true
  end.

Fixpoint om_items_shaped (shape : list Z) (items : list idx1) : list idx1 :=
  match shape, items with
  | n :: shape', i :: items' => om_item_shaped n i :: om_items_shaped shape' items'
  | _, items' => items'
  end.

(* as_array of the shaped instance when the (possibly flattened) source is 1-D *)
Definition om_array_1d (n : Z) (shaped : idx1) : list Z :=
  match shaped with
  | IInt k => [k]
  | ISlice s => om_slice_array n s
  | IArr a => a
  end.

(* indexer(ix, src_shape=shape, flat_src=flat): (shaped_array(), indexed_src_shape).
   - flat source: the shape is first collapsed to (prod shape,), tuples with more than one
     entry are refused;
   - every entry (a single item is followed by implicit full slices) is bounds-checked and
     shaped with the extent of its own axis;
   - 1-D source: as_array of the shaped item; N-D source: NumPy indexing of
     arange(size).reshape(shape) with the shaped entries. *)
Definition om_multi (ix : idx) : bool :=
  match ix with
  | I1 _ => false
  | ITup l => Nat.ltb 1 (length l)
  | IEll pre post => Nat.ltb 1 (length pre + length post)
  end.

Definition om_index (shape : list Z) (flat : bool) (ix : idx) : option (list Z * list Z) :=
  let shape' := if flat then [prodZ shape] else shape in
  if flat && om_multi ix then None else
  match expand (length shape') ix with
  | None => None
  | Some items =>
      if negb (om_items_ok shape' items) then None else
      let sh := om_items_shaped shape' items in
      match axes_sel shape' sh with
      | None => None
      | Some sels =>
          match shape', sh with
          | [n], [i] => Some (om_array_1d n i, dims_of sels sh)
          | _, _ => Some (positions shape' sels, dims_of sels sh)
          end
      end
  end.

Definition np_index_flat (shape : list Z) (flat : bool) (ix : idx) :=
  np_index (if flat then [prodZ shape] else shape) ix.

(* ------------------------------------------------------------------ array2slice *)

Fixpoint diffs (a : list Z) : list Z :=
  match a with
  | x :: ((y :: _) as r) => (y - x) :: diffs r
  | _ => []
  end.

Definition last_or (a : list Z) (d : Z) : Z := last a d.

Definition array2slice (a : list Z) : option pslice :=
  match a with
  | [] => Some (mkslice (Some 0) (Some 0) None)
  | [x] => if 0 <=? x then Some (mkslice (Some x) (Some (x + 1)) None) else None
  | x :: y :: _ =>
      if (x <? 0) || (y <? 0) then None
      else let step := y - x in
           if step =? 0 then None
           else if forallb (fun d => d =? step) (diffs a) then
                  let l := last_or a x in
                  if 0 <? step then Some (mkslice (Some x) (Some (l + 1)) (Some step))
                  else if 0 <? l then Some (mkslice (Some x) (Some (l - 1)) (Some step))
                  else None
                else None
  end.

(* ------------------------------------------------------------------ val encodings *)

Definition v_pair (r : option (list Z * list Z)) : val :=
  match r with
  | None => VE 1
  | Some (p, s) => VL [vzs p; vzs s]
  end.

Definition v_olist (r : option (list Z)) : val :=
  match r with None => VE 1 | Some p => vzs p end.

Definition v_oz (o : option Z) : val := match o with None => VN | Some z => VZ z end.

Definition v_oslice (r : option pslice) : val :=
  match r with
  | None => VN
  | Some s => VL [v_oz (s_start s); v_oz (s_stop s); v_oz (s_step s)]
  end.
