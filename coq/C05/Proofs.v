(* C05 proofs, part 2: ints, index arrays, the N-D composition and array2slice. *)
From OMV Require Import Base.Tactics Base.Val C05.Model C05.ProofsSlice.
Open Scope Z_scope.

(* ---------------------------------------------------------------- ints *)
Lemma om_int_axis n k :
  om_int_ok n k = true ->
  np_axis n (IInt (om_int_shaped n k)) = np_axis n (IInt k) /\
  np_axis n (IInt k) = Some [om_int_shaped n k].
Proof.
  unfold om_int_ok, om_int_shaped, np_axis, wrap. intros H.
  repeat match goal with
         | |- context [if ?c then _ else _] =>
             match type of c with bool => let E := fresh "E" in destruct c eqn:E end
         end; cbn [option_map]; split; first [reflexivity | lia].
Qed.

(* ---------------------------------------------------------------- index arrays *)
Lemma list_max_ge r : forall x y, In y (x :: r) -> y <= list_max r x.
Proof.
  induction r as [|z r IH]; intros x y Hin; simpl in *.
  - destruct Hin as [->|[]]. lia.
  - destruct Hin as [->|[->|Hin]].
    + specialize (IH y y (or_introl eq_refl)). lia.
    + lia.
    + specialize (IH x y (or_intror Hin)). lia.
Qed.

Lemma list_min_le r : forall x y, In y (x :: r) -> list_min r x <= y.
Proof.
  induction r as [|z r IH]; intros x y Hin; simpl in *.
  - destruct Hin as [->|[]]. lia.
  - destruct Hin as [->|[->|Hin]].
    + specialize (IH y y (or_introl eq_refl)). lia.
    + lia.
    + specialize (IH x y (or_intror Hin)). lia.
Qed.

Lemma om_arr_ok_bounds n a : om_arr_ok n a = true -> forall y, In y a -> - n <= y < n.
Proof.
  destruct a as [|x r]; [intros _ y []|].
  unfold om_arr_ok. intros H y Hin.
  pose proof (list_max_ge r x y Hin). pose proof (list_min_le r x y Hin). lia.
Qed.

Lemma wrap_all_shaped n a :
  (forall y, In y a -> - n <= y < n) ->
  wrap_all n a = Some (om_arr_shaped n a) /\ wrap_all n (om_arr_shaped n a) = Some (om_arr_shaped n a).
Proof.
  induction a as [|x r IH]; intros H; [split; reflexivity|].
  destruct IH as [IH1 IH2]; [intros y Hy; apply H; right; exact Hy|].
  specialize (H x (or_introl eq_refl)).
  cbn [wrap_all om_arr_shaped map]. fold (om_arr_shaped n r). rewrite IH1, IH2.
  unfold wrap.
  repeat match goal with
         | |- context [if ?c then _ else _] =>
             match type of c with bool => let E := fresh "E" in destruct c eqn:E end
         end; split; first [reflexivity | lia].
Qed.

(* ---------------------------------------------------------------- slices inside an N-D index *)
Lemma step_of_shaped n s : step_of (om_slice_shaped n s) = step_of s.
Proof.
  destruct s as [[a|] [b|] [st|]];
    unfold om_slice_shaped, slice_of3, slice_indices, step_of; cbn [s_start s_stop s_step];
    repeat match goal with
           | |- context [if ?c then _ else _] => match type of c with bool => destruct c eqn:? end
           end; cbn [s_start s_stop s_step fst snd]; reflexivity.
Qed.

Ltac slice_nd_tac Hok :=
  unfold om_slice_ok in Hok; cbn [s_start s_stop s_step] in Hok;
  unfold om_slice_shaped, slice_of3, slice_indices, range3, step_of, adjust;
  cbn [s_start s_stop s_step fst snd];
  repeat (match goal with
          | |- context [if ?c then _ else _] =>
              match type of c with bool => destruct c eqn:? end
          end;
          cbn [s_start s_stop s_step orb fst snd]; unfold step_of, adjust; cbn [s_start s_stop s_step fst snd]);
  try lia.

Lemma slice_nd_pos n a b s :
  0 <= n -> 0 < s -> om_slice_ok n (mkslice a b (Some s)) = true ->
  range3 (slice_indices (om_slice_shaped n (mkslice a b (Some s))) n) =
  range3 (slice_indices (mkslice a b (Some s)) n).
Proof.
  intros Hn Hs Hok. destruct a as [a|], b as [b|]; slice_nd_tac Hok.
  all: try reflexivity.
  all: apply range_list_eq_pos; [lia|]; lia.
Qed.

Lemma slice_nd_neg n a b s :
  0 <= n -> s < 0 -> om_slice_ok n (mkslice a b (Some s)) = true ->
  range3 (slice_indices (om_slice_shaped n (mkslice a b (Some s))) n) =
  range3 (slice_indices (mkslice a b (Some s)) n).
Proof.
  intros Hn Hs Hok. destruct a as [a|], b as [b|]; slice_nd_tac Hok.
  all: try reflexivity.
  all: apply range_list_eq_neg; [lia|]; lia.
Qed.

Lemma slice_nd n sl :
  0 <= n -> step_of sl <> 0 -> om_slice_ok n sl = true ->
  range3 (slice_indices (om_slice_shaped n sl) n) = range3 (slice_indices sl n).
Proof.
  intros Hn Hs Hok. destruct sl as [a b [s|]].
  - unfold step_of in Hs; cbn [s_step] in Hs.
    destruct (Z.lt_trichotomy s 0) as [H | [H | H]]; [|lia|].
    + apply slice_nd_neg; assumption.
    + apply slice_nd_pos; assumption.
  - change (om_slice_shaped n (mkslice a b None)) with (om_slice_shaped n (mkslice a b (Some 1))).
    change (slice_indices (mkslice a b None) n) with (slice_indices (mkslice a b (Some 1)) n).
    apply slice_nd_pos; [assumption | lia | exact Hok].
Qed.

(* ---------------------------------------------------------------- one axis *)
Lemma om_item_axis n i :
  0 <= n -> om_item_ok n i = true ->
  np_axis n (om_item_shaped n i) = np_axis n i.
Proof.
  intros Hn Hok. destruct i as [k|s|a]; cbn [om_item_ok om_item_shaped] in *.
  - apply om_int_axis. exact Hok.
  - apply andb_prop in Hok. destruct Hok as [H0 Hok].
    cbn [np_axis]. rewrite step_of_shaped.
    destruct (step_of s =? 0) eqn:E; [discriminate|].
    f_equal. apply slice_nd; [assumption | lia | assumption].
  - cbn [np_axis]. pose proof (wrap_all_shaped n a (om_arr_ok_bounds n a Hok)) as [H1 H2].
    rewrite H1, H2. reflexivity.
Qed.

Lemma axis_dims_shaped n sel i : axis_dims sel (om_item_shaped n i) = axis_dims sel i.
Proof. destruct i; reflexivity. Qed.

Lemma om_axes_eq : forall shape items,
  Forall (fun n => 0 <= n) shape ->
  om_items_ok shape items = true ->
  axes_sel shape (om_items_shaped shape items) = axes_sel shape items.
Proof.
  induction shape as [|n shape IH]; intros items Hs Hok; [destruct items; reflexivity|].
  destruct items as [|i items]; [reflexivity|].
  inversion Hs as [|? ? Hn Hs']; subst.
  cbn [om_items_ok] in Hok. apply andb_prop in Hok. destruct Hok as [Hi Hok].
  cbn [om_items_shaped axes_sel]. rewrite (om_item_axis n i Hn Hi), (IH items Hs' Hok). reflexivity.
Qed.

Lemma dims_of_shaped : forall sels shape items,
  dims_of sels (om_items_shaped shape items) = dims_of sels items.
Proof.
  induction sels as [|s sels IH]; intros shape items; [reflexivity|].
  destruct shape as [|n shape], items as [|i items]; try reflexivity.
  cbn [om_items_shaped dims_of]. rewrite axis_dims_shaped, IH. reflexivity.
Qed.

(* positions on a 1-D source are the selection itself *)
Lemma flat_map_single sel : flat_map (fun i : Z => map (fun r : Z => i * 1 + r) [0]) sel = sel.
Proof.
  induction sel as [|x r IH]; [reflexivity|].
  change (flat_map (fun i : Z => map (fun r : Z => i * 1 + r) [0]) (x :: r))
    with ((x * 1 + 0) :: flat_map (fun i : Z => map (fun r : Z => i * 1 + r) [0]) r).
  rewrite IH. f_equal. lia.
Qed.

Lemma positions_1d n sel : positions [n] [sel] = sel.
Proof. apply flat_map_single. Qed.

(* as_array of a shaped item on a 1-D source is NumPy's selection *)
Lemma om_array_1d_eq n i :
  0 <= n < big -> om_item_ok n i = true ->
  np_axis n i = Some (om_array_1d n (om_item_shaped n i)).
Proof.
  intros Hn Hok. destruct i as [k|s|a]; cbn [om_item_ok om_item_shaped om_array_1d np_axis] in *.
  - apply om_int_axis. exact Hok.
  - apply andb_prop in Hok. destruct Hok as [H0 Hok].
    destruct (step_of s =? 0) eqn:E; [discriminate|].
    f_equal. symmetry. apply slice_1d_eq_numpy; [assumption | lia | assumption].
  - apply wrap_all_shaped, om_arr_ok_bounds. exact Hok.
Qed.

(* ---------------------------------------------------------------- the main theorem *)
Definition extents_ok (shape : list Z) : Prop := Forall (fun n => 0 <= n < big) shape.

Lemma extents_nonneg shape : extents_ok shape -> Forall (fun n => 0 <= n) shape.
Proof. apply Forall_impl. intros; lia. Qed.

Theorem om_index_eq_numpy shape (flat : bool) ix r :
  extents_ok (if flat then [prodZ shape] else shape) ->
  om_index shape flat ix = Some r ->
  np_index_flat shape flat ix = Some r.
Proof.
  unfold om_index, np_index_flat, np_index. intros Hext.
  set (shape' := if flat then [prodZ shape] else shape) in *.
  destruct (flat && om_multi ix); [discriminate|].
  destruct (expand (length shape') ix) as [items|]; [|discriminate].
  destruct (om_items_ok shape' items) eqn:Hok; cbn [negb]; [|discriminate].
  rewrite (om_axes_eq shape' items (extents_nonneg _ Hext) Hok).
  destruct (axes_sel shape' items) as [sels|] eqn:Hsel; [|discriminate].
  rewrite dims_of_shaped.
  destruct shape' as [|n [|m sh]] eqn:Es.
  - destruct (om_items_shaped [] items); intros H; exact H.
  - destruct items as [|i [|j items]]; cbn [om_items_shaped].
    + intros H; exact H.
    + (* genuinely 1-D *)
      cbn [axes_sel] in Hsel. destruct (np_axis n i) as [sel|] eqn:Hax; [|discriminate].
      inversion Hsel; subst sels. intros H. inversion H; subst r. clear H.
      cbn [om_items_ok] in Hok. rewrite andb_true_r in Hok.
      inversion Hext as [|? ? Hn _]; subst.
      rewrite (om_array_1d_eq n i Hn Hok) in Hax. inversion Hax; subst sel.
      rewrite positions_1d. reflexivity.
    + cbn [axes_sel] in Hsel. destruct (np_axis n i); discriminate.
  - destruct (om_items_shaped (n :: m :: sh) items) as [|? [|? ?]]; intros H; exact H.
Qed.

(* accepted by OpenMDAO => accepted by NumPy (same statement, read as soundness of acceptance) *)
Corollary om_accepts_sound shape (flat : bool) ix :
  extents_ok (if flat then [prodZ shape] else shape) ->
  om_index shape flat ix <> None -> np_index_flat shape flat ix <> None.
Proof.
  intros Hext H. destruct (om_index shape flat ix) as [r|] eqn:E; [|congruence].
  rewrite (om_index_eq_numpy shape flat ix r Hext E). discriminate.
Qed.

(* non-vacuity: a 3-D source, a tuple with a negative int, a backwards slice without start and a
   negative index array is accepted and evaluates to NumPy's answer *)
Example om_index_example :
  om_index [2; 3; 2] false (ITup [IInt (-1); ISlice (mkslice None (Some 0) (Some (-1))); IArr [-1; 0]])
  = Some ([11; 10; 9; 8], [2; 2]).
Proof. vm_compute. reflexivity. Qed.
