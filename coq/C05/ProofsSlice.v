(* C05 proofs, part 1: one-dimensional slices. *)
From OMV Require Import Base.Tactics Base.Val C05.Model.
Open Scope Z_scope.

Lemma range_list_eq_pos a b a' b' s :
  0 < s -> (a = a' /\ b = b') \/ (b <= a /\ b' <= a') ->
  range_list a b s = range_list a' b' s.
Proof.
  intros Hs [[H1 H2] | [H1 H2]]; [subst; reflexivity|].
  unfold range_list, range_len. replace (0 <? s) with true by lia.
  replace (a <? b) with false by lia. replace (a' <? b') with false by lia. reflexivity.
Qed.

Lemma range_list_eq_neg a b a' b' s :
  s < 0 -> (a = a' /\ b = b') \/ (a <= b /\ a' <= b') ->
  range_list a b s = range_list a' b' s.
Proof.
  intros Hs [[H1 H2] | [H1 H2]]; [subst; reflexivity|].
  unfold range_list, range_len. replace (0 <? s) with false by lia.
  replace (s <? 0) with true by lia.
  replace (b <? a) with false by lia. replace (b' <? a') with false by lia. reflexivity.
Qed.

Ltac split_ifs :=
  repeat match goal with
         | |- context [if ?c then _ else _] => destruct c eqn:?
         | |- context [Z.max ?a ?b] => let H := fresh in pose proof (Z.max_spec a b) as H; generalize dependent (Z.max a b); intros
         | |- context [Z.min ?a ?b] => let H := fresh in pose proof (Z.min_spec a b) as H; generalize dependent (Z.min a b); intros
         end.

Ltac slice_tac Hok :=
  unfold om_slice_ok in Hok; cbn [s_start s_stop s_step] in Hok;
  unfold om_slice_array, om_slice_shaped, slice_of3, slice_indices, range3, step_of, adjust, big;
  cbn [s_start s_stop s_step fst snd];
  repeat (match goal with
          | |- context [if ?c then _ else _] =>
              match type of c with bool => destruct c eqn:? end
          end;
          cbn [s_start s_stop s_step orb fst snd]; unfold step_of, adjust; cbn [s_start s_stop s_step fst snd]);
  try lia.

Theorem slice_1d_eq_numpy_pos n a b s :
  0 <= n < big -> 0 < s ->
  om_slice_ok n (mkslice a b (Some s)) = true ->
  om_slice_array n (om_slice_shaped n (mkslice a b (Some s))) =
  range3 (slice_indices (mkslice a b (Some s)) n).
Proof.
  intros Hn Hs Hok. unfold big in Hn.
  destruct a as [a|], b as [b|]; slice_tac Hok.
  all: apply range_list_eq_pos; [lia|]; lia.
Qed.

Theorem slice_1d_eq_numpy_neg n a b s :
  0 <= n < big -> s < 0 ->
  om_slice_ok n (mkslice a b (Some s)) = true ->
  om_slice_array n (om_slice_shaped n (mkslice a b (Some s))) =
  range3 (slice_indices (mkslice a b (Some s)) n).
Proof.
  intros Hn Hs Hok. unfold big in Hn.
  destruct a as [a|], b as [b|]; slice_tac Hok.
  all: try reflexivity.
  all: apply range_list_eq_neg; [lia|]; lia.
Qed.

(* every non-zero step *)
Theorem slice_1d_eq_numpy n sl :
  0 <= n < big -> step_of sl <> 0 ->
  om_slice_ok n sl = true ->
  om_slice_array n (om_slice_shaped n sl) = range3 (slice_indices sl n).
Proof.
  intros Hn Hs Hok. destruct sl as [a b [s|]].
  - unfold step_of in Hs; cbn [s_step] in Hs.
    destruct (Z.lt_trichotomy s 0) as [H | [H | H]]; [|lia|].
    + apply slice_1d_eq_numpy_neg; assumption.
    + apply slice_1d_eq_numpy_pos; assumption.
  - (* step None behaves as step 1 *)
    assert (E1 : om_slice_shaped n (mkslice a b None) = om_slice_shaped n (mkslice a b (Some 1)))
      by reflexivity.
    assert (E2 : slice_indices (mkslice a b None) n = slice_indices (mkslice a b (Some 1)) n)
      by reflexivity.
    rewrite E1, E2. apply slice_1d_eq_numpy_pos; [assumption | lia | exact Hok].
Qed.

(* non-vacuity: the defect input of the unrepaired code is inside the accepted region, and the
   theorem's conclusion is the NumPy answer [2; 1] *)
Example slice_1d_example_accepts :
  om_slice_ok 3 (mkslice None (Some 0) (Some (-1))) = true.
Proof. reflexivity. Qed.
Example slice_1d_example_value :
  om_slice_array 3 (om_slice_shaped 3 (mkslice None (Some 0) (Some (-1)))) = 2 :: 1 :: nil.
Proof. reflexivity. Qed.
