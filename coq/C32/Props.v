(* C32 — property theorems (statements only; proofs by [exact] of lemmas in Proofs.v). *)
From Coq Require Import ZArith List Permutation.
From OMV Require Import Base.Val C32.Model C32.Proofs C32.ProofsTree.
Import ListNotations.
Open Scope Z_scope.

(* Checked oracle: whatever algorithm produced [sccs] (networkx/Tarjan in the real code), if the
   boolean checker accepts it then it is a partition of the nodes, no edge goes from a later class
   to an earlier one, and every class is strongly connected.  All graphs, all lists. *)
Theorem C32_scc_order_checker_sound :
  forall (nodes : list Z) (edges : list edge) (sccs : list (list Z)),
    valid_scc_list nodes edges sccs = true ->
    NoDup (concat sccs)
    /\ (forall x, In x (concat sccs) <-> In x nodes)
    /\ (forall u v, In (u, v) edges -> (comp_of u sccs <= comp_of v sccs)%nat)
    /\ (forall c u v, In c sccs -> In u c -> In v c -> path edges u v).
Proof. exact checker_sound_explicit. Qed.
Print Assumptions C32_scc_order_checker_sound.

(* Group._check_order / _set_auto_order with auto_order on: the resulting order is a permutation
   of the declared subsystems, every connection between different components of the SCC list
   goes forward, and two subsystems of the same component keep their declared relative order. *)
Theorem C32_auto_order_topological :
  forall (declared : list Z) (edges : list edge) (sccs : list (list Z)),
    NoDup declared ->
    valid_scc_list declared edges sccs = true ->
    let l := auto_order true declared edges sccs in
    Permutation l declared
    /\ (forall u v, In (u, v) edges -> comp_of u sccs <> comp_of v sccs -> (pos u l < pos v l)%nat)
    /\ (forall u v, In u declared -> In v declared -> comp_of u sccs = comp_of v sccs ->
          (pos u declared < pos v declared)%nat -> (pos u l < pos v l)%nat).
Proof. exact auto_order_explicit. Qed.
Print Assumptions C32_auto_order_topological.

(* When get_out_of_order_nodes reports nothing (so the code leaves the order alone), the declared
   order already has every cross-component connection going forward. *)
Theorem C32_no_out_of_order_means_topological :
  forall (declared : list Z) (edges : list edge) (sccs : list (list Z)),
    NoDup declared ->
    valid_scc_list declared edges sccs = true ->
    out_of_order declared edges sccs = [] ->
    forall u v, In (u, v) edges -> comp_of u sccs <> comp_of v sccs ->
    (pos u declared < pos v declared)%nat.
Proof. exact no_out_of_order_topological. Qed.
Print Assumptions C32_no_out_of_order_means_topological.

(* Abstract dataflow: if every node's value depends only on its predecessors' values and the
   order is duplicate-free and topological, one evaluation of each node in order leaves every
   node equal to its function of the final state (zero residual).  Any value type, any functions. *)
Theorem C32_one_pass_solves :
  forall (V : Type) (edges : list edge) (f : Z -> (Z -> V) -> V),
    (forall i e e', (forall p, In (p, i) edges -> e p = e' p) -> f i e = f i e') ->
    forall (l : list Z) (e : Z -> V),
      NoDup l -> topo edges l ->
      forall i, In i l -> run_pass f l e i = f i (run_pass f l e).
Proof. exact one_pass_solves. Qed.
Print Assumptions C32_one_pass_solves.

(* Acyclic graph: the order computed with auto_order on puts every subsystem after all of its
   data predecessors ... *)
Theorem C32_acyclic_order_after_predecessors :
  forall (declared : list Z) (edges : list edge) (sccs : list (list Z)),
    NoDup declared -> valid_scc_list declared edges sccs = true -> acyclic edges ->
    let l := auto_order true declared edges sccs in
    Permutation l declared /\
    forall p i, In (p, i) edges -> (pos p l < pos i l)%nat.
Proof. exact acyclic_order_explicit. Qed.
Print Assumptions C32_acyclic_order_after_predecessors.

(* ... and hence one run-once pass over affine explicit components zeroes every residual, from
   any initial values, for every declared order. *)
Theorem C32_feed_forward_one_pass :
  forall (declared : list Z) (edges : list edge) (sccs : list (list Z)) (cs : list comp),
    NoDup declared ->
    valid_scc_list declared edges sccs = true ->
    acyclic edges ->
    edges_cover_b cs edges = true ->
    let l := auto_order true declared edges sccs in
    let e := run_pass (comp_fun cs) l (init_env cs) in
    forall i, In i declared -> residual cs e i = 0.
Proof. exact feed_forward_one_pass. Qed.
Print Assumptions C32_feed_forward_one_pass.

(* Hierarchy.  [good E t]: in every group of the tree the subsystem names are distinct and the order
   computed for the group is a permutation of its subsystems in which, for every component-level
   connection of E between two different subsystems, the source's subsystem comes first.  Then the
   nested depth-first execution order of the components is a permutation of the components in
   which every connection of E goes forward — for all trees of any depth and width (induction over
   the tree). *)
Theorem C32_hier_topological :
  forall (E : list edge),
    (forall u v, In (u, v) E -> u <> v) ->
    forall t : sys, NoDup (leaves t) -> good E t ->
      Permutation (exec_order t) (leaves t) /\
      forall u v, In (u, v) E -> In u (leaves t) -> In v (leaves t) ->
                  (pos u (exec_order t) < pos v (exec_order t))%nat.
Proof. exact hier_topological. Qed.
Print Assumptions C32_hier_topological.

(* The per-group premise of [good] follows from the checked SCC list when the group's subsystem
   graph is acyclic and contains every edge induced by the component-level connections. *)
Theorem C32_group_good_from_checker :
  forall (E : list edge) (ch : list sys) (e : list edge) (s : list (list Z)),
    NoDup (map sid ch) ->
    valid_scc_list (map sid ch) e s = true ->
    acyclic e ->
    (forall ci cj u v, In ci ch -> In cj ch -> sid ci <> sid cj ->
                       In (u, v) E -> In u (leaves ci) -> In v (leaves cj) -> In (sid ci, sid cj) e) ->
    let ord := auto_order true (map sid ch) e s in
    Permutation ord (map sid ch) /\
    forall ci cj u v, In ci ch -> In cj ch -> sid ci <> sid cj ->
                      In (u, v) E -> In u (leaves ci) -> In v (leaves cj) ->
                      (pos (sid ci) ord < pos (sid cj) ord)%nat.
Proof. exact group_good_from_checker. Qed.
Print Assumptions C32_group_good_from_checker.

(* One run-once pass over the whole hierarchy zeroes the residual of every affine explicit component,
   from any initial values. *)
Theorem C32_hier_one_pass :
  forall (E : list edge) (t : sys) (cs : list comp),
    (forall u v, In (u, v) E -> u <> v /\ In u (leaves t) /\ In v (leaves t)) ->
    NoDup (leaves t) -> good E t ->
    edges_cover_b cs E = true ->
    let env := run_pass (comp_fun cs) (exec_order t) (init_env cs) in
    forall i, In i (leaves t) -> residual cs env i = 0.
Proof. exact hier_one_pass. Qed.
Print Assumptions C32_hier_one_pass.

(* the boolean premise that the harness evaluates on every generated acyclic model is sound *)
Theorem C32_good_b_sound : forall (E : list edge) (t : sys), good_b E t = true -> good E t.
Proof. exact good_b_sound. Qed.
Print Assumptions C32_good_b_sound.
