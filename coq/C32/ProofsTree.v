(* C32 — the hierarchy: if every group is ordered topologically with respect to the edges that the
   component-level connections induce between its subsystems, the nested depth-first execution order
   of the components is topological for the component graph; hence one pass solves the whole tree. *)
From Coq Require Import ZArith List Bool Lia Permutation.
From OMV Require Import Base.Val Base.Tactics C32.Model C32.Proofs.
Import ListNotations.
Open Scope Z_scope.

(* ------------------------------------------------------------------ unfolding the nested fixpoints *)

Definition subs (ch : list sys) : list (Z * list Z) := map (fun c => (sid c, exec_order c)) ch.

Lemma leaves_group : forall i a ch e s, leaves (SGroup i a ch e s) = flat_map leaves ch.
Proof.
  intros. cbn [leaves]. induction ch as [|c r IH]; cbn [flat_map]; auto; try (f_equal; exact IH).
Qed.

Lemma exec_group : forall i a ch e s,
  exec_order (SGroup i a ch e s)
  = flat_map (fun k => lookup k (subs ch)) (auto_order a (map sid ch) e s).
Proof.
  intros. cbn [exec_order].
  assert (G : (fix go (l : list sys) : list (Z * list Z) :=
                 match l with [] => [] | c :: r => (sid c, exec_order c) :: go r end) ch = subs ch).
  { induction ch as [|c r IH]; cbn; auto; try (rewrite IH; reflexivity). }
  rewrite G. unfold subs at 2. rewrite map_map. cbn [fst]. reflexivity.
Qed.

Lemma sys_ind2 : forall P : sys -> Prop,
  (forall i, P (SComp i)) ->
  (forall i a ch e s, Forall P ch -> P (SGroup i a ch e s)) ->
  forall t, P t.
Proof.
  intros P Hc Hg. fix IH 1. intros [i | i a ch e s].
  - apply Hc.
  - apply Hg. induction ch as [|c r IHr]; constructor; auto.
Qed.

(* ------------------------------------------------------------------ the premise *)

(* every group: distinct subsystem names; its order is a permutation of its subsystems in which, for
   every component-level connection between two different subsystems, the source's subsystem comes
   first; and the same below *)
Fixpoint good (E : list edge) (t : sys) : Prop :=
  match t with
  | SComp _ => True
  | SGroup _ a ch e s =>
      NoDup (map sid ch) /\
      (let ord := auto_order a (map sid ch) e s in
       Permutation ord (map sid ch) /\
       forall ci cj u v, In ci ch -> In cj ch -> sid ci <> sid cj ->
                         In (u, v) E -> In u (leaves ci) -> In v (leaves cj) ->
                         (pos (sid ci) ord < pos (sid cj) ord)%nat) /\
      (fix go (l : list sys) : Prop := match l with [] => True | c :: r => good E c /\ go r end) ch
  end.

Lemma good_children : forall E i a ch e s, good E (SGroup i a ch e s) -> Forall (good E) ch.
Proof.
  intros E i a ch e s [_ [_ G]]. induction ch as [|c r IH]; constructor; destruct G; auto.
Qed.

(* ------------------------------------------------------------------ list lemmas *)

Lemma lookup_subs : forall ch c, NoDup (map sid ch) -> In c ch -> lookup (sid c) (subs ch) = exec_order c.
Proof.
  induction ch as [|d r IH]; intros c ND Hc. inversion Hc.
  cbn in ND. inversion ND as [|x l Hn Hnd]; subst. cbn [subs map lookup].
  destruct Hc as [-> | Hc].
  - rewrite Z.eqb_refl. reflexivity.
  - destruct (sid c =? sid d) eqn:E.
    + exfalso. apply Hn. apply Z.eqb_eq in E. rewrite <- E. apply in_map. auto.
    + apply IH; auto.
Qed.

Lemma sid_inj : forall ch a b, NoDup (map sid ch) -> In a ch -> In b ch -> sid a = sid b -> a = b.
Proof.
  induction ch as [|d r IH]; intros a b ND Ha Hb E. inversion Ha.
  cbn in ND. inversion ND as [|x l Hn Hnd]; subst.
  destruct Ha as [-> | Ha], Hb as [-> | Hb]; auto.
  - exfalso. apply Hn. rewrite E. apply in_map; auto.
  - exfalso. apply Hn. rewrite <- E. apply in_map; auto.
Qed.

Lemma flat_map_perm_pointwise : forall (A : Type) (f g : A -> list Z) l,
  (forall x, In x l -> Permutation (f x) (g x)) -> Permutation (flat_map f l) (flat_map g l).
Proof.
  induction l; cbn; intros; auto. apply Permutation_app. apply H; left; auto.
  apply IHl. intros; apply H; right; auto.
Qed.

Lemma flat_map_map : forall (A B : Type) (f : A -> B) (g : B -> list Z) l,
  flat_map g (map f l) = flat_map (fun x => g (f x)) l.
Proof. induction l; cbn; auto; try (rewrite IHl; reflexivity). Qed.

(* position inside a concatenation of blocks (blocks indexed by comp_of) *)
Lemma pos_concat : forall x bs c,
  nth_error bs (comp_of x bs) = Some c ->
  pos x (concat bs) = (block_start bs (comp_of x bs) + pos x c)%nat.
Proof.
  induction bs; cbn [comp_of concat]; intros c H.
  - discriminate.
  - rewrite pos_app. destruct (memz x a) eqn:E.
    + cbn in H. inv H. cbn. auto.
    + cbn [nth_error] in H. rewrite (IHbs _ H). cbn [block_start]. lia.
Qed.

Lemma concat_cross : forall bs u v,
  In u (concat bs) -> In v (concat bs) -> (comp_of u bs < comp_of v bs)%nat ->
  (pos u (concat bs) < pos v (concat bs))%nat.
Proof.
  intros bs u v Hu Hv L.
  destruct (comp_of_nth _ _ Hu) as [cu [Nu Iu]].
  destruct (comp_of_nth _ _ Hv) as [cv [Nv Iv]].
  rewrite (pos_concat _ _ _ Nu), (pos_concat _ _ _ Nv).
  pose proof (block_start_mono _ _ _ _ L Nu).
  assert (pos u cu < length cu)%nat by (apply pos_lt_In; auto). lia.
Qed.

Lemma concat_same : forall bs u v c k,
  NoDup (concat bs) -> nth_error bs k = Some c -> In u c -> In v c ->
  (pos u c < pos v c)%nat -> (pos u (concat bs) < pos v (concat bs))%nat.
Proof.
  intros bs u v c k ND N Iu Iv L.
  pose proof (comp_of_unique _ _ _ _ ND N Iu) as Eu.
  pose proof (comp_of_unique _ _ _ _ ND N Iv) as Ev.
  assert (Nu : nth_error bs (comp_of u bs) = Some c) by (rewrite Eu; auto).
  assert (Nv : nth_error bs (comp_of v bs) = Some c) by (rewrite Ev; auto).
  rewrite (pos_concat _ _ _ Nu), (pos_concat _ _ _ Nv), Eu, Ev. lia.
Qed.

Lemma nth_error_pos : forall k l, In k l -> nth_error l (pos k l) = Some k.
Proof.
  induction l; cbn [pos In]; intros; try tauto. destruct (k =? a) eqn:E.
  - apply Z.eqb_eq in E. subst. reflexivity.
  - apply Z.eqb_neq in E. destruct H as [H | H]; [congruence|]. cbn [nth_error]. auto.
Qed.

(* ------------------------------------------------------------------ the hierarchical theorem *)

Definition tree_spec (E : list edge) (t : sys) : Prop :=
  Permutation (exec_order t) (leaves t) /\
  forall u v, In (u, v) E -> In u (leaves t) -> In v (leaves t) ->
              (pos u (exec_order t) < pos v (exec_order t))%nat.

Lemma NoDup_app_l : forall (a b : list Z), NoDup (a ++ b) -> NoDup a.
Proof. induction a; cbn; intros; constructor; inv H. intro; apply H2; apply in_or_app; auto. eauto. Qed.

Lemma NoDup_app_r : forall (a b : list Z), NoDup (a ++ b) -> NoDup b.
Proof. induction a; cbn; intros; auto. inv H; auto. Qed.

Lemma NoDup_child : forall (ch : list sys) c,
  NoDup (flat_map leaves ch) -> In c ch -> NoDup (leaves c).
Proof.
  induction ch; cbn; intros c ND H; try tauto.
  destruct H. subst. eapply NoDup_app_l; eauto.
  apply IHch; auto. eapply NoDup_app_r; eauto.
Qed.

Theorem hier_topological : forall E,
  (forall u v, In (u, v) E -> u <> v) ->
  forall t, NoDup (leaves t) -> good E t -> tree_spec E t.
Proof.
  intros E Hloop. induction t as [i | i a ch e s IH] using sys_ind2; intros ND G.
  - split. cbn. auto. intros u v He Hu Hv. cbn in Hu, Hv.
    destruct Hu as [<- | []], Hv as [<- | []]. exfalso. eapply Hloop; eauto.
  - pose proof (good_children _ _ _ _ _ _ G) as Gch.
    destruct G as [NDid [[Pord Hord] _]].
    rewrite leaves_group in ND.
    set (ord := auto_order a (map sid ch) e s) in *.
    (* every child satisfies the statement *)
    assert (C : forall c, In c ch -> tree_spec E c).
    { intros c Hc. rewrite Forall_forall in IH, Gch. apply IH; auto. eapply NoDup_child; eauto. }
    (* the execution order as a concatenation of blocks, one per entry of ord *)
    assert (Ex : exec_order (SGroup i a ch e s) = concat (map (fun k => lookup k (subs ch)) ord)).
    { rewrite exec_group. fold ord. apply flat_map_concat_map. }
    set (blocks := map (fun k => lookup k (subs ch)) ord) in *.
    (* permutation *)
    assert (P : Permutation (exec_order (SGroup i a ch e s)) (flat_map leaves ch)).
    { rewrite exec_group. fold ord.
      eapply perm_trans. apply Permutation_flat_map. exact Pord.
      rewrite flat_map_map.
      apply flat_map_perm_pointwise. intros c Hc. rewrite lookup_subs; auto. apply (C c Hc). }
    assert (NDex : NoDup (concat blocks)).
    { rewrite <- Ex. eapply Permutation_NoDup. apply Permutation_sym; eauto. auto. }
    (* the block of a leaf of child c is the block number pos (sid c) ord *)
    assert (B : forall c x, In c ch -> In x (leaves c) ->
                nth_error blocks (pos (sid c) ord) = Some (exec_order c) /\ In x (exec_order c)).
    { intros c x Hc Hx. split.
      - unfold blocks. erewrite map_nth_error.
        2: { apply nth_error_pos. eapply Permutation_in. apply Permutation_sym; eauto.
             apply in_map; auto. }
        rewrite lookup_subs; auto.
      - eapply Permutation_in. apply Permutation_sym. apply (C c Hc). auto. }
    split.
    + rewrite leaves_group. exact P.
    + intros u v He Hu Hv. rewrite leaves_group in Hu, Hv.
      apply in_flat_map in Hu as [cu [Hcu Iu]]. apply in_flat_map in Hv as [cv [Hcv Iv]].
      destruct (B cu u Hcu Iu) as [Nu Xu]. destruct (B cv v Hcv Iv) as [Nv Xv].
      rewrite Ex.
      destruct (Z.eq_dec (sid cu) (sid cv)) as [Es | Ns].
      * assert (cu = cv) by (eapply sid_inj; eauto). subst cv.
        eapply concat_same; eauto. apply (C cu Hcu); auto.
      * apply concat_cross.
        -- apply in_concat. exists (exec_order cu). split; auto. eapply nth_error_In; eauto.
        -- apply in_concat. exists (exec_order cv). split; auto. eapply nth_error_In; eauto.
        -- rewrite (comp_of_unique _ _ _ _ NDex Nu Xu), (comp_of_unique _ _ _ _ NDex Nv Xv).
           eapply Hord; eauto.
Qed.

(* ------------------------------------------------------------------ one pass over the hierarchy *)

Theorem hier_one_pass : forall (E : list edge) (t : sys) (cs : list comp),
  (forall u v, In (u, v) E -> u <> v /\ In u (leaves t) /\ In v (leaves t)) ->
  NoDup (leaves t) -> good E t ->
  edges_cover_b cs E = true ->
  let env := run_pass (comp_fun cs) (exec_order t) (init_env cs) in
  forall i, In i (leaves t) -> residual cs env i = 0.
Proof.
  intros E t cs HE ND G EC env i Hi.
  destruct (hier_topological E (fun u v H => proj1 (HE u v H)) t ND G) as [P T].
  assert (NDl : NoDup (exec_order t)).
  { eapply Permutation_NoDup. apply Permutation_sym; eauto. auto. }
  assert (Tp : topo E (exec_order t)).
  { intros p j H. destruct (HE _ _ H) as [_ [Hp Hj]].
    split; [|split]; try (eapply Permutation_in; [apply Permutation_sym; eauto|auto]).
    apply T; auto. }
  unfold residual, env.
  rewrite (one_pass_solves Z E (comp_fun cs) (edges_cover_dep cs E EC) (exec_order t) (init_env cs)
             NDl Tp i).
  lia. eapply Permutation_in. apply Permutation_sym; eauto. auto.
Qed.

(* ------------------------------------------------------------------ the premise from the checker *)

(* One group: with auto_order on, an SCC list accepted by the checker, an acyclic subsystem graph and
   a subsystem graph that contains every induced edge, the group satisfies its part of [good]. *)
Lemma group_good_from_checker : forall (E : list edge) ch e s,
  NoDup (map sid ch) ->
  valid_scc_list (map sid ch) e s = true ->
  acyclic e ->
  (forall ci cj u v, In ci ch -> In cj ch -> sid ci <> sid cj ->
                     In (u, v) E -> In u (leaves ci) -> In v (leaves cj) -> In (sid ci, sid cj) e) ->
  let ord := auto_order true (map sid ch) e s in
  Permutation ord (map sid ch) /\
  forall ci cj u v, In ci ch -> In cj ch -> sid ci <> sid cj ->
                    In (u, v) E -> In u (leaves ci) -> In v (leaves cj) ->
                    (pos (sid ci) ord < pos (sid cj) ord)%nat.
Proof.
  intros E ch e s ND V AC Cov ord.
  destruct (acyclic_order_explicit _ _ _ ND V AC) as [P T]. fold ord in P, T.
  split; auto. intros. apply T. eapply Cov; eauto.
Qed.

(* the boolean premise evaluated by the harness on every acyclic case implies [good] *)
Lemma good_b_sound : forall E t, good_b E t = true -> good E t.
Proof.
  intros E. induction t as [i | i a ch e s IH] using sys_ind2; intros H; cbn [good_b good] in *; auto.
  repeat (apply andb_true_iff in H as [H ?]).
  set (ord := auto_order a (map sid ch) e s) in *.
  assert (NDid : NoDup (map sid ch)) by (apply nodupb_NoDup; auto).
  split; auto. split.
  - split.
    + apply NoDup_Permutation; auto. apply nodupb_NoDup; auto.
      intros x. split; apply subset_b_incl; auto.
    + intros ci cj u v Hi Hj Hs He Hu Hv.
      rewrite forallb_forall in H1. specialize (H1 _ Hi).
      rewrite forallb_forall in H1. specialize (H1 _ Hj).
      apply orb_true_iff in H1 as [H1 | H1]. apply Z.eqb_eq in H1. tauto.
      rewrite forallb_forall in H1. specialize (H1 _ He). cbn [fst snd] in H1.
      apply orb_true_iff in H1 as [H1 | H1].
      * apply negb_true_iff in H1. apply andb_false_iff in H1 as [H1 | H1];
          apply memz_false in H1; tauto.
      * apply Nat.ltb_lt. exact H1.
  - clear - IH H0. induction ch as [|c r IHr]; auto. inv IH.
    apply andb_true_iff in H0 as [A B]. split; [auto | apply IHr; auto].
Qed.

(* non-vacuity: a two-level tree declared out of order *)
Example ex_tree :
  let t := SGroup 10 true
             [SGroup 11 true [SComp 3; SComp 2] [(2, 3)] [[2]; [3]]; SComp 1]
             [(1, 11)] [[1]; [11]] in
  exec_order t = [1; 2; 3] /\ leaves t = [3; 2; 1].
Proof. vm_compute. auto. Qed.

Example ex_tree_good :
  good [(1, 2)] (SGroup 10 true [SComp 2; SComp 1] [(1, 2)] [[1]; [2]]).
Proof.
  cbn [good map sid]. split; [|split; [split|]].
  - repeat constructor; cbn; intuition lia.
  - vm_compute. apply perm_swap.
  - intros ci cj u v Hi Hj Hs He Hu Hv. vm_compute.
    destruct He as [He | []]. inv He.
    destruct Hi as [<- | [<- | []]], Hj as [<- | [<- | []]]; cbn in *; intuition lia.
  - auto.
Qed.
