(* C32 — model of OpenMDAO's automatic subsystem ordering and of one run-once pass.

   Anchors: openmdao/utils/graph_utils.py (get_sccs_topo, get_out_of_order_nodes),
            openmdao/core/group.py (Group._check_order, Group._set_auto_order, set_order),
            openmdao/solvers/nonlinear/nonlinear_runonce.py (one transfer + one evaluation per
            subsystem, in the order of _subsystems_allprocs).

   The strongly connected components themselves come from networkx (Tarjan); that algorithm is
   NOT modelled: its output is an input of the model and is validated by the boolean checker
   [valid_scc_list], which is proved sound in Proofs.v (checked oracle).
   Definitions only; proofs are in Proofs.v. *)
From Coq Require Import ZArith List Bool.
From OMV Require Import Base.Val.
Import ListNotations.
Open Scope Z_scope.

Definition node := Z.
Definition edge := (Z * Z)%type.

Definition memz (x : Z) (l : list Z) : bool := existsb (Z.eqb x) l.

(* index of the first occurrence (length of the list when absent): orders[name] *)
Fixpoint pos (x : Z) (l : list Z) : nat :=
  match l with
  | [] => O
  | y :: r => if x =? y then O else S (pos x r)
  end.

(* index of the first component containing x *)
Fixpoint comp_of (x : Z) (sccs : list (list Z)) : nat :=
  match sccs with
  | [] => O
  | c :: r => if memz x c then O else S (comp_of x r)
  end.

Fixpoint nodupb (l : list Z) : bool :=
  match l with
  | [] => true
  | x :: r => negb (memz x r) && nodupb r
  end.

Definition subset_b (a b : list Z) : bool := forallb (fun x => memz x b) a.

(* ------------------------------------------------------------------ reachability (for the checker) *)

Definition succs (edges : list edge) (S : list Z) : list Z :=
  map snd (filter (fun e => memz (fst e) S) edges).

Fixpoint reach (edges : list edge) (fuel : nat) (S : list Z) : list Z :=
  match fuel with
  | O => S
  | Datatypes.S f =>
      reach edges f (S ++ filter (fun v => negb (memz v S)) (succs edges S))
  end.

Definition strongly_connected_b (edges : list edge) (fuel : nat) (c : list Z) : bool :=
  forallb (fun u => let r := reach edges fuel [u] in forallb (fun v => memz v r) c) c.

(* ------------------------------------------------------------------ the checker of an SCC list *)

(* sccs is (1) a partition of the nodes into non-empty classes, (2) listed so that no edge goes
   from a later class to an earlier one, (3) every class is strongly connected in the graph. *)
Definition valid_scc_list (nodes : list Z) (edges : list edge) (sccs : list (list Z)) : bool :=
  nodupb (concat sccs)
  && subset_b (concat sccs) nodes && subset_b nodes (concat sccs)
  && forallb (fun e => memz (fst e) nodes && memz (snd e) nodes) edges
  && forallb (fun e => Nat.leb (comp_of (fst e) sccs) (comp_of (snd e) sccs)) edges
  && forallb (fun c => match c with [] => false | _ => true end) sccs
  && forallb (strongly_connected_b edges (length nodes)) sccs.

(* ------------------------------------------------------------------ get_out_of_order_nodes *)

(* for strongcomp in strongcomps: for u, v in graph.edges(strongcomp):
       if u in strongcomp and v not in strongcomp and orders[u] > orders[v]: append (u, v) *)
Definition out_of_order (declared : list Z) (edges : list edge) (sccs : list (list Z)) : list edge :=
  flat_map (fun c =>
    filter (fun e => memz (fst e) c && negb (memz (snd e) c)
                     && Nat.ltb (pos (snd e) declared) (pos (fst e) declared)) edges) sccs.

(* ------------------------------------------------------------------ _set_auto_order *)

(* sorted(order_list, key=orders): insertion sort, stable *)
Fixpoint insert_by (k : Z -> nat) (x : Z) (l : list Z) : list Z :=
  match l with
  | [] => [x]
  | y :: r => if Nat.leb (k x) (k y) then x :: l else y :: insert_by k x r
  end.

Definition isort (k : Z -> nat) (l : list Z) : list Z := fold_right (insert_by k) [] l.

Definition new_order (declared : list Z) (sccs : list (list Z)) : list Z :=
  flat_map (fun c => if Nat.ltb 1 (length c)
                     then isort (fun x => pos x declared) c   (* never change the order inside a cycle *)
                     else c) sccs.

(* Group._check_order(reorder=True) for one group: [declared] is list(_subsystems_allprocs) *)
Definition auto_order (auto : bool) (declared : list Z) (edges : list edge) (sccs : list (list Z))
  : list Z :=
  if auto then
    match out_of_order declared edges sccs with
    | [] => declared
    | _ :: _ => new_order declared sccs
    end
  else declared.

(* ------------------------------------------------------------------ hierarchy *)

Inductive sys :=
| SComp (id : Z)
| SGroup (id : Z) (auto : bool) (children : list sys) (edges : list edge) (sccs : list (list Z)).

Definition sid (s : sys) : Z := match s with SComp i => i | SGroup i _ _ _ _ => i end.

Fixpoint lookup (k : Z) (l : list (Z * list Z)) : list Z :=
  match l with
  | [] => []
  | (i, v) :: r => if k =? i then v else lookup k r
  end.

(* order in which the components are evaluated by the nested run-once solvers *)
Fixpoint exec_order (s : sys) : list Z :=
  match s with
  | SComp i => [i]
  | SGroup _ auto ch edges sccs =>
      let sub := (fix go (l : list sys) : list (Z * list Z) :=
                    match l with [] => [] | c :: r => (sid c, exec_order c) :: go r end) ch in
      flat_map (fun k => lookup k sub) (auto_order auto (map fst sub) edges sccs)
  end.

(* the components below a system (declared order) *)
Fixpoint leaves (s : sys) : list Z :=
  match s with
  | SComp i => [i]
  | SGroup _ _ ch _ _ =>
      (fix go (l : list sys) : list Z := match l with [] => [] | c :: r => leaves c ++ go r end) ch
  end.

(* boolean form of the premise of the hierarchical theorem (ProofsTree.good): in every group the
   subsystem names are distinct, the computed order is a permutation of them, and every component-level
   connection of E between two different subsystems has its source's subsystem first *)
Fixpoint good_b (E : list edge) (t : sys) : bool :=
  match t with
  | SComp _ => true
  | SGroup _ a ch e s =>
      let ids := map sid ch in
      let ord := auto_order a ids e s in
      nodupb ids && nodupb ord && subset_b ord ids && subset_b ids ord
      && forallb (fun ci => forallb (fun cj =>
           (sid ci =? sid cj)
           || forallb (fun ed => negb (memz (fst ed) (leaves ci) && memz (snd ed) (leaves cj))
                                 || Nat.ltb (pos (sid ci) ord) (pos (sid cj) ord)) E) ch) ch
      && (fix go (l : list sys) : bool := match l with [] => true | c :: r => good_b E c && go r end) ch
  end.

(* per group, in pre-order: (checker verdict, edges, out-of-order pairs, resulting order) *)
Fixpoint group_reports (s : sys) : list val :=
  match s with
  | SComp _ => []
  | SGroup _ auto ch edges sccs =>
      let decl := map sid ch in
      VL [VB (valid_scc_list decl edges sccs);
          VL (map (fun e => VL [VZ (fst e); VZ (snd e)]) edges);
          VL (map (fun e => VL [VZ (fst e); VZ (snd e)]) (out_of_order decl edges sccs));
          vzs (auto_order auto decl edges sccs)]
      :: (fix go (l : list sys) : list val :=
            match l with [] => [] | c :: r => group_reports c ++ go r end) ch
  end.

(* ------------------------------------------------------------------ one run-once pass *)

(* explicit affine component  y = b + sum coef * y_src + sum coef * constant  *)
Record comp := mkcomp { c_id : Z; c_b : Z; c_init : Z;
                        c_terms : list (Z * Z);     (* (coef, source component) *)
                        c_free : list (Z * Z) }.    (* (coef, value) of unconnected inputs *)

Fixpoint find_comp (i : Z) (cs : list comp) : option comp :=
  match cs with
  | [] => None
  | c :: r => if c_id c =? i then Some c else find_comp i r
  end.

Definition env := Z -> Z.
Definition upd (e : env) (i v : Z) : env := fun j => if j =? i then v else e j.

Definition eval_comp (c : comp) (e : env) : Z :=
  c_b c + fold_right (fun t acc => fst t * e (snd t) + acc) 0 (c_terms c)
        + fold_right (fun t acc => fst t * snd t + acc) 0 (c_free c).

Definition comp_fun (cs : list comp) (i : Z) (e : env) : Z :=
  match find_comp i cs with Some c => eval_comp c e | None => 0 end.

Definition init_env (cs : list comp) : env :=
  fun i => match find_comp i cs with Some c => c_init c | None => 0 end.

(* generic pass: every node of the order is evaluated once from the current values *)
Definition run_pass {V : Type} (f : Z -> (Z -> V) -> V) (order : list Z) (e : Z -> V) : Z -> V :=
  fold_left (fun e i => fun j => if j =? i then f i e else e j) order e.

(* ExplicitComponent._apply_nonlinear: residual = compute(inputs) - outputs *)
Definition residual (cs : list comp) (e : env) (i : Z) : Z := comp_fun cs i e - e i.

Definition edges_cover_b (cs : list comp) (edges : list edge) : bool :=
  forallb (fun c => forallb (fun t =>
     existsb (fun e => (fst e =? snd t) && (snd e =? c_id c)) edges) (c_terms c)) cs.

(* what the harness compares: reports per group, execution order, outputs and residuals after the pass *)
Definition comp_edges (cs : list comp) : list edge :=
  flat_map (fun c => map (fun t => (snd t, c_id c)) (c_terms c)) cs.

Definition run_case (s : sys) (cs : list comp) : val :=
  let order := exec_order s in
  let e := run_pass (comp_fun cs) order (init_env cs) in
  VL [VL (group_reports s);
      vzs (filter (fun i => negb (i =? 0)) order);
      vzs (map (fun c => e (c_id c)) cs);
      vzs (map (fun c => residual cs e (c_id c)) cs);
      VB (good_b (comp_edges cs) s)].
