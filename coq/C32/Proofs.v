(* C32 — proofs about the SCC-list checker and the automatic ordering. *)
From Coq Require Import ZArith List Bool Lia Permutation Sorting.Sorted.
From OMV Require Import Base.Val Base.Tactics C32.Model.
Import ListNotations.
Open Scope Z_scope.

(* ------------------------------------------------------------------ basics *)

Lemma memz_In : forall x l, memz x l = true <-> In x l.
Proof.
  unfold memz; intros; rewrite existsb_exists; split.
  - intros [y [Hy E]]. apply Z.eqb_eq in E. subst; auto.
  - intros H. exists x. split; auto. apply Z.eqb_refl.
Qed.

Lemma memz_false : forall x l, memz x l = false <-> ~ In x l.
Proof.
  intros. rewrite <- memz_In. destruct (memz x l); split; intros; congruence.
Qed.

Lemma nodupb_NoDup : forall l, nodupb l = true -> NoDup l.
Proof.
  induction l; cbn; intros; constructor.
  - apply andb_true_iff in H as [H _]. apply negb_true_iff in H. apply memz_false in H. auto.
  - apply andb_true_iff in H as [_ H]. auto.
Qed.

Lemma subset_b_incl : forall a b, subset_b a b = true -> incl a b.
Proof.
  unfold subset_b; intros a b H x Hx. rewrite forallb_forall in H. apply memz_In. auto.
Qed.

Lemma pos_app : forall x a b,
  pos x (a ++ b) = if memz x a then pos x a else (length a + pos x b)%nat.
Proof.
  induction a; cbn [app pos memz existsb length]; intros; auto.
  destruct (x =? a) eqn:E; cbn; auto.
  fold (memz x a0). rewrite IHa. destruct (memz x a0); auto.
Qed.

Lemma pos_lt_In : forall x l, (pos x l < length l)%nat <-> In x l.
Proof.
  induction l; cbn; split; intros; try lia; try tauto.
  - destruct (x =? a) eqn:E. left; lia. right. apply IHl. lia.
  - destruct (x =? a) eqn:E. lia. destruct H. lia. apply IHl in H. lia.
Qed.

Lemma pos_inj : forall l x y, In x l -> pos x l = pos y l -> x = y.
Proof.
  induction l; cbn; intros; try tauto.
  destruct (x =? a) eqn:E1, (y =? a) eqn:E2; try lia.
  destruct H. lia. apply IHl; auto.
Qed.

(* ------------------------------------------------------------------ paths *)

Inductive path (edges : list edge) : Z -> Z -> Prop :=
| path_refl : forall u, path edges u u
| path_step : forall u v w, path edges u v -> In (v, w) edges -> path edges u w.

Inductive ppath (edges : list edge) : Z -> Z -> Prop :=
| ppath_one : forall u v, In (u, v) edges -> ppath edges u v
| ppath_step : forall u v w, ppath edges u v -> In (v, w) edges -> ppath edges u w.

Definition acyclic (edges : list edge) : Prop := forall u, ~ ppath edges u u.

Lemma path_trans : forall edges a b c, path edges a b -> path edges b c -> path edges a c.
Proof. intros edges a b c H1 H2. revert H1. induction H2; intros; auto. eapply path_step; [apply IHpath; exact H1 | exact H]. Qed.

Lemma path_ppath : forall edges a b, path edges a b -> a = b \/ ppath edges a b.
Proof.
  intros edges a b H. induction H; auto.
  right. destruct IHpath as [-> | P]. constructor; auto. eapply ppath_step; [exact P | exact H0].
Qed.

Lemma ppath_trans : forall edges a b c, ppath edges a b -> ppath edges b c -> ppath edges a c.
Proof. intros edges a b c H1 H2. revert H1. induction H2; intros.
  eapply ppath_step; [exact H1 | exact H]. eapply ppath_step; [apply IHppath; exact H1 | exact H]. Qed.

Lemma reach_sound : forall edges fuel S x,
  In x (reach edges fuel S) -> exists s, In s S /\ path edges s x.
Proof.
  induction fuel; cbn [reach]; intros S x H.
  - exists x. split; auto. constructor.
  - apply IHfuel in H as [s [Hs P]].
    apply in_app_or in Hs as [Hs | Hs].
    + eauto.
    + apply filter_In in Hs as [Hs _]. unfold succs in Hs.
      apply in_map_iff in Hs as [[a b] [Eb Hf]]. cbn in Eb. subst b.
      apply filter_In in Hf as [He Ha]. cbn in Ha. apply memz_In in Ha.
      exists a. split; auto. eapply path_trans; [|exact P].
      econstructor. constructor. exact He.
Qed.

Lemma strongly_connected_sound : forall edges fuel c u v,
  strongly_connected_b edges fuel c = true -> In u c -> In v c -> path edges u v.
Proof.
  unfold strongly_connected_b; intros edges fuel c u v H Hu Hv.
  rewrite forallb_forall in H. specialize (H u Hu). cbn zeta in H.
  rewrite forallb_forall in H. specialize (H v Hv). apply memz_In in H.
  apply reach_sound in H as [s [[<- | []] P]]. exact P.
Qed.

(* ------------------------------------------------------------------ components *)

Lemma comp_of_lt_In : forall x sccs, (comp_of x sccs < length sccs)%nat <-> In x (concat sccs).
Proof.
  induction sccs; cbn; split; intros; try lia; try tauto.
  - apply in_or_app. destruct (memz x a) eqn:E. left; apply memz_In; auto.
    right. apply IHsccs. lia.
  - destruct (memz x a) eqn:E. lia. apply in_app_or in H as [H | H].
    apply memz_In in H; congruence. apply IHsccs in H. lia.
Qed.

Lemma comp_of_nth : forall x sccs, In x (concat sccs) ->
  exists c, nth_error sccs (comp_of x sccs) = Some c /\ In x c.
Proof.
  induction sccs; cbn; intros; try tauto.
  destruct (memz x a) eqn:E.
  - exists a. split; auto. apply memz_In; auto.
  - apply in_app_or in H as [H | H]. apply memz_In in H; congruence. auto.
Qed.

Lemma comp_of_unique : forall x sccs c k, NoDup (concat sccs) ->
  nth_error sccs k = Some c -> In x c -> comp_of x sccs = k.
Proof.
  induction sccs; intros c k ND Hn Hx.
  - destruct k; discriminate.
  - cbn [concat] in ND. cbn [comp_of]. destruct k; cbn in Hn.
    + inv Hn. apply memz_In in Hx. rewrite Hx. auto.
    + destruct (memz x a) eqn:E.
      * exfalso. apply memz_In in E.
        assert (Hc : In x (concat sccs)).
        { apply nth_error_In in Hn. apply in_concat. eauto. }
        clear - ND E Hc. induction a; cbn in *; try tauto. inv ND. destruct E.
        subst. apply H1. apply in_or_app; auto. auto.
      * f_equal. eapply IHsccs; eauto.
        clear - ND. induction a; cbn in *; auto. inv ND; auto.
Qed.

(* ------------------------------------------------------------------ soundness of the checker *)

Record scc_spec (nodes : list Z) (edges : list edge) (sccs : list (list Z)) : Prop := {
  sp_nodup : NoDup (concat sccs);
  sp_cover : forall x, In x (concat sccs) <-> In x nodes;
  sp_edges_in : forall u v, In (u, v) edges -> In u nodes /\ In v nodes;
  sp_forward : forall u v, In (u, v) edges -> (comp_of u sccs <= comp_of v sccs)%nat;
  sp_nonempty : forall c, In c sccs -> c <> [];
  sp_strong : forall c u v, In c sccs -> In u c -> In v c -> path edges u v }.

Lemma valid_scc_list_sound : forall nodes edges sccs,
  valid_scc_list nodes edges sccs = true -> scc_spec nodes edges sccs.
Proof.
  unfold valid_scc_list; intros nodes edges sccs H.
  repeat (apply andb_true_iff in H as [H ?]).
  constructor.
  - apply nodupb_NoDup; auto.
  - intros x. split. apply subset_b_incl; auto. apply subset_b_incl; auto.
  - intros u v Huv. rewrite forallb_forall in H3. specialize (H3 _ Huv). cbn in H3.
    apply andb_true_iff in H3 as [A B]. apply memz_In in A, B. auto.
  - intros u v Huv. rewrite forallb_forall in H2. specialize (H2 _ Huv). cbn in H2.
    apply Nat.leb_le in H2. auto.
  - intros c Hc. rewrite forallb_forall in H1. specialize (H1 _ Hc). destruct c; congruence.
  - intros c u v Hc. rewrite forallb_forall in H0. specialize (H0 _ Hc).
    eapply strongly_connected_sound; eauto.
Qed.

(* a cross-component edge goes strictly forward *)
Lemma spec_cross_forward : forall nodes edges sccs u v,
  scc_spec nodes edges sccs -> In (u, v) edges ->
  comp_of u sccs <> comp_of v sccs -> (comp_of u sccs < comp_of v sccs)%nat.
Proof. intros. pose proof (sp_forward _ _ _ H u v H0). lia. Qed.

(* in an acyclic graph every component is a singleton *)
Lemma acyclic_singletons : forall nodes edges sccs,
  scc_spec nodes edges sccs -> acyclic edges -> forall c, In c sccs -> exists x, c = [x].
Proof.
  intros nodes edges sccs SP AC c Hc.
  destruct c as [|x [|y r]].
  - exfalso. eapply sp_nonempty; eauto.
  - eauto.
  - exfalso.
    assert (x <> y).
    { pose proof (sp_nodup _ _ _ SP) as ND.
      clear - ND Hc. induction sccs; cbn in *; try tauto. destruct Hc.
      - subst. cbn in ND. inv ND. intro; subst. apply H1. left; auto.
      - apply IHsccs; auto. clear - ND. induction a; cbn in *; auto. inv ND; auto. }
    assert (P1 : path edges x y) by (eapply sp_strong; eauto; cbn; auto).
    assert (P2 : path edges y x) by (eapply sp_strong; eauto; cbn; auto).
    apply path_ppath in P1 as [? | P1]; try congruence.
    apply path_ppath in P2 as [? | P2]; try congruence.
    eapply AC. eapply ppath_trans; eauto.
Qed.

(* ------------------------------------------------------------------ insertion sort *)

Lemma insert_by_perm : forall k x l, Permutation (insert_by k x l) (x :: l).
Proof.
  induction l; cbn; auto. destruct (Nat.leb (k x) (k a)); auto.
  eapply perm_trans. apply perm_skip. apply IHl. apply perm_swap.
Qed.

Lemma isort_perm : forall k l, Permutation (isort k l) l.
Proof.
  induction l; cbn; auto. eapply perm_trans. apply insert_by_perm. auto.
Qed.

Definition kle (k : Z -> nat) (a b : Z) : Prop := (k a <= k b)%nat.

Lemma insert_by_sorted : forall k x l,
  StronglySorted (kle k) l -> StronglySorted (kle k) (insert_by k x l).
Proof.
  induction l; cbn; intros H.
  - constructor; constructor.
  - inv H. destruct (Nat.leb (k x) (k a)) eqn:E.
    + apply Nat.leb_le in E. constructor. constructor; auto.
      constructor; auto. eapply Forall_impl; [|exact H3]. unfold kle; intros; lia.
    + apply Nat.leb_gt in E. constructor; auto.
      eapply Permutation_Forall. apply Permutation_sym. apply insert_by_perm.
      constructor; auto. unfold kle; lia.
Qed.

Lemma isort_sorted : forall k l, StronglySorted (kle k) (isort k l).
Proof. induction l; cbn. constructor. apply insert_by_sorted; auto. Qed.

Lemma sorted_pos_lt : forall k l u v,
  StronglySorted (kle k) l -> In u l -> In v l -> (k u < k v)%nat -> (pos u l < pos v l)%nat.
Proof.
  induction l; cbn; intros u v SS Hu Hv K; try tauto.
  inv SS. destruct (u =? a) eqn:E1.
  - apply Z.eqb_eq in E1. subst. destruct (v =? a) eqn:E2; try lia.
    apply Z.eqb_eq in E2. subst. lia.
  - destruct (v =? a) eqn:E2.
    + apply Z.eqb_eq in E2. subst. destruct Hu. lia.
      rewrite Forall_forall in H2. specialize (H2 _ H). unfold kle in H2. lia.
    + destruct Hu, Hv; try lia. assert (pos u l < pos v l)%nat by (apply IHl; auto). lia.
Qed.

(* ------------------------------------------------------------------ the new order *)

Definition blk (declared : list Z) (c : list Z) : list Z :=
  if Nat.ltb 1 (length c) then isort (fun x => pos x declared) c else c.

Lemma blk_perm : forall d c, Permutation (blk d c) c.
Proof. unfold blk; intros. destruct (Nat.ltb 1 (length c)); auto. apply isort_perm. Qed.

Lemma blk_In : forall d c x, In x (blk d c) <-> In x c.
Proof.
  intros. split; apply Permutation_in. apply blk_perm. apply Permutation_sym, blk_perm.
Qed.

Lemma new_order_eq : forall d sccs, new_order d sccs = flat_map (blk d) sccs.
Proof. reflexivity. Qed.

Lemma new_order_perm : forall d sccs, Permutation (new_order d sccs) (concat sccs).
Proof.
  intros. rewrite new_order_eq. induction sccs; cbn; auto.
  apply Permutation_app; auto. apply blk_perm.
Qed.

Lemma memz_blk : forall d c x, memz x (blk d c) = memz x c.
Proof.
  intros. destruct (memz x c) eqn:E.
  - apply memz_In. apply blk_In. apply memz_In; auto.
  - apply memz_false. rewrite blk_In. apply memz_false; auto.
Qed.

(* position in the new order: blocks before, then position inside the own block *)
Fixpoint block_start (sccs : list (list Z)) (k : nat) : nat :=
  match sccs, k with
  | c :: r, S k' => (length c + block_start r k')%nat
  | _, _ => O
  end.

Lemma blk_length : forall d c, length (blk d c) = length c.
Proof. intros. apply Permutation_length. apply blk_perm. Qed.

Lemma pos_flat_blk : forall d x sccs c,
  nth_error sccs (comp_of x sccs) = Some c ->
  pos x (flat_map (blk d) sccs) = (block_start sccs (comp_of x sccs) + pos x (blk d c))%nat.
Proof.
  induction sccs; cbn [comp_of flat_map]; intros c H.
  - discriminate.
  - rewrite pos_app, memz_blk. destruct (memz x a) eqn:E.
    + cbn in H. inv H. cbn. auto.
    + cbn [nth_error] in H. rewrite (IHsccs _ H). cbn [block_start]. rewrite blk_length. lia.
Qed.

Lemma block_start_mono : forall sccs i j c,
  (i < j)%nat -> nth_error sccs i = Some c ->
  (block_start sccs i + length c <= block_start sccs j)%nat.
Proof.
  induction sccs; intros i j c L H.
  - destruct i; discriminate.
  - destruct j; try lia. destruct i; cbn in *.
    + inv H. lia.
    + assert (i < j)%nat by lia. specialize (IHsccs _ _ _ H0 H). lia.
Qed.

Lemma new_order_cross : forall d sccs u v,
  In u (concat sccs) -> In v (concat sccs) ->
  (comp_of u sccs < comp_of v sccs)%nat ->
  (pos u (new_order d sccs) < pos v (new_order d sccs))%nat.
Proof.
  intros d sccs u v Hu Hv L. rewrite new_order_eq.
  destruct (comp_of_nth _ _ Hu) as [cu [Nu Iu]].
  destruct (comp_of_nth _ _ Hv) as [cv [Nv Iv]].
  rewrite (pos_flat_blk _ _ _ _ Nu), (pos_flat_blk _ _ _ _ Nv).
  pose proof (block_start_mono _ _ _ _ L Nu).
  assert (pos u (blk d cu) < length (blk d cu))%nat by (apply pos_lt_In, blk_In; auto).
  rewrite blk_length in H0. lia.
Qed.

Lemma new_order_intra : forall d sccs u v,
  NoDup (concat sccs) ->
  In u (concat sccs) -> In v (concat sccs) ->
  comp_of u sccs = comp_of v sccs ->
  (pos u d < pos v d)%nat ->
  (pos u (new_order d sccs) < pos v (new_order d sccs))%nat.
Proof.
  intros d sccs u v ND Hu Hv E L. rewrite new_order_eq.
  destruct (comp_of_nth _ _ Hu) as [cu [Nu Iu]].
  destruct (comp_of_nth _ _ Hv) as [cv [Nv Iv]].
  rewrite (pos_flat_blk _ _ _ _ Nu), (pos_flat_blk _ _ _ _ Nv).
  rewrite E in Nu. rewrite Nu in Nv. inv Nv. rewrite E.
  apply Nat.add_lt_mono_l.
  unfold blk. destruct (Nat.ltb 1 (length cv)) eqn:LL.
  - apply sorted_pos_lt with (k := fun x => pos x d).
    + apply isort_sorted.
    + eapply Permutation_in. apply Permutation_sym, isort_perm. auto.
    + eapply Permutation_in. apply Permutation_sym, isort_perm. auto.
    + auto.
  - apply Nat.ltb_ge in LL. destruct cv as [|a [|b r]]; cbn in *; try tauto; try lia.
    destruct Iu, Iv; try tauto. subst. lia.
Qed.

(* ------------------------------------------------------------------ no out-of-order connection *)

Lemma out_of_order_nil : forall d edges sccs u v,
  NoDup (concat sccs) ->
  out_of_order d edges sccs = [] ->
  In (u, v) edges -> In u (concat sccs) ->
  comp_of u sccs <> comp_of v sccs ->
  (pos u d <= pos v d)%nat.
Proof.
  intros d edges sccs u v ND H He Hu Hc.
  destruct (comp_of_nth _ _ Hu) as [c [Nc Ic]].
  destruct (Nat.leb (pos u d) (pos v d)) eqn:E. apply Nat.leb_le; auto.
  exfalso. apply Nat.leb_gt in E.
  assert (In (u, v) (out_of_order d edges sccs)).
  { unfold out_of_order. apply in_flat_map. exists c. split. eapply nth_error_In; eauto.
    apply filter_In. split; auto. cbn.
    apply memz_In in Ic. rewrite Ic. cbn.
    destruct (memz v c) eqn:Mv.
    - exfalso. apply memz_In in Mv. apply Hc.
      rewrite (comp_of_unique _ _ _ _ ND Nc Mv). auto.
    - cbn. apply Nat.ltb_lt. auto. }
  rewrite H in H0. auto.
Qed.

(* ------------------------------------------------------------------ the ordering theorem *)

Record order_spec (declared : list Z) (edges : list edge) (sccs : list (list Z)) (l : list Z) : Prop := {
  os_perm : Permutation l declared;
  os_cross : forall u v, In (u, v) edges -> comp_of u sccs <> comp_of v sccs ->
             (pos u l < pos v l)%nat;
  os_intra : forall u v, In u declared -> In v declared -> comp_of u sccs = comp_of v sccs ->
             (pos u declared < pos v declared)%nat -> (pos u l < pos v l)%nat }.

Lemma auto_order_spec : forall declared edges sccs,
  NoDup declared ->
  scc_spec declared edges sccs ->
  order_spec declared edges sccs (auto_order true declared edges sccs).
Proof.
  intros d edges sccs NDd SP. unfold auto_order.
  pose proof (sp_nodup _ _ _ SP) as ND.
  destruct (out_of_order d edges sccs) eqn:OO.
  - constructor; auto.
    intros u v He Hc.
    destruct (sp_edges_in _ _ _ SP _ _ He) as [Hu Hv].
    assert (pos u d <= pos v d)%nat.
    { eapply out_of_order_nil; eauto. apply (sp_cover _ _ _ SP); auto. }
    assert (pos u d <> pos v d).
    { intro. apply Hc. f_equal. eapply pos_inj; eauto. }
    lia.
  - clear OO. constructor.
    + eapply perm_trans. apply new_order_perm.
      apply NoDup_Permutation; auto. apply (sp_cover _ _ _ SP).
    + intros u v He Hc.
      destruct (sp_edges_in _ _ _ SP _ _ He) as [Hu Hv].
      apply new_order_cross; try (apply (sp_cover _ _ _ SP); auto).
      eapply spec_cross_forward; eauto.
    + intros u v Hu Hv E L.
      apply new_order_intra; auto; apply (sp_cover _ _ _ SP); auto.
Qed.

Lemma auto_order_off : forall declared edges sccs, auto_order false declared edges sccs = declared.
Proof. reflexivity. Qed.

(* ------------------------------------------------------------------ one pass *)

Definition topo (edges : list edge) (l : list Z) : Prop :=
  forall p i, In (p, i) edges -> In p l /\ In i l /\ (pos p l < pos i l)%nat.

Lemma pos_split : forall l1 i l2, ~ In i l1 -> pos i (l1 ++ i :: l2) = length l1.
Proof.
  intros. rewrite pos_app. destruct (memz i l1) eqn:E.
  apply memz_In in E; tauto. cbn. rewrite Z.eqb_refl. lia.
Qed.

Lemma pos_app_lt : forall p l1 r, (pos p (l1 ++ r) < length l1)%nat -> In p l1.
Proof.
  intros. rewrite pos_app in H. destruct (memz p l1) eqn:E. apply memz_In; auto. lia.
Qed.

Section OnePass.
  Variable V : Type.
  Variable edges : list edge.
  Variable f : Z -> (Z -> V) -> V.
  Hypothesis dep : forall i e e', (forall p, In (p, i) edges -> e p = e' p) -> f i e = f i e'.

  Lemma run_pass_snoc : forall l x e,
    run_pass f (l ++ [x]) e = (fun j => if j =? x then f x (run_pass f l e) else run_pass f l e j).
  Proof. intros. unfold run_pass. rewrite fold_left_app. reflexivity. Qed.

  Lemma one_pass_prefix : forall l e,
    NoDup l ->
    (forall l1 i l2, l = l1 ++ i :: l2 -> forall p, In (p, i) edges -> In p l1) ->
    forall i, In i l -> run_pass f l e i = f i (run_pass f l e).
  Proof.
    induction l using rev_ind; intros e ND T i Hi. inversion Hi.
    rewrite run_pass_snoc.
    assert (NDl : NoDup l).
    { pose proof (NoDup_remove_1 l [] x ND) as Q. rewrite app_nil_r in Q. auto. }
    assert (Hx : ~ In x l).
    { pose proof (NoDup_remove_2 l [] x ND) as Q. rewrite app_nil_r in Q. auto. }
    assert (Tl : forall l1 i l2, l = l1 ++ i :: l2 -> forall p, In (p, i) edges -> In p l1).
    { intros l1 j l2 El p Hp. apply (T l1 j (l2 ++ [x])); auto.
      rewrite El. rewrite <- app_assoc. reflexivity. }
    apply in_app_or in Hi as [Hi | [<- | []]].
    - assert (i <> x) by (intro; subst; auto).
      replace (i =? x) with false by lia.
      rewrite (IHl e NDl Tl i Hi).
      apply dep. intros p Hp.
      apply in_split in Hi as [l1 [l2 El]].
      assert (In p l1) by (eapply Tl; eauto).
      assert (p <> x). { intro Epx. apply Hx. rewrite <- Epx. rewrite El. apply in_or_app; auto. }
      replace (p =? x) with false by lia. auto.
    - rewrite Z.eqb_refl. apply dep. intros p Hp.
      assert (In p l). { apply (T l x []); auto. }
      assert (p <> x) by (intro; subst; auto).
      replace (p =? x) with false by lia. auto.
  Qed.

  Lemma one_pass_solves : forall l e,
    NoDup l -> topo edges l ->
    forall i, In i l -> run_pass f l e i = f i (run_pass f l e).
  Proof.
    intros l e ND T. apply one_pass_prefix; auto.
    intros l1 i l2 El p Hp. destruct (T _ _ Hp) as [_ [_ L]].
    assert (~ In i l1).
    { rewrite El in ND. apply NoDup_remove_2 in ND. intro. apply ND. apply in_or_app; auto. }
    rewrite El in L. rewrite (pos_split _ _ _ H) in L. eapply pos_app_lt; eauto.
  Qed.
End OnePass.

(* ------------------------------------------------------------------ acyclic graph: the order is topological *)

Lemma acyclic_auto_order_topo : forall declared edges sccs,
  NoDup declared -> scc_spec declared edges sccs -> acyclic edges ->
  let l := auto_order true declared edges sccs in
  NoDup l /\ Permutation l declared /\ topo edges l.
Proof.
  intros d edges sccs NDd SP AC l.
  pose proof (auto_order_spec _ _ _ NDd SP) as OS. fold l in OS.
  pose proof (os_perm _ _ _ _ OS) as P.
  split; [|split]; auto.
  - eapply Permutation_NoDup. apply Permutation_sym; eauto. auto.
  - intros p i He.
    destruct (sp_edges_in _ _ _ SP _ _ He) as [Hp Hi].
    split; [|split]; try (eapply Permutation_in; [apply Permutation_sym; eauto|auto]).
    apply (os_cross _ _ _ _ OS); auto.
    intro E.
    (* same component: it is a singleton, so p = i and the edge is a self loop: a cycle *)
    apply (sp_cover _ _ _ SP) in Hp, Hi.
    destruct (comp_of_nth _ _ Hp) as [cp [Np Ip]].
    destruct (comp_of_nth _ _ Hi) as [ci [Ni Ii]].
    rewrite E in Np. rewrite Np in Ni. inv Ni.
    destruct (acyclic_singletons _ _ _ SP AC ci) as [x Ex].
    eapply nth_error_In; eauto.
    rewrite Ex in Ip, Ii. destruct Ip as [Ip | []], Ii as [Ii | []].
    apply (AC i). constructor. rewrite <- Ii at 1. rewrite Ip. exact He.
Qed.

(* affine components: the value of a component depends only on its sources *)
Lemma edges_cover_dep : forall cs edges,
  edges_cover_b cs edges = true ->
  forall i e e', (forall p, In (p, i) edges -> e p = e' p) -> comp_fun cs i e = comp_fun cs i e'.
Proof.
  intros cs edges H i e e' A. unfold comp_fun.
  destruct (find_comp i cs) eqn:F; auto.
  assert (In c cs /\ c_id c = i).
  { clear - F. induction cs; cbn in *; try discriminate.
    destruct (c_id a =? i) eqn:E. inv F. split; auto; lia. destruct (IHcs F); auto. }
  destruct H0 as [Hc Hid].
  unfold edges_cover_b in H. rewrite forallb_forall in H. specialize (H _ Hc).
  rewrite forallb_forall in H.
  unfold eval_comp. f_equal. f_equal.
  induction (c_terms c) as [|t r IH]; cbn; auto.
  rewrite IH. 2: { intros; apply H; right; auto. }
  f_equal. f_equal. apply A.
  specialize (H t (or_introl eq_refl)). apply existsb_exists in H as [[a b] [He Hab]].
  cbn in Hab. apply andb_true_iff in Hab as [A1 A2].
  apply Z.eqb_eq in A1, A2. rewrite <- A1, <- Hid, <- A2. exact He.
Qed.

Theorem feed_forward_one_pass : forall declared edges sccs cs,
  NoDup declared ->
  valid_scc_list declared edges sccs = true ->
  acyclic edges ->
  edges_cover_b cs edges = true ->
  let l := auto_order true declared edges sccs in
  let e := run_pass (comp_fun cs) l (init_env cs) in
  forall i, In i declared -> residual cs e i = 0.
Proof.
  intros d edges sccs cs ND V AC EC l e i Hi.
  apply valid_scc_list_sound in V.
  destruct (acyclic_auto_order_topo _ _ _ ND V AC) as [NDl [P T]]. fold l in NDl, P, T.
  unfold residual, e.
  rewrite (one_pass_solves Z edges (comp_fun cs) (edges_cover_dep cs edges EC) l (init_env cs) NDl T i).
  lia. eapply Permutation_in. apply Permutation_sym; eauto. auto.
Qed.

(* ------------------------------------------------------------------ non-vacuity *)

Example ex_valid :
  valid_scc_list [1; 2; 3; 4] [(3, 1); (1, 2); (2, 1); (2, 4)] [[3]; [2; 1]; [4]] = true.
Proof. vm_compute. reflexivity. Qed.

Example ex_order :
  auto_order true [4; 2; 1; 3] [(3, 1); (1, 2); (2, 1); (2, 4)] [[3]; [1; 2]; [4]] = [3; 2; 1; 4].
Proof. vm_compute. reflexivity. Qed.

Example ex_acyclic : acyclic [(3, 1); (1, 2)].
Proof.
  assert (forall u v, ppath [(3, 1); (1, 2)] u v -> (u = 3 /\ (v = 1 \/ v = 2)) \/ (u = 1 /\ v = 2)).
  { intros u v H. induction H.
    - cbn in H. destruct H as [H | [H | []]]; inv H; auto.
    - cbn in H0. destruct H0 as [H0 | [H0 | []]]; inv H0; lia. }
  intros u H0. apply H in H0. lia.
Qed.

(* the checker rejects an order with a backward edge, a non-partition, and a class that is not
   strongly connected *)
Example ex_reject_backward : valid_scc_list [1; 2] [(1, 2)] [[2]; [1]] = false.
Proof. vm_compute. reflexivity. Qed.
Example ex_reject_merge : valid_scc_list [1; 2] [(1, 2)] [[1; 2]] = false.
Proof. vm_compute. reflexivity. Qed.
Example ex_reject_missing : valid_scc_list [1; 2] [(1, 2)] [[1]] = false.
Proof. vm_compute. reflexivity. Qed.

(* ------------------------------------------------------------------ explicit statements for Props.v *)

Lemma checker_sound_explicit : forall nodes edges sccs,
  valid_scc_list nodes edges sccs = true ->
  NoDup (concat sccs)
  /\ (forall x, In x (concat sccs) <-> In x nodes)
  /\ (forall u v, In (u, v) edges -> (comp_of u sccs <= comp_of v sccs)%nat)
  /\ (forall c u v, In c sccs -> In u c -> In v c -> path edges u v).
Proof.
  intros. apply valid_scc_list_sound in H. destruct H. auto.
Qed.

Lemma auto_order_explicit : forall declared edges sccs,
  NoDup declared ->
  valid_scc_list declared edges sccs = true ->
  let l := auto_order true declared edges sccs in
  Permutation l declared
  /\ (forall u v, In (u, v) edges -> comp_of u sccs <> comp_of v sccs -> (pos u l < pos v l)%nat)
  /\ (forall u v, In u declared -> In v declared -> comp_of u sccs = comp_of v sccs ->
        (pos u declared < pos v declared)%nat -> (pos u l < pos v l)%nat).
Proof.
  intros. apply valid_scc_list_sound in H0. destruct (auto_order_spec _ _ _ H H0). auto.
Qed.

Lemma no_out_of_order_topological : forall declared edges sccs,
  NoDup declared ->
  valid_scc_list declared edges sccs = true ->
  out_of_order declared edges sccs = [] ->
  forall u v, In (u, v) edges -> comp_of u sccs <> comp_of v sccs ->
  (pos u declared < pos v declared)%nat.
Proof.
  intros d edges sccs ND V OO u v He Hc.
  destruct (auto_order_explicit _ _ _ ND V) as [_ [C _]].
  unfold auto_order in C. rewrite OO in C. auto.
Qed.

Lemma acyclic_order_explicit : forall declared edges sccs,
  NoDup declared -> valid_scc_list declared edges sccs = true -> acyclic edges ->
  let l := auto_order true declared edges sccs in
  Permutation l declared /\
  forall p i, In (p, i) edges -> (pos p l < pos i l)%nat.
Proof.
  intros d edges sccs ND V AC l. apply valid_scc_list_sound in V.
  destruct (acyclic_auto_order_topo _ _ _ ND V AC) as [_ [P T]].
  split; auto. intros p i H. apply T; auto.
Qed.
