(* C20 — the driver scaling is an exact, invertible affine map (all values, all sizes). *)
From Coq Require Import ZArith QArith Qabs Qfield List Bool Lia Setoid.
From OMV Require Import Base.Val C20.Model.
Import ListNotations.
Open Scope Q_scope.

(* ---------------------------------------------------------------- lists *)

Lemma nth_mapi_from : forall {A B} (f : nat -> A -> B) (l : list A) (i k : nat) (d : B) (d' : A),
  (k < length l)%nat -> nth k (mapi_from f i l) d = f (i + k)%nat (nth k l d').
Proof.
  intros A B f l. induction l as [|x r IH]; intros i k d d' H; simpl in *; [lia|].
  destruct k as [|k]; simpl.
  - rewrite Nat.add_0_r. reflexivity.
  - rewrite (IH (S i) k d d') by lia. f_equal. lia.
Qed.

Lemma nth_mapi : forall {A B} (f : nat -> A -> B) (l : list A) (k : nat) (d : B) (d' : A),
  (k < length l)%nat -> nth k (mapi f l) d = f k (nth k l d').
Proof. intros. unfold mapi. rewrite (nth_mapi_from f l 0 k d d') by assumption. reflexivity. Qed.

Lemma length_mapi_from : forall {A B} (f : nat -> A -> B) l i, length (mapi_from f i l) = length l.
Proof. intros A B f l. induction l; intros; simpl; auto. Qed.

Lemma length_mapi : forall {A B} (f : nat -> A -> B) l, length (mapi f l) = length l.
Proof. intros. apply length_mapi_from. Qed.

(* ---------------------------------------------------------------- ref / ref0 *)

Definition T (a s x : Q) : Q := (x + a) * s.
Definition Tinv (a s y : Q) : Q := y / s - a.

(* ref0 scales to 0 and ref scales to 1 *)
Theorem ref_to_adder_scaler : forall ref0 ref a s,
  (ref0 <> None \/ ref <> None) ->
  das ref0 ref None None = DasOk a s ->
  T a s (dflt 0 ref0) == 0 /\ T a s (dflt 1 ref) == 1.
Proof.
  intros ref0 ref a s Hgiven H. unfold das in H.
  assert (E : (if Qeq_bool (dflt 1 ref + - dflt 0 ref0) 0 then DasZeroDiv
               else DasOk (- dflt 0 ref0) (1 / (dflt 1 ref + - dflt 0 ref0))) = DasOk a s).
  { destruct ref0, ref; try exact H; try (destruct Hgiven; congruence). }
  clear H. destruct (Qeq_bool (dflt 1 ref + - dflt 0 ref0) 0) eqn:Ez; [discriminate|].
  injection E as <- <-. unfold T.
  assert (Hnz : ~ dflt 1 ref + - dflt 0 ref0 == 0).
  { intro Hc. apply Qeq_bool_iff in Hc. congruence. }
  split; field; exact Hnz.
Qed.

(* ref/ref0 and scaler/adder are mutually exclusive; ref = ref0 cannot be scaled *)
Theorem das_exclusive : forall ref0 ref adder scaler,
  (ref0 <> None \/ ref <> None) -> (adder <> None \/ scaler <> None) ->
  das ref0 ref adder scaler = DasValueError.
Proof.
  intros [r0|] [r|] [a|] [s|] H1 H2; simpl; try reflexivity;
    try (destruct H1; congruence); try (destruct H2; congruence).
Qed.

(* ---------------------------------------------------------------- scale / unscale *)

Lemma T_Tinv : forall a s y, ~ s == 0 -> T a s (Tinv a s y) == y.
Proof. intros. unfold T, Tinv. field. assumption. Qed.

Lemma Tinv_T : forall a s x, ~ s == 0 -> Tinv a s (T a s x) == x.
Proof. intros. unfold T, Tinv. field. assumption. Qed.

(* the element transformations of vec_scale / vec_unscale are T and Tinv with the defaults 0 / 1 *)
Lemma vec_scale_nth : forall adder scaler x k, (k < length x)%nat ->
  nth k (vec_scale adder scaler x) 0 == T (osv_get 0 adder k) (osv_get 1 scaler k) (nth k x 0).
Proof.
  intros adder scaler x k H. unfold vec_scale. rewrite (nth_mapi _ x k 0 0 H). unfold T.
  destruct adder, scaler; simpl; ring.
Qed.

Lemma vec_unscale_nth : forall adder scaler x k, (k < length x)%nat ->
  nth k (vec_unscale adder scaler x) 0 == Tinv (osv_get 0 adder k) (osv_get 1 scaler k) (nth k x 0).
Proof.
  intros adder scaler x k H. unfold vec_unscale. rewrite (nth_mapi _ x k 0 0 H). unfold Tinv.
  destruct adder, scaler; simpl; try reflexivity; unfold Qdiv; try ring; field.
Qed.

Lemma length_vec_scale : forall a s x, length (vec_scale a s x) = length x.
Proof. intros. apply length_mapi. Qed.
Lemma length_vec_unscale : forall a s x, length (vec_unscale a s x) = length x.
Proof. intros. apply length_mapi. Qed.

Definition scalers_nz (scaler : option sv) (n : nat) : Prop :=
  forall k, (k < n)%nat -> ~ osv_get 1 scaler k == 0.

(* unscaling the scaled vector returns exactly the model values, element by element *)
Theorem unscale_scale_id : forall adder scaler x k,
  scalers_nz scaler (length x) -> (k < length x)%nat ->
  nth k (vec_unscale adder scaler (vec_scale adder scaler x)) 0 == nth k x 0.
Proof.
  intros adder scaler x k Hnz H.
  rewrite vec_unscale_nth by (rewrite length_vec_scale; exact H). unfold Tinv.
  rewrite vec_scale_nth by exact H. apply (Tinv_T (osv_get 0 adder k) (osv_get 1 scaler k)). apply Hnz. exact H.
Qed.

Theorem scale_unscale_id : forall adder scaler y k,
  scalers_nz scaler (length y) -> (k < length y)%nat ->
  nth k (vec_scale adder scaler (vec_unscale adder scaler y)) 0 == nth k y 0.
Proof.
  intros adder scaler y k Hnz H.
  rewrite vec_scale_nth by (rewrite length_vec_unscale; exact H). unfold T.
  rewrite vec_unscale_nth by exact H. apply (T_Tinv (osv_get 0 adder k) (osv_get 1 scaler k)). apply Hnz. exact H.
Qed.

(* ---------------------------------------------------------------- bounds *)

(* every scaled bound is the image of the model bound under the variable's own map, and an
   infinite bound stays the +-INF_BOUND sentinel *)
Definition sentinel_of (is_lower : bool) : Q := if is_lower then - INF_BOUND else INF_BOUND.

Theorem bounds_are_images : forall val adder scaler size is_lower k,
  (k < size)%nat ->
  (is_inf is_lower (osv_get (sentinel_of is_lower) val k) = true ->
   nth k (scale_bound val adder scaler size is_lower) 0 = sentinel_of is_lower) /\
  (is_inf is_lower (osv_get (sentinel_of is_lower) val k) = false ->
   nth k (scale_bound val adder scaler size is_lower) 0 ==
   T (osv_get 0 adder k) (osv_get 1 scaler k) (osv_get (sentinel_of is_lower) val k)).
Proof.
  intros val adder scaler size is_lower k H. unfold scale_bound. fold (sentinel_of is_lower).
  set (g := fun i : nat =>
       if is_inf is_lower (osv_get (sentinel_of is_lower) val i) then sentinel_of is_lower
       else match scaler with
            | Some s => match adder with
                        | Some a => osv_get (sentinel_of is_lower) val i + sv_get a i
                        | None => osv_get (sentinel_of is_lower) val i
                        end * sv_get s i
            | None => match adder with
                      | Some a => osv_get (sentinel_of is_lower) val i + sv_get a i
                      | None => osv_get (sentinel_of is_lower) val i
                      end
            end).
  assert (E : nth k (map g (seq 0 size)) 0 = g k).
  { rewrite (nth_indep _ 0 (g 0%nat)) by (rewrite map_length, seq_length; exact H).
    rewrite map_nth, seq_nth by exact H. reflexivity. }
  change (nth k (map g (seq 0 size)) 0) with (nth k (map g (seq 0 size)) 0) in E.
  split; intro Hi.
  - etransitivity; [exact E|]. unfold g. rewrite Hi. reflexivity.
  - rewrite E. unfold g. rewrite Hi. unfold T. destruct adder, scaler; simpl; ring.
Qed.

(* ---------------------------------------------------------------- jacobians *)

(* J_s[i][j] = s_r,i * J[i][j] / s_d,j *)
Theorem jac_scale_entry : forall rs ds J i j,
  (i < length J)%nat -> (j < length (nth i J []))%nat -> ~ osv_get 1 ds j == 0 ->
  nth j (nth i (jac_scale rs ds J) []) 0 == osv_get 1 rs i * nth j (nth i J []) 0 / osv_get 1 ds j.
Proof.
  intros rs ds J i j Hi Hj Hnz. unfold jac_scale.
  rewrite (nth_mapi _ J i [] [] Hi). rewrite (nth_mapi _ (nth i J []) j 0 0 Hj).
  destruct rs, ds; simpl in *; field; try exact Hnz; discriminate.
Qed.

(* which is the chain rule: it is the slope of  T_r o f o T_d^-1  for an affine f (one entry) ... *)
Theorem jac_scaling_is_chain_rule : forall ar sr ad sd Jij c y y',
  ~ sd == 0 ->
  T ar sr (Jij * Tinv ad sd y + c) - T ar sr (Jij * Tinv ad sd y' + c) == (sr * Jij / sd) * (y - y').
Proof. intros. unfold T, Tinv. field. assumption. Qed.

(* ... and for a whole row: the scaled row applied to a difference of scaled design vectors is the
   scaled difference of the response *)
Fixpoint row_scaled (sr : Q) (row sd : list Q) : list Q :=
  match row, sd with
  | v :: row', s :: sd' => sr * v / s :: row_scaled sr row' sd'
  | _, _ => []
  end.

Fixpoint scale_list (ad sd x : list Q) : list Q :=
  match ad, sd, x with
  | a :: ad', s :: sd', v :: x' => T a s v :: scale_list ad' sd' x'
  | _, _, _ => []
  end.

Lemma dot_cons : forall a r b x, dot (a :: r) (b :: x) == a * b + dot r x.
Proof. intros. unfold dot. simpl. reflexivity. Qed.

Theorem chain_rule_row : forall ar sr row ad sd x x' c,
  length ad = length row -> length sd = length row -> length x = length row -> length x' = length row ->
  Forall (fun s => ~ s == 0) sd ->
  T ar sr (dot row x + c) - T ar sr (dot row x' + c) ==
  dot (row_scaled sr row sd) (scale_list ad sd x) - dot (row_scaled sr row sd) (scale_list ad sd x').
Proof.
  intros ar sr row. induction row as [|v row IH]; intros ad sd x x' c Ha Hs Hx Hx' Hnz.
  - destruct ad, sd, x, x'; try discriminate. unfold T, dot. simpl. ring.
  - destruct ad as [|a ad], sd as [|s sd], x as [|p x], x' as [|p' x']; try discriminate.
    simpl in Ha, Hs, Hx, Hx'. inversion Hnz as [|? ? Hs0 Hnz']; subst.
    cbn [row_scaled scale_list].
    specialize (IH ad sd x x' c ltac:(lia) ltac:(lia) ltac:(lia) ltac:(lia) Hnz').
    unfold T in *. rewrite !dot_cons.
    setoid_replace ((v * p + dot row x + c + ar) * sr - (v * p' + dot row x' + c + ar) * sr)
      with (sr * v * (p - p') + ((dot row x + c + ar) * sr - (dot row x' + c + ar) * sr)) by ring.
    rewrite IH. field. exact Hs0.
Qed.

(* unit conversion then driver scaling: the entry is scaled by both factors *)
Theorem jac_unit_then_scale_entry : forall fr fd rs ds v i j,
  ~ fd == 0 -> ~ osv_get 1 ds j == 0 ->
  nth j (nth i (jac_scale rs ds (jac_unit (Some fr) (Some fd) [[v]])) []) 0 ==
  (if (Nat.eqb i 0 && Nat.eqb j 0)%bool then (osv_get 1 rs 0 * fr) * v / (osv_get 1 ds 0 * fd) else 0).
Proof.
  intros fr fd rs ds v i j Hfd Hds.
  destruct i as [|i]; [destruct j as [|j]|]; simpl.
  - destruct (Qeq_bool fr 1) eqn:E1, (Qeq_bool fd 1) eqn:E2;
      try apply Qeq_bool_iff in E1; try apply Qeq_bool_iff in E2;
      destruct rs, ds; simpl in *; try rewrite E1; try rewrite E2; field; auto; try discriminate;
      try (split; auto); try (rewrite <- E2; discriminate).
  - destruct j; reflexivity.
  - destruct i, j; reflexivity.
Qed.

(* values: unit conversion followed by the driver map is again an affine map with slope s * f *)
Theorem unit_then_scale_affine : forall f o a s x x',
  T a s ((x + o) * f) - T a s ((x' + o) * f) == (s * f) * (x - x').
Proof. intros. unfold T. ring. Qed.

(* _set_design_var undoes the unit conversion of _get_voi_val *)
Theorem from_to_units : forall f o x, ~ f == 0 -> ((x + o) * f + (- o * f)) * (1 / f) == x.
Proof. intros. field. assumption. Qed.

(* ---------------------------------------------------------------- Lagrange multipliers *)

(* stationarity of one design variable j in model space and in scaled space, for any number of
   active constraints:  gf + sum_k lam_k g_k = 0   with   lam_k = (s_g,k / s_f) * lam_scaled,k *)
Fixpoint lagr (gf : Q) (lam g : list Q) : Q :=
  match lam, g with
  | l :: lam', gk :: g' => lagr (gf + l * gk) lam' g'
  | _, _ => gf
  end.

Fixpoint unscale_mults (sf : Q) (sg lams : list Q) : list Q :=
  match sg, lams with
  | s :: sg', l :: lams' => l * (s / sf) :: unscale_mults sf sg' lams'
  | _, _ => []
  end.

Fixpoint scale_grads (sd : Q) (sg g : list Q) : list Q :=
  match sg, g with
  | s :: sg', gk :: g' => s * gk / sd :: scale_grads sd sg' g'
  | _, _ => []
  end.

Lemma lagr_compat : forall lam g a b, a == b -> lagr a lam g == lagr b lam g.
Proof.
  induction lam as [|l lam IH]; intros g a b H; simpl; [exact H|].
  destruct g as [|gk g]; [exact H|]. apply IH. rewrite H. reflexivity.
Qed.

Lemma lagr_scaled : forall sg lams g sf sd acc,
  ~ sf == 0 -> ~ sd == 0 -> length sg = length g -> length lams = length g ->
  lagr (sf * acc / sd) lams (scale_grads sd sg g) ==
  (sf / sd) * lagr acc (unscale_mults sf sg lams) g.
Proof.
  induction sg as [|s sg IH]; intros lams g sf sd acc Hf Hd H1 H2.
  - destruct g; [|discriminate]. destruct lams; [|discriminate]. simpl. field. exact Hd.
  - destruct g as [|gk g]; [discriminate|]. destruct lams as [|l lams]; [discriminate|]. simpl in *.
    rewrite (lagr_compat lams (scale_grads sd sg g) _ (sf * (acc + l * (s / sf) * gk) / sd))
      by (field; split; assumption).
    apply (IH lams g sf sd); auto; lia.
Qed.

(* the multipliers reported in model units make the model-space KKT stationarity hold exactly when
   the optimizer's multipliers make the scaled one hold: they do not depend on the scaling *)
Theorem multiplier_invariance : forall sg lams g sf sd gf,
  ~ sf == 0 -> ~ sd == 0 -> length sg = length g -> length lams = length g ->
  (lagr (sf * gf / sd) lams (scale_grads sd sg g) == 0 <->
   lagr gf (unscale_mults sf sg lams) g == 0).
Proof.
  intros sg lams g sf sd gf Hf Hd H1 H2. rewrite (lagr_scaled sg lams g sf sd gf Hf Hd H1 H2).
  split; intro H.
  - assert (Hq : ~ sf / sd == 0).
    { intro E. apply Hf. assert (X : sf == sf / sd * sd) by (field; exact Hd). rewrite X, E. ring. }
    apply Qmult_integral in H. destruct H; [contradiction|assumption].
  - rewrite H. ring.
Qed.

(* apply_mult_unscaling computes exactly lam * (s_g / s_f), element by element *)
Theorem mult_unscale_nth : forall scaler obj_scaler mult k, (k < length mult)%nat ->
  nth k (mult_unscale scaler obj_scaler mult) 0 == nth k mult 0 * (osv_get 1 scaler k / dflt 1 obj_scaler).
Proof.
  intros. unfold mult_unscale. rewrite (nth_mapi _ mult k 0 0 H). reflexivity.
Qed.

(* ---------------------------------------------------------------- non-vacuity *)

Example ref_example : das (Some (2 # 1)) (Some (4 # 1)) None None = DasOk (- (2 # 1)) (1 / ((4 # 1) + - (2 # 1))).
Proof. reflexivity. Qed.

Example roundtrip_example :
  Forall2 Qeq (vec_unscale (Some (Sc 1)) (Some (Ar [2 # 1; 1 # 4])) (vec_scale (Some (Sc 1)) (Some (Ar [2 # 1; 1 # 4])) [3 # 1; -5 # 2]))
          [3 # 1; -5 # 2].
Proof. repeat constructor. Qed.

Example bound_example :
  scale_bound (Some (Ar [-4 # 1; - INF_BOUND])) (Some (Sc 1)) (Some (Sc (2 # 1))) 2 true = [-6 # 1; - INF_BOUND].
Proof. vm_compute. reflexivity. Qed.

Example kkt_example :
  lagr ((2 # 1) * (3 # 1) / (4 # 1)) [1 # 2] (scale_grads (4 # 1) [8 # 1] [-3 # 2]) == 0 /\
  lagr (3 # 1) (unscale_mults (2 # 1) [8 # 1] [1 # 2]) [-3 # 2] == 0.
Proof. split; vm_compute; reflexivity. Qed.

(* ---------------------------------------------------------------- _compute_scaled_bounds *)

Lemma length_scale_bound : forall v a s n b, length (scale_bound v a s n b) = n.
Proof. intros. unfold scale_bound. rewrite map_length, seq_length. reflexivity. Qed.

(* the vectors handed to the optimizer: the images of lower and upper, exchanged (with the
   sentinels exchanged too) exactly at the elements whose scaler is negative *)
Theorem scaled_bounds_spec : forall lower upper adder scaler size k,
  (k < size)%nat ->
  let lo := nth k (scale_bound lower adder scaler size true) 0 in
  let hi := nth k (scale_bound upper adder scaler size false) 0 in
  let r := compute_scaled_bounds lower upper adder scaler size in
  (is_neg (osv_get 1 scaler k) = false -> nth k (fst r) 0 = lo /\ nth k (snd r) 0 = hi) /\
  (is_neg (osv_get 1 scaler k) = true ->
     nth k (fst r) 0 = (if Qle_bool INF_BOUND hi then - INF_BOUND else hi) /\
     nth k (snd r) 0 = (if Qle_bool lo (- INF_BOUND) then INF_BOUND else lo)).
Proof.
  intros lower upper adder scaler size k H lo hi r. subst r. unfold compute_scaled_bounds.
  destruct scaler as [s|]; simpl osv_get.
  - cbn [fst snd].
    rewrite (nth_mapi _ _ k 0 0) by (rewrite length_scale_bound; exact H).
    rewrite (nth_mapi _ _ k 0 0) by (rewrite length_scale_bound; exact H).
    fold lo hi. split; intro E; rewrite E; split; reflexivity.
  - cbn [fst snd]. fold lo hi. split; intro E; [split; reflexivity|]. discriminate.
Qed.

(* with finite bounds in the right order the optimizer sees lower <= upper whatever the sign of the scaler *)
Theorem scaled_bounds_ordered : forall l u a s,
  l <= u -> ~ s == 0 ->
  let lo := T a s l in let hi := T a s u in
  (is_neg s = false -> lo <= hi) /\ (is_neg s = true -> hi <= lo).
Proof.
  intros l u a s Hlu Hs lo hi. subst lo hi. unfold T, is_neg. split; intro E.
  - apply negb_false_iff in E. apply Qle_bool_iff in E.
    apply Qmult_le_compat_r; [|exact E]. apply Qplus_le_compat; [exact Hlu|apply Qle_refl].
  - apply negb_true_iff in E.
    assert (Hneg : s <= 0).
    { destruct (Qlt_le_dec 0 s) as [Hp|Hn]; [|exact Hn].
      apply Qlt_le_weak in Hp. apply Qle_bool_iff in Hp. congruence. }
    setoid_replace ((u + a) * s) with (- ((u + a) * - s)) by ring.
    setoid_replace ((l + a) * s) with (- ((l + a) * - s)) by ring.
    apply Qopp_le_compat. apply Qmult_le_compat_r.
    + apply Qplus_le_compat; [exact Hlu|apply Qle_refl].
    + setoid_replace 0 with (- 0) by reflexivity. apply Qopp_le_compat. exact Hneg.
Qed.

(* ---------------------------------------------------------------- active design-variable bounds *)

(* A design variable on one of its bounds adds the constraint x_j = bound, whose gradient with
   respect to x_j is 1 in model space and also 1 in optimizer space (it is scaled by s_d / s_d), and
   whose multiplier is unscaled with the design variable's own scaler: lam_b = (s_d / s_f) * lam_b,scaled.
   Stationarity of x_j with that extra multiplier holds in model space iff it holds in optimizer space,
   for any number of other active constraints. *)
Theorem multiplier_invariance_with_bound : forall sg lams g sf sd gf lamb_s,
  ~ sf == 0 -> ~ sd == 0 -> length sg = length g -> length lams = length g ->
  (lagr (sf * gf / sd + lamb_s * 1) lams (scale_grads sd sg g) == 0 <->
   lagr (gf + lamb_s * (sd / sf) * 1) (unscale_mults sf sg lams) g == 0).
Proof.
  intros sg lams g sf sd gf lamb_s Hf Hd H1 H2.
  assert (E : lagr (sf * gf / sd + lamb_s * 1) lams (scale_grads sd sg g) ==
              lagr (sf * gf / sd) (lamb_s :: lams) (scale_grads sd (sd :: sg) (1 :: g))).
  { cbn [lagr scale_grads]. apply lagr_compat. field. exact Hd. }
  rewrite E.
  rewrite (multiplier_invariance (sd :: sg) (lamb_s :: lams) (1 :: g) sf sd gf Hf Hd)
    by (simpl; congruence).
  cbn [unscale_mults lagr]. reflexivity.
Qed.

Example kkt_bound_example :
  (* min 3x s.t. x >= 2 scaled by s_d = 4, objective scaled by 2: scaled gradient 2*3/4, scaled
     multiplier -3/2; in model units -3/2 * 4/2 = -3 = -(df/dx) *)
  lagr ((2 # 1) * (3 # 1) / (4 # 1) + (-3 # 2) * 1) [] (scale_grads (4 # 1) [] []) == 0 /\
  lagr ((3 # 1) + (-3 # 2) * ((4 # 1) / (2 # 1)) * 1) (unscale_mults (2 # 1) [] []) [] == 0.
Proof. split; vm_compute; reflexivity. Qed.

(* ---------------------------------------------------------------- whole-matrix chain rule *)

Lemma dot_mapi_ext : forall (f f' g g' : nat -> Q -> Q) row x k,
  (forall j v, f j v == f' j v) -> (forall j v, g j v == g' j v) ->
  dot (mapi_from f k row) (mapi_from g k x) == dot (mapi_from f' k row) (mapi_from g' k x).
Proof.
  intros f f' g g' row. induction row as [|v row IH]; intros x k Hf Hg.
  - reflexivity.
  - destruct x as [|p x]; [reflexivity|]. cbn [mapi_from]. rewrite !dot_cons.
    rewrite (IH x (S k) Hf Hg), Hf, Hg. reflexivity.
Qed.

Lemma chain_rule_mapi : forall (sr : Q) (sdf adf : nat -> Q) row x x' k,
  length x = length row -> length x' = length row ->
  (forall j, (j < length row)%nat -> ~ sdf (k + j)%nat == 0) ->
  sr * (dot row x - dot row x') ==
  dot (mapi_from (fun j v => sr * v / sdf j) k row) (mapi_from (fun j v => (v + adf j) * sdf j) k x) -
  dot (mapi_from (fun j v => sr * v / sdf j) k row) (mapi_from (fun j v => (v + adf j) * sdf j) k x').
Proof.
  intros sr sdf adf row. induction row as [|v row IH]; intros x x' k Hx Hx' Hnz.
  - destruct x, x'; try discriminate. unfold dot. simpl. ring.
  - destruct x as [|p x], x' as [|p' x']; try discriminate. simpl in Hx, Hx'.
    cbn [mapi_from]. rewrite !dot_cons.
    assert (H0 : ~ sdf k == 0) by (rewrite <- (Nat.add_0_r k); apply Hnz; simpl; lia).
    assert (IHr := IH x x' (S k) ltac:(lia) ltac:(lia)).
    assert (Hnz' : forall j, (j < length row)%nat -> ~ sdf (S k + j)%nat == 0).
    { intros j Hj. replace (S k + j)%nat with (k + S j)%nat by lia. apply Hnz. simpl. lia. }
    specialize (IHr Hnz').
    setoid_replace (sr * (v * p + dot row x - (v * p' + dot row x')))
      with (sr * v * (p - p') + sr * (dot row x - dot row x')) by ring.
    rewrite IHr. field. exact H0.
Qed.

(* apply_jac_scaling gives the jacobian of the scaled problem: for every response row i of any
   matrix J, the i-th row of jac_scale applied to the scaled design vectors (vec_scale) reproduces the
   difference of the scaled responses T_r,i (J_i . x + c) -- for scalar, per-element or absent
   adders and scalers, any sizes *)
Theorem jac_scale_is_jacobian_of_scaled_map :
  forall (rs ra ds da : option sv) (J : list (list Q)) (x x' : list Q) (c : Q) (i : nat),
  (i < length J)%nat -> length x = length (nth i J []) -> length x' = length (nth i J []) ->
  scalers_nz ds (length x) ->
  T (osv_get 0 ra i) (osv_get 1 rs i) (dot (nth i J []) x + c) -
  T (osv_get 0 ra i) (osv_get 1 rs i) (dot (nth i J []) x' + c) ==
  dot (nth i (jac_scale rs ds J) []) (vec_scale da ds x) -
  dot (nth i (jac_scale rs ds J) []) (vec_scale da ds x').
Proof.
  intros rs ra ds da J x x' c i Hi Hx Hx' Hnz.
  unfold jac_scale. rewrite (nth_mapi _ J i [] [] Hi). unfold vec_scale, mapi.
  set (row := nth i J []) in *.
  set (sr := osv_get 1 rs i).
  assert (E : forall y, dot (mapi_from (fun j v =>
                 match ds with
                 | Some s => match rs with Some s0 => sv_get s0 i * v | None => v end * (1 / sv_get s j)
                 | None => match rs with Some s0 => sv_get s0 i * v | None => v end
                 end) 0 row)
               (mapi_from (fun i0 v =>
                 match ds with
                 | Some s => match da with Some a => v + sv_get a i0 | None => v end * sv_get s i0
                 | None => match da with Some a => v + sv_get a i0 | None => v end
                 end) 0 y) ==
              dot (mapi_from (fun j v => sr * v / osv_get 1 ds j) 0 row)
                  (mapi_from (fun j v => (v + osv_get 0 da j) * osv_get 1 ds j) 0 y)).
  { intro y. apply dot_mapi_ext; intros j v; subst sr; destruct rs, ds, da; simpl;
      unfold Qdiv; try ring; try (rewrite Qinv_1 || idtac); field. }
  rewrite (E x), (E x'). clear E.
  rewrite <- (chain_rule_mapi sr (fun j => osv_get 1 ds j) (fun j => osv_get 0 da j) row x x' 0 Hx Hx').
  - unfold T. subst sr. ring.
  - intros j Hj. apply Hnz. simpl. rewrite Hx. exact Hj.
Qed.
