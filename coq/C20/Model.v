(* C20 — model of the driver scaling (definitions only; proofs are in Proofs.v).

   utils/general_utils.py  determine_adder_scaler        [das], [das_sv]
   core/system.py          total_scaler/total_adder None when identity   [norm_scaler], [norm_adder]
   autoscaler.py           _apply_vec_scaling / _apply_vec_unscaling     [vec_scale], [vec_unscale]
                           _scale_bound (+-INF_BOUND sentinels)          [scale_bound]
                           apply_jac_scaling                             [jac_scale]
                           apply_mult_unscaling                          [mult_unscale]
   core/total_jac.py       _apply_unit_scaling                           [jac_unit]
   core/driver.py          _get_voi_val (driver units), _set_design_var  [to_units], [from_units]
   Numbers are exact rationals.  A scaling quantity is a Python float or a flat ndarray ([sv]). *)
From Coq Require Import ZArith QArith Qabs List Bool.
From OMV Require Import Base.Val.
Import ListNotations.
Open Scope Q_scope.

Inductive sv := Sc (q : Q) | Ar (l : list Q).

Definition sv_get (s : sv) (i : nat) : Q :=
  match s with Sc q => q | Ar l => nth i l 0 end.

Definition osv_get (dflt : Q) (s : option sv) (i : nat) : Q :=
  match s with None => dflt | Some v => sv_get v i end.

(* ------------------------------------------------------------------ determine_adder_scaler *)

Inductive das_res := DasOk (adder scaler : Q) | DasValueError | DasZeroDiv.

Definition dflt (d : Q) (o : option Q) : Q := match o with Some q => q | None => d end.

(* scalar arguments *)
Definition das (ref0 ref adder scaler : option Q) : das_res :=
  match ref0, ref with
  | None, None => DasOk (dflt 0 adder) (dflt 1 scaler)
  | _, _ =>
      match scaler, adder with
      | None, None =>
          let a := - dflt 0 ref0 in
          let den := dflt 1 ref + a in
          if Qeq_bool den 0 then DasZeroDiv else DasOk a (1 / den)
      | _, _ => DasValueError
      end
  end.

(* float / ndarray arguments, elementwise with NumPy broadcasting (arrays of one common length);
   [None] = ValueError, division by zero is excluded by the caller *)
Definition sv_map2 (f : Q -> Q -> Q) (a b : sv) : sv :=
  match a, b with
  | Sc x, Sc y => Sc (f x y)
  | Sc x, Ar l => Ar (map (fun y => f x y) l)
  | Ar l, Sc y => Ar (map (fun x => f x y) l)
  | Ar l, Ar m => Ar (map (fun p => f (fst p) (snd p)) (combine l m))
  end.

Definition sv_map (f : Q -> Q) (a : sv) : sv :=
  match a with Sc x => Sc (f x) | Ar l => Ar (map f l) end.

Definition odflt (d : Q) (o : option sv) : sv := match o with Some v => v | None => Sc d end.

Definition das_sv (ref0 ref adder scaler : option sv) : option (sv * sv) :=
  match ref0, ref with
  | None, None => Some (odflt 0 adder, odflt 1 scaler)
  | _, _ =>
      match scaler, adder with
      | None, None =>
          let a := sv_map Qopp (odflt 0 ref0) in
          Some (a, sv_map (fun d => 1 / d) (sv_map2 Qplus (odflt 1 ref) a))
      | _, _ => None
      end
  end.

(* total_scaler is None when it is 1.0 (all ones), total_adder is None when 0.0 (all zeros) *)
Definition norm_scaler (s : sv) : option sv :=
  match s with
  | Sc q => if Qeq_bool q 1 then None else Some s
  | Ar l => if forallb (fun q => Qeq_bool q 1) l then None else Some s
  end.

Definition norm_adder (a : sv) : option sv :=
  match a with
  | Sc q => if Qeq_bool q 0 then None else Some a
  | Ar l => if forallb (fun q => Qeq_bool q 0) l then None else Some a
  end.

(* ------------------------------------------------------------------ vectors *)

Fixpoint mapi_from {A B} (f : nat -> A -> B) (i : nat) (l : list A) : list B :=
  match l with [] => [] | x :: r => f i x :: mapi_from f (S i) r end.
Definition mapi {A B} (f : nat -> A -> B) (l : list A) : list B := mapi_from f 0 l.

(* x_optimizer = (x_model + adder) * scaler; a None adder / scaler is skipped *)
Definition vec_scale (adder scaler : option sv) (x : list Q) : list Q :=
  mapi (fun i v =>
          let v1 := match adder with Some a => v + sv_get a i | None => v end in
          match scaler with Some s => v1 * sv_get s i | None => v1 end) x.

(* x_model = x_optimizer / scaler - adder *)
Definition vec_unscale (adder scaler : option sv) (x : list Q) : list Q :=
  mapi (fun i v =>
          let v1 := match scaler with Some s => v / sv_get s i | None => v end in
          match adder with Some a => v1 - sv_get a i | None => v1 end) x.

(* ------------------------------------------------------------------ bounds *)

Definition INF_BOUND : Q := 1000000000000000019884624838656 # 1.     (* the binary64 value of 1e30 *)

Definition is_inf (is_lower : bool) (v : Q) : bool :=
  if is_lower then Qle_bool v (- INF_BOUND) else Qle_bool INF_BOUND v.

(* _scale_bound: val None / scalar / array -> array of [size]; infinite entries keep the sentinel *)
Definition scale_bound (val adder scaler : option sv) (size : nat) (is_lower : bool) : list Q :=
  let sentinel := if is_lower then - INF_BOUND else INF_BOUND in
  map (fun i =>
         let v := osv_get sentinel val i in
         if is_inf is_lower v then sentinel
         else
           let v1 := match adder with Some a => v + sv_get a i | None => v end in
           match scaler with Some s => v1 * sv_get s i | None => v1 end)
      (seq 0 size).

(* _compute_scaled_bounds: the images of lower and upper; where the scaler is negative the order is
   reversed, so the image of the upper bound becomes the lower bound (or -INF_BOUND when there is no
   upper bound) and vice versa *)
Definition is_neg (q : Q) : bool := negb (Qle_bool 0 q).

Definition compute_scaled_bounds (lower upper adder scaler : option sv) (size : nat) : list Q * list Q :=
  let lo := scale_bound lower adder scaler size true in
  let hi := scale_bound upper adder scaler size false in
  match scaler with
  | None => (lo, hi)
  | Some s =>
      (mapi (fun k l => if is_neg (sv_get s k)
                        then (let h := nth k hi 0 in if Qle_bool INF_BOUND h then - INF_BOUND else h)
                        else l) lo,
       mapi (fun k h => if is_neg (sv_get s k)
                        then (let l := nth k lo 0 in if Qle_bool l (- INF_BOUND) then INF_BOUND else l)
                        else h) hi)
  end.

(* ------------------------------------------------------------------ jacobians *)

(* apply_jac_scaling on one block (rows = response elements, columns = design variable elements):
   block = (out_scaler * block.T).T ; block *= 1.0 / in_scaler *)
Definition jac_scale (out_scaler in_scaler : option sv) (J : list (list Q)) : list (list Q) :=
  mapi (fun i row =>
          mapi (fun j v =>
                  let v1 := match out_scaler with Some s => sv_get s i * v | None => v end in
                  match in_scaler with Some s => v1 * (1 / sv_get s j) | None => v1 end) row) J.

(* _apply_unit_scaling: block *= out_unit_scaler; block *= 1.0 / in_unit_scaler (skipped when the
   unit factor is None or 1.0) *)
Definition jac_unit (out_f in_f : option Q) (J : list (list Q)) : list (list Q) :=
  map (map (fun v =>
              let v1 := match out_f with Some f => if Qeq_bool f 1 then v else v * f | None => v end in
              match in_f with Some f => if Qeq_bool f 1 then v1 else v1 * (1 / f) | None => v1 end)) J.

(* ------------------------------------------------------------------ units *)

(* a unit conversion (factor, offset) of C06: value in driver units = (value + offset) * factor *)
Definition to_units (u : option (Q * Q)) (x : list Q) : list Q :=
  match u with Some (f, o) => map (fun v => (v + o) * f) x | None => x end.

(* _set_design_var: convert_units(value, driver units -> source units): the inverse tuple is
   (1/f, -o*f)  (conversion_tuple_to with the roles exchanged, offset units included) *)
Definition from_units (u : option (Q * Q)) (x : list Q) : list Q :=
  match u with Some (f, o) => map (fun v => (v + (- o * f)) * (1 / f)) x | None => x end.

(* ------------------------------------------------------------------ multipliers *)

(* apply_mult_unscaling: mult *= scaler / obj_scaler   (a None scaler counts as 1.0) *)
Definition mult_unscale (scaler : option sv) (obj_scaler : option Q) (mult : list Q) : list Q :=
  mapi (fun i m => m * (osv_get 1 scaler i / dflt 1 obj_scaler)) mult.

(* ------------------------------------------------------------------ a small affine problem *)

Definition dot (a b : list Q) : Q := fold_right Qplus 0 (map (fun p => fst p * snd p) (combine a b)).
Definition matvec (A : list (list Q)) (x : list Q) : list Q := map (fun r => dot r x) A.
Definition vadd (a b : list Q) : list Q := map (fun p => fst p + snd p) (combine a b).
Definition pick {A} (d : A) (idx : option (list nat)) (l : list A) : list A :=
  match idx with None => l | Some is => map (fun i => nth i l d) is end.

(* declared scaling of one variable of interest *)
Record voi := mkVoi {
  v_idx : option (list nat);           (* indices into the source variable *)
  v_units : option (Q * Q);            (* unit conversion source -> driver units *)
  v_ref0 : option sv; v_ref : option sv; v_adder : option sv; v_scaler : option sv;
  v_lower : option sv; v_upper : option sv; v_equals : option sv }.

Definition voi_as (v : voi) : option (option sv * option sv) :=
  match das_sv (v_ref0 v) (v_ref v) (v_adder v) (v_scaler v) with
  | Some (a, s) => Some (norm_adder a, norm_scaler s)
  | None => None
  end.

Definition vqs2 (m : list (list Q)) : val := VL (map vqs m).

Definition v_bounds (v : voi) (a s : option sv) (size : nat) : val :=
  VL [vqs (fst (compute_scaled_bounds (v_lower v) (v_upper v) a s size));
      vqs (snd (compute_scaled_bounds (v_lower v) (v_upper v) a s size));
      match v_equals v with
      | Some e => vqs (scale_bound (Some e) a s size false)
      | None => VN
      end].

(* model component: y = A x + b ; design variable x (with indices), response y (with indices).
   Output: driver-unit values, scaled values, scaled bounds of both, the total jacobian block in
   driver units and driver-scaled, and the model value of x after the optimizer vector [xnew]
   (scaled) has been written back through _set_design_vars. *)
Definition run_prob (A : list (list Q)) (b x : list Q) (dv resp : voi) (xnew : list Q) : val :=
  match voi_as dv, voi_as resp with
  | Some (da, ds), Some (ra, rs) =>
      let xs := pick 0 (v_idx dv) x in
      let xu := to_units (v_units dv) xs in
      let y := pick 0 (v_idx resp) (vadd (matvec A x) b) in
      let yu := to_units (v_units resp) y in
      let Jm := pick [] (v_idx resp) (map (fun row => pick 0 (v_idx dv) row) A) in
      let Ju := jac_unit (option_map fst (v_units resp)) (option_map fst (v_units dv)) Jm in
      let back := from_units (v_units dv) (vec_unscale da ds xnew) in
      VL [vqs xu; vqs (vec_scale da ds xu); vqs yu; vqs (vec_scale ra rs yu);
          v_bounds dv da ds (length xs); v_bounds resp ra rs (length y);
          vqs2 Ju; vqs2 (jac_scale rs ds Ju); vqs back]
  | _, _ => VE 1
  end.

(* kernel-level run functions *)
Definition v_das (r : das_res) : val :=
  match r with DasOk a s => VL [VQ a; VQ s] | DasValueError => VE 1 | DasZeroDiv => VE 2 end.

Definition v_sv (s : sv) : val := match s with Sc q => VQ q | Ar l => vqs l end.

Definition run_das_sv (ref0 ref adder scaler : option sv) : val :=
  match das_sv ref0 ref adder scaler with
  | Some (a, s) => VL [v_sv a; v_sv s]
  | None => VE 1
  end.

(* apply_mult_unscaling on the multipliers of design variable x and constraint y (objective scalar) *)
Definition obj_scaler_of (s : option sv) : option Q :=
  match s with
  | None => None
  | Some (Sc q) => Some q
  | Some (Ar l) => Some (nth 0 l 1)
  end.

Definition run_mult (dv con obj : voi) (dm cm : list Q) : val :=
  match voi_as dv, voi_as con, voi_as obj with
  | Some (_, ds), Some (_, cs), Some (_, os) =>
      VL [vqs (mult_unscale ds (obj_scaler_of os) dm); vqs (mult_unscale cs (obj_scaler_of os) cm)]
  | _, _, _ => VE 1
  end.

Definition run_bound (bv adder scaler : option sv) (size : nat) (is_lower : bool) : val :=
  vqs (scale_bound bv adder scaler size is_lower).

Definition run_das (ref0 ref adder scaler : option Q) : val := v_das (das ref0 ref adder scaler).
