(* C20 — property theorems (statements only; proofs by [exact] of lemmas in Proofs.v). *)
From Coq Require Import ZArith QArith List.
From OMV Require Import Base.Val C20.Model C20.Proofs.
Import ListNotations.
Open Scope Q_scope.

(* ref0 is mapped to 0 and ref to 1 by the adder/scaler that determine_adder_scaler derives *)
Theorem C20_ref_to_adder_scaler : forall (ref0 ref : option Q) (a s : Q),
  (ref0 <> None \/ ref <> None) ->
  das ref0 ref None None = DasOk a s ->
  T a s (dflt 0 ref0) == 0 /\ T a s (dflt 1 ref) == 1.
Proof. exact ref_to_adder_scaler. Qed.
Print Assumptions C20_ref_to_adder_scaler.

(* unscaling returns exactly the model values: every element, any size, scalar or per-element
   adder / scaler (None = identity), scalers non-zero *)
Theorem C20_unscale_scale_id : forall (adder scaler : option sv) (x : list Q) (k : nat),
  scalers_nz scaler (length x) -> (k < length x)%nat ->
  nth k (vec_unscale adder scaler (vec_scale adder scaler x)) 0 == nth k x 0.
Proof. exact unscale_scale_id. Qed.
Print Assumptions C20_unscale_scale_id.

Theorem C20_scale_unscale_id : forall (adder scaler : option sv) (y : list Q) (k : nat),
  scalers_nz scaler (length y) -> (k < length y)%nat ->
  nth k (vec_scale adder scaler (vec_unscale adder scaler y)) 0 == nth k y 0.
Proof. exact scale_unscale_id. Qed.
Print Assumptions C20_scale_unscale_id.

(* the values the optimizer sees are the image under T(x) = (x + adder) * scaler *)
Theorem C20_scaled_values_are_images : forall (adder scaler : option sv) (x : list Q) (k : nat),
  (k < length x)%nat ->
  nth k (vec_scale adder scaler x) 0 == T (osv_get 0 adder k) (osv_get 1 scaler k) (nth k x 0).
Proof. exact vec_scale_nth. Qed.
Print Assumptions C20_scaled_values_are_images.

(* every scaled bound is the image of the model bound under the same map; infinite bounds stay
   the +-INF_BOUND sentinel *)
Theorem C20_bounds_are_images :
  forall (val adder scaler : option sv) (size : nat) (is_lower : bool) (k : nat),
  (k < size)%nat ->
  (is_inf is_lower (osv_get (sentinel_of is_lower) val k) = true ->
   nth k (scale_bound val adder scaler size is_lower) 0 = sentinel_of is_lower) /\
  (is_inf is_lower (osv_get (sentinel_of is_lower) val k) = false ->
   nth k (scale_bound val adder scaler size is_lower) 0 ==
   T (osv_get 0 adder k) (osv_get 1 scaler k) (osv_get (sentinel_of is_lower) val k)).
Proof. exact bounds_are_images. Qed.
Print Assumptions C20_bounds_are_images.

(* scaled jacobian entries: response scaler times the model entry divided by the design-variable scaler *)
Theorem C20_jac_scale_entry : forall (rs ds : option sv) (J : list (list Q)) (i j : nat),
  (i < length J)%nat -> (j < length (nth i J []))%nat -> ~ osv_get 1 ds j == 0 ->
  nth j (nth i (jac_scale rs ds J) []) 0 == osv_get 1 rs i * nth j (nth i J []) 0 / osv_get 1 ds j.
Proof. exact jac_scale_entry. Qed.
Print Assumptions C20_jac_scale_entry.

(* ... which is the jacobian of  T_r o f o T_d^-1 : for any affine response row, the scaled row
   applied to scaled design vectors reproduces the scaled response differences *)
Theorem C20_jac_scaling_is_chain_rule : forall (ar sr : Q) (row ad sd x x' : list Q) (c : Q),
  length ad = length row -> length sd = length row -> length x = length row -> length x' = length row ->
  Forall (fun s => ~ s == 0) sd ->
  T ar sr (dot row x + c) - T ar sr (dot row x' + c) ==
  dot (row_scaled sr row sd) (scale_list ad sd x) - dot (row_scaled sr row sd) (scale_list ad sd x').
Proof. exact chain_rule_row. Qed.
Print Assumptions C20_jac_scaling_is_chain_rule.

(* unit conversion composes with the driver map: value slopes and jacobian entries carry both factors *)
Theorem C20_unit_then_driver : forall (f o a s x x' : Q),
  T a s ((x + o) * f) - T a s ((x' + o) * f) == (s * f) * (x - x').
Proof. exact unit_then_scale_affine. Qed.
Print Assumptions C20_unit_then_driver.

(* Lagrange multipliers reported in model units (lam = s_g / s_f * lam_scaled) satisfy the model-space
   stationarity condition exactly when the optimizer's multipliers satisfy the scaled one, for any
   number of active constraints and any non-zero objective and design-variable scalers *)
Theorem C20_multiplier_invariance : forall (sg lams g : list Q) (sf sd gf : Q),
  ~ sf == 0 -> ~ sd == 0 -> length sg = length g -> length lams = length g ->
  (lagr (sf * gf / sd) lams (scale_grads sd sg g) == 0 <->
   lagr gf (unscale_mults sf sg lams) g == 0).
Proof. exact multiplier_invariance. Qed.
Print Assumptions C20_multiplier_invariance.

Theorem C20_mult_unscale_formula : forall (scaler : option sv) (obj_scaler : option Q) (mult : list Q) (k : nat),
  (k < length mult)%nat ->
  nth k (mult_unscale scaler obj_scaler mult) 0 == nth k mult 0 * (osv_get 1 scaler k / dflt 1 obj_scaler).
Proof. exact mult_unscale_nth. Qed.
Print Assumptions C20_mult_unscale_formula.

(* _compute_scaled_bounds: what the optimizer receives are those images, exchanged (sentinels
   included) exactly at the elements whose scaler is negative ... *)
Theorem C20_scaled_bounds_spec :
  forall (lower upper adder scaler : option sv) (size k : nat),
  (k < size)%nat ->
  let lo := nth k (scale_bound lower adder scaler size true) 0 in
  let hi := nth k (scale_bound upper adder scaler size false) 0 in
  let r := compute_scaled_bounds lower upper adder scaler size in
  (is_neg (osv_get 1 scaler k) = false -> nth k (fst r) 0 = lo /\ nth k (snd r) 0 = hi) /\
  (is_neg (osv_get 1 scaler k) = true ->
     nth k (fst r) 0 = (if Qle_bool INF_BOUND hi then - INF_BOUND else hi) /\
     nth k (snd r) 0 = (if Qle_bool lo (- INF_BOUND) then INF_BOUND else lo)).
Proof. exact scaled_bounds_spec. Qed.
Print Assumptions C20_scaled_bounds_spec.

(* ... so that ordered model bounds stay ordered in optimizer space for either sign of the scaler *)
Theorem C20_scaled_bounds_ordered : forall l u a s : Q,
  l <= u -> ~ s == 0 ->
  let lo := T a s l in let hi := T a s u in
  (is_neg s = false -> lo <= hi) /\ (is_neg s = true -> hi <= lo).
Proof. exact scaled_bounds_ordered. Qed.
Print Assumptions C20_scaled_bounds_ordered.

(* whole-matrix form: for every response row of any matrix, the row produced by apply_jac_scaling
   (jac_scale, with the code's scalar / per-element / None scalers) applied to the scaled design
   vectors (vec_scale) reproduces the difference of the scaled responses: jac_scale J is the
   jacobian of  T_r o (x |-> J x + c) o T_d^-1 *)
Theorem C20_jac_scale_is_jacobian_of_scaled_map :
  forall (rs ra ds da : option sv) (J : list (list Q)) (x x' : list Q) (c : Q) (i : nat),
  (i < length J)%nat -> length x = length (nth i J []) -> length x' = length (nth i J []) ->
  scalers_nz ds (length x) ->
  T (osv_get 0 ra i) (osv_get 1 rs i) (dot (nth i J []) x + c) -
  T (osv_get 0 ra i) (osv_get 1 rs i) (dot (nth i J []) x' + c) ==
  dot (nth i (jac_scale rs ds J) []) (vec_scale da ds x) -
  dot (nth i (jac_scale rs ds J) []) (vec_scale da ds x').
Proof. exact jac_scale_is_jacobian_of_scaled_map. Qed.
Print Assumptions C20_jac_scale_is_jacobian_of_scaled_map.

(* Lagrange multipliers with an active design-variable bound (lam_b = s_d / s_f * lam_b,scaled):
   stationarity in model space iff in optimizer space, any number of other active constraints *)
Theorem C20_multiplier_invariance_with_bound : forall (sg lams g : list Q) (sf sd gf lamb_s : Q),
  ~ sf == 0 -> ~ sd == 0 -> length sg = length g -> length lams = length g ->
  (lagr (sf * gf / sd + lamb_s * 1) lams (scale_grads sd sg g) == 0 <->
   lagr (gf + lamb_s * (sd / sf) * 1) (unscale_mults sf sg lams) g == 0).
Proof. exact multiplier_invariance_with_bound. Qed.
Print Assumptions C20_multiplier_invariance_with_bound.
